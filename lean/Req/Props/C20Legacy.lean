import Req.Client.Digest
import Req.Client.Rfc7616
import Req.Lemmas.C20Accept
import Req.Lemmas.C20Parse
/-!
C20 — digest authentication, theorems about the code AS FOUND (`Req.Digest.parseChallenge`:
split at every comma, `strings.Trim` of quotes, first field line only; `Req.Digest.authorize`: no
escaping, the whole qop list echoed). They are what was provable before fixes/C20-5: acceptance by
the verifier CONDITIONED on the absence of the quoted-string corners (`Expressible`,
`WellWritten`), and the corners themselves as evaluated counter-examples (`excluded_*`). The lanes
use this model only to class the pre-patch behaviour as the known finding
`c20-quoted-string-handling`. The unconditional statements about the repaired code are in
`Req/Props/C20Digest.lean`.
-/
namespace Req.Props.C20Legacy
open Req.Proto


section digest
open Req.Digest Req.Rfc7616 Req.Ascii

/-- Everything the header must carry inside a quoted-string is qdtext. -/
structure Expressible (c : Challenge) (user uri : Bytes) : Prop where
  user : c.userhash = b!"true" ∨ user.all isQd = true
  realm : c.realm.all isQd = true
  nonce : c.nonce.all isQd = true
  uri : uri.all isQd = true
  opaq : c.opaq.all isQd = true

theorem colons_eq_colonJoin : ∀ l : List Bytes, colons l = colonJoin l
  | [] => rfl
  | [_] => rfl
  | x :: y :: r => by
    have := colons_eq_colonJoin (y :: r)
    simp only [colons, colonJoin, this, List.append_assoc, List.singleton_append]

theorem digest_accepted (H : Alg → Bytes → Bytes) (hH : ∀ a x, (H a x).all isQd = true)
    (raw : Bytes) (c : Challenge) (user pass method uri body : Bytes) (rnd : Option Bytes) (hdr : Bytes)
    (hp : parseChallenge raw = .ok c)
    (hx : Expressible c user uri)
    (ha : authorize H algOf c { user, pass, method, uri } rnd = .ok hdr) :
    verify H specAlg { issued := issuedOf c, method, uri, user, pass, body } hdr = true := by
  have hnc : 44 ∉ c.qop := (parseChallenge_noComma hp).2.2.2.2.2.2.1
  unfold authorize at ha
  split at ha
  · cases ha
  · rename_i alg halg
    split at ha
    · cases ha
    · rename_i hvq
      split at ha
      · cases ha
      · rename_i hsess
        split at ha
        · cases ha
        · rename_i r
          simp only [Except.ok.injEq] at ha
          subst ha
          have hvq' : validateQop c.qop = true := by simpa using hvq
          have hqop := validateQop_noComma hnc hvq'
          have hspec := algOf_spec halg
          have halg' : c.algorithm = [] ∨ (c.algorithm ≠ [] ∧ c.algorithm.all isTokenByte = true) := by
            rcases hspec with ⟨e, _, _⟩ | ⟨e1, e2, _⟩
            · exact Or.inl e
            · exact Or.inr ⟨e1, e2⟩
          have hcn : ((hex r).take 32).all isQd = true := all_take 32 (hex_all_qd r)
          have hnc1 : hex8 (0 + 1) = b!"00000001" := hex8_one
          have hncok : hex8 (0 + 1) ≠ [] ∧ (hex8 (0 + 1)).all isTokenByte = true := by
            rw [hnc1]; decide
          have hok := params_ok (H alg) c { user, pass, method, uri } (hex8 (0 + 1)) ((hex r).take 32)
            (hH alg) hx.user hx.realm hx.nonce hx.uri hx.opaq halg' hqop hncok hcn
          have hpc : parseCredentials (digestPrefix ++ commaJoin ((params (H alg) c { user, pass, method, uri }
              (hex8 (0 + 1)) ((hex r).take 32)).map Param.render)) =
              some (pairs (params (H alg) c { user, pass, method, uri } (hex8 (0 + 1)) ((hex r).take 32))) :=
            parseCredentials_render _ (params_ne_nil (H alg) c { user, pass, method, uri }
              (hex8 (0 + 1)) ((hex r).take 32)) hok
          unfold verify
          simp only [fields, hpc]
          simp only [names_distinct, get_username, get_realm, get_nonce, get_uri, get_response,
            get_opaque, get_algorithm, get_userhash, get_qop, get_nc, get_cnonce, Bool.true_and]
          have hsa : specAlg (effAlg (issuedOf c).algorithm) = some (alg, isSess c.algorithm) := by
            rcases hspec with ⟨e, ea, es⟩ | ⟨e1, _, e3⟩
            · simp only [issuedOf, e, ea, es, List.isEmpty_nil, if_true, effAlg]; rfl
            · have hne : c.algorithm.isEmpty = false := by
                cases hc : c.algorithm with
                | nil => exact absurd hc e1
                | cons _ _ => rfl
              simp only [issuedOf, hne, Bool.false_eq_true, if_false, e3, effAlg]
          simp only [hsa, beq_self_eq_true, Bool.true_and, colons_eq_colonJoin]
          rcases hqop with hq | hq
          · have hs : isSess c.algorithm = false := by simpa [hq] using hsess
            by_cases huh : (c.userhash == b!"true") = true <;>
              simp [hq, hs, huh, response, issuedOf]
          · by_cases huh : (c.userhash == b!"true") = true <;>
              cases hs : isSess c.algorithm <;>
              simp [hq, hs, huh, response, issuedOf, hnc1]


/-- **alg_table_spec**: the model's `hashFuncs` table is RFC 7616's registry — for every name. -/
theorem alg_table_spec (name : Bytes) (hne : name ≠ []) :
    specAlg name = (algOf name).map (fun a => (a, isSess name)) := by
  unfold specAlg
  repeat' split
  all_goals first
    | (rename_i h; have e := eq_of_beq h; subst e; rfl)
    | skip
  rename_i h1 h2 h3 h4 h5 h6
  have h0 : (name == ([] : Bytes)) = false := by
    cases name with
    | nil => exact absurd rfl hne
    | cons _ _ => rfl
  simp only [algOf, hashTable, lookup, h0, h1, h2, h3, h4, h5, h6, Bool.false_eq_true, if_false, Option.map_none]

theorem alg_table_default : algOf [] = some Alg.md5 ∧ specAlg (effAlg none) = some (Alg.md5, false) := by
  decide

/-- A challenge the client can answer: registered algorithm, no qop or a qop list offering
`auth`, and not the unanswerable combination "-sess without qop". -/
def Supported (c : Challenge) : Prop :=
  (algOf c.algorithm).isSome = true ∧ validateQop c.qop = true ∧
  ¬(isSess c.algorithm = true ∧ c.qop = [])

/-- **bad_challenge_errors**: an unsupported challenge (unknown algorithm, qop without `auth`,
`-sess` without qop) yields an ERROR — for every hash, account, method, URI and entropy — never a
header. -/
theorem bad_challenge_errors (H : Alg → Bytes → Bytes) (c : Challenge) (cr : Cred) (rnd : Option Bytes)
    (h : ¬Supported c) : ∃ e, authorize H algOf c cr rnd = .error e := by
  unfold authorize
  split
  · exact ⟨_, rfl⟩
  · rename_i alg halg
    split
    · exact ⟨_, rfl⟩
    · rename_i hv
      split
      · exact ⟨_, rfl⟩
      · rename_i hs
        exfalso
        apply h
        refine ⟨by simp [halg], by simpa using hv, ?_⟩
        rintro ⟨h1, h2⟩
        exact hs (by simp [h1, h2])

/-- … and which error: the kinds are distinguished. -/
theorem bad_challenge_kinds (H : Alg → Bytes → Bytes) (c : Challenge) (cr : Cred) (rnd : Option Bytes) :
    (algOf c.algorithm = none → authorize H algOf c cr rnd = .error .algNotSupported) ∧
    ((algOf c.algorithm).isSome = true → validateQop c.qop = false →
      authorize H algOf c cr rnd = .error .qopNotSupported) ∧
    ((algOf c.algorithm).isSome = true → isSess c.algorithm = true → c.qop = [] →
      authorize H algOf c cr rnd = .error .qopNotSupported) := by
  refine ⟨?_, ?_, ?_⟩
  · intro h; simp [authorize, h]
  · intro h1 h2
    cases ha : algOf c.algorithm with
    | none => simp [ha] at h1
    | some a => simp [authorize, ha, h2]
  · intro h1 h2 h3
    cases ha : algOf c.algorithm with
    | none => simp [ha] at h1
    | some a =>
      cases hv : validateQop c.qop <;> simp [authorize, ha, h2, h3]

/-- Conversely a supported challenge IS answered whenever entropy is available (the previous
theorems are not vacuous, and `digest_accepted` is not about an empty set). -/
theorem supported_answered (H : Alg → Bytes → Bytes) (c : Challenge) (cr : Cred) (r : Bytes)
    (h : Supported c) : ∃ hdr, authorize H algOf c cr (some r) = .ok hdr := by
  obtain ⟨h1, h2, h3⟩ := h
  cases ha : algOf c.algorithm with
  | none => simp [ha] at h1
  | some a =>
    have hs : (isSess c.algorithm && c.qop.isEmpty) = false := by
      cases hq : isSess c.algorithm with
      | false => rfl
      | true =>
        cases hc : c.qop with
        | nil => exact absurd ⟨hq, hc⟩ h3
        | cons _ _ => rfl
    refine ⟨digestPrefix ++ commaJoin (fields (H a) c cr (hex8 (cr.nc + 1)) ((hex r).take 32)), ?_⟩
    simp [authorize, ha, h2, hs]

/-- The entropy source failing is an error as well. -/
theorem no_entropy_errors (H : Alg → Bytes → Bytes) (c : Challenge) (cr : Cred) :
    ∃ e, authorize H algOf c cr none = .error e := by
  unfold authorize
  split
  · exact ⟨_, rfl⟩
  · split
    · exact ⟨_, rfl⟩
    · split
      · exact ⟨_, rfl⟩
      · exact ⟨_, rfl⟩

/-! ### the middleware -/

/-- **non401_untouched**: any response that is not a 401 (or carries a transport error) is
left exactly as it is: no challenge is parsed, nothing is sent. -/
theorem non401_untouched (H : Alg → Bytes → Bytes) (user pass method uri : Bytes) (body : Body)
    (rnd : Option Bytes) (resp : Resp) (h : resp.err = true ∨ resp.status ≠ 401) :
    handle H algOf user pass method uri body rnd resp = .untouched := by
  unfold handle
  rcases h with h | h
  · simp [h]
  · simp [h]

theorem non401_one_request (H : Alg → Bytes → Bytes) (server : Wire → Resp) (user pass method uri : Bytes)
    (body : Body) (rnd : Option Bytes)
    (h : (server { method, uri, authorization := none, body := bodyBytes body }).status ≠ 401) :
    exchange H algOf server user pass method uri body rnd =
      ([{ method, uri, authorization := none, body := bodyBytes body }], .untouched) := by
  simp only [exchange, non401_untouched H user pass method uri body rnd _ (Or.inr h)]

/-- A malformed challenge (whatever `parseChallenge` rejects, including an absent header) is an
error, not a request. -/
theorem malformed_challenge_errors (H : Alg → Bytes → Bytes) (user pass method uri : Bytes) (body : Body)
    (rnd : Option Bytes) (resp : Resp) (e : Err) (h401 : resp.err = false ∧ resp.status = 401)
    (h : resp.wwwAuth = [] ∨ parseChallenge resp.wwwAuth = .error e) :
    ∃ e', handle H algOf user pass method uri body rnd resp = .failed e' := by
  unfold handle
  simp only [h401.1, h401.2, bne_self_eq_false, Bool.or_self, Bool.false_eq_true, if_false]
  rcases h with h | h
  · exact ⟨.badChallenge, by simp [h]⟩
  · split
    · exact ⟨_, rfl⟩
    · simp only [h]; exact ⟨_, rfl⟩

/-- **answered_once**: whatever the origin answers (any function `server`), a call puts at most
two requests on the wire; the second exists exactly when the middleware decided to re-send, it
is the first request plus the Authorization header — same method, same request target — and
the response to it is not examined again. -/
theorem answered_once (H : Alg → Bytes → Bytes) (server : Wire → Resp) (user pass method uri : Bytes)
    (body : Body) (rnd : Option Bytes) :
    let x := exchange H algOf server user pass method uri body rnd
    let first : Wire := { method, uri, authorization := none, body := bodyBytes body }
    (x.1 = [first] ∧ ∀ hdr b, x.2 ≠ .resend hdr b) ∨
    (∃ hdr b, x.2 = .resend hdr b ∧
      x.1 = [first, { method, uri, authorization := some hdr, body := b }]) := by
  simp only [exchange]
  cases ho : handle H algOf user pass method uri body rnd
      (server { method, uri, authorization := none, body := bodyBytes body }) with
  | untouched => left; exact ⟨rfl, by intro _ _ h; cases h⟩
  | failed e => left; exact ⟨rfl, by intro _ _ h; cases h⟩
  | resend hdr b => right; exact ⟨hdr, b, rfl, rfl⟩

theorem at_most_two_requests (H : Alg → Bytes → Bytes) (server : Wire → Resp) (user pass method uri : Bytes)
    (body : Body) (rnd : Option Bytes) :
    (exchange H algOf server user pass method uri body rnd).1.length ≤ 2 := by
  rcases answered_once H server user pass method uri body rnd with ⟨h, _⟩ | ⟨_, _, _, h⟩ <;>
    rw [h] <;> simp

/-- **body_resent_intact**: when the request is sent again its body is the original body —
byte for byte, and a request without body stays without — and the Authorization value is the
one `authorize` computed for the parsed challenge. A body that cannot be produced again
(io.Reader) is never re-sent. -/
theorem body_resent_intact (H : Alg → Bytes → Bytes) (user pass method uri : Bytes) (body : Body)
    (rnd : Option Bytes) (resp : Resp) (hdr : Bytes) (b : Option Bytes)
    (h : handle H algOf user pass method uri body rnd resp = .resend hdr b) :
    b = bodyBytes body ∧ (∀ s, body ≠ .stream s) ∧ resp.status = 401 ∧ resp.err = false ∧
    ∃ c, parseChallenge resp.wwwAuth = .ok c ∧
      authorize H algOf c { user, pass, method, uri } rnd = .ok hdr := by
  unfold handle at h
  split at h
  · cases h
  · rename_i h401
    have h401' : resp.err = false ∧ resp.status = 401 := by
      simp only [Bool.or_eq_true, bne_iff_ne, ne_eq, not_or, Bool.not_eq_true, Decidable.not_not] at h401
      exact h401
    split at h
    · cases h
    · split at h
      · cases h
      · rename_i c hc
        split at h
        · cases h
        · rename_i hdr' ha
          cases body with
          | none =>
            simp only [Outcome.resend.injEq] at h
            exact ⟨h.2.symm, (by intro s e; cases e), h401'.2, h401'.1, c, hc, h.1 ▸ ha⟩
          | replayable bb =>
            simp only [Outcome.resend.injEq] at h
            exact ⟨h.2.symm, (by intro s e; cases e), h401'.2, h401'.1, c, hc, h.1 ▸ ha⟩
          | stream _ => cases h
          | setupFails => cases h


/-! ### non-vacuity and the excluded points -/

deriving instance DecidableEq for Except

/-- a concrete hash for the examples: hex of the pre-image -/
def exH : Alg → Bytes → Bytes := fun _ x => hex x

theorem exH_qd : ∀ a x, (exH a x).all isQd = true := fun _ x => hex_all_qd x

/-- `Digest realm="r", nonce="n", qop="auth", algorithm=SHA-256-sess, opaque="o", userhash=true` -/
def exRaw : Bytes :=
  b!"Digest realm=\"r\", nonce=\"n\", qop=\"auth\", algorithm=SHA-256-sess, opaque=\"o\", userhash=true"

def exChal : Challenge :=
  { realm := b!"r", nonce := b!"n", qop := b!"auth", algorithm := b!"SHA-256-sess", opaq := b!"o",
    userhash := b!"true" }

def exCred : Cred :=
  { user := b!"Mufasa", pass := b!"Circle of Life", method := b!"GET", uri := b!"/dir/index.html?a=b" }

def exRnd : Bytes := [0, 1, 2, 3, 4, 5, 6, 7, 8, 9, 10, 11, 12, 13, 14, 15]

example : parseChallenge exRaw = .ok exChal := by decide

theorem exSupported : Supported exChal := by
  refine ⟨by decide, by decide, ?_⟩
  rintro ⟨_, h⟩; cases h

/-- the hypotheses of `digest_accepted` are satisfiable (and its conclusion then holds) -/
example : ∃ hdr, authorize exH algOf exChal exCred (some exRnd) = .ok hdr ∧
    verify exH specAlg
      { issued := issuedOf exChal, method := exCred.method, uri := exCred.uri, user := exCred.user,
        pass := exCred.pass } hdr = true := by
  obtain ⟨hdr, h⟩ := supported_answered exH exChal exCred exRnd exSupported
  exact ⟨hdr, h, digest_accepted exH exH_qd exRaw exChal _ _ _ _ [] _ hdr (by decide)
    ⟨Or.inl rfl, by decide, by decide, by decide, by decide⟩ h⟩

/-! ### the excluded points of `digest_accepted`, each a concrete failing input -/

/-- What the client sends for a raw challenge (`none` = it answers with an error). -/
def answer (raw user pass method uri : Bytes) : Option Bytes :=
  match parseChallenge raw with
  | .error _ => none
  | .ok c =>
    match authorize exH algOf c { user, pass, method, uri } (some exRnd) with
    | .ok hdr => some hdr
    | .error _ => none

def rejected (sc : Issued) (raw user pass method uri : Bytes) : Bool :=
  match answer raw user pass method uri with
  | some hdr => !verify exH specAlg { issued := sc, method, uri, user, pass } hdr
  | none => false

set_option maxRecDepth 100000 in
/-- `Expressible.user`: a user name with a quote (`a"b`) is written unescaped: the header
`username="a"b"` is not a credential. -/
theorem excluded_user_quote :
    rejected { realm := b!"r", nonce := b!"n" } b!"Digest realm=\"r\", nonce=\"n\", algorithm=MD5"
      b!"a\"b" b!"pw" b!"GET" b!"/" = true := by decide

set_option maxRecDepth 100000 in
/-- a comma inside a quoted realm followed by a known key: `realm="x, opaque=y"` is read as
realm `x` plus opaque `y` — a header for another realm, not an error. -/
theorem excluded_quoted_comma :
    rejected { realm := b!"x, opaque=y", nonce := b!"n" } b!"Digest realm=\"x, opaque=y\", nonce=\"n\", algorithm=MD5"
      b!"u" b!"pw" b!"GET" b!"/" = true := by decide

set_option maxRecDepth 100000 in
/-- bad white space after `=` (legal, RFC 7235 BWS): `realm= "x"` is read as realm ` "x`. -/
theorem excluded_bws :
    rejected { realm := b!"x", nonce := b!"n" } b!"Digest realm= \"x\", nonce=\"n\", algorithm=MD5"
      b!"u" b!"pw" b!"GET" b!"/" = true := by decide

set_option maxRecDepth 100000 in
/-- a quoted-pair in the realm (`a\"b` stands for `a"b`) is hashed with its backslash. -/
theorem excluded_quoted_pair :
    rejected { realm := b!"a\"b", nonce := b!"n" } b!"Digest realm=\"a\\\"b\", nonce=\"n\", algorithm=MD5"
      b!"u" b!"pw" b!"GET" b!"/" = true := by decide

/-- Strictness that is NOT a violation: the usual comma cases are an error, not a header —
a qop list, a realm with a plain comma. -/
theorem comma_usually_errors :
    answer b!"Digest realm=\"r\", nonce=\"n\", qop=\"auth,auth-int\"" b!"u" b!"pw" b!"GET" b!"/" = none ∧
    answer b!"Digest realm=\"r\", nonce=\"n\", qop=\"auth, auth-int\"" b!"u" b!"pw" b!"GET" b!"/" = none ∧
    answer b!"Digest realm=\"Acme, Inc\", nonce=\"n\"" b!"u" b!"pw" b!"GET" b!"/" = none := by decide


/-! ### the challenge as written by the server: parse_faithful and the end-to-end form -/

/-- The parameter list says what the server means: realm and nonce are there, opaque and
algorithm are there iff issued (and not empty), qop offers at most ONE option (a list needs a
comma, which digest.go cannot read), userhash is `true` iff the server supports it. -/
structure Describes (items : List Item) (sc : Issued) : Prop where
  realm : lastValue items b!"realm" = some sc.realm
  nonce : lastValue items b!"nonce" = some sc.nonce
  opaq : lastValue items b!"opaque" = sc.opaq
  opaqNe : sc.opaq ≠ some []
  algorithm : lastValue items b!"algorithm" = sc.algorithm
  algorithmNe : sc.algorithm ≠ some []
  qop : match lastValue items b!"qop" with
        | none => sc.qops = []
        | some q => q ≠ [] ∧ sc.qops = [q]
  userhash : sc.userhash = (lastValue items b!"userhash" == some b!"true")

theorem issuedOf_challengeOf (items : List Item) (sc : Issued) (h : Describes items sc) :
    issuedOf (challengeOf items) = sc := by
  have fr := field_foldl b!"realm" (by decide) items {}
  have fn := field_foldl b!"nonce" (by decide) items {}
  have fo := field_foldl b!"opaque" (by decide) items {}
  have fa := field_foldl b!"algorithm" (by decide) items {}
  have fq := field_foldl b!"qop" (by decide) items {}
  have fu := field_foldl b!"userhash" (by decide) items {}
  have er : (challengeOf items).realm = sc.realm := by
    have : (challengeOf items).realm = field b!"realm" (challengeOf items) := rfl
    rw [this]; unfold challengeOf; rw [fr, h.realm]
  have en : (challengeOf items).nonce = sc.nonce := by
    have : (challengeOf items).nonce = field b!"nonce" (challengeOf items) := rfl
    rw [this]; unfold challengeOf; rw [fn, h.nonce]
  have eo : (if (challengeOf items).opaq.isEmpty then none else some (challengeOf items).opaq) = sc.opaq := by
    have : (challengeOf items).opaq = field b!"opaque" (challengeOf items) := rfl
    rw [this]; unfold challengeOf; rw [fo, h.opaq]
    cases ho : sc.opaq with
    | none => rfl
    | some v =>
      have : v ≠ [] := fun e => h.opaqNe (by rw [ho, e])
      cases v with
      | nil => exact absurd rfl this
      | cons _ _ => rfl
  have ea : (if (challengeOf items).algorithm.isEmpty then none else some (challengeOf items).algorithm) =
      sc.algorithm := by
    have : (challengeOf items).algorithm = field b!"algorithm" (challengeOf items) := rfl
    rw [this]; unfold challengeOf; rw [fa, h.algorithm]
    cases ho : sc.algorithm with
    | none => rfl
    | some v =>
      have : v ≠ [] := fun e => h.algorithmNe (by rw [ho, e])
      cases v with
      | nil => exact absurd rfl this
      | cons _ _ => rfl
  have eq : (if (challengeOf items).qop.isEmpty then [] else [(challengeOf items).qop]) = sc.qops := by
    have : (challengeOf items).qop = field b!"qop" (challengeOf items) := rfl
    rw [this]; unfold challengeOf; rw [fq]
    have hq := h.qop
    cases hl : lastValue items b!"qop" with
    | none => rw [hl] at hq; simp only at hq; rw [hq]; rfl
    | some q =>
      rw [hl] at hq
      simp only at hq
      rw [hq.2]
      cases q with
      | nil => exact absurd rfl hq.1
      | cons _ _ => rfl
  have eu : ((challengeOf items).userhash == b!"true") = sc.userhash := by
    have : (challengeOf items).userhash = field b!"userhash" (challengeOf items) := rfl
    rw [this]; unfold challengeOf; rw [fu, h.userhash]
    cases hl : lastValue items b!"userhash" with
    | none => rfl
    | some v => simp
  unfold issuedOf
  rw [er, en, eo, ea, eq, eu]

/-- what must be expressible inside quoted-strings, in the server's terms -/
structure ExpressibleI (sc : Issued) (user uri : Bytes) : Prop where
  user : sc.userhash = true ∨ user.all isQd = true
  realm : sc.realm.all isQd = true
  nonce : sc.nonce.all isQd = true
  uri : uri.all isQd = true
  opaq : ∀ o ∈ sc.opaq, o.all isQd = true

/-- **parse_faithful**: `parseChallenge` reads a challenge written in ANY parameter order, with
any optional white space (SP / HTAB) around the commas, any of space / tab / CR / LF around the
whole value and after the scheme, each parameter in token or in quoted form, exactly as it was
meant — provided no quoted value contains a comma or a quote. -/
theorem parse_faithful (lead sp : Bytes) (items : List Item) (trail : Bytes)
    (h : WellWritten lead sp items trail) :
    parseChallenge (renderChallenge lead sp items trail) = .ok (challengeOf items) :=
  parse_rendered lead sp items trail h

/-- **digest_accepted_wire**: the end-to-end form of `digest_accepted`. The verifier is given
what the SERVER issued (`sc`), not the client's reading of it: for every way of writing the
challenge that `WellWritten` covers, every hash, account, method, target and entropy, the
answer of the client is accepted. -/
theorem digest_accepted_wire (H : Alg → Bytes → Bytes) (hH : ∀ a x, (H a x).all isQd = true)
    (lead sp : Bytes) (items : List Item) (trail : Bytes) (sc : Issued)
    (user pass method uri body : Bytes) (rnd : Option Bytes) (hdr : Bytes)
    (hw : WellWritten lead sp items trail) (hd : Describes items sc)
    (hx : ExpressibleI sc user uri)
    (ha : handle H algOf user pass method uri .none rnd
      { err := false, status := 401, wwwAuth := renderChallenge lead sp items trail } = .resend hdr none) :
    verify H specAlg { issued := sc, method, uri, user, pass, body } hdr = true := by
  have hparse := parse_faithful lead sp items trail hw
  have hiss := issuedOf_challengeOf items sc hd
  obtain ⟨_, _, _, _, c, hc, hauth⟩ :=
    body_resent_intact H user pass method uri .none rnd _ hdr none ha
  rw [hparse] at hc
  cases hc
  have hexp : Expressible (challengeOf items) user uri := by
    refine ⟨?_, ?_, ?_, hx.uri, ?_⟩
    · rcases hx.user with h1 | h1
      · left
        have : ((challengeOf items).userhash == b!"true") = true := by
          have := congrArg Issued.userhash hiss
          simp only [issuedOf] at this
          rw [this, h1]
        exact eq_of_beq this
      · exact Or.inr h1
    · have := congrArg Issued.realm hiss
      simp only [issuedOf] at this
      rw [this]; exact hx.realm
    · have := congrArg Issued.nonce hiss
      simp only [issuedOf] at this
      rw [this]; exact hx.nonce
    · have := congrArg Issued.opaq hiss
      simp only [issuedOf] at this
      cases ho : (challengeOf items).opaq with
      | nil => rfl
      | cons a as =>
        rw [ho] at this
        simp only [List.isEmpty_cons, Bool.false_eq_true, if_false] at this
        exact hx.opaq _ this.symm
  have := digest_accepted H hH (renderChallenge lead sp items trail) (challengeOf items) user pass method
    uri body rnd hdr hparse hexp hauth
  rw [hiss] at this
  exact this

/-- A supported, readable challenge on a 401 IS answered (request without body). -/
theorem supported_resent (H : Alg → Bytes → Bytes) (user pass method uri r : Bytes) (resp : Resp)
    (c : Challenge) (h401 : resp.err = false ∧ resp.status = 401) (hne : resp.wwwAuth ≠ [])
    (hp : parseChallenge resp.wwwAuth = .ok c) (hs : Supported c) :
    ∃ hdr, handle H algOf user pass method uri .none (some r) resp = .resend hdr none := by
  obtain ⟨hdr, ha⟩ := supported_answered H c { user, pass, method, uri } r hs
  refine ⟨hdr, ?_⟩
  have he : resp.wwwAuth.isEmpty = false := by
    cases h : resp.wwwAuth with
    | nil => exact absurd h hne
    | cons _ _ => rfl
  simp [handle, h401.1, h401.2, he, hp, ha]

/-- the example challenge of `exRaw` written differently: other order, tabs and spaces around
the commas, `qop` as a token, `algorithm` quoted, white space around everything -/
def exItems : List Item := [
  ⟨[], ⟨b!"nonce", b!"n", true⟩, b!" "⟩,
  ⟨b!"\t", ⟨b!"userhash", b!"true", false⟩, []⟩,
  ⟨b!"  ", ⟨b!"qop", b!"auth", false⟩, b!" \t"⟩,
  ⟨[], ⟨b!"charset", b!"utf-8", false⟩, []⟩,
  ⟨b!" ", ⟨b!"algorithm", b!"SHA-256-sess", true⟩, []⟩,
  ⟨b!" ", ⟨b!"realm", b!"r", true⟩, []⟩,
  ⟨b!" ", ⟨b!"opaque", b!"o", true⟩, []⟩]

example : renderChallenge b!" \r\n" b!" \t" exItems b!"\r\n" =
    b!" \r\nDigest  \tnonce=\"n\" ,\tuserhash=true,  qop=auth \t,charset=utf-8, algorithm=\"SHA-256-sess\", realm=\"r\", opaque=\"o\"\r\n" := by
  decide

theorem exWellWritten : WellWritten b!" \r\n" b!" \t" exItems b!"\r\n" where
  wsLead := by decide
  wsSp := by decide
  wsTrail := by decide
  ok := by
    intro i hi
    simp only [exItems, List.mem_cons, List.not_mem_nil, or_false] at hi
    rcases hi with rfl | rfl | rfl | rfl | rfl | rfl | rfl <;>
      exact ⟨by decide, by decide, by decide, by decide, by decide⟩
  nonempty := by decide
  first := by intro i hi; cases hi; rfl
  last := by intro i hi; simp [exItems] at hi; subst hi; rfl

example : challengeOf exItems = exChal := by decide


def exIssued : Issued :=
  { realm := b!"r", nonce := b!"n", opaq := some b!"o", algorithm := some b!"SHA-256-sess",
    qops := [b!"auth"], userhash := true }

theorem exDescribes : Describes exItems exIssued where
  realm := by decide
  nonce := by decide
  opaq := by decide
  opaqNe := by decide
  algorithm := by decide
  algorithmNe := by decide
  qop := by
    have h : lastValue exItems b!"qop" = some b!"auth" := by decide
    simp only [h]
    exact ⟨by decide, rfl⟩
  userhash := by decide

/-- `digest_accepted_wire` is not vacuous: the re-written example challenge is answered, and the
answer is accepted by the verifier holding what the server issued. -/
example : ∃ hdr, handle exH algOf exCred.user exCred.pass exCred.method exCred.uri .none (some exRnd)
      { err := false, status := 401, wwwAuth := renderChallenge b!" \r\n" b!" \t" exItems b!"\r\n" } =
        .resend hdr none ∧
    verify exH specAlg
      { issued := exIssued, method := exCred.method, uri := exCred.uri, user := exCred.user,
        pass := exCred.pass } hdr = true := by
  have hp := parse_faithful _ _ _ _ exWellWritten
  have hc : challengeOf exItems = exChal := by decide
  rw [hc] at hp
  obtain ⟨hdr, h⟩ := supported_resent exH exCred.user exCred.pass exCred.method exCred.uri exRnd
    { err := false, status := 401, wwwAuth := renderChallenge b!" \r\n" b!" \t" exItems b!"\r\n" }
    exChal ⟨rfl, rfl⟩ (by decide) hp exSupported
  exact ⟨hdr, h, digest_accepted_wire exH exH_qd _ _ _ _ exIssued _ _ _ _ [] _ hdr exWellWritten exDescribes
    ⟨Or.inl rfl, by decide, by decide, by decide, by decide⟩ h⟩

end digest

end Req.Props.C20Legacy
