import Req.Pool.CancelH2
import Req.Lemmas.CancelH2
/-!
C08 — property theorems, HTTP/2 request lifecycle (`Req/Pool/CancelH2.lean`: caller in
`ClientConn.roundTrip`, writer goroutine `doRequest` = `writeRequest` + `cleanupWriteRequest`,
closer goroutine of `closeReqBodyLocked`; read loop, peer, timers as environment).

Decision tables
* `cancelled_stream_is_reset`       : `cleanupWriteRequest` with a context error, HEADERS sent and the
                                      stream not closed by both sides writes RST_STREAM(CANCEL).
* `no_rst_before_headers`, `no_rst_when_closed_by_both_sides`, `no_rst_answering_a_peer_reset`,
  `cleanup_rst_iff`                 : … and writes none otherwise: the full characterisation.
* `flow_wait_exits_when_cancelled`  : one round of `awaitFlowControl` with the body claimed, the
                                      stream aborted or the context done neither takes flow-control
                                      tokens nor waits: no further DATA frame can be started.
Lifecycle, ∀ reachable states (any mixture of environment events and goroutine steps)
* `h2_body_closed_at_most_once`     : the request body is closed at most once, whoever closes it
                                      (closer goroutine after abortStream, or cleanupWriteRequest).
* `h2_rst_at_most_once`             : at most one RST_STREAM is written for the stream, and only by
                                      `cleanupWriteRequest`.
* `h2_rst_rule`                     : … namely the one `cleanupRule` gives for the error, `sentHeaders`,
                                      `sentEndStream`, `peerClosed` the cleanup saw.
* `cancel_releases_h2`              : after a cancellation / deadline at ANY reachable state, every run of
                                      internal steps has at most `K` (= 33) steps, and when no step is
                                      enabled: the writer goroutine is done (`donec` closed), the caller
                                      has returned, no closer goroutine is left, the stream slot and
                                      `reqHeaderMu` are given back, the request body — if there is one —
                                      was closed exactly once, the response pipe is closed (a pending body
                                      read returns).
* `cancel_terminates_h2`            : a maximal internal run exists from every state (non-vacuity of the
                                      ∀-run statements).
* `cancel_error_h2`                 : if the cancellation finds the caller in its select, no response
                                      headers and no earlier abort, the caller gets exactly the context's
                                      error, the stream is aborted with it, and the RST rule is applied to it.
* `no_data_after_cancel_h2`         : from a state in which the request is cancelled (context done,
                                      stream aborted, or body claimed), under ANY continuation (events
                                      and steps) at most the DATA frame whose tokens were already taken
                                      is written.
* `released_abs`                    : refinement link: a released HTTP/2 state maps to a released
                                      resource record of the protocol-independent lifecycle
                                      (`Req.Cancel.Res.released`).
-/
namespace Req.Props.C08H2
open Req.Cancel (CtxErr)
open Req.CancelH2 Req.Lemmas.CancelH2

/-! ## decision tables -/

theorem cancelled_stream_is_reset (e : CtxErr) (sentEnd peerClosed : Bool)
    (h : ¬ (sentEnd = true ∧ peerClosed = true)) :
    cleanupRule ⟨.ctx e, true, sentEnd, peerClosed⟩ = some .cancel := by
  cases sentEnd <;> cases peerClosed <;> simp_all [cleanupRule, CleanupIn.effErr]

theorem no_rst_before_headers (i : CleanupIn) (h : i.sentHeaders = false) : cleanupRule i = none := by
  unfold cleanupRule
  cases i.effErr <;> simp [h]

theorem no_rst_when_closed_by_both_sides (i : CleanupIn) (h1 : i.sentEndStream = true)
    (h2 : i.peerClosed = true) : cleanupRule i = none := by
  unfold cleanupRule CleanupIn.effErr
  cases he : i.err <;> simp [h1, h2]

theorem no_rst_answering_a_peer_reset (i : CleanupIn) (h : i.effErr = .fromPeer) : cleanupRule i = none := by
  unfold cleanupRule; rw [h]

theorem cleanup_rst_iff (i : CleanupIn) :
    (cleanupRule i).isSome = true ↔
      i.sentHeaders = true ∧ i.effErr ≠ .fromPeer ∧ ¬ (i.effErr = .nil ∧ i.sentEndStream = true) := by
  unfold cleanupRule
  cases he : i.effErr <;> cases hs : i.sentHeaders <;> cases hse : i.sentEndStream <;> simp

theorem flow_wait_exits_when_cancelled (i : FlowIn)
    (h : i.bodyClaimed = true ∨ i.aborted = true ∨ i.ctxDone = true) :
    flowDecision i ≠ .wait ∧ ∀ n, flowDecision i ≠ .take n := by
  unfold flowDecision
  cases i.connClosed <;> cases hb : i.bodyClaimed <;> cases ha : i.aborted <;> cases hc : i.ctxDone <;>
    simp_all

/-! ## lifecycle -/

theorem h2_body_closed_at_most_once (s : St) (h : Reach s) : s.closes ≤ 1 := by
  have hi := (reach_inv s h).bodyAcct
  have : (if s.claimed then 1 else 0) ≤ 1 := by split <;> omega
  omega

theorem h2_rst_at_most_once (s : St) (h : Reach s) :
    s.rsts.length ≤ 1 ∧ (s.rsts ≠ [] → s.donec = true) := by
  have hi := reach_inv s h
  rw [hi.rstsCu]
  cases hc : s.cu with
  | none => simp
  | some i =>
    refine ⟨by cases cleanupRule i <;> simp, fun _ => ?_⟩
    exact hi.donecIff.mpr (hi.cuIff.mp (by rw [hc]; rfl))

theorem h2_rst_rule (s : St) (h : Reach s) (hd : s.donec = true) :
    ∃ i, s.cu = some i ∧ s.rsts = (cleanupRule i).toList ∧
      i.sentHeaders = s.sentHeaders ∧ i.sentEndStream = s.sentEnd := by
  have hi := reach_inv s h
  have hw := hi.donecIff.mp hd
  have hc := hi.cuIff.mpr hw
  cases hcu : s.cu with
  | none => rw [hcu] at hc; cases hc
  | some i =>
    have := hi.rstsCu
    rw [hcu] at this
    exact ⟨i, rfl, this, hi.cuFields i hcu⟩

/-- **cancel_releases_h2** -/
theorem cancel_releases_h2 (s : St) (hr : Reach s) (hc : s.ctx.isSome = true)
    (as : List Act) (s' : St) (hrun : Run s as s') :
    as.length ≤ K ∧
    (stuck s' = true → released s' = true ∧ s'.pipeErr = true ∧ s'.closes ≤ 1 ∧ s'.rsts.length ≤ 1) := by
  have hlen := run_length_le s s' as hrun
  have hmu := mu_le s
  refine ⟨by omega, fun hst => ?_⟩
  have hi' := run_inv s s' as hrun (reach_inv s hr)
  have hctx : s'.ctx.isSome = true := by
    clear hlen hmu hi' hst
    induction hrun with
    | nil s => exact hc
    | cons hg _ ih =>
      apply ih
      · exact Reach.act _ hr hg
      · rename_i s0 a _ _ _
        cases a <;> simp only [apply, toCleanup] <;> (try split) <;> (try split) <;> (try split) <;>
          first
          | exact hc
          | (simp only [abortStream]; (try split) <;> exact hc)
  have hrel := stuck_released s' hi' hctx hst
  have hdone : s'.wpc = .done := by
    unfold released at hrel
    simp only [Bool.and_eq_true, beq_iff_eq] at hrel
    exact hrel.1.1.1.1.1.1
  refine ⟨hrel, hi'.donePipe hdone, ?_, ?_⟩
  · have hb := hi'.bodyAcct
    have : (if s'.claimed then 1 else 0) ≤ 1 := by split <;> omega
    omega
  · rw [hi'.rstsCu]
    cases s'.cu with
    | none => simp
    | some i => cases cleanupRule i <;> simp

theorem cancel_terminates_h2 (s : St) : ∃ as s', Run s as s' ∧ stuck s' = true :=
  exists_maximal_run (mu s) s (Nat.le_refl _)

/-- **cancel_error_h2** -/
theorem cancel_error_h2 (s : St) (e : CtxErr) (hctx : s.ctx = some e) (hsel : s.rpc = .select)
    (hnh : s.respHdr = false) (hnp : s.peerClosed = false) (hna : s.abort = none)
    (hw : ∀ x, s.wpc ≠ .cleanup x ∧ s.wpc ≠ .cuClose x ∧ s.wpc ≠ .cuWait x) (hnd : s.wpc ≠ .done)
    (hi : Inv s) (as : List Act) (s' : St) (hrun : Run s as s') (hst : stuck s' = true) :
    s'.rpc = .returned (.err (.ctx e)) ∧ s'.abort = some (.ctx e) ∧
    ∃ i, s'.cu = some i ∧ i.err = .ctx e ∧ s'.rsts = (cleanupRule i).toList := by
  have hj : CJ e s := ⟨hctx, hnh, hnp, Or.inl hna, by intro x hx; have := hw x; simp_all, Or.inl hsel⟩
  have hj' := CJ_run e s s' as hrun hj
  have hi' := run_inv s s' as hrun hi
  have hrel := stuck_released s' hi' (by rw [hj'.ctx]; rfl) hst
  have hng := stuck_not_guard s' hst
  unfold released at hrel
  simp only [Bool.and_eq_true, beq_iff_eq] at hrel
  have hdone : s'.wpc = .done := hrel.1.1.1.1.1.1
  -- the caller has returned: with the context's error
  have hret : s'.rpc = .returned (.err (.ctx e)) := by
    rcases hj'.rp with h | h | h | h
    · have := hng .rCtx; simp [CancelH2.guard, h, hj'.ctx] at this
    · have := hrel.1.2; rw [h] at this; simp at this
    · exact h
    · have := hrel.1.2; rw [h.1] at this; simp at this
  -- the stream was aborted with it: by the caller (rCtx) — the only way to that result
  have hcu := hi'.cuIff.mpr hdone
  cases hc : s'.cu with
  | none => rw [hc] at hcu; cases hcu
  | some i =>
    have hrs := hi'.rstsCu
    rw [hc] at hrs
    -- the abort and the cleanup error are recorded ghost facts: recover them by a second run invariant
    have hab : s'.abort = some (.ctx e) ∧ i.err = .ctx e := by
      clear hrel hng hret hcu hrs hst hdone
      -- strengthen: along the run, (cu = some i → i.err = ctx e ∧ abort = some (ctx e)) and
      -- (rpc = returned (err (ctx e)) → abort = some (ctx e))
      suffices hsuff : ∀ t : St, CJ e t → Inv t →
          ((∀ j, t.cu = some j → j.err = .ctx e ∧ t.abort = some (.ctx e)) ∧
           (t.rpc ≠ .select → t.abort = some (.ctx e))) →
          ∀ as t', Run t as t' →
          ((∀ j, t'.cu = some j → j.err = .ctx e ∧ t'.abort = some (.ctx e)) ∧
           (t'.rpc ≠ .select → t'.abort = some (.ctx e))) by
        have := hsuff s hj hi ⟨by intro j hj0; exact absurd (hi.cuIff.mp (by rw [hj0]; rfl)) hnd,
          by intro hne; exact absurd hsel hne⟩ as s' hrun
        exact ⟨(this.1 i hc).2, (this.1 i hc).1⟩
      intro t hjt hit hP as t' hr
      induction hr with
      | nil t => exact hP
      | cons hg _ ih =>
        rename_i t0 a _ _ _
        apply ih (CJ_act e _ _ hjt hg) (inv_act _ _ hit hg)
        obtain ⟨hP1, hP2⟩ := hP
        have hcuNone : t0.wpc ≠ .done → t0.cu = none := by
          intro hnd
          cases hcc : t0.cu with
          | none => rfl
          | some j => exact absurd (hit.cuIff.mp (by rw [hcc]; rfl)) hnd
        cases a <;> simp only [CancelH2.guard, Bool.and_eq_true, beq_iff_eq, Bool.or_eq_true] at hg
        case wCleanupFinish =>
          simp only [apply]
          split
          · next x hwx =>
            have hx : x = .ctx e := hjt.cu x (Or.inr (Or.inr hwx))
            subst hx
            have heff : CleanupIn.effErr ⟨.ctx e, t0.sentHeaders, t0.sentEnd, t0.peerClosed⟩ = .ctx e := by
              simp [CleanupIn.effErr, hjt.noPeer]
            have hA := (CJ_abortStream e t0 hjt).2
            rw [heff]
            simp only [ne_eq, reduceCtorEq, not_false_eq_true, if_true]
            refine ⟨?_, ?_⟩
            · intro j hj0
              simp only [Option.some.injEq] at hj0
              subst hj0
              exact ⟨rfl, hA⟩
            · intro _; exact hA
          · next hwx => simp_all
        case rCtx =>
          simp only [apply]
          split
          · next e' he' =>
            have : e' = e := by rw [hjt.ctx] at he'; cases he'; rfl
            subst this
            have hA := (CJ_abortStream e' t0 hjt).2
            refine ⟨?_, fun _ => hA⟩
            intro j hj0
            have hcu0 : (abortStream t0 (.ctx e')).cu = t0.cu := by
              unfold abortStream; simp only; split <;> rfl
            rw [show ({ abortStream t0 (.ctx e') with rpc := RPc.waitBody e' } : St).cu = t0.cu from hcu0] at hj0
            exact ⟨(hP1 j hj0).1, hA⟩
          · next he' => rw [hjt.ctx] at he'; cases he'
        case rAbort =>
          simp only [apply]
          have hab0 : t0.abort = some (.ctx e) := by
            rcases hjt.ab with h | h
            · rw [h] at hg; simp at hg
            · exact h
          exact ⟨fun j hj0 => ⟨(hP1 j hj0).1, hab0⟩, fun _ => hab0⟩
        case rHeaders => rw [hjt.noHdr] at hg; simp at hg
        case wPeerDone => rw [hjt.noPeer] at hg; simp at hg
        all_goals
          simp only [apply, toCleanup]
          (repeat' split) <;>
            first
            | exact ⟨hP1, hP2⟩
            | (refine ⟨fun j hj0 => hP1 j hj0, fun hne => hP2 ?_⟩; simp_all)
            | (refine ⟨fun j hj0 => hP1 j hj0, fun hne => hP2 (by simp_all)⟩)
            | simp_all
    exact ⟨hret, hab.1, i, rfl, hab.2, hrs⟩

/-! ### no DATA frame is started after the cancellation -/

inductive Step : St → St → Prop
  | ev {s} (e : Ev) : evGuard s e = true → Step s (evApply s e)
  | act {s} (a : Act) : CancelH2.guard s a = true → Step s (apply s a)

inductive Steps : St → St → Prop
  | refl (s) : Steps s s
  | tail {s t u} : Steps s t → Step t u → Steps s u

/-- the request is cancelled as far as the body writer is concerned -/
def quiet (s : St) : Bool := cancelled s || s.claimed

/-- DATA frames written so far plus the one whose tokens are already taken -/
def pot (s : St) : Nat := s.dataWrites + (if s.wpc = .data then 1 else 0)

theorem abortStream_quiet (s : St) (x : WErr) : quiet (abortStream s x) = true := by
  unfold abortStream quiet cancelled; simp only; split <;> (cases s.abort <;> simp [Option.or])

theorem abortStream_pot (s : St) (x : WErr) : pot (abortStream s x) = pot s := by
  unfold abortStream pot; simp only; split <;> rfl

theorem step_quiet_pot (s t : St) (h : Step s t) (hq : quiet s = true) :
    quiet t = true ∧ pot t ≤ pot s := by
  cases h with
  | ev e hg =>
    cases e <;> simp only [evGuard, Bool.and_eq_true, beq_iff_eq, Bool.not_eq_true'] at hg
    case flowTake =>
      unfold quiet at hq
      simp only [Bool.or_eq_true] at hq
      rcases hq with h | h
      · rw [h] at hg; simp at hg
      · rw [h] at hg; simp at hg
    case peerRst => exact ⟨abortStream_quiet _ _, by simp only [evApply]; rw [abortStream_pot]; exact Nat.le_refl _⟩
    case callerClose => exact ⟨abortStream_quiet _ _, by simp only [evApply]; rw [abortStream_pot]; exact Nat.le_refl _⟩
    case cancel => simp only [evApply]; exact ⟨by simp [quiet, cancelled], Nat.le_refl _⟩
    case peerHeaders =>
      simp only [evApply]
      split <;> exact ⟨by simpa [quiet, cancelled] using hq, by simp [pot]⟩
    all_goals
      simp only [evApply]
      refine ⟨by simpa [quiet, cancelled] using hq, ?_⟩
      simp_all [pot]
  | act a hg =>
    cases a <;> simp only [CancelH2.guard, Bool.and_eq_true, beq_iff_eq, Bool.or_eq_true] at hg
    case wData =>
      simp only [apply]
      refine ⟨by simpa [quiet, cancelled] using hq, ?_⟩
      simp [pot, hg]
    case wCleanupFinish =>
      simp only [apply]
      split
      · next x hwx =>
        split
        · have h1 := abortStream_quiet s (CleanupIn.effErr ⟨x, s.sentHeaders, s.sentEnd, s.peerClosed⟩)
          have h2 := abortStream_pot s (CleanupIn.effErr ⟨x, s.sentHeaders, s.sentEnd, s.peerClosed⟩)
          refine ⟨by simpa [quiet, cancelled] using h1, ?_⟩
          simp only [pot, hwx] at h2 ⊢
          simp at h2 ⊢
          omega
        · refine ⟨by simpa [quiet, cancelled] using hq, ?_⟩
          simp only [pot, hwx]; simp
      · exact ⟨hq, Nat.le_refl _⟩
    case rCtx =>
      simp only [apply]
      split
      · next e' he' =>
        have h1 := abortStream_quiet s (.ctx e')
        have h2 := abortStream_pot s (.ctx e')
        exact ⟨by simpa [quiet, cancelled] using h1, by simpa [pot] using Nat.le_of_eq h2⟩
      · exact ⟨hq, Nat.le_refl _⟩
    all_goals
      simp only [apply, toCleanup]
      (repeat' split) <;>
        first
        | exact ⟨hq, Nat.le_refl _⟩
        | (refine ⟨by simpa [quiet, cancelled] using hq, ?_⟩; simp_all [pot])
        | (refine ⟨by simpa [quiet, cancelled] using hq, ?_⟩; simp only [pot]; simp_all; (try split) <;> omega)

/-- **no_data_after_cancel_h2** -/
theorem no_data_after_cancel_h2 (s t : St) (hq : quiet s = true) (h : Steps s t) :
    t.dataWrites ≤ s.dataWrites + (if s.wpc = .data then 1 else 0) := by
  have : quiet t = true ∧ pot t ≤ pot s := by
    induction h with
    | refl => exact ⟨hq, Nat.le_refl _⟩
    | tail _ hst ih =>
      obtain ⟨h1, h2⟩ := ih
      obtain ⟨h3, h4⟩ := step_quiet_pot _ _ hst h1
      exact ⟨h3, Nat.le_trans h4 h2⟩
  have hp := this.2
  unfold pot at hp
  split at hp <;> omega

/-- **released_abs** — refinement link to the protocol-independent lifecycle -/
theorem released_abs (s : St) (h : released s = true) : (absRes s).released = true := by
  unfold released at h
  simp only [Bool.and_eq_true, beq_iff_eq, Bool.not_eq_true', Bool.or_eq_true] at h
  obtain ⟨⟨⟨⟨⟨⟨hw, hd⟩, hc⟩, hid⟩, _⟩, _⟩, hb⟩ := h
  unfold absRes Req.Cancel.Res.released
  cases hbody : s.hasBody with
  | false => simp [hw, hd, hc, hid]; split <;> simp
  | true =>
    rcases hb with hb | hb
    · rw [hbody] at hb; cases hb
    · simp [hw, hd, hc, hid, hb.1]; split <;> simp

/-! ## Non-vacuity -/

/-- upload, HEADERS sent, a chunk read, waiting for flow control; then the context is cancelled -/
def exUpload : St :=
  let s := init true false false
  let s := evApply s .hdrMuFree
  let s := evApply s .slotFree
  let s := apply s .wHeaders
  let s := apply s .wReadChunk
  evApply s (.cancel .canceled)

example : Reach exUpload :=
  Reach.ev (.cancel .canceled) (Reach.act .wReadChunk (Reach.act .wHeaders (Reach.ev .slotFree
    (Reach.ev .hdrMuFree (Reach.init true false false) rfl) rfl) rfl) rfl) rfl

example : exUpload.wpc = .flow ∧ exUpload.sentHeaders = true ∧ exUpload.hasID = true := by decide

/-- every maximal internal run from there ends released, body closed once, RST_STREAM(CANCEL), the
caller got `context.Canceled`, and no DATA frame was written after the cancellation -/
example : (finals 40 exUpload).all (fun t =>
    released t && t.closes == 1 && t.rsts == [.cancel] &&
    t.rpc == .returned (.err (.ctx .canceled)) && t.dataWrites == 0) = true := by decide

/-- a request cancelled while it waits for a stream slot: no RST (nothing was sent), slot
reservation and header lock given back -/
def exSlot : St := evApply (evApply (init false false false) .hdrMuFree) (.cancel .deadline)
example : (finals 40 exSlot).all (fun t => released t && t.rsts == [] &&
    t.rpc == .returned (.err (.ctx .deadline))) = true := by decide

/-- complete exchange, then the cancellation arrives: nothing to reset -/
def exDone : St :=
  let s := init false false true
  let s := evApply s .hdrMuFree
  let s := evApply s .slotFree
  let s := apply s .wHeaders
  let s := evApply s .peerHeaders
  evApply s (.cancel .canceled)
example : (finals 40 exDone).all (fun t => released t && t.rsts == []) = true := by decide

end Req.Props.C08H2
