import Req.H2.Flow
/-!
C02 — bodies beyond the receive window: the accounting of `internal/http2/flow.go inflow.add`
(C06's hand model `Req.H2.Flow.Inflow.add`, bridged there to the regenerated source) under the
caller's reads of ANY sizes.  Flow control as a whole is C06's subject (`credit_conservation`,
`no_permanent_stall` over the connection model); this is the part C02's statement "a body of any
length, streamed with reads of any size" rests on, stated for one window in isolation, and the
counterpart of lane `windows`.
-/
namespace Req.Props.C02
open Req.H2 Req.H2.Flow

/-- The caller consumes `ns` (the sizes of its successive body reads): `transportResponseBody.Read`
calls `inflow.add(n)` after each. Returns the window and the sum of the WINDOW_UPDATE increments
sent; `none` = Go panicked (window above 2^31-1). -/
def consumeAll : Inflow → List Nat → Option (Inflow × Int)
  | f, [] => some (f, 0)
  | f, n :: ns =>
    match Inflow.add f (Int.ofNat n) with
    | .panic => none
    | .ok (f', inc) =>
      match consumeAll f' ns with
      | none => none
      | some (f'', sent) => some (f'', inc + sent)

def sumReads (ns : List Nat) : Int := (ns.map Int.ofNat).sum

/-- **h2_window_reopens.** Whatever the sizes of the caller's reads (1 byte, 7 bytes, 4095, 4096,
…): every consumed byte comes back to the peer as credit. Precisely, after the reads `ns`

* the client's own view of the window grew by EXACTLY what it announced in WINDOW_UPDATE frames
  (`avail' = avail + sent`: the peer is never told about more, or less, window than the client
  will accept — seed C02-r4-1 breaks this line),
* what was consumed is either announced or still held back (`sent + unsent' = unsent + Σ ns`),
* and credit is held back only while it is below `inflowMinRefresh` (4 KiB) AND below what the
  peer still has — so the peer always keeps more than half of the total window
  `avail' + unsent'`: a body of any length keeps flowing. -/
theorem h2_window_reopens (f : Inflow) (ns : List Nat) (hu : 0 ≤ f.unsent)
    (hfresh : f.unsent = 0 ∨ (f.unsent < 4096 ∧ f.unsent < f.avail))
    (f' : Inflow) (sent : Int) (h : consumeAll f ns = some (f', sent)) :
    f'.avail = f.avail + sent ∧
    sent + f'.unsent = f.unsent + sumReads ns ∧
    0 ≤ f'.unsent ∧
    (f'.unsent = 0 ∨ (f'.unsent < 4096 ∧ f'.unsent < f'.avail)) := by
  induction ns generalizing f sent with
  | nil =>
    simp only [consumeAll, Option.some.injEq, Prod.mk.injEq] at h
    obtain ⟨rfl, rfl⟩ := h
    exact ⟨by omega, by simp [sumReads], hu, hfresh⟩
  | cons n ns ih =>
    unfold consumeAll at h
    cases hadd : Inflow.add f (Int.ofNat n) with
    | panic => rw [hadd] at h; cases h
    | ok p =>
      rcases p with ⟨f1, inc⟩
      rw [hadd] at h
      simp only at h
      cases hrest : consumeAll f1 ns with
      | none => rw [hrest] at h; cases h
      | some q =>
        rcases q with ⟨f2, sent2⟩
        rw [hrest] at h
        simp only [Option.some.injEq, Prod.mk.injEq] at h
        obtain ⟨rfl, rfl⟩ := h
        -- one `inflow.add`
        have hn : (0 : Int) ≤ Int.ofNat n := Int.natCast_nonneg n
        have hone : f1.avail = f.avail + inc ∧ inc + f1.unsent = f.unsent + Int.ofNat n ∧ 0 ≤ f1.unsent ∧
            (f1.unsent = 0 ∨ (f1.unsent < 4096 ∧ f1.unsent < f1.avail)) := by
          unfold Inflow.add at hadd
          have hneg : ¬ (Int.ofNat n < 0) := by omega
          simp only [hneg, if_false, inflowMinRefresh] at hadd
          by_cases hp : f.unsent + Int.ofNat n + f.avail > maxWindow
          · simp only [hp, if_true] at hadd
            cases hadd
          · simp only [hp, if_false] at hadd
            by_cases hb : f.unsent + Int.ofNat n < 4096 ∧ f.unsent + Int.ofNat n < f.avail
            · simp only [hb, and_self, if_true, Res.ok.injEq, Prod.mk.injEq] at hadd
              obtain ⟨rfl, rfl⟩ := hadd
              exact ⟨by simp, by simp, by simp; omega, Or.inr (by simpa using hb)⟩
            · simp only [hb, if_false, Res.ok.injEq, Prod.mk.injEq] at hadd
              obtain ⟨rfl, rfl⟩ := hadd
              exact ⟨by simp, by simp, by simp, Or.inl rfl⟩
        obtain ⟨h1, h2, h3, h4⟩ := hone
        obtain ⟨g1, g2, g3, g4⟩ := ih f1 h3 h4 sent2 hrest
        refine ⟨by omega, ?_, g3, g4⟩
        simp only [sumReads, List.map_cons, List.sum_cons] at g2 ⊢
        omega

/-- Consequently, once everything the peer has sent was consumed — whatever the read sizes —
the peer holds more than half of the advertised window `W` again (or all of it). -/
theorem h2_window_more_than_half (f : Inflow) (ns : List Nat) (W : Int) (hu : 0 ≤ f.unsent)
    (hfresh : f.unsent = 0 ∨ (f.unsent < 4096 ∧ f.unsent < f.avail))
    (hall : f.avail + f.unsent + sumReads ns = W)
    (f' : Inflow) (sent : Int) (h : consumeAll f ns = some (f', sent)) :
    f'.avail = W ∨ W < 2 * f'.avail := by
  obtain ⟨h1, h2, h3, h4⟩ := h2_window_reopens f ns hu hfresh f' sent h
  rcases h4 with h0 | ⟨_, hlt⟩
  · left; omega
  · right; omega

/-! Non-vacuity: a 16 KiB window of which the peer used 12 KiB; the caller consumes them with
reads of 1000, 7, 4095, 1, 4096 and 3089 bytes: two WINDOW_UPDATEs (5102 + 4097), 3089 bytes held
back, the peer has 13295 of 16384. -/
example :
    consumeAll ⟨4096, 0⟩ [1000, 7, 4095, 1, 4096, 3089] = some (⟨13295, 3089⟩, 9199) := by decide

end Req.Props.C02
