import Req.Props.C20Digest
/-!
C20 — a MALFORMED Digest challenge yields an ERROR, end to end: not only does `parseChallenge`
refuse it, the middleware returns that error to the caller — exactly one request was sent, the 401
is never handed back as an ordinary response (`untouched`), nothing is sent with a guessed header.

* `malformed_digest_is_error_e2e`  — whatever `parseChallenge` refuses on a 401 IS the outcome of the
  exchange (`exchange … = ([first], .failed e)`).
* `bad_param_errors`               — byte level: a list element `name BWS "=" …` whose value is not a
  token or quoted-string up to the end of the element makes the loop fail IN EVERY STATE (inside a
  Digest challenge, inside another scheme's, before any), with the four ways of damaging a value:
  `paramValue_unterminated`, `paramValue_junk_after_quote`, `paramValue_empty`, `paramValue_missing_comma`.
* `damaged_list_is_error_e2e`      — the two together: any list of pieces, the first damaged one decides.
-/
namespace Req.Props.C20
open Req.Proto Req.DigestAuth Req.Ascii
open Req.Digest hiding authorize handle exchange parseChallenge Resp

/-- **malformed_digest_is_error_e2e**: for EVERY origin, account, method, target, body and entropy:
when the first response is a 401 and the joined `WWW-Authenticate` lines are refused by
`parseChallenge` with `e` (malformed: `badChallenge`; also charset / algorithm / qop), the call
FAILS with `e`: one request on the wire, without `Authorization`, and the outcome is neither
`untouched` (the 401 returned as if nothing had happened) nor a re-send. -/
theorem malformed_digest_is_error_e2e (H : Alg → Bytes → Bytes) (server : Wire → DigestAuth.Resp)
    (user pass method uri : Bytes) (body : Body) (rnd : Option Bytes) (e : Err)
    (h401 : (server { method, uri, authorization := none, body := bodyBytes body }).err = false ∧
      (server { method, uri, authorization := none, body := bodyBytes body }).status = 401)
    (hbad : parseChallenge algOf
      (commaJoin (server { method, uri, authorization := none, body := bodyBytes body }).wwwAuth) = .error e) :
    exchange H algOf server user pass method uri body rnd =
      ([{ method, uri, authorization := none, body := bodyBytes body }], .failed e) := by
  have hc : createDigestAuth H algOf
      (server { method, uri, authorization := none, body := bodyBytes body }).wwwAuth
      { user, pass, method, uri } rnd = .error e := by
    unfold createDigestAuth
    simp only [hbad]
    split
    · rename_i hemp
      -- no field line at all: `parseChallenge` of the empty text says `badChallenge` as well
      have : commaJoin (server { method, uri, authorization := none, body := bodyBytes body }).wwwAuth = [] := by
        simpa using hemp
      rw [this] at hbad
      have he : parseChallenge algOf [] = .error .badChallenge := by decide
      rw [he] at hbad
      cases hbad
      rfl
    · rfl
  simp only [exchange, malformed_challenge_errors H user pass method uri body rnd _ e h401 hc]

/-! ### byte level: a damaged parameter fails the loop in every state -/

/-- a list element `OWS name rest OWS` where `rest` begins (after BWS) with `=` -/
structure BadParam where
  pre : Bytes
  name : Bytes
  rest : Bytes
  post : Bytes

def BadParam.render (d : BadParam) : Bytes := d.pre ++ (d.name ++ d.rest) ++ d.post

structure BadParam.OK (d : BadParam) : Prop where
  pre : d.pre.all isOws = true
  post : d.post.all isOws = true
  name : TokenOK d.name
  eq : (trimLeft isOws d.rest).head? = some 61
  last : ∀ z ∈ d.rest.getLast?, isOws z = false
  /-- what follows the name is NOT `BWS "=" BWS ( token / quoted-string )` up to the end -/
  bad : paramValue d.rest = none

theorem rest_head_not_token (rest : Bytes) (h : (trimLeft isOws rest).head? = some 61) :
    ∀ a ∈ rest.head?, isTokenByte a = false := by
  intro a ha
  cases rest with
  | nil => cases ha
  | cons c cs =>
    simp only [List.head?_cons, Option.mem_def, Option.some.injEq] at ha
    subst ha
    by_cases hc : isOws c = true
    · exact (ows_plain' c hc).2.2.2
    · have : trimLeft isOws (c :: cs) = c :: cs := by simp [trimLeft, hc]
      rw [this] at h
      simp only [List.head?_cons, Option.some.injEq] at h
      subst h
      decide

/-- **bad_param_errors**: in EVERY state of the loop — before any scheme, inside a Digest
challenge, inside the challenge of another scheme — such an element is refused. -/
theorem bad_param_errors (st : PState) (d : BadParam) (h : d.OK) :
    stepElem st d.render = .error .badChallenge := by
  obtain ⟨a, r, hn, ha⟩ := token_head d.name h.name
  have hrne : d.rest ≠ [] := by
    intro hr
    have := h.eq
    rw [hr] at this
    cases this
  have htrim : trim isOws d.render = d.name ++ d.rest := by
    unfold BadParam.render
    apply trim_pad d.pre d.post (d.name ++ d.rest) (by rw [hn]; simp) h.pre h.post
    · intro b hb
      rw [hn] at hb
      simp at hb
      subst hb
      exact tok_not_ows' _ ha
    · intro z hz
      rw [getLast?_append_ne _ _ hrne] at hz
      exact h.last z hz
  have hcut : cutToken (d.name ++ d.rest) = (d.name, d.rest) :=
    cutToken_append d.name d.rest h.name.2 (rest_head_not_token d.rest h.eq)
  unfold stepElem
  simp only [htrim, hcut]
  have hne : (d.name ++ d.rest).isEmpty = false := by rw [hn]; rfl
  have hnn : d.name.isEmpty = false := by rw [hn]; rfl
  simp only [hne, hnn, Bool.false_eq_true, if_false, h.eq, bne_self_eq_false]
  unfold addParam
  simp only [h.bad]

/-! the four ways of damaging a value -/

theorem unquote_plain_none : ∀ body : Bytes, (∀ c ∈ body, c ≠ 34 ∧ c ≠ 92) → unquote body = none := by
  intro body
  induction body with
  | nil => intro _; rfl
  | cons c cs ih =>
    intro h
    have hc := h c (List.mem_cons_self ..)
    have h34 : (c == 34) = false := by simpa using hc.1
    have h92 : (c == 92) = false := by simpa using hc.2
    cases cs with
    | nil => simp [unquote, h34]
    | cons d rest =>
      rw [unquote_plain c (d :: rest) h34 h92 (by simp), ih (fun x hx => h x (List.mem_cons_of_mem _ hx))]
      rfl

/-- no closing quote: `realm="abc` (and everything after it, commas included, is swallowed) -/
theorem paramValue_unterminated (b1 b2 body : Bytes) (h1 : b1.all isOws = true) (h2 : b2.all isOws = true)
    (hb : ∀ c ∈ body, c ≠ 34 ∧ c ≠ 92) : paramValue (b1 ++ 61 :: (b2 ++ 34 :: body)) = none := by
  unfold paramValue
  rw [trimLeft_ows_append b1 _ h1 (by intro a ha; simp at ha; subst ha; decide)]
  simp only [bne_self_eq_false, Bool.false_eq_true, if_false]
  rw [trimLeft_ows_append b2 _ h2 (by intro a ha; simp at ha; subst ha; decide)]
  simp only [beq_self_eq_true, if_true]
  exact unquote_plain_none body hb

theorem unquote_junk : ∀ (l : QBody), QbOK l → ∀ (junk : Bytes), junk ≠ [] →
    unquote (qbRender l ++ 34 :: junk) = none := by
  intro l
  induction l with
  | nil =>
    intro _ junk hj
    cases junk with
    | nil => exact absurd rfl hj
    | cons j js => simp [qbRender, unquote]
  | cons p l ih =>
    intro hok junk hj
    have hl : QbOK l := fun q hq => hok q (List.mem_cons_of_mem _ hq)
    obtain ⟨c, esc⟩ := p
    cases esc with
    | true =>
      simp only [qbRender, List.cons_append]
      rw [unquote_esc, ih hl junk hj]
      rfl
    | false =>
      have hp := hok (c, false) (List.mem_cons_self ..)
      simp only [Bool.false_eq_true, false_or] at hp
      have h34 : (c == 34) = false := by simpa using hp.1
      have h92 : (c == 92) = false := by simpa using hp.2
      simp only [qbRender, List.cons_append]
      rw [unquote_plain c _ h34 h92 (by simp), ih hl junk hj]
      rfl

/-- something after the closing quote: `realm="a"b`, `realm="a" nonce="n"` (missing comma) -/
theorem paramValue_junk_after_quote (b1 b2 : Bytes) (l : QBody) (junk : Bytes) (h1 : b1.all isOws = true)
    (h2 : b2.all isOws = true) (hl : QbOK l) (hj : junk ≠ []) :
    paramValue (b1 ++ 61 :: (b2 ++ 34 :: (qbRender l ++ 34 :: junk))) = none := by
  unfold paramValue
  rw [trimLeft_ows_append b1 _ h1 (by intro a ha; simp at ha; subst ha; decide)]
  simp only [bne_self_eq_false, Bool.false_eq_true, if_false]
  rw [trimLeft_ows_append b2 _ h2 (by intro a ha; simp at ha; subst ha; decide)]
  simp only [beq_self_eq_true, if_true]
  exact unquote_junk l hl junk hj

/-- no value at all: `realm=` -/
theorem paramValue_empty (b1 : Bytes) (h1 : b1.all isOws = true) : paramValue (b1 ++ [61]) = none := by
  unfold paramValue
  rw [trimLeft_ows_append b1 _ h1 (by intro a ha; simp at ha; subst ha; decide)]
  rfl

/-- a token value followed by anything: `algorithm=MD5 qop=auth` (missing comma), `stale=a"b"` -/
theorem paramValue_missing_comma (b1 b2 tok junk : Bytes) (h1 : b1.all isOws = true) (h2 : b2.all isOws = true)
    (ht : TokenOK tok) (hj : junk ≠ []) (hjh : ∀ a ∈ junk.head?, isTokenByte a = false) :
    paramValue (b1 ++ 61 :: (b2 ++ (tok ++ junk))) = none := by
  obtain ⟨a, r, hn, ha⟩ := token_head tok ht
  have hq : (a == 34) = false := by
    have := (tok_plain' a ha).1
    simpa using this
  unfold paramValue
  rw [trimLeft_ows_append b1 _ h1 (by intro x hx; simp at hx; subst hx; decide)]
  simp only [bne_self_eq_false, Bool.false_eq_true, if_false]
  rw [trimLeft_ows_append b2 _ h2 (by
    intro x hx; rw [hn] at hx; simp at hx; subst hx; exact tok_not_ows' _ ha)]
  rw [hn]
  simp only [List.cons_append, hq, Bool.false_eq_true, if_false]
  rw [← List.cons_append, ← hn, cutToken_append tok junk ht.2 hjh]
  cases junk with
  | nil => exact absurd rfl hj
  | cons j js => simp

/-! ### the list -/

theorem parseElems_first_error : ∀ (good : List Bytes) (d : Bytes) (more : List Bytes) (st0 st : PState) (e : Err),
    parseElems good st0 = .ok st → stepElem st d = .error e → parseElems (good ++ d :: more) st0 = .error e := by
  intro good
  induction good with
  | nil =>
    intro d more st0 st e hg hd
    simp only [parseElems, Except.ok.injEq] at hg
    subst hg
    simp only [List.nil_append, parseElems, hd]
  | cons g good ih =>
    intro d more st0 st e hg hd
    simp only [List.cons_append, parseElems] at hg ⊢
    cases hs : stepElem st0 g with
    | error e' => rw [hs] at hg; cases hg
    | ok st1 =>
      rw [hs] at hg
      exact ih d more st1 st e hg hd

/-- **damaged_list_is_error_e2e**: the field lines of the 401 are ANY list of pieces (each with its
quotes closed) of which the part before `d` is read without error and `d` is a damaged parameter
(`BadParam.OK`: unterminated… see above) — whatever follows `d`, whatever preceded (a perfectly
answerable Digest challenge included): the call fails with `badChallenge`, one request, no
`Authorization`. -/
theorem damaged_list_is_error_e2e (H : Alg → Bytes → Bytes) (server : Wire → DigestAuth.Resp)
    (user pass method uri : Bytes) (body : Body) (rnd : Option Bytes)
    (good more : List Bytes) (d : BadParam) (st : PState)
    (h401 : (server { method, uri, authorization := none, body := bodyBytes body }).err = false ∧
      (server { method, uri, authorization := none, body := bodyBytes body }).status = 401)
    (hlines : commaJoin (server { method, uri, authorization := none, body := bodyBytes body }).wwwAuth =
      commaCat (good ++ d.render :: more))
    (hclosed : ∀ p ∈ good ++ d.render :: more, scan false false p = some (false, false))
    (hgood : parseElems good {} = .ok st) (hd : d.OK) :
    exchange H algOf server user pass method uri body rnd =
      ([{ method, uri, authorization := none, body := bodyBytes body }], .failed .badChallenge) := by
  apply malformed_digest_is_error_e2e H server user pass method uri body rnd .badChallenge h401
  rw [hlines]
  unfold parseChallenge
  rw [splitList_commaCat _ (by simp) hclosed,
    parseElems_first_error good d.render more {} st .badChallenge hgood (bad_param_errors st d hd)]

/-! non-vacuity -/

-- `Digest realm="r", nonce="n", opaque="x"y, qop=auth`: an answerable challenge, then junk after a value
def exBad : BadParam := ⟨b!" ", b!"opaque", b!"=\"x\"y", []⟩

theorem exBad_ok : exBad.OK :=
  ⟨by decide, by decide, by decide, by decide, by decide,
   paramValue_junk_after_quote [] [] [(120, false)] b!"y" rfl rfl (by decide) (by decide)⟩

example : parseElems [b!"Digest realm=\"r\"", b!" nonce=\"n\""] {} =
    .ok { rev := [{ realm := b!"r", nonce := b!"n" }], cur := true, seen := some [b!"nonce", b!"realm"] } := by decide

example : commaCat ([b!"Digest realm=\"r\"", b!" nonce=\"n\""] ++ exBad.render :: [b!" qop=auth"]) =
    b!"Digest realm=\"r\", nonce=\"n\", opaque=\"x\"y, qop=auth" := by decide

example : ∀ p ∈ [b!"Digest realm=\"r\"", b!" nonce=\"n\""] ++ exBad.render :: [b!" qop=auth"],
    scan false false p = some (false, false) := by decide

-- the other three families, evaluated on the real text
example : parseChallenge algOf b!"Digest realm=\"r\", nonce=\"n" = .error .badChallenge ∧
    parseChallenge algOf b!"Digest realm=\"r\", nonce=" = .error .badChallenge ∧
    parseChallenge algOf b!"Digest realm=\"r\", nonce=\"n\", algorithm=MD5 qop=auth" = .error .badChallenge ∧
    parseChallenge algOf b!"Digest realm=\"r\", nonce=\"n\", realm=\"r\"" = .error .badChallenge ∧
    parseChallenge algOf b!"Digest realm=\"r\", nonce=\"n\"" = .ok { realm := b!"r", nonce := b!"n" } := by decide

end Req.Props.C20
