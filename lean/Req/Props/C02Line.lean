import Req.Lemmas.C02ReadLine
/-!
C02 round 5 — head lines of ANY length under every segmentation.

Round 4 proved the line primitive only for lines that fit the connection's read buffer
(`h1_head_lines_split_independent`).  Here the accumulation loop of
`textprotoReader.readLineSlice` is in the model (`Req.C02.Bufio.readLineSlice` over
`Bufio.readLine` = `bufio.Reader.ReadLine` = the closure `newTextprotoReader` installs when the
response header is dumped) and the statement has no size condition: a line longer than the
buffer is handed out in full-buffer pieces, a CR that lands on the last byte of a full buffer is
put back so that a CR LF straddling two fills is still recognised as the line end (seed
C02-r5-3 removes exactly that step from the dump-mode reader: line length 4095 + k·4096).

Tie: lane `h1line` (.) — the real `newTextprotoReader(...).ReadLine()` with and without
dumpers over a real `bufio.Reader` of sizes 16..4096 against `Bufio.readLinesAny`, line by line;
lane `h1longline` — the real client end to end, dump option matrix × read-buffer size × which
line of the head is long.
-/
namespace Req.C02
open Req.Proto

/-- `ReadLine()` on a line of any length ended by LF (a CR before it is removed): for EVERY
state of the connection reader (whatever is buffered, whatever segmentation follows), every
buffer size ≥ 2 (Go's minimum is 16): exactly the line, the reader exactly behind the LF. -/
theorem readLineSlice_any_length (b : Bufio) (l R : Bytes) (fuel : Nat) (hw : b.WF) (hf : b.Fits)
    (hcap : 2 ≤ b.cap) (hrem : b.rem = l ++ 10 :: R) (hno : (10 : UInt8) ∉ l) (hfuel : l.length < fuel) :
    ∃ b', b.readLineSlice fuel [] = ((some (stripCR l), none), b') ∧ b'.rem = R ∧ b'.WF ∧ b'.Fits ∧
      b'.cap = b.cap := by
  obtain ⟨b', h1, h2, h3, h4, h5, _⟩ := Bufio.readLineSlice_spec fuel [] l R b hw hf hcap hrem hno
    (by intro _; simp) hfuel
  exact ⟨b', by simpa using h1, h2, h3, h4, h5⟩

/-- The same for a CR LF line end: the content `l` (any bytes but LF, CRs included, any length —
also `cap - 1 + k·cap`, where the CR is the last byte of a full buffer) comes back unchanged. -/
theorem readLineSlice_crlf (b : Bufio) (l R : Bytes) (fuel : Nat) (hw : b.WF) (hf : b.Fits)
    (hcap : 2 ≤ b.cap) (hrem : b.rem = l ++ 13 :: 10 :: R) (hno : (10 : UInt8) ∉ l)
    (hfuel : l.length + 1 < fuel) :
    ∃ b', b.readLineSlice fuel [] = ((some l, none), b') ∧ b'.rem = R ∧ b'.WF ∧ b'.Fits ∧
      b'.cap = b.cap := by
  have hno' : (10 : UInt8) ∉ l ++ [13] := by
    intro h
    rcases List.mem_append.mp h with h | h
    · exact hno h
    · simp at h
  obtain ⟨b', h1, h2⟩ := readLineSlice_any_length b (l ++ [13]) R fuel hw hf hcap
    (by rw [hrem]; simp) hno' (by simpa using hfuel)
  refine ⟨b', ?_, h2⟩
  rw [h1]
  simp [stripCR]

/-- What an origin writes for a list of head lines. -/
def wireOfLines : List Bytes → Bytes
  | [] => []
  | l :: ls => l ++ 13 :: 10 :: wireOfLines ls

/-- **Head lines of any length, every segmentation.**  `n` calls of `ReadLine()` on a
connection that delivers `n` CR LF-terminated lines (status line, field lines, the blank line —
any content without LF, any lengths) followed by anything, from any state of the reader:
exactly those lines, and the reader stands exactly at what follows the head. -/
theorem h1_lines_any_length (fuel : Nat) : ∀ (lines : List Bytes) (after : Bytes) (b : Bufio),
    b.WF → b.Fits → 2 ≤ b.cap → b.rem = wireOfLines lines ++ after →
    (∀ l ∈ lines, (10 : UInt8) ∉ l ∧ l.length + 1 < fuel) →
    ∃ b', Bufio.readLinesAny lines.length fuel b = (lines, none, b') ∧ b'.rem = after ∧ b'.WF ∧ b'.Fits ∧
      b'.cap = b.cap
  | [], after, b, hw, hf, _, hrem, _ => ⟨b, rfl, by simpa [wireOfLines] using hrem, hw, hf, rfl⟩
  | l :: ls, after, b, hw, hf, hcap, hrem, hall => by
    have hl := hall l (by simp)
    obtain ⟨b1, h1, h2, h3, h4, h5⟩ := readLineSlice_crlf b l (wireOfLines ls ++ after) fuel hw hf hcap
      (by rw [hrem]; simp [wireOfLines]) hl.1 hl.2
    obtain ⟨b', g1, g2, g3, g4, g5⟩ := h1_lines_any_length fuel ls after b1 h3 h4 (by omega) h2
      (fun x hx => hall x (List.mem_cons_of_mem _ hx))
    refine ⟨b', ?_, g2, g3, g4, by rw [g5, h5]⟩
    simp only [List.length_cons, Bufio.readLinesAny, h1, g1]

/-- From a fresh connection under ANY segmentation of the whole stream (the form of round 4's
`h1_head_lines_split_independent`, without its "each line fits the buffer"). -/
theorem h1_head_lines_any_length_wire (cap fuel : Nat) (segs : List Bytes) (fin : NetEnd)
    (lines : List Bytes) (after : Bytes) (hcap : 2 ≤ cap)
    (hwire : segs.flatten = wireOfLines lines ++ after)
    (hall : ∀ l ∈ lines, (10 : UInt8) ∉ l ∧ l.length + 1 < fuel) :
    ∃ b', Bufio.readLinesAny lines.length fuel (Bufio.new cap ⟨segs, fin⟩) = (lines, none, b') ∧
      b'.rem = after := by
  obtain ⟨b', h1, h2, _⟩ := h1_lines_any_length fuel lines after (Bufio.new cap ⟨segs, fin⟩)
    (Bufio.new_wf _ _) (Bufio.new_fits _ _) hcap (by rw [Bufio.new_rem]; exact hwire) hall
  exact ⟨b', h1, h2⟩

/-! Non-vacuity, on the executable model with a 4-byte buffer: a line whose CR is the last byte
of a full buffer ("abc\r\n"), a longer one with a CR in the middle on a buffer edge, one-byte
segments. -/
example : (Bufio.readLinesAny 2 20 (Bufio.new 4 ⟨[[97, 98, 99, 13, 10, 100, 13, 10, 120]], .eof⟩)).1 =
    [[97, 98, 99], [100]] := by decide

example : (Bufio.readLinesAny 1 20 (Bufio.new 4 ⟨[[97], [98], [99], [13], [101, 102, 103, 13], [10], [120]], .eof⟩)).1 =
    [[97, 98, 99, 13, 101, 102, 103]] := by decide

example : ((Bufio.readLinesAny 1 20 (Bufio.new 4 ⟨[[97, 98, 99, 13, 10, 120]], .eof⟩)).2.2).rem = [120] := by decide

example : wireOfLines [[97, 98, 99], [100]] = [97, 98, 99, 13, 10, 100, 13, 10] := by decide

end Req.C02
