import Req.Lemmas.C18Final
import Req.Props.C18Pipeline
/-!
C18 — property theorems, part 4: multi-exchange calls. A call may consist of several exchanges:
one per attempt of the retry loop, plus the authorized re-send of the digest middleware
(`tag = 2·attempt`, resp. `2·attempt + 1`). Everything the caller can ask the returned response
— status / state predicates, result and error slots, cached body, `Err` — belongs to ONE
exchange, the one whose http response the value carries; after a digest re-send that is the
re-sent exchange, never the 401.

Quantification: ALL stacks, hence every combination of auto-read on/off (`autoRead`),
`SetOutput` (`save`, `outFails`), success target, request-level error target, client-level
common error type, custom state checker (`Http.custom`), response-body transformer (`Http.xf`),
unmarshalling failure (`jsonOK`/`xmlOK`), read failure, retries (bounded or not), wrappers and
middleware of every kind.
-/
namespace Req.Props.C18
open Req.Result Req.Pipeline

/-- **binding_belongs_to_final_exchange** — for the response `r` any call of the repaired code
returns, carrying the http response `h`:
(1) `h` is the script's answer to the exchange `r.tag` (provenance: the transport's answer in
attempt `r.tag / 2`, or the answer to a digest re-send of that attempt);
(2) a cached body is the body of that same exchange;
(3) whatever is bound in the result / error slots was selected, read and unmarshalled from `h`
(target supplied, state of `h`, `h` not a 204, `h` reads, transforms and unmarshals);
(4) when the call reports no error (and not merely because the `OnError` hook cleared one) the
slots are EXACTLY what `h` calls for.
(The state predicates are functions of `h` by definition: `stateOf h`.) -/
theorem binding_belongs_to_final_exchange (s : Stack) (r : Resp) (hr : callResp (run Fixes.all s) = some r)
    (h : Http) (hh : r.http = some h) :
    HttpOf s r.tag h ∧
    (r.bodyCached = true → r.bodyOf = r.tag) ∧
    (r.slots.result = true → SuccessRHS s h) ∧
    (r.slots.error = some .errorReq → ErrReqRHS s h) ∧
    (r.slots.error = some .errorCommon → ErrCommonRHS s h) ∧
    (r.err = none → s.hookAct ≠ .clear →
      (r.slots.result = true ↔ SuccessRHS s h) ∧
      (r.slots.error = some .errorReq ↔ ErrReqRHS s h) ∧
      (r.slots.error = some .errorCommon ↔ ErrCommonRHS s h)) := by
  obtain ⟨r0, hr0, hrr⟩ := callResp_callDo _ s r hr
  obtain ⟨k1, _, k3, k4, k5⟩ := afterHook_same s r0
  have hc : Coh s r := by rw [hrr]; exact (callDo_coh s r0 hr0).of_eq k1 k3 k4 k5
  obtain ⟨s1, s2⟩ := success_bound_call s r hr
  obtain ⟨e1, e2, _, e4⟩ := error_bound_call s r hr
  have ex : ∀ P : Http → Prop, (∃ h', r.http = some h' ∧ P h') ↔ P h := by
    intro P
    constructor
    · rintro ⟨h', hh', hp⟩; rw [hh] at hh'; cases hh'; exact hp
    · intro hp; exact ⟨h, hh, hp⟩
  refine ⟨hc.1 h hh, fun hb => hc.2 hb (by simp [hh]), ?_, ?_, ?_, ?_⟩
  · intro hres; exact (ex _).mp (s1 hres)
  · intro hres; exact (ex _).mp (e1 hres)
  · intro hres; exact (ex _).mp (e2 hres)
  · intro hne hcl
    obtain ⟨a, b⟩ := e4 hne hcl
    exact ⟨(s2 hne hcl).trans (ex _), a.trans (ex _), b.trans (ex _)⟩

/-- digest with auto-read off, an error target and a success target: 401 (error target bound,
body cached lazily) then 200 — the returned response carries exchange 1, its cached body and its
success result are those of exchange 1, the error result of the 401 is gone. -/
example : (callResp (run Fixes.all
      { successTarget := true, errorTarget := true, autoRead := false,
        transport := [.resp (exHttp 401 true)],
        reqResp := [[.digest true (.resp (exHttp 200 true))]] })).map
      (fun r => (r.tag, r.bodyCached, r.bodyOf, r.slots)) =
    some (1, true, 1, { result := true, error := none }) := by decide

/-- The same call on the code as found before /repo af6cf1c: the 401's body and error result
survive on a response that says 200. -/
example : (callResp (run Fixes.none
      { successTarget := true, errorTarget := true, autoRead := false,
        transport := [.resp (exHttp 401 true)],
        reqResp := [[.digest true (.resp (exHttp 200 true))]] })).map
      (fun r => (r.tag, r.bodyCached, r.bodyOf, r.slots)) =
    some (1, true, 0, { result := false, error := some .errorReq }) := by decide

theorem autoRead_keeps (s : Stack) (r : Resp) : (autoRead s r).1.http = r.http ∧ (autoRead s r).1.tag = r.tag := by
  unfold autoRead
  split
  · split
    · split <;> exact ⟨rfl, rfl⟩
    · exact ⟨rfl, rfl⟩
  · exact ⟨rfl, rfl⟩

/-- **digest_resend_is_final** — whenever the repaired digest middleware re-sends the request,
the response value afterwards carries the answer to THAT exchange (tag `2a + 1`) or — the
re-send failed — no http response at all: never the 401 again. -/
theorem digest_resend_is_final (s : Stack) (a : Nat) (ok : Bool) (re : TOut) (r r' : Resp)
    (hre : Ev.resend ∈ (digestStep Fixes.all s a ok re r).evs)
    (hr' : (digestStep Fixes.all s a ok re r).respO = some r') :
    r'.http = none ∨ (r'.tag = 2 * a + 1 ∧ ∃ h, re = .resp h ∧ r'.http = some h) := by
  by_cases he : r.err ≠ none
  · simp [digestStep, he, StepOut.evs] at hre
  · cases hh : r.http with
    | none => simp [digestStep, he, hh, Fixes.all, StepOut.evs] at hre
    | some h =>
      by_cases hs : h.status ≠ 401
      · simp [digestStep, he, hh, hs, StepOut.evs] at hre
      · by_cases hc : (!ok || s.unreplayable) = true
        · simp [digestStep, he, hh, hs, hc, StepOut.evs] at hre
        · have hd : digestStep Fixes.all s a ok re r = digestResend Fixes.all s a (forget Fixes.all r) re := by
            unfold digestStep
            rw [if_neg he]
            simp only [hh]
            rw [if_neg hs, if_neg hc]
          rw [hd] at hr'
          cases re with
          | fail e =>
            simp only [digestResend, StepOut.respO, Option.some.injEq] at hr'
            subst hr'; left; rfl
          | resp h2 =>
            right
            have hrb : digestResend Fixes.all s a (forget Fixes.all r) (.resp h2) =
                rebind s a ({ forget Fixes.all r with http := some h2, tag := 2 * a + 1 } : Resp) := by
              simp [digestResend, Fixes.all]
            rw [hrb] at hr'
            obtain ⟨k1, k2⟩ := autoRead_keeps s ({ forget Fixes.all r with http := some h2, tag := 2 * a + 1 } : Resp)
            unfold rebind at hr'
            simp only at hr'
            have fin : ∀ x : Resp, x.tag = (parseResp s (autoRead s ({ forget Fixes.all r with http := some h2, tag := 2 * a + 1 } : Resp)).1).resp.tag →
                x.http = (parseResp s (autoRead s ({ forget Fixes.all r with http := some h2, tag := 2 * a + 1 } : Resp)).1).resp.http →
                x.tag = 2 * a + 1 ∧ ∃ h, TOut.resp h2 = TOut.resp h ∧ x.http = some h := by
              intro x hx1 hx2
              simp only [parseResp] at hx1 hx2
              exact ⟨hx1.trans k2, h2, rfl, hx2.trans k1⟩
            split at hr'
            · simp only [StepOut.respO, Option.some.injEq] at hr'; subst hr'; exact fin _ rfl rfl
            · split at hr'
              · split at hr'
                · simp only [StepOut.respO, Option.some.injEq] at hr'; subst hr'; exact fin _ rfl rfl
                · simp only [StepOut.respO, Option.some.injEq] at hr'; subst hr'; exact fin _ rfl rfl
              · simp only [StepOut.respO, Option.some.injEq] at hr'; subst hr'; exact fin _ rfl rfl

/-! ### `SetOutput` / `SetOutputFile` across a digest re-send (fixes/C18-3) -/

/-- The challenge a digest middleware is going to answer is not what the caller asked to save:
`handleDownload` leaves it alone. -/
theorem challenge_is_not_saved (s : Stack) (a : Nat) (r : Resp) (h : Http) (hh : r.http = some h)
    (hfix : s.fixDigestSave = true) (hch : digestChallenged s a h = true) : download s a r = (r, []) := by
  unfold download; simp [hh, hfix, hch]

/-- **digest_resend_saves_final** — when the repaired digest middleware has re-sent the request
and goes on without error, the output holds the body of the re-sent exchange. -/
theorem digest_resend_saves_final (s : Stack) (a : Nat) (r1 r' : Resp) (evs : List Ev)
    (hfix : s.fixDigestSave = true) (hsave : s.save = true) (hh : r1.http ≠ none)
    (h : rebind s a r1 = .cont (some r') evs) : r'.savedOf = some r1.tag := by
  obtain ⟨k1, k2⟩ := autoRead_keeps s r1
  unfold rebind at h
  simp only at h
  split at h
  · cases h
  · rw [if_pos hfix] at h
    split at h
    · cases h
    · rename_i hse
      simp only [StepOut.cont.injEq, Option.some.injEq] at h
      obtain ⟨h, _⟩ := h
      subst h
      have hhttp : (parseResp s (autoRead s r1).1).resp.http = r1.http := by simp only [parseResp]; exact k1
      have htag : (parseResp s (autoRead s r1).1).resp.tag = r1.tag := by simp only [parseResp]; exact k2
      have hsv : saved s a (parseResp s (autoRead s r1).1).resp = true := by
        unfold saved
        rw [hse, hsave, hhttp]
        cases hx : r1.http with
        | none => exact absurd hx hh
        | some _ => rfl
      simp only [hsv, if_true, htag]

def exDigestSave (fixed : Bool) : Stack :=
  { save := true, fixDigestSave := fixed,
    transport := [.resp (exHttp 401 true)],
    reqResp := [[.digest true (.resp (exHttp 200 true))]] }

/-- repaired: the answer to the authorized request (exchange 1) is what gets saved … -/
example : (callResp (run Fixes.all (exDigestSave true))).map (fun r => (r.tag, r.err, r.savedOf)) = some (1, none, some 1) := by
  decide

/-- … as found, the output holds the 401 challenge (exchange 0) although the call returns the 200. -/
theorem as_found_digest_saves_challenge :
    (callResp (run Fixes.all (exDigestSave false))).map (fun r => (r.tag, r.err, r.savedOf)) = some (1, none, some 0) := by
  decide

end Req.Props.C18
