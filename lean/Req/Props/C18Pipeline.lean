import Req.Lemmas.C18Bind
/-!
C18 — property theorems, part 2: the call pipeline (`Req.Pipeline`, the model of
`Request.Do/do/Send/Get…/Must*`, `Client.roundTrip`, `WrapRoundTrip`, `handleDigestAuthFunc`).

`run fx s` is the caller-visible outcome of the scripted call `s` under code variant `fx`;
`(run fx s).atts` is the list of attempts, each with its invocation log. Theorems quantify
over ALL stacks: any number of middleware of each kind, any per-attempt behaviour of every
stage (succeed, return an error, set or clear `resp.Err`, short-circuit, drop or fabricate the
response), any transport outcome, any retry budget / retry verdicts, every entry point.
Unless a theorem says otherwise it holds for every code variant, in particular for the
repaired code `Fixes.all` that the model follows.
-/
namespace Req.Props.C18
open Req.Result Req.Pipeline

/-! ### order of invocation -/

/-- **request_mw_order** — in every attempt of every call the user request middleware run
first, in registration order; when one fails nothing else of the attempt happens (the attempt
returns that error, with the response object `do` held before); the built-in request
middleware block comes next, and only when all of them succeeded is anything else done:
wrappers entered, request built and sent (`send`), response middleware run. -/
theorem request_mw_order (fx : Fixes) (s : Stack) (i : Nat) (t : Att)
    (ht : (run fx s).atts[i]? = some t) :
    let n := s.udReq.length
    (∃ k e, k < n ∧ (s.udAt i)[k]? = some (.fail e) ∧ (∀ j, j < k → (s.udAt i)[j]? = some .ok) ∧
        t.evs = (List.range (k + 1)).map .udReq ++ [.raised e] ∧ t.returned = true ∧ t.err = some e) ∨
    ((∀ act ∈ s.udAt i, act = .ok) ∧
      ((∃ e, s.builtinAt i = .fail e ∧ t.evs = (List.range n).map .udReq ++ [.raised e] ∧
          t.returned = true ∧ t.err = some e) ∨
       (s.builtinAt i = .ok ∧ ∃ more, t.evs = (List.range n).map .udReq ++ .builtin :: more ∧
          ∀ e ∈ more, e.late = true))) := by
  rw [run_atts] at ht
  obtain ⟨prev, rfl⟩ := callDo_atts fx s i t ht
  have hlen : (s.udAt i).length = s.udReq.length := by simp [Stack.udAt]
  rcases attempt_request_phase fx s i prev with ⟨k, e, h1, h2, h3, h4, h5, h6, _⟩ | ⟨hok, ⟨e, hb, h4, h5, h6, _⟩ | ⟨hb, more, h, hl⟩⟩
  · left; exact ⟨k, e, by omega, h2, h3, h4, h5, h6⟩
  · right; exact ⟨hok, Or.inl ⟨e, hb, by rw [← hlen]; exact h4, h5, h6⟩⟩
  · right; exact ⟨hok, Or.inr ⟨hb, more, by rw [← hlen]; exact h, hl⟩⟩

/-- `late` events are exactly the ones that are neither request middleware nor the built-in
block: the order theorem really separates the two phases. -/
theorem late_not_request (e : Ev) (h : e.late = true) : e.isUdReq = false ∧ e ≠ .builtin := by
  cases e <;> simp_all [Ev.late, Ev.inRT, Ev.inReqLoop, Ev.isUdReq]

example : (run Fixes.all { udReq := [[.ok], [.fail (.stage 1)], [.ok]], transport := [.fail (.stage 2)] }).atts.map (·.evs)
    = [[.udReq 0, .udReq 1, .raised (.stage 1)]] := by decide

/-- **response_mw_every_attempt** — in every attempt of every call there is at most one
exchange, and when the request was sent EVERY client-level response middleware runs after it,
exactly once, in registration order (whatever the transport outcome and whatever the earlier
middleware did); and once the request middleware succeeded the request-level response
middleware run in registration order, the loop ending early only when one returns an error. -/
theorem response_mw_every_attempt (fx : Fixes) (s : Stack) (i : Nat) (t : Att)
    (ht : (run fx s).atts[i]? = some t) :
    (t.evs.filter Ev.isExch = [] ∨
      t.evs.filter Ev.isExch = .send :: (List.range s.clientResp.length).map .cResp) ∧
    (.builtin ∈ t.evs →
      ∃ j, j ≤ s.reqResp.length ∧ (s.reqResp ≠ [] → 0 < j) ∧
        t.evs.filter Ev.isRResp = (List.range j).map .rResp ∧
        (j < s.reqResp.length → t.returned = true ∨ t.crash = true)) := by
  rw [run_atts] at ht
  obtain ⟨prev, rfl⟩ := callDo_atts fx s i t ht
  exact ⟨attempt_exchange fx s i prev, attempt_rresp fx s i prev⟩

example : (run Fixes.all { clientResp := [[.ret (.stage 1)], [.nop]], reqResp := [[.mw .nop]],
                           transport := [.fail (.stage 2), .fail (.stage 3)], maxRetries := 1 }).atts.map (·.evs.filter (!·.isRaised))
    = [[.builtin, .send, .cResp 0, .cResp 1, .rResp 0], [.builtin, .send, .cResp 0, .cResp 1, .rResp 0]] := by decide

/-- The script ran out under an unbounded retry (model artefact, see `Stack.fuel`). -/
def isExhausted : Out → Bool
  | .exhausted _ => true
  | _ => false

/-- With `MaxRetries ≥ 0` the number of attempts never exceeds `MaxRetries + 1` … -/
theorem attempts_bound (fx : Fixes) (s : Stack) (hb : s.unbounded = false) :
    (run fx s).atts.length ≤ s.maxRetries + 1 := by
  rw [run_atts]; exact callDo_atts_length fx s hb

/-- … and the call always comes to an end; -/
theorem bounded_call_ends (fx : Fixes) (s : Stack) (hb : s.unbounded = false) :
    isExhausted (run fx s) = false := by
  have h := callDo_bounded_not_exhausted fx s hb
  unfold run
  simp only [h, Bool.false_eq_true, if_false]
  split
  · rfl
  · split
    · rfl
    · split
      · rfl
      · split <;> rfl

/-- with a negative `MaxRetries` nothing bounds the attempts but the script itself. -/
theorem attempts_le_script (fx : Fixes) (s : Stack) : (run fx s).atts.length ≤ s.fuelFor := by
  rw [run_atts]; exact callDo_atts_le_fuel fx s

example : (run Fixes.all { unbounded := true, fuel := 5, transport := [.fail (.stage 1), .fail (.stage 2), .fail .ctxCanceled] }).atts.length = 3 := by
  decide
example : isExhausted (run Fixes.all { unbounded := true, fuel := 4, transport := [] }) = true := by decide

/-! ### the error contract -/

/-- **pipeline_never_panics** — the repaired pipeline never dereferences a nil response: for
every stack, including wrapping round-trippers that return `(nil, err)` or `(nil, nil)` on any
attempt with any retry budget, the digest middleware on whatever comes out of the wrappers, and
request middleware failing on a retry. (`Must*` panicking with the call's error is the
documented contract of those helpers, a different outcome: `Out.mustPanic`.) -/
theorem pipeline_never_panics (s : Stack) : (run Fixes.all s).isCrash = false := by
  obtain ⟨hc, hr⟩ := callDo_some Fixes.all rfl rfl s
  unfold run
  simp only [hc, Bool.false_eq_true, if_false]
  split
  · rfl
  · rename_i hex
    obtain ⟨r, hr⟩ := Option.isSome_iff_exists.mp (hr (by simpa using hex))
    simp only [hr]
    split
    · rfl
    · split <;> rfl

/-- The code as found DOES panic (DESIGN section 5 row 6): a wrapper returning `(nil, err)` with
one retry allowed. -/
theorem as_found_nil_resp_retry_panics :
    (run Fixes.none { entry := .verb, wrappers := [[.shortNil (.stage 1)]], maxRetries := 1 }).isCrash = true := by
  decide

/-- … and without any retry when the nil response reaches the digest middleware. -/
theorem as_found_nil_resp_digest_panics :
    (run Fixes.none { wrappers := [[.shortNil (.stage 1)]],
                      reqResp := [[.digest true (.fail (.stage 2))]] }).isCrash = true := by
  decide

/-- The response a verb-style entry point hands back: the one `Do` returned, after the `OnError`
hook — which is handed the response and may rewrite `resp.Err` — if it fired. -/
def afterHook (s : Stack) (r : Resp) : Resp :=
  if s.entry ≠ .do_ ∧ (r.err.isSome && s.hook) = true then applyHook r s.hookAct else r

theorem afterHook_same (s : Stack) (r : Resp) :
    (afterHook s r).http = r.http ∧ (afterHook s r).slots = r.slots ∧ (afterHook s r).tag = r.tag ∧
    (afterHook s r).bodyCached = r.bodyCached ∧ (afterHook s r).bodyOf = r.bodyOf := by
  unfold afterHook
  split
  · exact applyHook_same r _
  · exact ⟨rfl, rfl, rfl, rfl, rfl⟩

/-- What `run` answers once `do` has returned `r0`. -/
theorem run_shape (fx : Fixes) (s : Stack) (r0 : Resp) (hc : (callDo fx s).crash = false)
    (hx : (callDo fx s).exhausted = false) (hr : (callDo fx s).resp = some r0) :
    run fx s =
      match s.entry, (afterHook s r0).err with
      | .do_, _ => .ret (some r0) r0.err 0 (callDo fx s).atts
      | .must, some e => .mustPanic e (if (r0.err.isSome && s.hook) = true then 1 else 0) (callDo fx s).atts
      | _, _ => .ret (some (afterHook s r0)) (afterHook s r0).err
                  (if (r0.err.isSome && s.hook) = true then 1 else 0) (callDo fx s).atts := by
  unfold run afterHook
  simp only [hc, hx, hr, Bool.false_eq_true, if_false]
  cases he : s.entry <;> simp <;>
    (try (generalize (if r0.err.isSome = true ∧ s.hook = true then applyHook r0 s.hookAct else r0) = x
          cases x.err <;> rfl))

/-- **resp_nonnil_and_err_agree** — every call that returns hands back a non-nil response, and
the error it returns is the one recorded in that response AT RETURN — also when the `OnError`
hook or a retry hook rewrote or cleared `resp.Err` (`Do` returns no error value: the model
reports `resp.Err`); a `Must*` call panics exactly with the error recorded after the hook ran, and
returns normally when the hook cleared it. Holds for every variant that has the nil guard. -/
theorem resp_nonnil_and_err_agree (s : Stack) :
    match run Fixes.all s with
    | .ret resp err _ _ => ∃ r, resp = some r ∧ err = r.err ∧ (s.entry = .must → err = none)
    | .mustPanic e _ _ => s.entry = .must ∧ ∃ r0, (callDo Fixes.all s).resp = some r0 ∧ (afterHook s r0).err = some e
    | .crash _ => False
    | .exhausted _ => s.unbounded = true := by
  obtain ⟨hc, hr⟩ := callDo_some Fixes.all rfl rfl s
  cases hex : (callDo Fixes.all s).exhausted
  · obtain ⟨r0, hr0⟩ := Option.isSome_iff_exists.mp (hr hex)
    rw [run_shape Fixes.all s r0 hc hex hr0]
    cases he : s.entry <;> simp only []
    · exact ⟨r0, rfl, rfl, by simp⟩
    · exact ⟨_, rfl, rfl, by simp⟩
    · exact ⟨_, rfl, rfl, by simp⟩
    · cases hre : (afterHook s r0).err with
      | none => exact ⟨_, rfl, by simp [hre], by simp⟩
      | some e => exact ⟨trivial, r0, hr0, hre⟩
  · unfold run
    simp only [hc, hex, Bool.false_eq_true, if_false, if_true]
    cases hb : s.unbounded
    · have := callDo_bounded_not_exhausted Fixes.all s hb
      rw [this] at hex; cases hex
    · rfl

/-- **recorded_equals_returned_after_hooks** — for EVERY behaviour of the hooks (the `OnError`
hook replacing `resp.Err` by another error, clearing it, or leaving it; retry hooks doing the
same on any attempt) and every other stage, entry point and loop script: the error a call
returns is the error recorded in the response it returns, and a `Must*` call panics iff an error
is recorded after the hook ran, with exactly that error. -/
theorem recorded_equals_returned_after_hooks (s : Stack) (h : HookAct) (rh : List HookAct) :
    match run Fixes.all { s with hookAct := h, retryHooks := rh } with
    | .ret resp err _ _ => ∃ r, resp = some r ∧ err = r.err
    | .mustPanic e _ _ => ∃ r0, (callDo Fixes.all { s with hookAct := h, retryHooks := rh }).resp = some r0 ∧
        (afterHook { s with hookAct := h, retryHooks := rh } r0).err = some e
    | .crash _ => False
    | .exhausted _ => s.unbounded = true := by
  have := resp_nonnil_and_err_agree { s with hookAct := h, retryHooks := rh }
  revert this
  cases run Fixes.all { s with hookAct := h, retryHooks := rh } with
  | ret resp err hooks atts => rintro ⟨r, h1, h2, _⟩; exact ⟨r, h1, h2⟩
  | mustPanic e hooks atts => rintro ⟨_, r0, h1, h2⟩; exact ⟨r0, h1, h2⟩
  | crash atts => exact id
  | exhausted atts => exact id

/-- the hook translates the error: the caller gets the translated one, recorded and returned -/
example : run Fixes.all { entry := .verb, hook := true, hookAct := .set (.stage 9), transport := [.fail (.stage 1)] }
    matches .ret (some { err := some (.stage 9), .. }) (some (.stage 9)) 1 _ := by decide
/-- the hook recovers: no error returned, none recorded, `Must*` does not panic -/
example : run Fixes.all { entry := .must, hook := true, hookAct := .clear, transport := [.fail (.stage 1)] }
    matches .ret (some { err := none, .. }) none 1 _ := by decide

/-- The same for a call whose attempt loop is unbounded (`SetRetryCount(-1)`), whose context is
cancelled mid-flight or done while waiting: every outcome script that lets the call end. -/
example : run Fixes.all { entry := .verb, hook := true, unbounded := true, fuel := 9,
                          transport := [.fail (.stage 1), .fail (.stage 2)], ctxDone := [false, true] }
    matches .ret (some { err := some .ctxDone, .. }) (some .ctxDone) 1 [_, _] := by decide

/-- **onError_once** — the error hook runs exactly once when a verb-style call (`Send`, `Get`,
`Post`, … and the `Must*` helpers built on them) ends in error and a hook is installed, and
never otherwise: not for `Do`, not for a call without error, not once per attempt or per
failing stage. Holds for every code variant. -/
theorem onError_once (fx : Fixes) (s : Stack) :
    let doErr := (callDo fx s).resp.bind (·.err)      -- the error `Do` ended with, before any hook
    match run fx s with
    | .ret _ _ hooks _ => hooks = if s.entry ≠ .do_ ∧ s.hook = true ∧ doErr ≠ none then 1 else 0
    | .mustPanic _ hooks _ => hooks = if s.hook = true ∧ doErr ≠ none then 1 else 0
    | .crash _ => True
    | .exhausted _ => True := by
  intro doErr
  cases hc : (callDo fx s).crash
  · cases hx : (callDo fx s).exhausted
    · cases hr : (callDo fx s).resp with
      | none => unfold run; simp [hc, hx, hr]
      | some r0 =>
        rw [run_shape fx s r0 hc hx hr]
        have hd : doErr = r0.err := by simp [doErr, hr]
        rw [hd]
        cases he : s.entry <;> cases hh : s.hook <;> cases hre : r0.err <;> simp <;>
          (cases (afterHook s r0).err <;> simp)
    · unfold run; simp [hc, hx]
  · unfold run; simp [hc]

example : run Fixes.all { entry := .verb, hook := true, maxRetries := 2, clientResp := [[.ret (.stage 1), .ret (.stage 1), .ret (.stage 1)]],
                          transport := [.fail (.stage 2)] } matches .ret _ (some (.stage 1)) 1 [_, _, _] := by decide
example : run Fixes.all { entry := .do_, hook := true, transport := [.fail (.stage 2)] } matches .ret _ (some (.stage 2)) 0 _ := by decide

/-- The error the caller sees: returned by `Send`/verbs, read from `resp.Err` after `Do`, or the
panic value of `Must*`. -/
def callErr : Out → Option Err
  | .ret _ err _ _ => err
  | .mustPanic e _ _ => some e
  | .crash _ => none
  | .exhausted _ => none

theorem run_callErr (s : Stack) (hex : (callDo Fixes.all s).exhausted = false) :
    ∃ r, (callDo Fixes.all s).resp = some r ∧ callErr (run Fixes.all s) = (afterHook s r).err := by
  obtain ⟨hc, hr⟩ := callDo_some Fixes.all rfl rfl s
  obtain ⟨r, hr⟩ := Option.isSome_iff_exists.mp (hr hex)
  refine ⟨r, hr, ?_⟩
  rw [run_shape Fixes.all s r hc hex hr]
  cases he : s.entry <;> simp only [callErr]
  · simp [afterHook, he]
  · cases (afterHook s r).err <;> rfl

theorem afterHook_nop (s : Stack) (r : Resp) (h : s.hookAct = .nop) : afterHook s r = r := by
  unfold afterHook; split <;> simp [h, applyHook]

theorem run_exhausted (fx : Fixes) (s : Stack) : isExhausted (run fx s) = false → (callDo fx s).crash = false →
    (callDo fx s).exhausted = false := by
  intro h hc
  unfold run at h
  simp only [hc, Bool.false_eq_true, if_false] at h
  cases hx : (callDo fx s).exhausted
  · rfl
  · simp [hx, isExhausted] at h

/-- **stage_error_is_seen** — for every stack in which no stage deliberately suppresses an
error (no middleware clears `resp.Err`, no wrapper swallows the inner error or answers
`(nil, nil)`): (1) if ANY stage of the final attempt raised an error — a request middleware, the
built-in block, GetBody, the transport, reading or unmarshalling the body, a client-level or
request-level response middleware returning an error or setting `resp.Err`, a wrapper, the
digest middleware — the caller sees an error; (2) the error the caller sees is one that a stage
raised during the call (or the builder / unreplayable-body error of `Do`, before any attempt).
Which one wins when several stages fail is stated by the `precedence_*` theorems. -/
theorem stage_error_is_seen (s : Stack) (hl : s.Loud) (hend : isExhausted (run Fixes.all s) = false)
    (hh : s.hookAct = .nop) (hrh : ∀ a, s.retryHookAt a = .nop) :
    (∀ tl, (run Fixes.all s).atts.getLast? = some tl → raisedOf tl.evs ≠ [] →
        callErr (run Fixes.all s) ≠ none) ∧
    (∀ e, callErr (run Fixes.all s) = some e →
        e ∈ allRaised (run Fixes.all s).atts ∨ e = .ctxDone ∨
        ((run Fixes.all s).atts = [] ∧ (e = .builder ∨ e = .unreplayable))) := by
  have hex := run_exhausted Fixes.all s hend (callDo_some Fixes.all rfl rfl s).1
  obtain ⟨r, hr, hce⟩ := run_callErr s hex
  rw [afterHook_nop s r hh] at hce
  rw [run_atts, hce]
  rcases callDo_cases Fixes.all s with ⟨e0, he0, hcd⟩ | hcd
  · rw [hcd] at hr ⊢
    simp only [Option.some.injEq] at hr; subst hr
    refine ⟨by simp, ?_⟩
    intro e he
    simp only [Option.some.injEq] at he; subst he
    exact Or.inr (Or.inr ⟨rfl, he0⟩)
  · rw [hcd] at hr hex ⊢
    obtain ⟨r', tl, h1, h2, h3, h4⟩ := doLoop_seen s hl hrh s.fuelFor 0 none hex
    rw [h1] at hr; cases hr
    refine ⟨?_, ?_⟩
    · intro tl' htl; rw [h2] at htl; cases htl; exact h3
    · intro e he
      rcases h4 e he with h | h | h
      · exact Or.inl h
      · simp at h
      · exact Or.inr (Or.inl h)

/-- Corollary: when every error raised during the call is the same `e` and the final attempt
raised it, the caller sees exactly `e`. -/
theorem single_error_is_the_error (s : Stack) (hl : s.Loud) (hend : isExhausted (run Fixes.all s) = false)
    (hh : s.hookAct = .nop) (hrh : ∀ a, s.retryHookAt a = .nop)
    (hctx : ∀ a, s.ctxDoneAt a = false) (e : Err) (tl : Att)
    (hlast : (run Fixes.all s).atts.getLast? = some tl) (hraised : raisedOf tl.evs ≠ [])
    (hsame : ∀ e' ∈ allRaised (run Fixes.all s).atts, e' = e) :
    callErr (run Fixes.all s) = some e ∨ callErr (run Fixes.all s) = some .ctxDone := by
  obtain ⟨h1, h2⟩ := stage_error_is_seen s hl hend hh hrh
  have hne := h1 tl hlast hraised
  cases hc : callErr (run Fixes.all s) with
  | none => exact absurd hc hne
  | some e' =>
    rcases h2 e' hc with h | h | ⟨h, _⟩
    · left; rw [hsame e' h]
    · right; rw [h]
    · rw [h] at hlast; simp at hlast

example : callErr (run Fixes.all { udReq := [[.ok, .fail (.stage 7)]], transport := [.fail (.stage 7)], maxRetries := 1 })
    = some (.stage 7) := by decide

/-- a non-trivial stack satisfying the hypothesis of `stage_error_is_seen` -/
def exLoud : Stack :=
  { udReq := [[.ok], [.ok, .fail (.stage 2)]],
    wrappers := [[.postErr (.stage 3)], [.pass, .shortNil (.stage 4)]],
    transport := [.resp { status := 500, ct := [], custom := none, readOK := true, jsonOK := false, xmlOK := false }, .fail (.stage 5)],
    clientResp := [[.set (.stage 6)]],
    reqResp := [[.mw (.ret (.stage 7))], [.digest true (.fail (.stage 8))]],
    errorTarget := true,
    maxRetries := 1 }

example : exLoud.Loud := by unfold Stack.Loud; decide
example : callErr (run Fixes.all exLoud) = some (.stage 6) := by decide

/-- Without the repair of request.go `do` (DESIGN section 5 row 4) an error IS lost: a wrapper
returns `(resp, err)` without recording `err`, a request-level middleware returns nil. -/
theorem as_found_error_lost :
    callErr (run Fixes.none
      { entry := .verb,
        wrappers := [[.postErr (.stage 1)]],
        transport := [.resp { status := 200, ct := [], custom := none, readOK := true, jsonOK := true, xmlOK := true }],
        reqResp := [[.mw .nop]] }) = none := by decide

/-! ### the precedence the code implements when several stages fail -/

/-- The error a client-level response middleware leaves in `resp.Err`. -/
def clientActErr (cur : Option Err) : RespAct → Option Err
  | .nop => cur
  | .ret e => some e
  | .set e => some e
  | .clear => none

/-- **precedence (client loop)** — every client-level response middleware runs and the LAST one
that returns an error (or assigns `resp.Err`) decides, also over a transport or unmarshalling
error recorded before. -/
theorem precedence_client_loop_last_wins (acts : List RespAct) :
    ∀ i r, (clientLoop i acts r).1.err = acts.foldl clientActErr r.err := by
  induction acts with
  | nil => intro i r; rfl
  | cons act rest ih =>
    intro i r
    simp only [clientLoop, List.foldl_cons]
    rw [ih]
    cases act <;> rfl

/-- **precedence (request-level loop)** — the first request-level response middleware that
returns an error ends the attempt; the caller sees the error ALREADY RECORDED in `resp.Err`
(transport, unmarshalling, client-level middleware, wrapper) if there is one, else the
middleware's. -/
theorem precedence_recorded_over_returned (fx : Fixes) (s : Stack) (a i : Nat) (e : Err) (rest : List RAct)
    (r : Resp) (err : Option Err) :
    (reqRespLoop fx s a i (.mw (.ret e) :: rest) (some r) err).seen = orE r.err (some e) := by
  simp [reqRespLoop, stageStep, Att.seen]

/-- **precedence (wrappers)** — a wrapper that returns its own error without recording it loses
against an error the inner round trip recorded in the response it passes on. -/
theorem precedence_recorded_over_wrapper (a i : Nat) (core : RT) (e : Err) (rest : List (Nat × WAct)) :
    (runWrappers a core ((i, .postErr e) :: rest)).carried =
      orE ((runWrappers a core rest).resp.bind (·.err)) (some e) := by
  simp [runWrappers, RT.carried]

/-- **precedence (request middleware on a retry)** — a request middleware failing on a retry
returns the response of the previous attempt; the caller sees the error that response already
records, if any, else the middleware's error. -/
theorem precedence_previous_over_request_mw (fx : Fixes) (s : Stack) (a : Nat) (prev : Option Resp) (k : Nat) (e : Err)
    (hk : (s.udAt a)[k]? = some (.fail e)) (hbefore : ∀ j, j < k → (s.udAt a)[j]? = some .ok) :
    (attempt fx s a prev).seen = orE (prev.bind (·.err)) (some e) := by
  rcases attempt_request_phase fx s a prev with ⟨k', e', hk', h2, h3, _, _, h6, h7, _⟩ | ⟨hok, _⟩
  · have : k' = k := by
      rcases Nat.lt_trichotomy k' k with h | h | h
      · have := hbefore k' h; rw [h2] at this; cases this
      · exact h
      · have := h3 k h; rw [hk] at this; cases this
    subst this
    rw [h2] at hk; cases hk
    simp [Att.seen, h6, h7]
  · have := hok _ (List.mem_of_getElem? hk); cases this

/-! ### result binding as the caller sees it -/

/-- The response object handed to the caller. -/
def callResp : Out → Option Resp
  | .ret r _ _ _ => r
  | _ => none

theorem download_off (s : Stack) (a : Nat) (r : Resp) (h : s.save = false) : download s a r = (r, []) := by
  have h1 : saveErr s a r = none := by unfold saveErr; split <;> simp [h]
  have h2 : saved s a r = false := by simp [saved, h]
  unfold download
  split
  · rfl
  · split
    · rfl
    · rw [h1, h2]; simp

theorem callResp_callDo (fx : Fixes) (s : Stack) (r : Resp) (h : callResp (run fx s) = some r) :
    ∃ r0, (callDo fx s).resp = some r0 ∧ r = afterHook s r0 := by
  cases hc : (callDo fx s).crash
  · cases hx : (callDo fx s).exhausted
    · cases hr : (callDo fx s).resp with
      | none => unfold run at h; simp [hc, hx, hr, callResp] at h
      | some r0 =>
        rw [run_shape fx s r0 hc hx hr] at h
        refine ⟨r0, rfl, ?_⟩
        cases he : s.entry <;> simp only [he] at h
        · simp only [callResp, Option.some.injEq] at h; rw [← h]; simp [afterHook, he]
        · simp only [callResp, Option.some.injEq] at h; exact h.symm
        · simp only [callResp, Option.some.injEq] at h; exact h.symm
        · cases hre : (afterHook s r0).err with
          | none => simp only [hre, callResp, Option.some.injEq] at h; exact h.symm
          | some e => simp [hre, callResp] at h
    · unfold run at h; simp [hc, hx, callResp] at h
  · unfold run at h; simp [hc, callResp] at h

/-- The hooked response reports no error although the hook did not clear one: `Do` reported none. -/
theorem afterHook_err_none (s : Stack) (r0 : Resp) (h : (afterHook s r0).err = none) (hcl : s.hookAct ≠ .clear) :
    r0.err = none := by
  unfold afterHook at h
  split at h
  · cases ha : s.hookAct with
    | nop => rw [ha] at h; exact h
    | set e => rw [ha] at h; simp [applyHook] at h
    | clear => exact absurd ha hcl
  · exact h

/-- **success_bound_iff (call level)** — on the response any call returns, for every stack: if
the success result is populated then a target was supplied and the http response the caller
holds is in the success state, is not a 204, reads and unmarshals; and whenever the call
reports no error the converse holds too. -/
theorem success_bound_call (s : Stack) (r : Resp) (hr : callResp (run Fixes.all s) = some r) :
    (r.slots.result = true → ∃ h, r.http = some h ∧ SuccessRHS s h) ∧
    (r.err = none → s.hookAct ≠ .clear → (r.slots.result = true ↔ ∃ h, r.http = some h ∧ SuccessRHS s h)) := by
  obtain ⟨r0, hr0, rfl⟩ := callResp_callDo _ s r hr
  obtain ⟨k1, k2, _⟩ := afterHook_same s r0
  rw [k1, k2]
  have hf := callDo_final s r0 hr0
  have sound : Agrees s r0 → (r0.slots.result = true ↔ ∃ h, r0.http = some h ∧ SuccessRHS s h) := by
    intro ha
    unfold Agrees at ha
    rcases hh : r0.http with _ | h
    · rw [hh] at ha; simp [ha]
    · rw [hh] at ha; simp [ha.1]
  refine ⟨?_, ?_⟩
  · rcases hf with ha | ⟨h1, _⟩
    · exact (sound ha).mp
    · intro h; rw [h1] at h; cases h
  · intro he hcl
    have he0 := afterHook_err_none s r0 he hcl
    rcases hf with ha | ⟨_, h2⟩
    · exact sound ha
    · exact absurd he0 h2

/-- **error_bound_iff (call level)** — likewise for the error result: the request-level target
when one was supplied, an object of the client-level common error type only when none was. -/
theorem error_bound_call (s : Stack) (r : Resp) (hr : callResp (run Fixes.all s) = some r) :
    (r.slots.error = some .errorReq → ∃ h, r.http = some h ∧ ErrReqRHS s h) ∧
    (r.slots.error = some .errorCommon → ∃ h, r.http = some h ∧ ErrCommonRHS s h) ∧
    r.slots.error ≠ some .success ∧
    (r.err = none → s.hookAct ≠ .clear →
      (r.slots.error = some .errorReq ↔ ∃ h, r.http = some h ∧ ErrReqRHS s h) ∧
      (r.slots.error = some .errorCommon ↔ ∃ h, r.http = some h ∧ ErrCommonRHS s h)) := by
  obtain ⟨r0, hr0, rfl⟩ := callResp_callDo _ s r hr
  obtain ⟨k1, k2, _⟩ := afterHook_same s r0
  rw [k1, k2]
  have hf := callDo_final s r0 hr0
  have sound : Agrees s r0 →
      (r0.slots.error = some .errorReq ↔ ∃ h, r0.http = some h ∧ ErrReqRHS s h) ∧
      (r0.slots.error = some .errorCommon ↔ ∃ h, r0.http = some h ∧ ErrCommonRHS s h) ∧
      r0.slots.error ≠ some .success := by
    intro ha
    unfold Agrees at ha
    rcases hh : r0.http with _ | h
    · rw [hh] at ha; simp [ha]
    · rw [hh] at ha; simp [ha.2.1, ha.2.2.1, ha.2.2.2]
  rcases hf with ha | ⟨h1, h2⟩
  · obtain ⟨a, b, c⟩ := sound ha
    exact ⟨a.mp, b.mp, c, fun _ _ => ⟨a, b⟩⟩
  · refine ⟨by simp [h1], by simp [h1], by simp [h1], fun he hcl => absurd (afterHook_err_none s r0 he hcl) h2⟩

/-- **never_both (call level)** — no call ever returns a response with both the success result
and the error result populated. -/
theorem never_both_call (s : Stack) (r : Resp) (hr : callResp (run Fixes.all s) = some r) :
    ¬ (r.slots.result = true ∧ r.slots.error ≠ none) := by
  intro ⟨h1, h2⟩
  obtain ⟨h, hh, hs⟩ := (success_bound_call s r hr).1 h1
  obtain ⟨e1, e2, e3, _⟩ := error_bound_call s r hr
  rcases hse : r.slots.error with _ | t
  · exact h2 hse
  · cases t
    · exact e3 hse
    · obtain ⟨h', hh', he⟩ := e1 hse
      rw [hh] at hh'; cases hh'
      have := hs.2.1; rw [he.2.1] at this; cases this
    · obtain ⟨h', hh', he⟩ := e2 hse
      rw [hh] at hh'; cases hh'
      have := hs.2.1; rw [he.2.2.1] at this; cases this

def exHttp (status : Int) (jsonOK : Bool) : Http :=
  { status := status, ct := [], custom := none, readOK := true, jsonOK := jsonOK, xmlOK := false }

/-- digest: 401 then 200, success and error targets supplied -/
def exDigest : Stack :=
  { successTarget := true,
    errorTarget := true,
    transport := [.resp (exHttp 401 true)],
    reqResp := [[.digest true (.resp (exHttp 200 true))]] }

example : (callResp (run Fixes.all exDigest)).map (fun r => (r.tag, r.slots)) = some (1, { result := true, error := none }) := by
  decide

/-- The digest middleware as found returns the final 200 (exchange tag 1, success state) with the
SUCCESS result empty and the ERROR result bound from the 401 — `success_bound_call` fails for
the code as found (`fixes/C18-1-digest-rebind.patch`). -/
theorem as_found_digest_stale_binding :
    (callResp (run Fixes.none exDigest)).map (fun r => (r.tag, r.err, r.slots)) =
      some (1, none, { result := false, error := some .errorReq }) := by
  decide

theorem selectTarget_congr (i j : BindIn) (h1 : i.http = j.http) (h2 : i.successTarget = j.successTarget)
    (h3 : i.errorTarget = j.errorTarget) (h4 : i.commonErr = j.commonErr) : selectTarget i = selectTarget j := by
  unfold selectTarget; rw [h1, h2, h3, h4]

/-- The target `parseResponseBody` selects for an http response `h` under the targets of `s`. -/
def targetFor (s : Stack) (h : Http) : Option Target :=
  selectTarget (bindIn s { origin := .synth, http := some h })

/-- **unmarshal_failure_surfaces (round trip)** — on any attempt of any stack: when the
transport answers with a response for which a target is selected, whose body reads but does
not unmarshal, `Client.roundTrip` returns the unmarshalling error, records it in `resp.Err` and
binds nothing — provided no later client-level middleware overrides it (last error wins, see
`precedence_client_loop_last_wins`). By `stage_error_is_seen` the caller then sees an error. -/
theorem unmarshal_failure_surfaces_roundtrip (s : Stack) (a : Nat) (h : Http) (t : Target)
    (hg : s.getBodyAt a = false) (ht : s.transportAt a = .resp h) (hsel : targetFor s h = some t)
    (hread : h.bodyOK = true) (hbad : codecOK h = false) (hquiet : ∀ m ∈ s.clientAt a, m = .nop)
    (hsave : s.save = false) :
    (clientRoundTrip s a).err = some .unmarshal ∧
    ∃ r, (clientRoundTrip s a).resp = some r ∧ r.err = some .unmarshal ∧ r.slots = {} ∧
      .raised .unmarshal ∈ (clientRoundTrip s a).evs := by
  have hex : exchange s a = ({ origin := .roundTrip a, http := some h, tag := 2 * a }, []) := by
    unfold exchange; rw [ht]
  have hfold : ∀ cur, (s.clientAt a).foldl clientActErr cur = cur := by
    intro cur
    generalize s.clientAt a = l at hquiet
    induction l generalizing cur with
    | nil => rfl
    | cons m rest ih =>
      have : m = .nop := hquiet m (by simp)
      subst this
      exact ih _ (fun m hm => hquiet m (by simp [hm]))
  -- the response after the auto-read block
  obtain ⟨a1, a2, a3⟩ := autoRead_ready s { origin := .roundTrip a, http := some h, tag := 2 * a } h rfl rfl rfl
  generalize hr' : (autoRead s { origin := .roundTrip a, http := some h, tag := 2 * a }).1 = r' at a1 a2 a3
  have hready := a3.mpr hread
  have hsel' : selectTarget (bindIn s r') = some t := by
    rw [← hsel]; unfold targetFor
    exact selectTarget_congr _ _ (by simp [bindIn, a1]) rfl rfl rfl
  obtain ⟨u1, u2⟩ := unmarshal_failure_surfaces (bindIn s r') h t (by simp [bindIn, a1]) hsel' hready.1 hready.2 hbad
  have hslots : (parseBody (bindIn s r')).slots = {} := by rw [u2]; simp [bindIn, a2]
  unfold clientRoundTrip
  simp only [hg, Bool.false_eq_true, if_false, hex, hr']
  have hret : (parseResp s r').ret = some .unmarshal := u1
  simp only [hret, download_off s a _ hsave, List.append_nil]
  obtain ⟨c1, c2⟩ := clientLoop_same (s.clientAt a) 0 ({ (parseResp s r').resp with err := some .unmarshal } : Resp)
  have c3 := precedence_client_loop_last_wins (s.clientAt a) 0 ({ (parseResp s r').resp with err := some .unmarshal } : Resp)
  rw [hfold] at c3
  refine ⟨c3, _, rfl, c3, ?_, ?_⟩
  · rw [c2]; exact hslots
  · refine List.mem_append_left _ (List.mem_append_right _ ?_)
    unfold parseResp
    simp only [List.mem_append]
    right
    have : (bindIn s r').respErr = none := hready.1
    simp only [bindIn] at this
    rw [u1, this]; simp [newErrEv]

end Req.Props.C18
