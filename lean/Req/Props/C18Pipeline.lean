import Req.Lemmas.C18Order
/-!
C18 — property theorems, part 2: the call pipeline (`Req.Pipeline`, the model of
`Request.Do/do/Send/Get…/Must*`, `Client.roundTrip`, `WrapRoundTrip`, `handleDigestAuthFunc`).

`run fx s` is the caller-visible outcome of the scripted call `s` under code variant `fx`;
`(run fx s).atts` is the list of attempts, each with its invocation log. Theorems quantify
over ALL stacks: any number of middleware of each kind, any per-attempt behaviour of every
stage (succeed, return an error, set or clear `resp.Err`, short-circuit, drop or fabricate the
response), any transport outcome, any retry budget / retry verdicts, every entry point.
Unless a theorem says otherwise it holds for every code variant, in particular for the
repaired code `Fixes.all` that the model follows.
-/
namespace Req.Props.C18
open Req.Result Req.Pipeline

/-! ### order of invocation -/

/-- **request_mw_order** — in every attempt of every call the user request middleware run
first, in registration order; when one fails nothing else of the attempt happens (the attempt
returns that error, with the response object `do` held before); the built-in request
middleware block comes next, and only when all of them succeeded is anything else done:
wrappers entered, request built and sent (`send`), response middleware run. -/
theorem request_mw_order (fx : Fixes) (s : Stack) (i : Nat) (t : Att)
    (ht : (run fx s).atts[i]? = some t) :
    let n := s.udReq.length
    (∃ k e, k < n ∧ (s.udAt i)[k]? = some (.fail e) ∧ (∀ j, j < k → (s.udAt i)[j]? = some .ok) ∧
        t.evs = (List.range (k + 1)).map .udReq ++ [.raised e] ∧ t.returned = true ∧ t.err = some e) ∨
    ((∀ act ∈ s.udAt i, act = .ok) ∧
      ((∃ e, s.builtinAt i = .fail e ∧ t.evs = (List.range n).map .udReq ++ [.raised e] ∧
          t.returned = true ∧ t.err = some e) ∨
       (s.builtinAt i = .ok ∧ ∃ more, t.evs = (List.range n).map .udReq ++ .builtin :: more ∧
          ∀ e ∈ more, e.late = true))) := by
  rw [run_atts] at ht
  obtain ⟨prev, rfl⟩ := callDo_atts fx s i t ht
  have hlen : (s.udAt i).length = s.udReq.length := by simp [Stack.udAt]
  rcases attempt_request_phase fx s i prev with ⟨k, e, h1, h2, h3, h4, h5, h6, _⟩ | ⟨hok, ⟨e, hb, h4, h5, h6, _⟩ | ⟨hb, more, h, hl⟩⟩
  · left; exact ⟨k, e, by omega, h2, h3, h4, h5, h6⟩
  · right; exact ⟨hok, Or.inl ⟨e, hb, by rw [← hlen]; exact h4, h5, h6⟩⟩
  · right; exact ⟨hok, Or.inr ⟨hb, more, by rw [← hlen]; exact h, hl⟩⟩

/-- `late` events are exactly the ones that are neither request middleware nor the built-in
block: the order theorem really separates the two phases. -/
theorem late_not_request (e : Ev) (h : e.late = true) : e.isUdReq = false ∧ e ≠ .builtin := by
  cases e <;> simp_all [Ev.late, Ev.inRT, Ev.inReqLoop, Ev.isUdReq]

example : (run Fixes.all { udReq := [[.ok], [.fail (.stage 1)], [.ok]], transport := [.fail (.stage 2)] }).atts.map (·.evs)
    = [[.udReq 0, .udReq 1, .raised (.stage 1)]] := by decide

/-- **response_mw_every_attempt** — in every attempt of every call there is at most one
exchange, and when the request was sent EVERY client-level response middleware runs after it,
exactly once, in registration order (whatever the transport outcome and whatever the earlier
middleware did); and once the request middleware succeeded the request-level response
middleware run in registration order, the loop ending early only when one returns an error. -/
theorem response_mw_every_attempt (fx : Fixes) (s : Stack) (i : Nat) (t : Att)
    (ht : (run fx s).atts[i]? = some t) :
    (t.evs.filter Ev.isExch = [] ∨
      t.evs.filter Ev.isExch = .send :: (List.range s.clientResp.length).map .cResp) ∧
    (.builtin ∈ t.evs →
      ∃ j, j ≤ s.reqResp.length ∧ (s.reqResp ≠ [] → 0 < j) ∧
        t.evs.filter Ev.isRResp = (List.range j).map .rResp ∧
        (j < s.reqResp.length → t.returned = true ∨ t.crash = true)) := by
  rw [run_atts] at ht
  obtain ⟨prev, rfl⟩ := callDo_atts fx s i t ht
  exact ⟨attempt_exchange fx s i prev, attempt_rresp fx s i prev⟩

example : (run Fixes.all { clientResp := [[.ret (.stage 1)], [.nop]], reqResp := [[.mw .nop]],
                           transport := [.fail (.stage 2), .fail (.stage 3)], maxRetries := 1 }).atts.map (·.evs.filter (!·.isRaised))
    = [[.builtin, .send, .cResp 0, .cResp 1, .rResp 0], [.builtin, .send, .cResp 0, .cResp 1, .rResp 0]] := by decide

/-- The number of attempts never exceeds `MaxRetries + 1`. -/
theorem attempts_bound (fx : Fixes) (s : Stack) : (run fx s).atts.length ≤ s.maxRetries + 1 := by
  rw [run_atts]; exact callDo_atts_length fx s

end Req.Props.C18
