import Req.Client.AuthorityZone
import Req.Props.C11
/-!
C11 — host identity of IPv6 literals against RFC 3986 + RFC 6874 (zone ids), round 5.

* `zoneid_decodes` — every RFC 6874 `ZoneID` text percent-decodes, to a non-empty zone.
* `rfc6874_wf` — `rfc_wf` extended to the URL TEXT of a zoned literal
  (`"[" IPv6address "%25" ZoneID "]" [":" port]`): the authority `url.URL.Host` holds for it (zone
  decoded) is inside `WfAuthority`, so every C11 theorem covers it.
* `zoned_literal_identity` — `getHostname` and `getDomain` of that Host are the WHOLE literal
  (address, `%`, decoded zone), lower-cased: nothing is split off, whatever dots the zone or an
  IPv4-style tail of the address contain.
* `ip6_literal_domain_whole`, `ip6_same_domain_iff`, `ip6_allowed_domain_iff` — for EVERY bracketed
  literal (zoned or not, IPv4-mapped, dotted tail; any zone bytes): domain = hostname = whole literal;
  SameDomain / AllowedDomain follow exactly when the whole literals agree (case-insensitively).
* `zone_distinguishes`, `dotted_tail_distinguishes` — same address with different zones, or literals
  that differ only in the first "label" of a dotted tail, are never the same host or domain
  (class of seed C11-r5-1).
-/
namespace Req.Props.C11Zone
open Req.Proto Req.Ascii Req.Redirect Req.Authority Req.Lemmas.C11 Req.Props.C11

theorem isHex_hexVal (c : UInt8) (h : isHex c = true) : ∃ x, hexDigitVal c = some x := by
  unfold hexDigitVal
  by_cases h1 : isDigit c = true
  · exact ⟨c.toNat - 48, by simp [h1]⟩
  · by_cases h2 : (97 ≤ c && c ≤ 102) = true
    · exact ⟨c.toNat - 87, by simp only [h1, Bool.false_eq_true, if_false, h2, if_true]⟩
    · by_cases h3 : (65 ≤ c && c ≤ 70) = true
      · exact ⟨c.toNat - 55, by simp only [h1, Bool.false_eq_true, if_false, h2, h3, if_true]⟩
      · simp only [isHex, Bool.or_eq_true] at h
        rcases h with (h | h) | h
        · exact absurd h h1
        · exact absurd h h2
        · exact absurd h h3

theorem zoneChars_decodes (n : Nat) : ∀ z : Bytes, z.length ≤ n → isZoneChars z = true →
    ∃ d, pctDecode z = some d ∧ (z ≠ [] → d ≠ []) := by
  induction n with
  | zero =>
    intro z hz _
    have : z = [] := List.length_eq_zero_iff.mp (Nat.le_zero.mp hz)
    subst this
    exact ⟨[], rfl, fun h => absurd rfl h⟩
  | succ n ih =>
    intro z hz hc
    cases z with
    | nil => exact ⟨[], rfl, fun h => absurd rfl h⟩
    | cons c rest =>
      by_cases hp : c = 37
      · subst hp
        cases rest with
        | nil => simp [isZoneChars] at hc
        | cons a r1 =>
          cases r1 with
          | nil => simp [isZoneChars] at hc
          | cons b r2 =>
            unfold isZoneChars at hc
            simp only [↓reduceIte, Bool.and_eq_true] at hc
            obtain ⟨⟨ha, hb⟩, hr⟩ := hc
            obtain ⟨x, hx⟩ := isHex_hexVal a ha
            obtain ⟨y, hy⟩ := isHex_hexVal b hb
            obtain ⟨d, hd, _⟩ := ih r2 (by simp only [List.length_cons] at hz; omega) hr
            exact ⟨UInt8.ofNat (x * 16 + y) :: d, by simp [pctDecode, hx, hy, hd], fun _ => by simp⟩
      · unfold isZoneChars at hc
        simp only [hp, ↓reduceIte, Bool.and_eq_true] at hc
        obtain ⟨d, hd, _⟩ := ih rest (by simp only [List.length_cons] at hz; omega) hc.2
        exact ⟨c :: d, by unfold pctDecode; simp [hp, hd], fun _ => by simp⟩

/-- **zoneid_decodes**: an RFC 6874 `ZoneID` always percent-decodes, and to a non-empty zone. -/
theorem zoneid_decodes (z : Bytes) (h : isZoneIDText z = true) :
    ∃ d, pctDecode z = some d ∧ d ≠ [] := by
  simp only [isZoneIDText, Bool.and_eq_true, Bool.not_eq_eq_eq_not, Bool.not_true] at h
  obtain ⟨d, hd, hne⟩ := zoneChars_decodes z.length z (Nat.le_refl _) h.2
  refine ⟨d, hd, hne ?_⟩
  intro he; subst he; simp at h

/-- `eth0`, `%65th0` (same zone, one letter escaped), `br.eth0.100`, `a%5Db` (decodes to `a]b`). -/
example : pctDecode [101,116,104,48] = some [101,116,104,48] := by decide
example : pctDecode [37,54,53,116,104,48] = some [101,116,104,48] := by decide
example : isZoneIDText [98,114,46,101,116,104,48,46,49,48,48] = true := by decide
example : pctDecode [97,37,53,68,98] = some [97,93,98] := by decide
example : isZoneIDText [] = false := by decide
example : isZoneIDText [37,52] = false := by decide

/-- **rfc6874_wf** (`rfc_wf` extended): for every RFC 6874 zoned literal in URL text the authority
`url.URL.Host` holds (zone percent-decoded) exists and is a `WfAuthority`. -/
theorem rfc6874_wf (t : ZonedText) (h : isRfc6874 t = true) :
    ∃ a z, pctDecode t.zoneText = some z ∧ z ≠ [] ∧ t.authority = some a ∧
      a = ⟨.ip6 t.addr (some z), t.port⟩ ∧ WfAuthority a := by
  simp only [isRfc6874, Bool.and_eq_true] at h
  obtain ⟨⟨ha, hz⟩, hp⟩ := h
  obtain ⟨z, hd, hne⟩ := zoneid_decodes t.zoneText hz
  refine ⟨⟨.ip6 t.addr (some z), t.port⟩, z, hd, hne, by simp [ZonedText.authority, hd], rfl, ?_, ?_⟩
  · exact ipv6_has_colon t.addr ha
  · cases hpt : t.port with
    | none => trivial
    | some p => rw [hpt] at hp; exact hp

/-- **ip6_literal_domain_whole**: for EVERY bracketed literal — any address text containing a colon
(IPv4-mapped `::ffff:1.2.3.4`, dotted tails), any zone bytes (dots, a zone spelled like a DNS name),
any valid port — the domain is the hostname is the whole literal, lower-cased. -/
theorem ip6_literal_domain_whole (addr : Bytes) (zone : Option Bytes) (port : Option Bytes)
    (hc : (58 : UInt8) ∈ addr) (hp : WfPort port) :
    getDomain (Authority.render ⟨.ip6 addr zone, port⟩) = lower (Host.ip6Text addr zone) ∧
    getHostname (Authority.render ⟨.ip6 addr zone, port⟩) = lower (Host.ip6Text addr zone) := by
  have hw : WfAuthority ⟨.ip6 addr zone, port⟩ := ⟨hc, hp⟩
  exact ⟨by rw [domain_spec _ hw]; rfl, by rw [hostname_spec _ hw]; rfl⟩

/-- **zoned_literal_identity**: RFC 6874 text → what the policies compare. -/
theorem zoned_literal_identity (t : ZonedText) (h : isRfc6874 t = true) :
    ∃ a z, t.authority = some a ∧ pctDecode t.zoneText = some z ∧
      getHostname a.render = lower (t.addr ++ 37 :: z) ∧
      getDomain a.render = lower (t.addr ++ 37 :: z) := by
  obtain ⟨a, z, hd, _, hauth, ha, hw⟩ := rfc6874_wf t h
  subst ha
  have := ip6_literal_domain_whole t.addr (some z) t.port hw.host hw.port
  exact ⟨_, z, hauth, hd, this.2, this.1⟩

/-- `[fe80::1.2.3.4%25ETH0]:8080` → `fe80::1.2.3.4%eth0` (host and domain). -/
example :
    let t : ZonedText := ⟨[102,101,56,48,58,58,49,46,50,46,51,46,52], [69,84,72,48], some [56,48,56,48]⟩
    isRfc6874 t = true ∧
    (t.authority.map fun a => getDomain a.render) =
      some [102,101,56,48,58,58,49,46,50,46,51,46,52,37,101,116,104,48] := by decide

/-- **ip6_same_domain_iff**: SameDomain follows from literal `b` to literal `a` exactly when the
whole literals (address and zone) agree case-insensitively. -/
theorem ip6_same_domain_iff (addrA addrB : Bytes) (zA zB pA pB : Option Bytes)
    (hA : (58 : UInt8) ∈ addrA) (hB : (58 : UInt8) ∈ addrB) (hpA : WfPort pA) (hpB : WfPort pB)
    (hdr : Headers) (rest : List Hop) :
    sameDomainRedirectPolicy.check (Authority.render ⟨.ip6 addrA zA, pA⟩)
        (viaOf ⟨.ip6 addrB zB, pB⟩ hdr rest) = .allow ↔
      lower (Host.ip6Text addrA zA) = lower (Host.ip6Text addrB zB) := by
  have wA : WfAuthority ⟨.ip6 addrA zA, pA⟩ := ⟨hA, hpA⟩
  have wB : WfAuthority ⟨.ip6 addrB zB, pB⟩ := ⟨hB, hpB⟩
  rw [same_domain_iff _ _ wA wB]
  exact Iff.rfl

/-- **ip6_allowed_domain_iff**: AllowedDomain with literals configured: a literal target is allowed
exactly when some configured literal agrees with it as a whole. -/
theorem ip6_allowed_domain_iff (hosts : List (Bytes × Option Bytes × Option Bytes))
    (addr : Bytes) (z p : Option Bytes)
    (hh : ∀ x ∈ hosts, (58 : UInt8) ∈ x.1 ∧ WfPort x.2.2) (hc : (58 : UInt8) ∈ addr) (hp : WfPort p)
    (via : Via) :
    (allowedDomainRedirectPolicy (hosts.map fun x => Authority.render ⟨.ip6 x.1 x.2.1, x.2.2⟩)).check
        (Authority.render ⟨.ip6 addr z, p⟩) via = .allow ↔
      ∃ x ∈ hosts, lower (Host.ip6Text x.1 x.2.1) = lower (Host.ip6Text addr z) := by
  have := allowed_domain_iff (hosts.map fun x => (⟨.ip6 x.1 x.2.1, x.2.2⟩ : Authority)) ⟨.ip6 addr z, p⟩
    (by
      intro a ha
      obtain ⟨x, hx, rfl⟩ := List.mem_map.mp ha
      exact ⟨(hh x hx).1, (hh x hx).2⟩)
    ⟨hc, hp⟩ via
  simp only [List.map_map] at this
  rw [show (hosts.map fun x => Authority.render ⟨.ip6 x.1 x.2.1, x.2.2⟩) =
      hosts.map ((fun a : Authority => a.render) ∘ fun x => ⟨.ip6 x.1 x.2.1, x.2.2⟩) from rfl, this]
  constructor
  · rintro ⟨a, ha, he⟩
    obtain ⟨x, hx, rfl⟩ := List.mem_map.mp ha
    exact ⟨x, hx, he⟩
  · rintro ⟨x, hx, he⟩
    exact ⟨_, List.mem_map.mpr ⟨x, hx, rfl⟩, he⟩

/-- **zone_distinguishes**: the same address under zones that differ (case-insensitively) is a
different host and a different domain: neither SameHost nor SameDomain follows. -/
theorem zone_distinguishes (addr zA zB : Bytes) (pA pB : Option Bytes)
    (hc : (58 : UInt8) ∈ addr) (hpA : WfPort pA) (hpB : WfPort pB) (hz : lower zA ≠ lower zB)
    (hdr : Headers) (rest : List Hop) :
    sameDomainRedirectPolicy.check (Authority.render ⟨.ip6 addr (some zA), pA⟩)
        (viaOf ⟨.ip6 addr (some zB), pB⟩ hdr rest) = .deny ∧
    sameHostRedirectPolicy.check (Authority.render ⟨.ip6 addr (some zA), pA⟩)
        (viaOf ⟨.ip6 addr (some zB), pB⟩ hdr rest) = .deny := by
  have hne : lower (Host.ip6Text addr (some zA)) ≠ lower (Host.ip6Text addr (some zB)) := by
    simp only [Host.ip6Text, lower_append, lower_cons]
    intro he
    have := List.append_cancel_left he
    simp only [List.cons.injEq, true_and] at this
    exact hz this
  have hd := ip6_literal_domain_whole addr (some zA) pA hc hpA
  have hd' := ip6_literal_domain_whole addr (some zB) pB hc hpB
  constructor
  · simp only [sameDomainRedirectPolicy, viaOf, hd.1, hd'.1]
    simp [hne]
  · simp only [sameHostRedirectPolicy, viaOf, hd.2, hd'.2]
    simp [hne]

/-- **dotted_tail_distinguishes**: two literals `pre ++ x ++ "." ++ tail` and `pre ++ y ++ "." ++ tail`
(an IPv4-style tail or a dotted zone — `tail` may contain the zone) with `x ≠ y` are different
domains whenever `x` and `y` differ (case-insensitively): there is no "first label" of an IP
literal to ignore. -/
theorem dotted_tail_distinguishes (pre x y tail : Bytes) (pA pB : Option Bytes)
    (hc : (58 : UInt8) ∈ pre) (hpA : WfPort pA) (hpB : WfPort pB)
    (hxy : lower x ≠ lower y)
    (hdr : Headers) (rest : List Hop) :
    sameDomainRedirectPolicy.check (Authority.render ⟨.ip6 (pre ++ x ++ 46 :: tail) none, pA⟩)
        (viaOf ⟨.ip6 (pre ++ y ++ 46 :: tail) none, pB⟩ hdr rest) = .deny := by
  have hA : (58 : UInt8) ∈ pre ++ x ++ 46 :: tail := by simp [hc]
  have hB : (58 : UInt8) ∈ pre ++ y ++ 46 :: tail := by simp [hc]
  have hd := ip6_literal_domain_whole _ none pA hA hpA
  have hd' := ip6_literal_domain_whole _ none pB hB hpB
  simp only [sameDomainRedirectPolicy, viaOf, hd.1, hd'.1, Host.ip6Text]
  simp [hxy]

/-- `[fe80::1.2.3.4%eth0]` → `[fe80::9.2.3.4%eth0]` under SameDomain: refused (seed C11-r5-1 follows). -/
example :
    sameDomainRedirectPolicy.check
      (Authority.render ⟨.ip6 [102,101,56,48,58,58,57,46,50,46,51,46,52] (some [101,116,104,48]), none⟩)
      (viaOf ⟨.ip6 [102,101,56,48,58,58,49,46,50,46,51,46,52] (some [101,116,104,48]), none⟩) = .deny := by
  decide

end Req.Props.C11Zone
