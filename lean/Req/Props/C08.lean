/-! C08 — property theorems (none yet). -/
