import Req.Pool.Cancel
import Req.Lemmas.CancelStuck
/-!
C08 — cancellation and timeouts take effect at every point of a request's life.

Model: `Req/Pool/Cancel.lean` (decision logic of `mapRoundTripError`, the retry decision of
`Request.do` with its sleeping state, and the small-step lifecycle of one request on the
three stacks).  "Promptly" is carried as a bound on the number of *internal* steps — steps
that need neither the peer nor a timer — after the context is cancelled; wall-clock
promptness and real goroutine exit are sampled by the script lane, not proved.

* `maperr_prefers_cancel` — `mapRoundTripError` reports the cancellation cause whatever else
  went wrong (write error, read error, closed connection, request-body error).
* `cancel_prompt` — from EVERY reachable state, once the context is cancelled (or its deadline
  passes) every run of internal steps has at most `K` steps, never completes a retry sleep,
  and when it cannot be extended the call is over with an error identifying the cancellation.
  Conditional on the sleep fact (`sleepSelectsCtx`, regenerated from request.go by gofacts,
  bridged in `Bridge/C08.lean`).
* `cancel_quiesces` — same bound and release for ANY reachable state whose context is
  cancelled (also when peer events were interleaved after the cancel).
* `cancel_releases` — at that point nothing is held: body closed (exactly once), no writer /
  reader / watcher / closer goroutine, no open stream, connection not left occupied.
* `cancel_stops_retry` — after the cancel no inter-attempt sleep completes during internal
  runs; and whatever the environment does, an attempt started after a later sleep never gets
  past the context check (it never reaches the network).
* `cancel_terminates` — a maximal internal run exists from every state (the ∀-runs statements
  are not vacuous).
* `cancel_prompt_needs_sleep_fact` — with a `time.Sleep` that ignores the context the
  statement is false: concrete witness (replayed on the implementation by the script lane).
-/
set_option linter.unusedSimpArgs false
set_option linter.unusedVariables false
namespace Req.Props.C08
open Req.Cancel

/-! ### mapRoundTripError -/

/-- **maperr_prefers_cancel**: a recorded cancellation cause wins over every other error. -/
theorem maperr_prefers_cancel (i : MapIn) (e : CtxErr)
    (herr : i.errNil = false) (hc : i.canceled = some e) :
    mapRoundTripError i = .canceled e := by
  simp [mapRoundTripError, herr, hc]

/-- without a cancellation the cause is never invented -/
theorem maperr_no_cancel_without_cause (i : MapIn) (e : CtxErr) (hc : i.canceled = none) :
    mapRoundTripError i ≠ .canceled e := by
  unfold mapRoundTripError
  simp only [hc]
  repeat' split
  all_goals simp

/-- `nil` in, `nil` out — and only then -/
theorem maperr_nil_iff (i : MapIn) : mapRoundTripError i = .nil ↔ i.errNil = true := by
  unfold mapRoundTripError
  constructor
  · intro h
    repeat' split at h
    all_goals simp_all
  · intro h; simp [h]

example : mapRoundTripError ⟨false, some .deadline, true, .readFromServer, true, true⟩ =
    .canceled .deadline := by decide

/-! ### runs of internal steps after a cancellation -/

/-- the invariants carried along an internal run of a cancelled request -/
theorem run_carries (cfg : Cfg) (e : CtxErr) :
    ∀ (as : List Act) (s s' : St), Run cfg s as s' → Inv cfg s → s.ctx = some e → PostOK e s →
      as.length + mu cfg s' ≤ mu cfg s ∧ Inv cfg s' ∧ s'.ctx = some e ∧ PostOK e s' ∧
      s'.sleepsDone = s.sleepsDone := by
  intro as
  induction as with
  | nil =>
    intro s s' hr hi hc hp
    cases hr
    exact ⟨by simp, hi, hc, hp, rfl⟩
  | cons a as ih =>
    intro s s' hr hi hc hp
    cases hr with
    | cons hg hrest =>
      have hi' := inv_act cfg s a hi hg
      have hc' : (apply cfg s a).ctx = some e := by rw [act_ctx]; exact hc
      have hp' := post_act cfg s a e hi hc hg hp
      have hd := mu_dec cfg s a hg
      obtain ⟨h1, h2, h3, h4, h5⟩ := ih _ _ hrest hi' hc' hp'
      refine ⟨?_, h2, h3, h4, ?_⟩
      · simp only [List.length_cons]; omega
      · rw [h5, act_sleepsDone]

/-- body closed exactly once (or never opened) -/
def bodyClosedOnce (cfg : Cfg) (r : Res) : Prop :=
  r.bodyOpen = false ∧ r.closes = if 0 < cfg.bodyChunks then 1 else 0

theorem released_closed_once (cfg : Cfg) (s : St) (hi : Inv cfg s) (hr : s.res.released = true) :
    bodyClosedOnce cfg s.res := by
  have hb : s.res.bodyOpen = false := by
    simp only [Res.released, Bool.and_eq_true, Bool.not_eq_true'] at hr
    exact hr.1.1.1.1.1.1.1
  refine ⟨hb, ?_⟩
  have := hi.closesEq
  simpa [hb] using this

/-- **cancel_prompt**: from every reachable state, after the context is cancelled every run of
internal steps is at most `K` long, completes no retry sleep, and when it cannot be extended
the call has returned with an error identifying the cancellation and everything is released. -/
theorem cancel_prompt (cfg : Cfg) (hfact : cfg.sleepSelectsCtx = true)
    (s : St) (hreach : Reach cfg s) (e : CtxErr) (hcan : evGuard cfg s (.cancel e) = true)
    (as : List Act) (s' : St) (hrun : Run cfg (evApply cfg s (.cancel e)) as s') :
    as.length ≤ K ∧ s'.sleepsDone = s.sleepsDone ∧
    (stuck cfg s' = true →
      s'.phase = .done ∧ s'.result.identifies e = true ∧ s'.res.released = true ∧
      bodyClosedOnce cfg s'.res) := by
  have hi := reach_inv cfg s hreach
  have hi0 := inv_ev cfg s (.cancel e) hi hcan
  have hc0 : (evApply cfg s (.cancel e)).ctx = some e := rfl
  have hp0 : PostOK e (evApply cfg s (.cancel e)) := by
    intro h
    simp only [evGuard, Bool.and_eq_true, bne_iff_ne, ne_eq] at hcan
    exact absurd h hcan.2
  obtain ⟨h1, h2, h3, h4, h5⟩ := run_carries cfg e as _ _ hrun hi0 hc0 hp0
  refine ⟨?_, ?_, ?_⟩
  · have := mu_le_K cfg (evApply cfg s (.cancel e)); omega
  · rw [h5]; rfl
  · intro hst
    have hall := (stuck_iff cfg s').mp hst
    obtain ⟨hd, hr⟩ := stuck_done cfg s' h2 (by simp [h3]) hfact hall
    exact ⟨hd, h4 hd, hr, released_closed_once cfg s' h2 hr⟩

/-- **cancel_quiesces**: any reachable state whose context is cancelled — whatever the peer did in
between — is at most `K` internal steps away from quiescence, and quiescent means: call over,
everything released, body closed exactly once. -/
theorem cancel_quiesces (cfg : Cfg) (hfact : cfg.sleepSelectsCtx = true)
    (s : St) (hreach : Reach cfg s) (hc : s.ctx.isSome = true)
    (as : List Act) (s' : St) (hrun : Run cfg s as s') :
    as.length ≤ K ∧ s'.sleepsDone = s.sleepsDone ∧
    (stuck cfg s' = true → s'.phase = .done ∧ s'.res.released = true ∧ bodyClosedOnce cfg s'.res) := by
  have hi := reach_inv cfg s hreach
  have hlen : ∀ (as : List Act) (s s' : St), Run cfg s as s' → Inv cfg s →
      as.length + mu cfg s' ≤ mu cfg s ∧ Inv cfg s' ∧ s'.ctx = s.ctx ∧ s'.sleepsDone = s.sleepsDone := by
    intro as
    induction as with
    | nil => intro s s' hr hi; cases hr; exact ⟨by simp, hi, rfl, rfl⟩
    | cons a as ih =>
      intro s s' hr hi
      cases hr with
      | cons hg hrest =>
        obtain ⟨h1, h2, h3, h4⟩ := ih _ _ hrest (inv_act cfg s a hi hg)
        have hd := mu_dec cfg s a hg
        refine ⟨by simp only [List.length_cons]; omega, h2, by rw [h3, act_ctx], by rw [h4, act_sleepsDone]⟩
  obtain ⟨h1, h2, h3, h4⟩ := hlen as s s' hrun hi
  refine ⟨by have := mu_le_K cfg s; omega, h4, ?_⟩
  intro hst
  obtain ⟨hd, hr⟩ := stuck_done cfg s' h2 (by rw [h3]; exact hc) hfact ((stuck_iff cfg s').mp hst)
  exact ⟨hd, hr, released_closed_once cfg s' h2 hr⟩

/-- **cancel_releases**: the release part of `cancel_prompt` on its own. -/
theorem cancel_releases (cfg : Cfg) (hfact : cfg.sleepSelectsCtx = true)
    (s : St) (hreach : Reach cfg s) (e : CtxErr) (hcan : evGuard cfg s (.cancel e) = true)
    (as : List Act) (s' : St) (hrun : Run cfg (evApply cfg s (.cancel e)) as s')
    (hst : stuck cfg s' = true) :
    s'.res.bodyOpen = false ∧ s'.res.closes = (if 0 < cfg.bodyChunks then 1 else 0) ∧
    s'.res.writer = false ∧ s'.res.reader = false ∧ s'.res.watch = false ∧ s'.res.closing = false ∧
    s'.res.stream ≠ .open ∧ s'.res.conn ≠ .owned ∧ s'.res.conn ≠ .ready := by
  obtain ⟨_, _, h⟩ := cancel_prompt cfg hfact s hreach e hcan as s' hrun
  obtain ⟨_, _, hr, hb, hcl⟩ := h hst
  simp only [Res.released, Bool.and_eq_true, Bool.not_eq_true', bne_iff_ne, ne_eq] at hr
  obtain ⟨⟨⟨⟨⟨⟨⟨r1, r2⟩, r3⟩, r4⟩, r5⟩, r6⟩, r7⟩, r8⟩ := hr
  exact ⟨hb, hcl, r3, r4, r5, r2, r6, r7, r8⟩

/-- **cancel_terminates**: from every state some run of internal steps reaches a state where
none is enabled — so "every maximal run …" above speaks about runs that exist. -/
theorem cancel_terminates (cfg : Cfg) (s : St) :
    ∃ as s', Run cfg s as s' ∧ stuck cfg s' = true := by
  generalize hn : mu cfg s = n
  induction n using Nat.strongRecOn generalizing s with
  | _ n ih =>
    by_cases hst : stuck cfg s = true
    · exact ⟨[], s, Run.nil s, hst⟩
    · have : ∃ a, guard cfg s a = true := by
        apply Classical.byContradiction
        intro hno
        apply hst
        rw [stuck_iff]
        intro a
        cases hga : guard cfg s a
        · rfl
        · exact absurd ⟨a, hga⟩ hno
      obtain ⟨a, hg⟩ := this
      have hd := mu_dec cfg s a hg
      obtain ⟨as, s', hr, hs'⟩ := ih (mu cfg (apply cfg s a)) (by omega) (apply cfg s a) rfl
      exact ⟨a :: as, s', Run.cons hg hr, hs'⟩

/-! ### no retry after a cancellation -/

/-- the attempt is over: the caller is sleeping between attempts or has returned -/
def over (p : Phase) : Prop := p = .retrySleep ∨ p = .done

/-- any mixture of environment events and internal steps -/
inductive Steps (cfg : Cfg) : St → St → Prop
  | refl (s) : Steps cfg s s
  | ev {s s'} (e : Ev) : evGuard cfg s e = true → Steps cfg (evApply cfg s e) s' → Steps cfg s s'
  | act {s s'} (a : Act) : guard cfg s a = true → Steps cfg (apply cfg s a) s' → Steps cfg s s'

theorem finish_over (cfg : Cfg) (s : St) (r : Result) : over (finish cfg s r).phase := by
  rcases finish_phase cfg s r with h | h
  · exact Or.inr h
  · exact Or.inl h

theorem finishBody_over (cfg : Cfg) (s : St) (r : Result) : over (finishBody cfg s r).phase := by
  rcases finishBody_phase cfg s r with h | h
  · exact Or.inr h
  · exact Or.inl h

theorem act_over (cfg : Cfg) (s : St) (a : Act) (hg : guard cfg s a = true) (ho : over s.phase) :
    over (apply cfg s a).phase := by
  have hpre : s.phase.preConn = false := by rcases ho with h | h <;> simp [h]
  have hinf : s.phase.inflight = false := by rcases ho with h | h <;> simp [h]
  have hbody : s.phase.body = false := by rcases ho with h | h <;> simp [h]
  cases a <;> simp [Cancel.guard, hpre, hinf, hbody] at hg <;> simp [apply, over] <;>
    first | exact ho | skip

theorem ev_over (cfg : Cfg) (s : St) (e : Ev) (hg : evGuard cfg s e = true) (hc : s.ctx.isSome = true)
    (ho : over s.phase) : over (evApply cfg s e).phase := by
  have hnone : s.ctx.isNone = false := by cases h : s.ctx <;> simp_all
  cases e
  case cancel e => simp [evGuard, hnone] at hg
  case sleepElapse =>
    cases hctx : s.ctx with
    | none => simp [hctx] at hc
    | some e' => simp only [evApply, hctx]; exact finish_over _ _ _
  case dialDone =>
    simp only [evApply]
    split
    · rename_i h; simp only [beq_iff_eq] at h; rcases ho with h' | h' <;> simp [h'] at h
    · exact ho
  all_goals (rcases ho with h | h <;> simp [evGuard, h, Phase.body] at hg)

theorem ev_sleepsDone (cfg : Cfg) (s : St) (e : Ev) (hg : evGuard cfg s e = true) :
    (evApply cfg s e).sleepsDone = s.sleepsDone ∨
    (e = .sleepElapse ∧ (evApply cfg s e).sleepsDone = s.sleepsDone + 1 ∧ s.phase = .retrySleep) := by
  cases e
  case sleepElapse =>
    right
    simp only [evGuard, Bool.and_eq_true, beq_iff_eq] at hg
    refine ⟨rfl, ?_, hg.1⟩
    simp only [evApply]
    split <;> simp
  all_goals left
  case cancel e => rfl
  case connIdle => rfl
  case dialStart => rfl
  case hsDone => rfl
  case attemptFails => simp [evApply]
  case dialDone => simp only [evApply]; split <;> (try split) <;> rfl
  case wrote =>
    simp only [evApply]
    split
    · split <;> rfl
    · split <;> rfl
    · rfl
  case gotHeaders => simp only [evApply, completeOk]; split <;> simp
  case gotBody =>
    simp only [evApply, completeOk]
    split
    · split <;> simp
    · rfl

theorem ev_ctx_isSome (cfg : Cfg) (s : St) (e : Ev) (hc : s.ctx.isSome = true) :
    (evApply cfg s e).ctx.isSome = true := by
  cases e
  case cancel e => rfl
  case connIdle => exact hc
  case dialStart => exact hc
  case hsDone => exact hc
  case attemptFails => simpa [evApply] using hc
  case dialDone => simp only [evApply]; split <;> (try split) <;> exact hc
  case wrote =>
    simp only [evApply]
    split
    · split <;> exact hc
    · split <;> exact hc
    · exact hc
  case gotHeaders => simp only [evApply, completeOk]; split <;> simpa using hc
  case gotBody =>
    simp only [evApply, completeOk]
    split
    · split <;> simpa using hc
    · exact hc
  case sleepElapse =>
    simp only [evApply]
    split <;> simp_all

/-- **cancel_stops_retry**: once the context is cancelled, whatever the environment does
(peer events, timers firing, in any interleaving with the internal steps), every state in which
a further retry sleep has completed has the caller sleeping or returned — an attempt started
after the cancel never gets past the context check, nothing reaches the network — and an
attempt that is over stays over. Needs no sleep fact (it is the `<-ctx.Done()` check at the top
of `Transport.roundTrip` and `contextCanceled` in `Request.do`). -/
theorem cancel_stops_retry (cfg : Cfg) (s s' : St) (hc : s.ctx.isSome = true)
    (hsteps : Steps cfg s s') :
    s'.ctx.isSome = true ∧ s.sleepsDone ≤ s'.sleepsDone ∧
    (s.sleepsDone < s'.sleepsDone → over s'.phase) ∧ (over s.phase → over s'.phase) := by
  suffices h : ∀ n (t t' : St), Steps cfg t t' → t.ctx.isSome = true → n ≤ t.sleepsDone →
      (n < t.sleepsDone → over t.phase) →
      t'.ctx.isSome = true ∧ n ≤ t'.sleepsDone ∧ (n < t'.sleepsDone → over t'.phase) ∧
      (over t.phase → over t'.phase) by
    exact h s.sleepsDone s s' hsteps hc (Nat.le_refl _) (fun h => absurd h (Nat.lt_irrefl _))
  intro n t t' hst
  induction hst with
  | refl t => intro h1 h2 h3; exact ⟨h1, h2, h3, id⟩
  | @ev t t'' e hg _ ih =>
    intro h1 h2 h3
    have hc' := ev_ctx_isSome cfg t e h1
    rcases ev_sleepsDone cfg t e hg with hsd | ⟨_, hsd, hph⟩
    · obtain ⟨r1, r2, r3, r4⟩ := ih hc' (by omega)
        (fun h => ev_over cfg t e hg h1 (h3 (by omega)))
      exact ⟨r1, r2, r3, fun ho => r4 (ev_over cfg t e hg h1 ho)⟩
    · have ho : over t.phase := Or.inl hph
      obtain ⟨r1, r2, r3, r4⟩ := ih hc' (by omega) (fun _ => ev_over cfg t e hg h1 ho)
      exact ⟨r1, r2, r3, fun ho => r4 (ev_over cfg t e hg h1 ho)⟩
  | @act t t'' a hg _ ih =>
    intro h1 h2 h3
    have hc' : (apply cfg t a).ctx.isSome = true := by rw [act_ctx]; exact h1
    have hsd := act_sleepsDone cfg t a
    obtain ⟨r1, r2, r3, r4⟩ := ih hc' (by omega) (fun h => act_over cfg t a hg (h3 (by omega)))
    exact ⟨r1, r2, r3, fun ho => r4 (act_over cfg t a hg ho)⟩

/-- internal runs are `Steps` -/
theorem run_steps (cfg : Cfg) : ∀ (as : List Act) (s s' : St), Run cfg s as s' → Steps cfg s s' := by
  intro as
  induction as with
  | nil => intro s s' h; cases h; exact Steps.refl s
  | cons a as ih => intro s s' h; cases h with | cons hg hr => exact Steps.act a hg (ih _ _ hr)

/-! ### the sleep fact is necessary -/

/-- HTTP/1.1, one retry, a `time.Sleep` that ignores the context -/
def cfgBareSleep : Cfg := { stack := .h1, maxRetries := 1, sleepSelectsCtx := false }

/-- first attempt fails (peer closes), the caller sleeps before the retry -/
def sleeping : St :=
  evApply cfgBareSleep
    (evApply cfgBareSleep
      (apply cfgBareSleep
        (evApply cfgBareSleep (evApply cfgBareSleep (init cfgBareSleep) .dialStart) .dialDone)
        .deliver)
      .wrote)
    .attemptFails

theorem sleeping_reach : Reach cfgBareSleep sleeping := by
  unfold sleeping
  refine Reach.ev _ (Reach.ev _ (Reach.act _ (Reach.ev _ (Reach.ev _ Reach.init ?_) ?_) ?_) ?_) ?_ <;> decide

/-- **cancel_prompt_needs_sleep_fact**: with the bare `time.Sleep` of the current request.go a
request cancelled while sleeping between attempts is stuck — no internal step is enabled — and
has NOT returned: only the timer gets it out. (`cancel_prompt` fails without the fact.) -/
theorem cancel_prompt_needs_sleep_fact :
    Reach cfgBareSleep sleeping ∧
    evGuard cfgBareSleep sleeping (.cancel .canceled) = true ∧
    stuck cfgBareSleep (evApply cfgBareSleep sleeping (.cancel .canceled)) = true ∧
    (evApply cfgBareSleep sleeping (.cancel .canceled)).phase = .retrySleep := by
  refine ⟨sleeping_reach, ?_, ?_, ?_⟩ <;> decide

/-- … and with the repaired wait the same state leaves the sleep at once with the context error -/
example :
    let cfg := { cfgBareSleep with sleepSelectsCtx := true }
    finals cfg 20 (evApply cfg sleeping (.cancel .canceled)) |>.all
      (fun s => s.phase == .done && s.result == .ctxErr .canceled && s.res.released) = true := by
  decide

/-! ### non-vacuity: concrete reachable states in every phase group, on every stack -/

/-- HTTP/1.1 upload of 3 chunks over TLS, cancelled while writing the second chunk -/
def cfgUp : Cfg := { stack := .h1, tls := true, bodyChunks := 3, respChunks := 2, maxRetries := 2 }

def upMid : St :=
  evApply cfgUp (evApply cfgUp (apply cfgUp
    (evApply cfgUp (evApply cfgUp (evApply cfgUp (init cfgUp) .dialStart) .dialDone) .hsDone)
    .deliver) .wrote) .wrote

example : Reach cfgUp upMid := by
  unfold upMid
  refine Reach.ev _ (Reach.ev _ (Reach.act _ (Reach.ev _ (Reach.ev _ (Reach.ev _ Reach.init ?_) ?_) ?_) ?_) ?_) ?_ <;>
    decide

example : upMid.phase = .writingBody 1 ∧ upMid.res.bodyOpen = true ∧ upMid.res.writer = true := by decide

example : evGuard cfgUp upMid (.cancel .deadline) = true := by decide

/-- all maximal internal runs after a deadline in that state: returned with the deadline error
(the retry sleep is left at once), body closed once, connection closed, loops gone -/
example :
    (finals cfgUp 20 (evApply cfgUp upMid (.cancel .deadline))).all
      (fun s => s.phase == .done && s.result == .ctxErr .deadline && s.res.released &&
                s.res.closes == 1 && s.res.conn == .closed && s.sleepsDone == 0) = true := by
  decide

/-- HTTP/2 download cancelled while the caller reads the body: RST_STREAM, connection kept -/
def cfgDown2 : Cfg := { stack := .h2, tls := true, bodyChunks := 0, respChunks := 3 }

def down2 : St :=
  evApply cfgDown2 (evApply cfgDown2 (evApply cfgDown2 (apply cfgDown2
    (evApply cfgDown2 (init cfgDown2) .connIdle) .deliver) .wrote) .gotHeaders) .gotBody

example : Reach cfgDown2 down2 := by
  unfold down2
  refine Reach.ev _ (Reach.ev _ (Reach.ev _ (Reach.act _ (Reach.ev _ Reach.init ?_) ?_) ?_) ?_) ?_ <;> decide

example : down2.phase = .readingBody 1 := by decide

example :
    (finals cfgDown2 20 (evApply cfgDown2 down2 (.cancel .canceled))).all
      (fun s => s.phase == .done && s.result == .ctxErr .canceled && s.res.released &&
                s.res.stream == .reset && s.res.conn == .pooled) = true := by
  decide

/-- HTTP/3 upload cancelled mid-body -/
def cfgUp3 : Cfg := { stack := .h3, tls := true, bodyChunks := 2, respChunks := 1 }

def up3 : St :=
  evApply cfgUp3 (apply cfgUp3 (evApply cfgUp3 (init cfgUp3) .connIdle) .deliver) .wrote

example : Reach cfgUp3 up3 := by
  unfold up3
  refine Reach.ev _ (Reach.act _ (Reach.ev _ Reach.init ?_) ?_) ?_ <;> decide

example :
    (finals cfgUp3 20 (evApply cfgUp3 up3 (.cancel .canceled))).all
      (fun s => s.phase == .done && s.result == .ctxErr .canceled && s.res.released &&
                s.res.closes == 1 && s.res.stream == .reset) = true := by
  decide

end Req.Props.C08
