import Req.Client.Replay
/-!
C01 — request fidelity across transparent transport-level replays: the server that finally
ACCEPTS the request receives exactly the described body, whatever sequence of refusals, dropped
connections and time-outs came before and however much of the body each failed attempt had
already read — or the call fails. Stated about `Req.Replay` with the repairs (`Fixes.all`); the
behaviour of the code as found is shown to break it (`*_as_found_breaks`).
-/
namespace Req.Props.C01Replay
open Req.Proto Req.Replay

theorem seenAt_zero (r : Req) : seenAt r 0 = described r := by
  unfold seenAt described
  cases r.kind <;> simp

theorem seenAt_none (r : Req) (h : r.kind = .none) (pos : Nat) : seenAt r pos = described r := by
  unfold seenAt described
  simp [h]

/-- the reader of a request that has a body stands at its start -/
def AtStart (r : Req) (pos : Nat) : Prop := r.kind = .none ∨ pos = 0

theorem seen_atStart (r : Req) (pos : Nat) (h : AtStart r pos) : seenAt r pos = described r := by
  rcases h with h | h
  · exact seenAt_none r h pos
  · rw [h]; exact seenAt_zero r

/-! ### HTTP/2 -/

theorem h2Run_inv (r : Req) :
    ∀ (as : List H2Attempt) (retry pos : Nat) (b : Bytes), AtStart r pos →
      h2Run Fixes.all r as retry pos = .accepted b → b = described r := by
  intro as
  induction as with
  | nil => intro retry pos b _ h; simp [h2Run] at h
  | cons a rest ih =>
    intro retry pos b hs h
    cases a with
    | accepted =>
      simp only [h2Run, Result.accepted.injEq] at h
      rw [← h]; exact seen_atStart r pos hs
    | unusable =>
      simp only [h2Run] at h
      split at h
      · exact absurd h (by simp)
      · unfold h2ShouldRetry at h
        simp only [h2CanRetry, Bool.not_true, Bool.false_eq_true, if_false] at h
        by_cases hn : r.noBody = true
        · simp only [hn, if_true] at h
          exact ih _ _ b (Or.inl (by unfold Req.noBody at hn; simpa using hn)) h
        · simp only [hn, Bool.false_eq_true, if_false] at h
          by_cases hg : hasGetBody Fixes.all r = true
          · simp only [hg, if_true] at h
            apply ih _ _ b _ h
            unfold hasGetBody at hg
            cases hk : r.kind with
            | none => exact Or.inl hk
            | rewindable => right; simp [posAfterGetBody, hk]
            | oneShot => simp [hk, Fixes.all] at hg
          · simp only [hg, Bool.false_eq_true, if_false, if_true] at h
            apply ih _ _ b _ h
            rcases hs with hs | hs
            · exact Or.inl hs
            · right; simp [H2Attempt.consumed, hs]
    | refused c | goAway c | protoFromPeer c =>
      simp only [h2Run] at h
      split at h
      · exact absurd h (by simp)
      · unfold h2ShouldRetry at h
        simp only [h2CanRetry, Bool.not_true, Bool.false_eq_true, if_false] at h
        by_cases hn : r.noBody = true
        · simp only [hn, if_true] at h
          exact ih _ _ b (Or.inl (by unfold Req.noBody at hn; simpa using hn)) h
        · simp only [hn, Bool.false_eq_true, if_false] at h
          by_cases hg : hasGetBody Fixes.all r = true
          · simp only [hg, if_true] at h
            apply ih _ _ b _ h
            unfold hasGetBody at hg
            cases hk : r.kind with
            | none => exact Or.inl hk
            | rewindable => right; simp [posAfterGetBody, hk]
            | oneShot => simp [hk, Fixes.all] at hg
          · simp [hg] at h
    | other c =>
      simp only [h2Run] at h
      split at h
      · exact absurd h (by simp)
      · simp [h2ShouldRetry, h2CanRetry] at h

/-- **h2_replay_fidelity**: HTTP/2. For EVERY request, every sequence of failed attempts
(unusable connection, REFUSED_STREAM, graceful GOAWAY, PROTOCOL_ERROR from the peer, anything else)
and every number of body bytes each of them had read, a server that accepts the request receives
exactly the described body. (Otherwise the call fails or is still running.) -/
theorem h2_replay_fidelity (r : Req) (attempts : List H2Attempt) (b : Bytes)
    (h : h2Run Fixes.all r attempts 0 0 = .accepted b) : b = described r :=
  h2Run_inv r attempts 0 0 b (Or.inr rfl) h

/-- up to seven refusals of a request whose body can be rewound (or that has none) are survived:
the eighth attempt is made and, when accepted, delivers the whole body — the replay really
happens. -/
theorem h2_replay_succeeds (r : Req) (hk : r.kind ≠ .oneShot) (faults : List H2Attempt)
    (hf : ∀ a ∈ faults, h2CanRetry a = true) :
    ∀ (retry pos : Nat), AtStart r pos → retry + faults.length ≤ 7 →
      h2Run Fixes.all r (faults ++ [.accepted]) retry pos = .accepted (described r) := by
  induction faults with
  | nil =>
    intro retry pos hs _
    simp only [List.nil_append, h2Run]
    rw [seen_atStart r pos hs]
  | cons a rest ih =>
    intro retry pos hs hlen
    have hca : h2CanRetry a = true := hf a (by simp)
    have hrest : ∀ x ∈ rest, h2CanRetry x = true := fun x hx => hf x (by simp [hx])
    simp only [List.length_cons] at hlen
    have hnr : ¬ retry > 6 := by omega
    have step : ∀ pos', AtStart r pos' → h2Run Fixes.all r (rest ++ [.accepted]) (retry + 1) pos' = .accepted (described r) :=
      fun pos' hs' => ih hrest (retry + 1) pos' hs' (by omega)
    have hdec : h2ShouldRetry Fixes.all r a = .same ∧ r.kind = .none ∨
        h2ShouldRetry Fixes.all r a = .rewound ∧ r.kind = .rewindable := by
      unfold h2ShouldRetry
      simp only [hca, Bool.not_true, Bool.false_eq_true, if_false]
      cases hk' : r.kind with
      | none => left; simp [Req.noBody, hk']
      | rewindable => right; simp [Req.noBody, hk', hasGetBody]
      | oneShot => exact absurd hk' hk
    cases a with
    | accepted => simp [h2CanRetry] at hca
    | other c => simp [h2CanRetry] at hca
    | unusable | refused c | goAway c | protoFromPeer c =>
      simp only [List.cons_append, h2Run, hnr, if_false]
      rcases hdec with ⟨hd, hkn⟩ | ⟨hd, hkr⟩
      · rw [hd]; exact step _ (Or.inl hkn)
      · rw [hd]; exact step _ (Or.inr (by simp [posAfterGetBody, hkr]))

/-- non-vacuity: refused after 2 bytes, GOAWAY after 3, then accepted: the whole body arrives. -/
example : h2Run Fixes.all { kind := .rewindable, data := [1, 2, 3, 4], idempotent := false }
    [.refused 2, .goAway 3, .accepted] 0 0 = .accepted [1, 2, 3, 4] := by decide

/-- **the code as found breaks it** (known finding C01-2): a caller's `io.Reader` carries a
`GetBody` that returns the same reader; refused after 2 bytes, the retried request delivers the
last two bytes only. With the repair the call fails instead. -/
theorem h2_as_found_breaks :
    h2Run Fixes.asFound { kind := .oneShot, data := [1, 2, 3, 4], idempotent := false }
      [.refused 2, .accepted] 0 0 = .accepted [3, 4] ∧
    h2Run Fixes.all { kind := .oneShot, data := [1, 2, 3, 4], idempotent := false }
      [.refused 2, .accepted] 0 0 = .failed := by decide

/-! ### HTTP/1.1 -/

theorem h1Run_inv (r : Req) :
    ∀ (as : List H1Attempt) (pos : Nat) (b : Bytes), (∀ a ∈ as, a.wf) → AtStart r pos →
      h1Run Fixes.all r as pos = .accepted b → b = described r := by
  intro as
  induction as with
  | nil => intro pos b _ _ h; simp [h1Run] at h
  | cons a rest ih =>
    intro pos b hwf hs h
    have hwa : a.wf := hwf a (by simp)
    have hwr : ∀ x ∈ rest, x.wf := fun x hx => hwf x (by simp [hx])
    simp only [h1Run] at h
    cases he : a.err with
    | none =>
      simp only [he, Result.accepted.injEq] at h
      rw [← h]; exact seen_atStart r pos hs
    | some e =>
      simp only [he] at h
      split at h
      · cases hr : h1Rewind Fixes.all r a.touched (pos + a.consumed) with
        | none => simp [hr] at h
        | some pos' =>
          simp only [hr] at h
          apply ih pos' b hwr _ h
          unfold h1Rewind at hr
          split at hr
          next hc =>
            simp only [Option.some.injEq] at hr
            simp only [Bool.or_eq_true, Bool.not_eq_true'] at hc
            rcases hc with hc | hc
            · exact Or.inl (by unfold Req.noBody at hc; simpa using hc)
            · rcases hs with hs | hs
              · exact Or.inl hs
              · right; rw [← hr, hs, hwa hc]
          next hc =>
            split at hr
            next hg =>
              simp only [Option.some.injEq] at hr
              unfold hasGetBody at hg
              cases hk : r.kind with
              | none => exact Or.inl hk
              | rewindable => right; rw [← hr]; simp [posAfterGetBody, hk]
              | oneShot => simp [hk, Fixes.all] at hg
            · exact absurd hr (by simp)
      · exact absurd h (by simp)

/-- **h1_replay_fidelity**: HTTP/1.1. For every request and every sequence of attempts on fresh
or reused connections that end in any error after any number of body bytes were read, the server
that answers receives exactly the described body. -/
theorem h1_replay_fidelity (r : Req) (attempts : List H1Attempt) (b : Bytes)
    (hwf : ∀ a ∈ attempts, a.wf) (h : h1Run Fixes.all r attempts 0 = .accepted b) :
    b = described r :=
  h1Run_inv r attempts 0 b hwf (Or.inr rfl) h

/-- non-vacuity: an idempotent request on a reused connection that the peer closed after 3 bytes
of the body is replayed completely; a non-idempotent one fails. -/
example :
    h1Run Fixes.all { kind := .rewindable, data := [1, 2, 3, 4], idempotent := true }
      [⟨true, some .readFromServer, 3, true⟩, ⟨false, none, 0, false⟩] 0 = .accepted [1, 2, 3, 4] ∧
    h1Run Fixes.all { kind := .rewindable, data := [1, 2, 3, 4], idempotent := false }
      [⟨true, some .readFromServer, 3, true⟩, ⟨false, none, 0, false⟩] 0 = .failed := by decide

theorem h1_as_found_breaks :
    h1Run Fixes.asFound { kind := .oneShot, data := [1, 2, 3, 4], idempotent := true }
      [⟨true, some .readFromServer, 3, true⟩, ⟨false, none, 0, false⟩] 0 = .accepted [4] := by decide

/-! ### HTTP/3 -/

theorem h3Run_inv (r : Req) :
    ∀ (as : List H3Attempt) (pos : Nat) (b : Bytes), AtStart r pos →
      h3Run Fixes.all r as pos = .accepted b → b = described r := by
  intro as
  induction as with
  | nil => intro pos b _ h; simp [h3Run] at h
  | cons a rest ih =>
    intro pos b hs h
    simp only [h3Run] at h
    cases he : a.err with
    | none =>
      simp only [he, Result.accepted.injEq] at h
      rw [← h]; exact seen_atStart r pos hs
    | some e =>
      simp only [he] at h
      cases hr : h3Retry Fixes.all r a e (pos + a.consumed) with
      | none => simp [hr] at h
      | some pos' =>
        simp only [hr] at h
        apply ih pos' b _ h
        unfold h3Retry at hr
        split at hr
        · exact absurd hr (by simp)
        · cases e with
          | timeout =>
            simp only [Fixes.all, Bool.not_true, Bool.false_eq_true, if_false] at hr
            split at hr
            next hn => exact Or.inl (by unfold Req.noBody at hn; simpa using hn)
            · by_cases hg : hasGetBody ⟨true, true⟩ r = true
              · simp only [hg, if_true, Option.some.injEq] at hr
                unfold hasGetBody at hg
                cases hk : r.kind with
                | none => exact Or.inl hk
                | rewindable => right; rw [← hr]; simp [posAfterGetBody, hk]
                | oneShot => simp [hk] at hg
              · simp [hg] at hr
          | connection =>
            simp only at hr
            split at hr
            next hn =>
              unfold h3ReplayableWithoutBody Req.noBody at hn
              simp only [Bool.and_eq_true, beq_iff_eq] at hn
              exact Or.inl hn.1
            · exact absurd hr (by simp)
          | other => simp at hr

/-- **h3_replay_fidelity**: HTTP/3 (with `fixes/C01-3`). For every request and every sequence of
attempts — on a cached connection that timed out or died after any number of body bytes were read,
or anything else — the server that answers receives exactly the described body. -/
theorem h3_replay_fidelity (r : Req) (attempts : List H3Attempt) (b : Bytes)
    (h : h3Run Fixes.all r attempts 0 = .accepted b) : b = described r :=
  h3Run_inv r attempts 0 b (Or.inr rfl) h

/-- non-vacuity, and the code as found (known finding C01-3): a POST with a rewindable body whose
cached connection times out after 3 bytes were read. -/
theorem h3_as_found_breaks :
    h3Run Fixes.all { kind := .rewindable, data := [1, 2, 3, 4], idempotent := false }
      [⟨true, some .timeout, 3⟩, ⟨false, none, 0⟩] 0 = .accepted [1, 2, 3, 4] ∧
    h3Run ⟨true, false⟩ { kind := .rewindable, data := [1, 2, 3, 4], idempotent := false }
      [⟨true, some .timeout, 3⟩, ⟨false, none, 0⟩] 0 = .accepted [4] := by decide

end Req.Props.C01Replay
