import Req.H1.Response
import Req.C07.DataBuf
import Req.C07.Exchanges
import Req.Lemmas.C07DataBuf
import Req.Client.DigestAuth
/-!
C07 (round 6) — three ways a server can make ONE call cost without bound, each closed for every input:

* `r6h1.bodiless_framing_none` / `bodiless_needs_no_more_bytes` — a response that cannot have a body
  (answer to HEAD, 1xx, 204, 304) gets `NoBody` whatever framing fields it carries (Transfer-Encoding:
  chunked, Content-Length, both, neither, in any spelling `readTransfer` accepts): after the head the
  caller needs NO further byte from the server, so a peer that stays silent on a kept-alive connection
  cannot wedge the call.
* `r6h2.h2_buffer_le_received` / `h2_buffer_le_unread` / `h2_chunk_never_sized_by_peer` /
  `h2_write_terminates` — HTTP/2 receive buffer: for EVERY announced length (`expected`, any integer)
  and every interleaving of partial writes and reads, memory held ≤ bytes received + one 16 KiB
  chunk and ≤ unread bytes + two chunks; no allocation is sized by the announced length.
* `r6x.requests_bounded` — for EVERY server (any function from request number to answer kind) a call
  sends at most `(retries + 1) × (max redirects 1 + digest)` requests; `digest_hostile_two` — C20's
  middleware model against any server, the stale-for-ever one included: ≤ 2 requests per call.
-/
namespace Req.Props.C07
open Req.Proto

namespace r6h1
open Req.H1

/-- what `fixLength` returns for a message that never has a body -/
theorem fixLength_bodiless (code : Nat) (isHead : Bool) (h : HeaderMap) (chunked : Bool)
    (rl : Int) (h' : HeaderMap) (hb : isHead = true ∨ bodyAllowedForStatus code = false)
    (hf : fixLength code isHead h chunked = some (rl, h')) : rl = 0 := by
  have hcode : isHead = true ∨ code / 100 = 1 ∨ code = 204 ∨ code = 304 := by
    rcases hb with hb | hb
    · exact Or.inl hb
    · right
      simp only [bodyAllowedForStatus, Bool.not_eq_false', Bool.or_eq_true, Bool.and_eq_true,
        decide_eq_true_eq] at hb
      omega
  unfold fixLength at hf
  simp only at hf
  split at hf
  · cases hf
  · split at hf
    · cases hf
    · split at hf
      · simp only [Option.some.injEq, Prod.mk.injEq] at hf; exact hf.1.symm
      · split at hf
        · simp only [Option.some.injEq, Prod.mk.injEq] at hf; exact hf.1.symm
        · split at hf
          · simp only [Option.some.injEq, Prod.mk.injEq] at hf; exact hf.1.symm
          · rename_i h1 h2 h3
            rcases hcode with hc | hc | hc
            · exact absurd hc h1
            · exact absurd hc h2
            · exact absurd hc h3

/-- **bodiless_framing_none**: for EVERY status line and header block that `readTransfer` accepts, a
response to HEAD or with a status that forbids a body (1xx, 204, 304) gets `NoBody` — whatever
`Transfer-Encoding` / `Content-Length` fields the server added. -/
theorem bodiless_framing_none (isHead : Bool) (sl : StatusLine) (h : HeaderMap) (m : Msg)
    (hb : isHead = true ∨ bodyAllowedForStatus sl.code = false)
    (hm : readTransfer isHead sl h = some m) : m.framing = .none := by
  unfold readTransfer at hm
  simp only at hm
  split at hm
  · cases hm
  · rename_i chunked h2 _
    split at hm
    · cases hm
    · rename_i rl h3 hfl
      have hrl := fixLength_bodiless _ _ _ _ _ _ hb hfl
      subst hrl
      split at hm
      · cases hm
      · split at hm
        · cases hm
        · simp only [Option.some.injEq] at hm
          subst hm
          simp only
          rcases hb with hb | hb
          · subst hb; cases chunked <;> simp
          · cases chunked <;> simp [hb]

/-- **bodiless_needs_no_more_bytes**: reading the body of such a response consumes nothing of the
stream, delivers nothing and ends with `io.EOF` — for every continuation `s` of the connection, the
empty one (a server that stays silent) included. -/
theorem bodiless_needs_no_more_bytes (isHead : Bool) (sl : StatusLine) (h : HeaderMap) (m : Msg)
    (hb : isHead = true ∨ bodyAllowedForStatus sl.code = false)
    (hm : readTransfer isHead sl h = some m) (B : Nat) (s : Bytes) :
    (readBody B m s).data = [] ∧ (readBody B m s).ok = true ∧ (readBody B m s).rest = s := by
  have hf := bodiless_framing_none isHead sl h m hb hm
  simp [readBody, hf]

/-- non-vacuity: a 204 with `Transfer-Encoding: chunked` AND `Content-Length: 5` is accepted, bodiless -/
example : (readTransfer false ⟨[72,84,84,80,47,49,46,49], [], 204, 1, 1⟩
    [(kTransferEncoding, [vChunked]), (kContentLength, [[53]])]).map (·.framing) = some .none := by
  decide

example : (readTransfer false ⟨[72,84,84,80,47,49,46,49], [], 200, 1, 1⟩
    [(kTransferEncoding, [vChunked])]).map (·.framing) = some .chunked := by
  decide

end r6h1

namespace r6h2
open Req.C07.DataBuf

/-- **h2_buffer_le_received**: whatever length the server announced (`e`, any integer) and whatever
the interleaving of loop iterations of `Write` and `Read`: the memory the buffer holds is at most the
bytes actually received plus one chunk of the largest size class. -/
theorem h2_buffer_le_received (e : Int) (es : List Ev) :
    (run { expected := e } es).held ≤ (run { expected := e } es).recv + maxChunk :=
  (inv_budget _ (run_inv _ es (inv_init e))).1

/-- **h2_buffer_le_unread**: … and at most the unread bytes plus two chunks (the partly read first and
the partly written last one): memory goes back as the caller reads. -/
theorem h2_buffer_le_unread (e : Int) (es : List Ev) :
    (run { expected := e } es).held ≤ (run { expected := e } es).size + 2 * maxChunk :=
  (inv_budget _ (run_inv _ es (inv_init e))).2

/-- **h2_chunk_never_sized_by_peer**: no request for a chunk — however large the `want` computed from
the announced length — gets more than the largest size class (nor an empty chunk: progress). -/
theorem h2_chunk_never_sized_by_peer (want : Int) : 0 < chunkClass want ∧ chunkClass want ≤ 16384 :=
  ⟨chunkClass_pos want, chunkClass_le want⟩

/-- **h2_write_terminates**: `Write(p)` copies all `n = len(p)` bytes within `n` iterations in every
reachable state, for every announced length (each iteration copies at least one byte). -/
theorem h2_write_terminates (e : Int) (es : List Ev) (n : Nat) :
    let b := run { expected := e } es
    (Buf.write n b n).size = b.size + n ∧ (Buf.write n b n).recv = b.recv + n ∧
    (Buf.write n b n).held ≤ (Buf.write n b n).recv + maxChunk := by
  intro b
  have hi := run_inv _ es (inv_init e)
  obtain ⟨h1, h2, h3⟩ := write_spec n n b hi (Nat.le_refl n)
  exact ⟨h2, h3, (inv_budget _ h1).1⟩

/-- non-vacuity: 2^40 bytes announced, one byte sent: one 16 KiB chunk -/
example : (run { expected := 1099511627776 } [.wstep 1]).chunks = [16384] := by decide
example : (Buf.write 40000 { expected := -1 } 40000).chunks = [16384, 16384, 8192] := by decide

end r6h2

namespace r6x
open Req.C07.Exchanges

theorem chain_le (srv : Nat → Ans) (left i : Nat) : (chain srv left i).1 ≤ i + left + 1 := by
  induction left generalizing i with
  | zero => simp [chain]
  | succ l ih =>
    simp only [chain]
    split
    · have := ih (i + 1); omega
    · simp only; omega

theorem attempt_le (srv : Nat → Ans) (c : Cfg) (i : Nat) :
    (attempt srv c i).1 ≤ i + ((c.maxRedirects - 1) + 1 + (if c.digest then 1 else 0)) := by
  have h := chain_le srv (c.maxRedirects - 1) i
  unfold attempt
  generalize chain srv (c.maxRedirects - 1) i = p at h
  obtain ⟨j, a⟩ := p
  simp only at h ⊢
  split
  · rename_i hd; simp only [hd.1, if_true]; omega
  · simp only; split <;> omega

theorem attempts_le (srv : Nat → Ans) (c : Cfg) (left i : Nat) :
    (attempts srv c left i).1 ≤
      i + (left + 1) * ((c.maxRedirects - 1) + 1 + (if c.digest then 1 else 0)) := by
  induction left generalizing i with
  | zero => simpa [attempts] using attempt_le srv c i
  | succ l ih =>
    have h := attempt_le srv c i
    simp only [attempts]
    generalize attempt srv c i = p at h
    obtain ⟨j, a⟩ := p
    simp only at h ⊢
    rw [Nat.add_mul (l + 1) 1]
    split
    · have := ih j; omega
    · simp only
      have : 0 ≤ (l + 1) * ((c.maxRedirects - 1) + 1 + (if c.digest then 1 else 0)) := Nat.zero_le _
      omega

/-- **requests_bounded**: whatever the server answers to each request — a fresh challenge, a redirect
to itself, a retry-able status, for ever — one call puts at most
`(retries + 1) × (max redirects 1 + digest)` requests on the wire. -/
theorem requests_bounded (srv : Nat → Ans) (c : Cfg) : (call srv c).1 ≤ bound c := by
  have := attempts_le srv c c.maxRetries 0
  simpa [call, bound] using this

/-- with digest auth alone: at most two requests per call -/
theorem digest_at_most_two (srv : Nat → Ans) :
    (call srv { maxRedirects := 1, maxRetries := 0, digest := true }).1 ≤ 2 :=
  requests_bounded srv _

/-- the server that marks every challenge stale, for ever: exactly two requests, the second 401 returned -/
example : call (fun _ => .challenge) { maxRedirects := 10, maxRetries := 0, digest := true } = (2, .challenge) := by
  decide
example : call (fun _ => .redirect) { maxRedirects := 10 } = (10, .stopped) := by decide
example : call (cyclic [.redirect, .challenge, .again]) { maxRedirects := 3, maxRetries := 2, digest := true } = (9, .again) := by
  decide

open Req.DigestAuth in
/-- **digest_hostile_two**: the middleware model of C20 (`handle` / `exchange`, tied to digest.go by
C20's lanes) against ANY server — the one that answers every request, authorized or not, with a fresh
challenge marked `stale=true` included: at most two requests per call; the answer to the second is
not examined. (C20 `answered_once`, stated for every look-up table `algOf`.) -/
theorem digest_hostile_two (H : Req.Digest.Alg → Bytes → Bytes) (algOf : Bytes → Option Req.Digest.Alg)
    (server : Req.Digest.Wire → Req.DigestAuth.Resp) (user pass method uri : Bytes) (body : Req.Digest.Body) (rnd : Option Bytes) :
    (exchange H algOf server user pass method uri body rnd).1.length ≤ 2 := by
  simp only [exchange]
  split <;> simp

end r6x

end Req.Props.C07
