/-! C07 — property theorems (none yet). -/
