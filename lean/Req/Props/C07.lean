import Req.Pool.AltSvcParse
import Req.Pool.MetaCharset
/-!
C07 — property theorems.

Part 1 (this file, Alt-Svc): the header parser behind `altsvcutil.ParseHeader` terminates on
EVERY header value and always yields a value (entries or an error): the three nested Go loops
have no explicit progress argument, the model runs them on fuel, and `parse_total` shows
`length + 1` fuel is always enough — i.e. the parser cannot spin on any server-chosen text.
-/
namespace Req.Props.C07
open Req.AltSvcParse Req.Proto

theorem readBytes_append (d : UInt8) (buf : Bytes) :
    (readBytes d buf).1 ++ (readBytes d buf).2.1 = buf := by
  induction buf with
  | nil => simp [readBytes]
  | cons c cs ih =>
    unfold readBytes
    split
    · simp
    · simp [ih]

theorem readBytes_line_ne (d : UInt8) (buf : Bytes) (h : buf ≠ []) :
    (readBytes d buf).1 ≠ [] := by
  cases buf with
  | nil => exact absurd rfl h
  | cons c cs =>
    unfold readBytes
    split <;> simp

theorem readBytes_rest_lt (d : UInt8) (buf : Bytes) (h : buf ≠ []) :
    (readBytes d buf).2.1.length < buf.length := by
  have h1 := readBytes_append d buf
  have h2 := readBytes_line_ne d buf h
  have : (readBytes d buf).1.length + (readBytes d buf).2.1.length = buf.length := by
    rw [← List.length_append, h1]
  have : 0 < (readBytes d buf).1.length := List.length_pos_iff.mpr h2
  omega

/-- Every `parseKv` call leaves at most the bytes that followed the `key=` it consumed. -/
theorem parseKv_rest_le (buf : Bytes) :
    (parseKv buf).rest.length ≤ (readBytes 61 buf).2.1.length := by
  unfold parseKv
  generalize readBytes 61 buf = r
  obtain ⟨line, bs, found⟩ := r
  simp only
  split
  · simp
  · split
    · simp
    · split
      · split
        · simp
        · split
          · simp <;> omega
          · split
            · simp <;> omega
            · rename_i b rest' heq
              have : (List.drop (quoteIndex bs + 1) bs).length ≤ bs.length := by simp
              rw [heq] at this
              simp at this ⊢
              omega
      · split
        · simp
        · simp <;> omega

/-- **progress**: on a non-empty buffer `parseKv` consumes at least one byte. -/
theorem parseKv_rest_lt (buf : Bytes) (h : buf ≠ []) :
    (parseKv buf).rest.length < buf.length :=
  Nat.lt_of_le_of_lt (parseKv_rest_le buf) (readBytes_rest_lt 61 buf h)

/-- on the empty buffer `parseKv` reports end of input and asks for no further field -/
theorem parseKv_nil : (parseKv []).haveNext = false ∧ (parseKv []).err = .eof ∧ (parseKv []).rest = [] := by
  simp [parseKv, readBytes]

theorem parseKv_rest_le_self (buf : Bytes) : (parseKv buf).rest.length ≤ buf.length := by
  cases buf with
  | nil => simp [parseKv_nil.2.2]
  | cons c cs => exact Nat.le_of_lt (parseKv_rest_lt _ (by simp))

/-- the "drain useless fields" loop terminates within `length + 1` iterations -/
theorem drain_some (fuel : Nat) (buf : Bytes) (h : buf.length < fuel) :
    ∃ e r, drain fuel buf = some (e, r) ∧ r.length ≤ buf.length := by
  induction fuel generalizing buf with
  | zero => omega
  | succ n ih =>
    unfold drain
    simp only
    split
    next hn =>
      have hne : buf ≠ [] := by
        intro he
        subst he
        simp [parseKv_nil.1] at hn
      have hlt := parseKv_rest_lt buf hne
      obtain ⟨e, r, h1, h2⟩ := ih (parseKv buf).rest (by omega)
      exact ⟨e, r, h1, by omega⟩
    next =>
      exact ⟨_, _, rfl, parseKv_rest_le_self buf⟩

/-- `parseOne` always returns, and leaves no more than it was given. -/
theorem parseOne_some (buf : Bytes) :
    ∃ e err r, parseOne (buf.length + 1) buf = some (e, err, r) ∧ r.length ≤ buf.length := by
  unfold parseOne
  simp only
  have h1 := parseKv_rest_le_self buf
  have h2 := parseKv_rest_le_self (parseKv buf).rest
  split
  · exact ⟨_, _, _, rfl, h1⟩
  · split
    · exact ⟨_, _, _, rfl, h1⟩
    · split
      · exact ⟨_, _, _, rfl, by omega⟩
      · split
        · exact ⟨_, _, _, rfl, by omega⟩
        · split
          · exact ⟨_, _, _, rfl, by omega⟩
          · split
            · exact ⟨_, _, _, rfl, by omega⟩
            · obtain ⟨e, r, hd, hr⟩ := drain_some (buf.length + 1) (parseKv (parseKv buf).rest).rest (by omega)
              rw [hd]
              exact ⟨_, _, _, rfl, by omega⟩

/-- `parseOne` that reports no error has consumed at least one byte. -/
theorem parseOne_progress (buf : Bytes) (e : Option Entry) (r : Bytes)
    (h : parseOne (buf.length + 1) buf = some (e, .none, r)) : r.length < buf.length := by
  have hne : buf ≠ [] := by
    intro he
    subst he
    simp [parseOne, parseKv, readBytes] at h
  obtain ⟨e', err', r', h1, h2⟩ := parseOne_some buf
  rw [h] at h1
  -- all exits return a rest that is ≤ (parseKv buf).rest, which is < buf
  have hlt := parseKv_rest_lt buf hne
  have h3 := parseKv_rest_le_self (parseKv buf).rest
  unfold parseOne at h
  simp only at h
  split at h
  · simp only [Option.some.injEq, Prod.mk.injEq] at h; obtain ⟨_, _, hr⟩ := h; subst hr; omega
  · split at h
    · simp only [Option.some.injEq, Prod.mk.injEq] at h; obtain ⟨_, _, hr⟩ := h; subst hr; omega
    · split at h
      · simp only [Option.some.injEq, Prod.mk.injEq] at h; obtain ⟨_, _, hr⟩ := h; subst hr; omega
      · split at h
        · simp at h
        · split at h
          · simp at h
          · split at h
            · simp only [Option.some.injEq, Prod.mk.injEq] at h; obtain ⟨_, _, hr⟩ := h; subst hr; omega
            · obtain ⟨e2, r2, hd, hr2⟩ := drain_some (buf.length + 1) (parseKv (parseKv buf).rest).rest (by omega)
              rw [hd] at h
              simp only [Option.some.injEq, Prod.mk.injEq] at h; obtain ⟨_, _, hr⟩ := h; subst hr; omega

theorem parseLoop_some (fuel : Nat) (buf : Bytes) (acc : List Entry) (h : buf.length < fuel) :
    (parseLoop fuel buf acc).isSome := by
  induction fuel generalizing buf acc with
  | zero => omega
  | succ n ih =>
    unfold parseLoop
    obtain ⟨e, err, r, h1, h2⟩ := parseOne_some buf
    rw [h1]
    simp only
    cases err with
    | none =>
      simp only
      exact ih r _ (by have := parseOne_progress buf e r h1; omega)
    | eof => simp
    | other => simp

/-- **parse_total** (C07, Alt-Svc): for every header value the parser terminates with a value —
a list of entries together with success (`eof`) or an error; it can neither spin nor get stuck. -/
theorem parse_total (s : Bytes) : (parse s).isSome :=
  parseLoop_some _ s [] (by omega)

/-- The result is always classified: success or error, never "still running". -/
theorem parse_classified (s : Bytes) : ∃ es err, parse s = some (es, err) ∧ err ≠ .none := by
  have h := parse_total s
  unfold parse at *
  generalize s.length + 1 = fuel at *
  generalize ([] : List Entry) = acc at *
  induction fuel generalizing s acc with
  | zero => simp [parseLoop] at h
  | succ n ih =>
    unfold parseLoop at h ⊢
    obtain ⟨e, err, r, h1, _⟩ := parseOne_some s
    rw [h1] at h ⊢
    simp only at h ⊢
    cases err with
    | none => simp only at h ⊢; exact ih r _ h
    | eof => exact ⟨_, _, rfl, by simp⟩
    | other => exact ⟨_, _, rfl, by simp⟩

/-- Non-vacuity: `h3=":443"; ma=3600, h2="alt.example:8443"` parses to two entries. -/
example :
    parse [104,51,61,34,58,52,52,51,34,59,32,109,97,61,51,54,48,48,44,32,104,50,61,34,97,58,56,34] =
      some ([⟨[104,51], [], [52,52,51], true⟩, ⟨[104,50], [97], [56], false⟩], .eof) := by decide

end Req.Props.C07

/-! ## Part 2: `charsets.fromMetaElement` terminates on every attribute value -/
namespace Req.Props.C07
open Req.MetaCharset Req.Proto

theorem afterCharset_lt (s r : Bytes) (h : afterCharset s = some r) : r.length < s.length := by
  induction s with
  | nil => simp [afterCharset] at h
  | cons c cs ih =>
    unfold afterCharset at h
    split at h
    next hp =>
      simp only [Option.some.injEq] at h
      subst h
      -- "charset" is a prefix of c :: cs, so there are at least 7 bytes
      have hlen : 7 ≤ (c :: cs).length := by
        match cs, hp with
        | c1 :: c2 :: c3 :: c4 :: c5 :: c6 :: _, _ => simp
        | [], hp => simp [isPrefixOf, charsetLit] at hp
        | [_], hp => simp [isPrefixOf, charsetLit] at hp
        | [_, _], hp => simp [isPrefixOf, charsetLit] at hp
        | [_, _, _], hp => simp [isPrefixOf, charsetLit] at hp
        | [_, _, _, _], hp => simp [isPrefixOf, charsetLit] at hp
        | [_, _, _, _, _], hp => simp [isPrefixOf, charsetLit] at hp
      simp only [List.length_drop]
      omega
    next =>
      have := ih h
      simp only [List.length_cons]
      omega

theorem trimLeftWs_le (s : Bytes) : (trimLeftWs s).length ≤ s.length := by
  induction s with
  | nil => simp [trimLeftWs]
  | cons c cs ih =>
    unfold trimLeftWs
    split
    · simp only [List.length_cons]; omega
    · simp

theorem fromMeta_some (fuel : Nat) (s : Bytes) (h : s.length < fuel) : (fromMeta fuel s).isSome := by
  induction fuel generalizing s with
  | zero => omega
  | succ n ih =>
    unfold fromMeta
    split
    · simp
    · split
      · simp
      · rename_i s1 hs1
        have h1 := afterCharset_lt s s1 hs1
        have h2 := trimLeftWs_le s1
        simp only
        split
        · split
          · simp
          · split
            · split <;> simp
            · simp
        · exact ih _ (by omega)

/-- **fromMeta_total** (C07): the meta-charset scanner terminates with a value on every input. -/
theorem fromMeta_total (s : Bytes) : (fromMetaElement s).isSome :=
  fromMeta_some _ s (by omega)

/-- Non-vacuity: `text/html; charset = "gbk"` yields `gbk`, after skipping a `charset` that is
not followed by `=`. -/
example : fromMetaElement [99,104,97,114,115,101,116,120,59,32,99,104,97,114,115,101,116,32,61,32,34,103,98,107,34]
    = some [103, 98, 107] := by decide

end Req.Props.C07
