import Req.Client.SetBody
import Req.Props.C17
/-!
C17 — marshalled bodies: what `SetBody` marshals, and that the marshaller follows the
Content-Type that is sent.
-/
namespace Req.Props.C17Marshal
open Req.SetBody Req.Body Req.Proto

/-- exactly the composite values are marshalled -/
theorem setBody_marshal_iff (a : Arg) : setBody a = .marshal ↔ a = .composite := by
  cases a <;> simp [setBody]

/-- `[]byte`, `string` and the printed scalars are sent as their exact bytes -/
theorem setBody_raw_iff (a : Arg) (b : Bytes) :
    setBody a = .raw b ↔ a = .bytes b ∨ a = .str b ∨ a = .scalar b := by
  cases a <;> simp [setBody]

/-- the untyped nil, and only it, leaves the request as it was -/
theorem setBody_unchanged_iff (a : Arg) : setBody a = .unchanged ↔ a = .untypedNil := by
  cases a <;> simp [setBody]

/-- **SetBody(value) end to end**: a composite value on a request with no form data, no files, a
payload-carrying method: the body is the output of the marshaller that MATCHES the Content-Type
the request goes out with — XML iff that type is an XML type (any letter case, `+xml`,
parameters), else JSON; without a preset, JSON under `application/json; charset=utf-8`.  A
marshaller error fails the call. -/
theorem setBody_composite_dispatch (base : Cfg) (json xml : Option Bytes)
    (hm : isPayloadForbid base.method base.allowGet = false) (hmp : base.multipart = false)
    (ho : base.ordered = []) (hr : base.reqForm = []) (hc : base.clientForm = []) :
    dispatch (toCfg base .composite json xml) =
      if (effCT base).isEmpty then json.map (fun j => ⟨.marshalJson, some j, jsonCT⟩)
      else if isXMLType (effCT base) then xml.map (fun x => ⟨.marshalXml, some x, effCT base⟩)
      else json.map (fun j => ⟨.marshalJson, some j, effCT base⟩) := by
  have := Req.Props.C17.marshal_choice (toCfg base .composite json xml) json xml
    (by simpa [toCfg, setBody] using hm) (by simpa [toCfg, setBody] using hmp)
    (by simpa [toCfg, setBody] using ho) (by simpa [toCfg, setBody] using hr)
    (by simpa [toCfg, setBody] using hc) (by simp [toCfg, setBody])
  simpa [toCfg, setBody, effCT] using this

/-- raw values: the exact bytes, under the preset type or the sniffed one -/
theorem setBody_raw_dispatch (base : Cfg) (a : Arg) (b : Bytes) (h : setBody a = .raw b)
    (hm : isPayloadForbid base.method base.allowGet = false) (hmp : base.multipart = false)
    (ho : base.ordered = []) (hr : base.reqForm = []) (hc : base.clientForm = []) :
    dispatch (toCfg base a none none) =
      some ⟨.raw, some b, if (effCT base).isEmpty then base.sniffed else effCT base⟩ := by
  simp only [toCfg, h, dispatch, hm, hmp, ho, hr, hc, Form.pairUp, Form.mergeForm, Form.addAll,
    List.foldl_nil, List.isEmpty_nil, Bool.false_eq_true, ↓reduceIte, Bool.not_true, Bool.or_self, effCT]
  split
  · split <;> simp_all
  · rfl

/-- letter case does not matter, suffixes and parameters count -/
example : isXMLType [65, 112, 112, 108, 105, 99, 97, 116, 105, 111, 110, 47, 88, 77, 76] = true := by decide  -- Application/XML
example : isXMLType [97, 112, 112, 108, 105, 99, 97, 116, 105, 111, 110, 47, 115, 111, 97, 112, 43, 120, 109, 108, 59, 32,
  99, 104, 97, 114, 115, 101, 116, 61, 117, 116, 102, 45, 56] = true := by decide  -- application/soap+xml; charset=utf-8
example : isXMLType [97, 112, 112, 108, 105, 99, 97, 116, 105, 111, 110, 47, 118, 110, 100, 46, 97, 112, 105, 43, 106,
  115, 111, 110] = false := by decide  -- application/vnd.api+json

end Req.Props.C17Marshal
