import Req.Client.Validate
import Req.H2.HpackSync
/-!
C16, round 7.

1. VALUE EDGES on HTTP/1.1 (`headerWriteSubset`: `headerNewlineToSpace` + `textproto.TrimString`):
   what is cut off a value is blanks only — the written value is the caller's value (CR / LF read
   as spaces) minus a prefix and a suffix consisting of SP / HTAB (/ CR / LF) bytes
   (`sanitizeValue_cuts_blanks_only`); every other byte — in particular every byte of a non-ASCII
   character such as U+3000, U+00A0, U+0085, which other notions of "white space" would trim — is
   written, in order (`sanitizeValue_keeps_nonblank_bytes`), and a value whose first and last byte
   are not blanks is written exactly (`sanitizeValue_exact`). Seed C16-r7-2 (strings.TrimSpace).
2. GIVEN-UP REQUESTS and the connection's header-compression state on HTTP/2: for every sequence
   of requests on a connection and every choice of give-up points (not at all / before the block is
   encoded / while it is encoded), with the writer's discipline "an encoded block is written" both
   ends' tables stay equal and the peer decodes, for every request that was not given up before
   encoding, exactly that request's field list (`given_up_requests_invisible`,
   `tables_in_step`); the discipline "check again after encoding and drop the block" (seed
   C16-r7-3) is refuted: a later request arrives with ANOTHER field or as a COMPRESSION_ERROR
   (`drop_after_encoding_wrong_field`, `drop_after_encoding_compression_error`).
-/
namespace Req.Props.C16Round7
open Req.Proto Req.Validate

/-! ## 1. value edges -/

theorem trimLeft_split (s : Bytes) :
    ∃ p, s = p ++ trimLeft s ∧ ∀ b ∈ p, isASCIISpace b = true := by
  induction s with
  | nil => exact ⟨[], rfl, by simp⟩
  | cons x xs ih =>
    unfold trimLeft
    split
    next hx =>
      obtain ⟨p, hp, hb⟩ := ih
      refine ⟨x :: p, by simp [← hp], ?_⟩
      intro b hbm
      rcases List.mem_cons.1 hbm with h | h
      · rw [h]; exact hx
      · exact hb b h
    · exact ⟨[], rfl, by simp⟩

theorem trimString_split (v : Bytes) :
    ∃ p q, v = p ++ trimString v ++ q ∧ (∀ b ∈ p, isASCIISpace b = true) ∧
      (∀ b ∈ q, isASCIISpace b = true) := by
  obtain ⟨p, hp, hpb⟩ := trimLeft_split v
  obtain ⟨q, hq, hqb⟩ := trimLeft_split (trimLeft v).reverse
  refine ⟨p, q.reverse, ?_, hpb, ?_⟩
  · have h2 : trimLeft v = (trimLeft (trimLeft v).reverse).reverse ++ q.reverse := by
      have := congrArg List.reverse hq
      simpa using this
    unfold trimString
    rw [List.append_assoc, ← h2]
    exact hp
  · intro b hb
    exact hqb b (List.mem_reverse.1 hb)

/-- **sanitizeValue_cuts_blanks_only**: the value on the HTTP/1.1 wire is the caller's value (CR /
LF as spaces) minus a prefix and a suffix of SP / HTAB / (former) CR / LF bytes — nothing else is
ever cut off, whatever the bytes at the edges of the value are. -/
theorem sanitizeValue_cuts_blanks_only (v : Bytes) :
    ∃ p q, newlineToSpace v = p ++ sanitizeValue v ++ q ∧ (∀ b ∈ p, isASCIISpace b = true) ∧
      (∀ b ∈ q, isASCIISpace b = true) :=
  trimString_split (newlineToSpace v)

theorem filter_blank_nil (p : Bytes) (h : ∀ b ∈ p, isASCIISpace b = true) :
    p.filter (fun b => !isASCIISpace b) = [] := by
  apply List.filter_eq_nil_iff.2
  intro b hb
  simp [h b hb]

/-- `headerNewlineToSpace` on one byte -/
def nl (b : UInt8) : UInt8 := if b == 10 || b == 13 then 32 else b

theorem nl_byte (x : UInt8) :
    (isASCIISpace x = true → isASCIISpace (nl x) = true) ∧ (isASCIISpace x = false → nl x = x) := by
  by_cases h10 : x = 10
  · subst h10; decide
  · by_cases h13 : x = 13
    · subst h13; decide
    · have : nl x = x := by simp [nl, h10, h13]
      rw [this]; exact ⟨id, fun _ => rfl⟩

theorem newlineToSpace_filter (v : Bytes) :
    (newlineToSpace v).filter (fun b => !isASCIISpace b) = v.filter (fun b => !isASCIISpace b) := by
  have hm : ∀ w : Bytes, newlineToSpace w = w.map nl := fun _ => rfl
  rw [hm]
  induction v with
  | nil => rfl
  | cons x xs ih =>
    rw [List.map_cons, List.filter_cons, List.filter_cons, ih]
    by_cases hs : isASCIISpace x = true
    · simp [hs, (nl_byte x).1 hs]
    · have hs' : isASCIISpace x = false := by simpa using hs
      rw [(nl_byte x).2 hs']

/-- **sanitizeValue_keeps_nonblank_bytes**: every byte of the caller's value that is not SP / HTAB
/ CR / LF is written, in order — all bytes of non-ASCII characters (U+3000 = e3 80 80, U+00A0 =
c2 a0, U+0085 = c2 85, ...) among them, wherever in the value they stand. -/
theorem sanitizeValue_keeps_nonblank_bytes (v : Bytes) :
    (sanitizeValue v).filter (fun b => !isASCIISpace b) = v.filter (fun b => !isASCIISpace b) := by
  obtain ⟨p, q, h, hp, hq⟩ := sanitizeValue_cuts_blanks_only v
  rw [← newlineToSpace_filter v, h]
  simp [List.filter_append, filter_blank_nil p hp, filter_blank_nil q hq]

theorem trimLeft_of_head (s : Bytes) (h : ∀ c t, s = c :: t → isASCIISpace c = false) :
    trimLeft s = s := by
  cases s with
  | nil => rfl
  | cons c t => simp [trimLeft, h c t rfl]

/-- **sanitizeValue_exact**: a value without CR / LF whose first and last byte are not SP / HTAB is
written byte for byte. -/
theorem sanitizeValue_exact (v : Bytes) (hn : ∀ b ∈ v, b ≠ 10 ∧ b ≠ 13)
    (hfirst : ∀ c t, v = c :: t → isASCIISpace c = false)
    (hlast : ∀ c t, v.reverse = c :: t → isASCIISpace c = false) : sanitizeValue v = v := by
  have h0 : newlineToSpace v = v := by
    unfold newlineToSpace
    conv => rhs; rw [← List.map_id v]
    apply List.map_congr_left
    intro a ha
    simp [(hn a ha).1, (hn a ha).2]
  unfold sanitizeValue trimString
  rw [h0, trimLeft_of_head v hfirst, trimLeft_of_head v.reverse hlast, List.reverse_reverse]

/-- non-vacuity: "山田" + U+3000 (full-width space) keeps its last character; SP / HTAB go. -/
example : sanitizeValue [0xe5, 0xb1, 0xb1, 0xe7, 0x94, 0xb0, 0xe3, 0x80, 0x80] =
    [0xe5, 0xb1, 0xb1, 0xe7, 0x94, 0xb0, 0xe3, 0x80, 0x80] := by decide
example : sanitizeValue [32, 0xc2, 0xa0, 0x76, 0xc2, 0x85, 9, 32] = [0xc2, 0xa0, 0x76, 0xc2, 0x85] := by
  decide

/-! ## 2. given-up requests and the connection's compression state -/
open Req.HpackSync

theorem find_nth (f : Field) : ∀ (t : Table) (i : Nat), find f t = some i → nth t i = some f := by
  intro t
  induction t with
  | nil => intro i h; simp [find] at h
  | cons g t ih =>
    intro i h
    unfold find at h
    split at h
    next hg =>
      cases h
      simp [nth, hg]
    next hg =>
      cases hf : find f t with
      | none => simp [hf] at h
      | some j =>
        simp [hf] at h
        subst h
        simpa [nth] using ih j hf

theorem encodeBlock_cons_some {f : Field} {t : Table} {i : Nat} (fs : List Field)
    (h : find f t = some i) :
    encodeBlock t (f :: fs) = (.indexed i :: (encodeBlock t fs).1, (encodeBlock t fs).2) := by
  simp [encodeBlock, encodeField, h]

theorem encodeBlock_cons_none {f : Field} {t : Table} (fs : List Field) (h : find f t = none) :
    encodeBlock t (f :: fs) =
      (.literal f :: (encodeBlock (f :: t) fs).1, (encodeBlock (f :: t) fs).2) := by
  simp [encodeBlock, encodeField, h]

/-- the decoder undoes the encoder when it starts from the encoder's table, and ends with the
encoder's table -/
theorem decode_encode (fs : List Field) : ∀ t : Table,
    decodeBlock t (encodeBlock t fs).1 = some (fs, (encodeBlock t fs).2) := by
  induction fs with
  | nil => intro t; rfl
  | cons f fs ih =>
    intro t
    cases hf : find f t with
    | some i =>
      rw [encodeBlock_cons_some fs hf]
      simp [decodeBlock, find_nth f t i hf, ih t]
    | none =>
      rw [encodeBlock_cons_none fs hf]
      simp [decodeBlock, ih (f :: t)]

theorem step_writeAlways (c : Conn) (h : c.client = c.peer) (r : List Field × GiveUp) :
    (step true c r).1.client = (step true c r).1.peer ∧ (step true c r).2 = expected r := by
  obtain ⟨fs, g⟩ := r
  have hd := decode_encode fs c.client
  cases g with
  | beforeEncoding => simp [step, expected, h]
  | no =>
    simp only [step, expected]
    rw [← h, hd]
    exact ⟨rfl, rfl⟩
  | whileEncoding =>
    simp only [step, expected]
    rw [← h, hd]
    exact ⟨rfl, rfl⟩

/-- **tables_in_step**: ∀ request sequences, ∀ give-up points — with the discipline "an encoded
block is written" the peer's table equals the client's after every sequence. -/
theorem tables_in_step (rs : List (List Field × GiveUp)) : ∀ c : Conn, c.client = c.peer →
    (run true c rs).1.client = (run true c rs).1.peer := by
  induction rs with
  | nil => intro c h; exact h
  | cons r rs ih =>
    intro c h
    unfold run
    exact ih _ (step_writeAlways c h r).1

/-- **given_up_requests_invisible**: ∀ request sequences, ∀ give-up points — the peer decodes for
every request exactly that request's field list (nothing for a request given up before its block
was encoded); a request given up while its block was being encoded changes nothing for the
requests that follow it on the connection. -/
theorem given_up_requests_invisible (rs : List (List Field × GiveUp)) : ∀ c : Conn,
    c.client = c.peer → (run true c rs).2 = rs.map expected := by
  induction rs with
  | nil => intro c _; rfl
  | cons r rs ih =>
    intro c h
    unfold run
    simp only [List.map_cons]
    rw [ih _ (step_writeAlways c h r).1, (step_writeAlways c h r).2]

/-- non-vacuity + refutation of "check again after encoding, drop the block": the table holds y
and x; a request carrying a new field a is dropped after encoding; the next request sends y,
which the client encodes as index 1 — the peer reads x. -/
theorem drop_after_encoding_wrong_field :
    let x : Field := ([120], [49]); let y : Field := ([121], [50]); let a : Field := ([97], [51])
    (run false ⟨[y, x], [y, x]⟩ [([a], .whileEncoding), ([y], .no)]).2 = [.nothing, .fields [x]] ∧
    (run true ⟨[y, x], [y, x]⟩ [([a], .whileEncoding), ([y], .no)]).2 = [.fields [a], .fields [y]] := by
  decide

theorem drop_after_encoding_compression_error :
    let x : Field := ([120], [49]); let a : Field := ([97], [51])
    (run false ⟨[x], [x]⟩ [([a], .whileEncoding), ([x], .no)]).2 = [.nothing, .compressionError] := by
  decide

end Req.Props.C16Round7
