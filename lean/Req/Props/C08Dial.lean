import Req.Pool.CancelDial
/-!
# C08 — cancellation during the shared dial of the HTTP/2 connection pool (round 6)

* `waiter_leaves_on_cancel_h2dial` — a waiter whose own context has ended can leave in ONE step, whatever
  the dial is doing (connecting, in its TLS handshake, finished), and that step gives it exactly its
  context's error and touches neither the dial nor the other waiter.
* `cancelled_waiter_never_parked_h2dial` — a state in which no step is enabled has no waiter left waiting
  with its context done (and nobody waiting on a finished dial).
* `dial_wait_bounded_h2dial` — every run of internal steps has at most 3 steps.
* `dial_continues_for_others_h2dial` — a joiner's cancellation (the event and its leaving) never fails the
  dial: if the handshake then completes, the other waiter gets the connection.
* `starter_cancel_redials_h2dial` — when it is the starter's context that ends, the dial fails with that
  context's error, the starter gets its context's error, the other waiter is sent round the loop (`retry`)
  and never inherits the error.
* `bare_wait_strands_cancelled_waiter` — sharpness: with a bare `<-call.done` a cancelled joiner is parked for
  as long as the dial runs (a stuck state with `me` waiting and its context done);
  `detached_dial_strands_starter` — seed C08-r6-2: the same for the starter itself once the dial no
  longer runs under its context.
-/
namespace Req.Props.C08Dial
open Req.Cancel (CtxErr)
open Req.CancelDial

/-- **waiter_leaves_on_cancel_h2dial** -/
theorem waiter_leaves_on_cancel_h2dial (s : St) (e : CtxErr) (hw : s.me = .waiting) (hc : s.ctx = some e) :
    guard s .meLeave = true ∧
    (apply s .meLeave).me = .returned (.ctxErr e) ∧
    (apply s .meLeave).dial = s.dial ∧ (apply s .meLeave).other = s.other ∧
    (apply s .meLeave).ctx = s.ctx := by
  refine ⟨by simp [CancelDial.guard, hw, hc], ?_⟩
  simp [CancelDial.apply, hc]

/-- non-vacuity: a joiner cancelled during the TLS handshake of somebody else's dial -/
example : let s : St := { dial := .handshaking, meStarter := false, ctx := some .canceled }
    guard s .meLeave = true ∧ (apply s .meLeave).me = .returned (.ctxErr .canceled) ∧
    (apply s .meLeave).dial = .handshaking := by decide

/-- **cancelled_waiter_never_parked_h2dial** -/
theorem cancelled_waiter_never_parked_h2dial (s : St) (h : stuck s = true) :
    (s.ctx.isSome = true → s.me ≠ .waiting) ∧
    (s.dial.finished = true → s.me ≠ .waiting ∧ s.other ≠ .waiting) := by
  simp only [stuck, allActs, List.all_cons, List.all_nil, CancelDial.guard, Bool.and_true, Bool.and_eq_true,
    Bool.not_eq_true', Bool.and_eq_false_iff, beq_eq_false_iff_ne, ne_eq, Bool.not_eq_false'] at h
  obtain ⟨h1, h2, h3, _⟩ := h
  refine ⟨fun hc hw => ?_, fun hf => ⟨fun hw => ?_, fun hw => ?_⟩⟩
  · rcases h1 with h1 | h1
    · exact h1 hw
    · simp [hc] at h1
  · rcases h2 with h2 | h2
    · exact h2 hw
    · simp [hf] at h2
  · rcases h3 with h3 | h3
    · exact h3 hw
    · simp [hf] at h3

/-- the number of steps still possible -/
def mu (s : St) : Nat :=
  (if s.me = .waiting then 1 else 0) + (if s.other = .waiting then 1 else 0) +
  (if s.dial.finished then 0 else 1)

theorem mu_dec (s : St) (a : Act) (g : CancelDial.guard s a = true) : mu (CancelDial.apply s a) < mu s := by
  rcases s with ⟨dial, st, ctx, me, other⟩
  cases a <;>
    simp only [CancelDial.guard, Bool.and_eq_true, beq_iff_eq, Bool.not_eq_true', Option.isSome_iff_exists] at g
  · obtain ⟨rfl, e, rfl⟩ := g
    simp only [mu, CancelDial.apply]; grind
  · obtain ⟨rfl, _⟩ := g
    simp only [mu, CancelDial.apply]; grind
  · obtain ⟨rfl, _⟩ := g
    simp only [mu, CancelDial.apply]; grind
  · obtain ⟨⟨hf, _⟩, _⟩ := g
    cases dial <;> simp only [Dial.finished, Bool.true_eq_false] at hf <;>
      (simp [mu, CancelDial.apply, Dial.finished]; try exact Nat.lt_succ_self _)

theorem mu_le (s : St) : mu s ≤ 3 := by
  unfold mu; split <;> split <;> split <;> omega

/-- **dial_wait_bounded_h2dial** -/
theorem dial_wait_bounded_h2dial {s t : St} {as : List Act} (run : Run s as t) : as.length ≤ 3 := by
  have : ∀ {s t as}, Run s as t → as.length + mu t ≤ mu s := by
    intro s t as r
    induction r with
    | nil s => simp
    | cons g _ ih => have := mu_dec _ _ g; simp only [List.length_cons]; omega
  have h1 := this run
  have h2 := mu_le s
  omega

/-- **dial_continues_for_others_h2dial**: the joiner's context ends and the joiner leaves; the dial is where
it was, and once its handshake completes the other waiter (the starter) gets the connection -/
theorem dial_continues_for_others_h2dial (s : St) (e : CtxErr) (hj : s.meStarter = false)
    (hw : s.me = .waiting) (hc : s.ctx = none) (ho : s.other = .waiting) (hd : s.dial = .handshaking) :
    let s1 := apply (evApply s (.cancel e)) .meLeave
    guard s1 .dialAbort = false ∧ s1.dial = .handshaking ∧
    evGuard s1 .hsDone = true ∧ guard (evApply s1 .hsDone) .otherTake = true ∧
    (apply (evApply s1 .hsDone) .otherTake).other = .returned .conn := by
  rcases s with ⟨dial, st, ctx, me, other⟩
  simp only at hj hw hc ho hd
  subst hj hw hc ho hd
  simp [CancelDial.apply, evApply, CancelDial.guard, evGuard, take, Dial.finished]

/-- **starter_cancel_redials_h2dial** -/
theorem starter_cancel_redials_h2dial (s : St) (e : CtxErr) (hs : s.meStarter = true)
    (hd : s.dial.finished = false) (hc : s.ctx = none) (t : St)
    (ht : t ∈ finals 4 (evApply s (.cancel e))) (hw : s.me = .waiting) (ho : s.other = .waiting) :
    t.me = .returned (.ctxErr e) ∧ t.other = .returned .retry := by
  rcases s with ⟨dial, st, ctx, me, other⟩
  simp only at hs hd hc hw ho
  subst hs hc hw ho
  cases dial <;> simp only [Dial.finished, Bool.true_eq_false] at hd <;> cases e <;>
    revert t <;> decide

/-- **bare_wait_strands_cancelled_waiter** (sharpness): a joiner cancelled during the handshake of the
other request's dial; with the bare `<-call.done` nothing is enabled and it is still waiting -/
theorem bare_wait_strands_cancelled_waiter :
    let s : St := { dial := .handshaking, meStarter := false, ctx := some .canceled }
    stuckBy guardBare s = true ∧ s.me = .waiting ∧ stuck s = false := by decide

/-- **detached_dial_strands_starter** (seed C08-r6-2): the starter itself, once the dial no longer runs
under its context -/
theorem detached_dial_strands_starter :
    let s : St := { dial := .handshaking, meStarter := true, ctx := some .deadline }
    stuckBy guardDetached s = true ∧ s.me = .waiting ∧ stuckBy guardBare s = false := by decide

end Req.Props.C08Dial
