import Req.Lemmas.DecodeSettings
import Req.Props.C15
/-!
C15 — the decode settings over their whole life-cycle (setter calls in any order, `Clone` at
any moment, further calls on the original and on the copy).

* `applyOps_eq`: after ANY sequence of setter calls the switch is what the last
  `Enable`/`Disable` call said and the content-type filter what the last `Set…` call said —
  the two never influence each other (`toggle_keeps_filter`, `set_keeps_switch`);
* `runFam_eq_lineages`: in a family of clients grown by `Clone`, every member's configuration
  is the fold of ITS OWN lineage of calls (the calls made on its ancestors before the
  respective cloning, then the calls made on itself) from the default configuration;
* `clone_is_copy`: a clone starts with exactly the configuration of its origin — filter
  included, also while decoding is switched off;
* `on_other_member_invisible`, `clone_keeps_members`: a call on one member / a `Clone` never
  changes another member;
* `disabled_then_enabled_clone_keeps_filter`: the four-call pattern `Disable; Set…(f); Clone;
  Enable (on the clone)` leaves the clone with filter `f`;
* `unselected_after_ops`: tied to the reader — if the filter in force after the member's
  lineage rejects the content type (or its last toggle is `Disable`), every `Read` is the
  underlying `Read`.
-/
namespace Req.Props.C15
open Req.Proto Req.Decode

/-- **applyOps_eq**: last toggle / last `Set…` decide, independently. -/
theorem applyOps_eq (c : Config) (ops : List SetOp) :
    applyOps c ops = ⟨lastToggle c.disable ops, lastFilter c.filter ops⟩ := by
  unfold applyOps
  induction ops generalizing c with
  | nil => cases c; rfl
  | cons op ops ih =>
    rw [List.foldl_cons, ih]
    cases op <;> rfl

theorem toggle_keeps_filter (c : Config) (op : SetOp) (h : op.isToggle = true) :
    (SetOp.apply c op).filter = c.filter := by
  cases op <;> first | rfl | simp [SetOp.isToggle] at h

theorem set_keeps_switch (c : Config) (op : SetOp) (h : op.isToggle = false) :
    (SetOp.apply c op).disable = c.disable := by
  cases op <;> first | rfl | simp [SetOp.isToggle] at h

/-- **runFam_eq_lineages**: every member of a family of clients has the configuration its own
lineage of setter calls produces from the default — for every sequence of calls and clonings. -/
theorem runFam_eq_lineages (ops : List FamOp) :
    runFam ops = (lineages ops).map (applyOps Config.default) := by
  unfold runFam lineages
  suffices h : ∀ (ls : List (List SetOp)),
      ops.foldl FamOp.apply (ls.map (applyOps Config.default)) =
        (ops.foldl FamOp.applyLin ls).map (applyOps Config.default) from by
    simpa [applyOps] using h [[]]
  induction ops with
  | nil => intro ls; rfl
  | cons op ops ih =>
    intro ls
    rw [List.foldl_cons, List.foldl_cons, ← fam_step, ih]

/-- **clone_is_copy**: the copy has exactly the configuration (switch AND filter) its origin has
at that moment. -/
theorem clone_is_copy (ops : List FamOp) (i : Nat) (c : Config) (h : (runFam ops)[i]? = some c) :
    (runFam (ops ++ [.clone i]))[(runFam ops).length]? = some c := by
  unfold runFam at h ⊢
  rw [List.foldl_append]
  simp [FamOp.apply, h]

/-- **on_other_member_invisible**: a setter call on member `i` changes no other member. -/
theorem on_other_member_invisible (cs : List Config) (i j : Nat) (op : SetOp) (h : i ≠ j) :
    (FamOp.apply cs (.on i op))[j]? = cs[j]? := by
  simp [FamOp.apply, h]

/-- **clone_keeps_members**: `Clone` changes none of the existing members. -/
theorem clone_keeps_members (cs : List Config) (i j : Nat) (h : j < cs.length) :
    (FamOp.apply cs (.clone i))[j]? = cs[j]? := by
  simp only [FamOp.apply]
  cases cs[i]? with
  | none => rfl
  | some c => simp [List.getElem?_append_left h]

/-- **disabled_then_enabled_clone_keeps_filter**: `Disable; Set…; Clone; Enable on the clone` —
whatever was called before on the original (`pre`) and whichever `Set…` call it is. -/
theorem disabled_then_enabled_clone_keeps_filter (pre : List SetOp) (set : SetOp)
    (hset : set.isToggle = false) :
    let ops := pre.map (FamOp.on 0) ++ [.on 0 .disable, .on 0 set, .clone 0, .on 1 .enable]
    (runFam ops)[1]? = some ⟨false, lastFilter none (pre ++ [set])⟩ := by
  intro ops
  have hl : lineages ops = [pre ++ [.disable, set], pre ++ [.disable, set, .enable]] := by
    simp only [ops, lineages, List.foldl_append]
    have hp : ∀ (l : List SetOp), (pre.map (FamOp.on 0)).foldl FamOp.applyLin [l] = [l ++ pre] := by
      induction pre with
      | nil => intro l; simp
      | cons p ps ih => intro l; simp [FamOp.applyLin, ih]
    rw [hp]
    simp [FamOp.applyLin]
  rw [runFam_eq_lineages, hl]
  simp only [List.map, List.getElem?_cons_succ, List.getElem?_cons_zero, applyOps_eq]
  have h1 : ∀ (d : Bool) (l : List SetOp), lastToggle d (l ++ [.disable, set, .enable]) = false := by
    intro d l
    induction l generalizing d with
    | nil => cases set <;> simp [lastToggle, SetOp.isToggle] at hset ⊢
    | cons a l ih => cases a <;> simp [lastToggle, ih]
  have h2 : ∀ (f : Option (Bytes → Bool)) (l : List SetOp),
      lastFilter f (l ++ [.disable, set, .enable]) = lastFilter f (l ++ [set]) := by
    intro f l
    induction l generalizing f with
    | nil => cases set <;> simp [lastFilter, SetOp.isToggle] at hset ⊢
    | cons a l ih => cases a <;> simp [lastFilter, ih]
  simp [Config.default, h1, h2]

variable {σ : Type}

/-- **unselected_after_ops**: whatever sequence of calls and clonings led to the client that
performs the request — when the last toggle of its lineage is `Disable`, or the filter in force
after its lineage rejects the content type, every `Read` of the body is the underlying `Read`. -/
theorem unselected_after_ops (ops : List FamOp) (j : Nat) (lin : List SetOp)
    (hj : (lineages ops)[j]? = some lin) (ae ct : Bytes) (mp : MediaParse)
    (lookup : Bytes → Option (Decoder σ)) (find : Bytes → Option (Decoder σ))
    (h : lastToggle false lin = true ∨ shouldDecode ⟨false, lastFilter none lin⟩ ct = false)
    (src : Src) (bufs : List Nat) :
    ∃ cfg, (runFam ops)[j]? = some cfg ∧
      (respReads cfg ae ct mp lookup find src bufs).out = (reads Src.read src bufs).out ∧
      (respReads cfg ae ct mp lookup find src bufs).term = (reads Src.read src bufs).term := by
  refine ⟨applyOps Config.default lin, ?_, ?_⟩
  · rw [runFam_eq_lineages, List.getElem?_map, hj]; rfl
  · apply unselected_type_untouched
    rw [applyOps_eq]
    rcases h with h | h
    · left; exact h
    · right; right; simpa [shouldDecode, Config.default] using h

/-! ### non-vacuity -/

private def htmlOnly : SetOp := .setList [[104, 116, 109, 108]]   -- SetAutoDecodeContentType("html")
private def csv : Bytes := [116, 101, 120, 116, 47, 99, 115, 118]  -- "text/csv"

-- Disable; SetAutoDecodeContentType("html"); Clone; Enable on the clone: the clone is switched on
-- and rejects text/csv (which the default filter would select), the original stays off
example : ((runFam [.on 0 .disable, .on 0 htmlOnly, .clone 0, .on 1 .enable])[1]?.map
    fun c => (c.disable, shouldDecode c csv)) = some (false, false) := by decide
example : ((runFam [.on 0 .disable, .on 0 htmlOnly, .clone 0, .on 1 .enable])[0]?.map
    fun c => c.disable) = some true := by decide
example : shouldDecode Config.default csv = true := by decide
-- later calls on the original do not reach the clone, and vice versa
example : ((runFam [.clone 0, .on 0 .disable, .on 1 htmlOnly])[1]?.map fun c => (c.disable, shouldDecode c csv))
    = some (false, false) := by decide
example : ((runFam [.clone 0, .on 0 .disable, .on 1 htmlOnly])[0]?.map fun c => (c.disable, shouldDecode c csv))
    = some (true, true) := by decide
example : lineages [.on 0 .disable, .clone 0, .on 1 .enable, .on 0 .setAll, .clone 1]
    = [[.disable, .setAll], [.disable, .enable], [.disable, .enable]] := by
  simp [lineages, FamOp.applyLin]

end Req.Props.C15
