import Req.Client.CompressClose
/-!
C14 — closing a decoded `Response.Body` closes the body underneath, for each of the four
wrappers of `internal/compress`, after any sequence of reads and closes; and the statement is
FALSE of `DeflateReader.Close` as the fork had it (repaired in /repo by 1ae1001) and of `ZstdReader.Close`
as it has it (fixes/C14-6), witnessed by `decide` and replayed by lanes `close` / `close_e2e` (classes
`deflate-close-leaves-body-open`, `zstd-close-waits-for-body`).
-/
namespace Req.Props.C14Close
open Req.Proto Req.Compress

/-- **close_reaches_body** — every `Close` of every wrapper calls the underlying `Body.Close`,
whether or not a decoder was built. -/
theorem close_reaches_body (a : Alg) (h : Handles) :
    (closeOf a h).bodyCloses = h.bodyCloses + 1 := by
  cases a <;> rfl

theorem read_keeps_body (h : Handles) : (readOf h).bodyCloses = h.bodyCloses := by
  unfold readOf; split <;> rfl

/-- **body_closes_eq_count** — after any sequence of reads and closes the underlying body has
been closed exactly as often as the wrapper was: in particular at least once as soon as the
caller closed it once (the connection / stream is released), never by a read. -/
theorem body_closes_eq_count (a : Alg) (h : Handles) (ops : List HOp) :
    (runOps closeOf a h ops).bodyCloses = h.bodyCloses + ops.count .close := by
  induction ops generalizing h with
  | nil => simp [runOps]
  | cons op ops ih =>
    cases op with
    | read => simp [runOps, ih, read_keeps_body]
    | close => simp [runOps, ih, close_reaches_body]; omega

theorem closed_once_closed (a : Alg) (ops : List HOp) (hc : HOp.close ∈ ops) :
    1 ≤ (runOps closeOf a .fresh ops).bodyCloses := by
  rw [body_closes_eq_count]
  have := List.count_pos_iff.mpr hc
  simp [Handles.fresh]; omega

/-- the decoder's own `Close` is only called on a decoder that exists -/
theorem decoder_closed_only_if_started (a : Alg) (h : Handles) (hs : h.started = false) :
    (closeOf a h).decoderCloses = h.decoderCloses := by
  cases a <;> simp [closeOf, hs]

/-- `GzipReader`: a read after `Close` neither builds a decoder nor touches the body -/
theorem gzip_read_after_close (h : Handles) : readOf (closeOf .gzip h) = closeOf .gzip h := rfl

example : (runOps closeOf .deflate .fresh [.read, .read, .close, .close]).bodyCloses = 2 := by decide
example : (runOps closeOf .zstd .fresh [.close]).decoderCloses = 0 := by decide

/-- **close_never_waits** — no wrapper's `Close` depends on the server sending anything. -/
theorem close_never_waits (a : Alg) (h : Handles) : closeWaits a h = false := by
  cases a <;> rfl

/-! ### false of the fork's `DeflateReader.Close` and `ZstdReader.Close` -/

/-- after a read, `ZstdReader.Close` waits for the body -/
theorem legacy_zstd_close_waits :
    Legacy.closeWaits .zstd (readOf .fresh) = true := by decide

theorem legacy_waits_only (a : Alg) (h : Handles) (hw : Legacy.closeWaits a h = true) :
    a = .zstd ∧ h.started = true := by
  cases a <;> simp [Legacy.closeWaits] at hw ⊢
  exact hw.1


/-- a read, then `Close`: the body underneath is never closed (the HTTP/1.1 connection stays
with a blocked `readLoop`, an HTTP/2 stream keeps its window) -/
theorem legacy_deflate_close_leaks :
    (runOps Legacy.closeOf .deflate .fresh [.read, .close]).bodyCloses = 0 := by decide

/-- … and that is the only difference -/
theorem legacy_differs_only (a : Alg) (h : Handles) (hne : ¬(a = .deflate ∧ h.started = true)) :
    Legacy.closeOf a h = closeOf a h := by
  cases a <;> simp [Legacy.closeOf] at hne ⊢
  simp [closeOf, hne]

end Req.Props.C14Close
