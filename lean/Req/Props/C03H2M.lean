import Req.C03.H2Multi
/-!
C03 — HTTP/2, several concurrent streams on one connection: **a cut of one stream never changes
another stream's outcome** (`h2_cut_isolated`), for every frame sequence before and after the cut,
every interleaving of the streams' frames, every error code.
-/
namespace Req.Props.C03H2M
open Req.Proto Req.C02 Req.C03

/-- `y'` is `y` up to the shared `doNotReuse` flag. -/
def Sim (y y' : H2X) : Prop := ∃ d, y' = { y with doNotReuse := d }

theorem Sim.refl (y : H2X) : Sim y y := ⟨y.doNotReuse, rfl⟩

theorem Sim.st {y y' : H2X} (h : Sim y y') : y'.st = y.st := by
  obtain ⟨d, rfl⟩ := h; rfl

/-- No step reads `doNotReuse` for anything but `doNotReuse`. -/
theorem Sim.step {y y' : H2X} (h : Sim y y') (e : H2XEv) : Sim (y.step e) (y'.step e) := by
  obtain ⟨d, rfl⟩ := h
  cases e with
  | headers fs es => exact ⟨d, rfl⟩
  | data p pad es => exact ⟨d, rfl⟩
  | rst code => exact ⟨_, rfl⟩
  | goAway last code =>
    simp only [H2X.step]
    split
    · exact ⟨d, rfl⟩
    · split
      · exact ⟨d, rfl⟩
      · exact ⟨d, rfl⟩
  | connLost => exact ⟨d, rfl⟩

theorem Sim.sibling {y y' x x' : H2X} (hy : Sim y y') (hx : Sim x x') (e : H2XEv) :
    Sim (y.sibling x (x.step e)) (y'.sibling x' (x'.step e)) := by
  have h1 := (hx.step e).st
  have h2 := hx.st
  unfold H2X.sibling
  rw [h1, h2]
  split
  · exact hy.step .connLost
  · obtain ⟨d, rfl⟩ := hy
    exact ⟨_, rfl⟩

/-- The outcome of a call does not depend on `doNotReuse`. -/
theorem Sim.outcome {y y' : H2X} (h : Sim y y') (k : Nat) : y'.outcome k = y.outcome k := by
  obtain ⟨d, rfl⟩ := h; rfl

/-- RST_STREAM never tears the connection down. -/
theorem rst_keeps_conn (x : H2X) (code : Nat) : (x.step (.rst code)).st.connDead = x.st.connDead := by
  simp only [H2X.step, H2Stream.processRst]
  split
  · rfl
  · simp only [H2Stream.abort]
    split <;> rfl

/-- Two connections agree, up to `doNotReuse`, on every stream but `i`. -/
def Agree (i : Nat) (m m' : H2M) : Prop := ∀ k, k ≠ i → Sim (m k) (m' k)

theorem Agree.step {i : Nat} {m m' : H2M} (h : Agree i m m') (e : H2MEv) (he : e.on i = false) :
    Agree i (m.step e) (m'.step e) := by
  intro k hk
  cases e with
  | conn e => exact (h k hk).step e
  | frame id e =>
    have hid : id ≠ i := by simpa [H2MEv.on] using he
    simp only [H2M.step]
    by_cases hkid : k = id
    · simp only [hkid, if_true]
      exact (h id hid).step e
    · simp only [hkid, if_false]
      exact (h k hk).sibling (h id hid) e

theorem Agree.run {i : Nat} {m m' : H2M} (h : Agree i m m') (evs : List H2MEv)
    (he : ∀ e ∈ evs, e.on i = false) : Agree i (m.run evs) (m'.run evs) := by
  induction evs generalizing m m' with
  | nil => exact h
  | cons e evs ih =>
    simp only [H2M.run]
    exact ih (h.step e (he e (by simp))) (fun e' h' => he e' (by simp [h']))

/-- Resetting stream `i` leaves every other stream as it is (up to `doNotReuse`). -/
theorem Agree.rst (i : Nat) (m : H2M) (code : Nat) : Agree i m (m.step (.frame i (.rst code))) := by
  intro k hk
  simp only [H2M.step, hk, if_false]
  unfold H2X.sibling
  rw [rst_keeps_conn]
  simp only [Bool.and_not_self, Bool.false_eq_true, if_false]
  exact ⟨_, rfl⟩

/-- **h2_cut_isolated.** One connection, any number of concurrent streams, ANY frame sequence
`before` (frames of all streams in any interleaving, GOAWAY, …).  Stream `i` is cut by
RST_STREAM with any error code and — it being cut — no further frame is addressed to it; `after` is
ANY continuation for the other streams and the connection.  Then every other stream `j` is, after
`before ++ RST_STREAM(i) ++ after`, exactly where it is after `before ++ after` (all of its state:
response head, pipe, length accounting, abort cause — only the connection's `doNotReuse` flag may
differ, RST_STREAM(PROTOCOL_ERROR)): the call and a draining caller observe the same outcome. -/
theorem h2_cut_isolated (m : H2M) (before after : List H2MEv) (i j code : Nat) (hij : j ≠ i)
    (hafter : ∀ e ∈ after, e.on i = false) (k : Nat) :
    Sim (((m.run before).run after) j) (((m.run before).step (.frame i (.rst code))).run after j) ∧
    ((((m.run before).step (.frame i (.rst code))).run after) j).outcome k =
      (((m.run before).run after) j).outcome k := by
  have h := (Agree.rst i (m.run before) code).run after hafter j hij
  exact ⟨h, h.outcome k⟩

/-- … and the same for a whole family of concurrent streams at once: what every surviving stream
delivers is independent of the cut. -/
theorem h2_cut_isolated_all (m : H2M) (before after : List H2MEv) (i code : Nat)
    (hafter : ∀ e ∈ after, e.on i = false) (k : Nat) :
    ∀ j, j ≠ i → ((((m.run before).step (.frame i (.rst code))).run after) j).outcome k =
      (((m.run before).run after) j).outcome k :=
  fun j hij => (h2_cut_isolated m before after i j code hij hafter k).2

-- non-vacuity: streams 1 and 3; 3 gets its head and 2 of 5 bytes, 1 is reset (CANCEL), 3 completes
example :
    let hdr : H2XEv := .headers [([58, 115, 116, 97, 116, 117, 115], [50, 48, 48]),
      ([99, 111, 110, 116, 101, 110, 116, 45, 108, 101, 110, 103, 116, 104], [53])] false
    let evs : List H2MEv := [.frame 1 hdr, .frame 3 hdr, .frame 3 (.data [97, 98] false false),
      .frame 1 (.rst 8), .frame 3 (.data [99, 100, 101] false true)]
    ((H2M.init.run evs) 3).outcome 512 = .ok 200 [97, 98, 99, 100, 101] ∧
    ((H2M.init.run evs) 1).outcome 512 = .bodyFailed 200 [] .rst := by decide

end Req.Props.C03H2M
