import Req.H2.BodyWire
import Req.Props.C01Body
import Req.Props.C05
/-!
C01 (round 5) — `h2_wire_body_exact`: the request body on an HTTP/2 connection at BYTE level.

Composes C01's content-level theorem `h2_body_exact` (the DATA payloads `writeRequestBody` cuts are
the body, END_STREAM on exactly the last frame — for every reader, window schedule, frame size) with
C05's framer round trip `data_parse_write` (`WriteData` → `ReadFrame`): the bytes on the connection
parse, with C05's frame parser, into DATA frames of the request's stream whose payload
concatenation is the body, the last of which carries END_STREAM, and nothing of what follows on the
connection is consumed.
-/
namespace Req.Props.C01H2Wire
open Req.Proto Req.H2.BodyWrite Req.H2.BodyWire Req.Lemmas.C01Body

/-- a frame the body writer hands to `WriteData` -/
def IsData (f : Frame) : Prop := ∃ p e, f = .data p e

theorem sendChunk_all_data (mf : Nat) (last : Bool) :
    ∀ (av : List Nat) (rem : Bytes), ∀ s ∈ (sendChunk mf last rem av).1, IsData s.frame := by
  intro av
  induction av with
  | nil => intro rem; cases rem <;> simp [sendChunk]
  | cons a av ih =>
    intro rem
    cases rem with
    | nil => simp [sendChunk]
    | cons b bs =>
      simp only [sendChunk]
      split
      · exact ih (b :: bs)
      · have := ih ((b :: bs).drop (take a (b :: bs).length mf))
        generalize sendChunk mf last ((b :: bs).drop (take a (b :: bs).length mf)) av = res at *
        obtain ⟨fs, r⟩ := res
        intro s hs
        simp only [List.mem_cons] at hs
        rcases hs with h | h
        · subst h; exact ⟨_, _, rfl⟩
        · exact this s h

/-- without a trailer block every frame of `writeRequestBody` is a DATA frame -/
theorem loop_all_data (cfg : Cfg) (hnt : (cfg.hasTrailers && cfg.trailerBlock) = false) :
    ∀ (fuel : Nat) (remain : Int) (r : Reader) (av : List Nat),
      ∀ s ∈ (loop cfg fuel remain r av).1, IsData s.frame := by
  intro fuel
  induction fuel with
  | zero => intro remain r av; simp [loop]
  | succ fuel ih =>
    intro remain r av
    simp only [loop]
    cases readStep cfg remain r with
    | stop o => simp
    | send chunk sawEOF remain' r' =>
      simp only
      have h1 := sendChunk_all_data cfg.maxFrame (sawEOF && !cfg.hasTrailers) av chunk
      generalize sendChunk cfg.maxFrame (sawEOF && !cfg.hasTrailers) chunk av = res at *
      obtain ⟨fs, ro⟩ := res
      simp only at h1
      cases ro with
      | none => exact h1
      | some av' =>
        simp only
        have hclosing : IsData (closing cfg).frame := by
          unfold closing; rw [hnt]; exact ⟨_, _, rfl⟩
        split
        · split
          · exact h1
          · intro s hs
            rcases List.mem_append.mp hs with h | h
            · exact h1 s h
            · simp only [List.mem_singleton] at h; subst h; exact hclosing
        · have h2 := ih remain' r' av'
          generalize loop cfg fuel remain' r' av' = res2 at *
          obtain ⟨fs', o⟩ := res2
          intro s hs
          rcases List.mem_append.mp hs with h | h
          · exact h1 s h
          · exact h2 s h

/-- the framer round trip, frame after frame: DATA frames without END_STREAM followed by one with
it are written by `WriteData` and read back by `ReadFrame` as exactly their payloads; what follows
on the connection is left unread. -/
theorem readBody_wire (sid mf : Nat) (hsid : Req.H2.Frame.ValidSid sid) (hmf : mf < Req.H2.Frame.two24)
    (rd : Req.H2.Frame.Reader) (h0 : rd.lastHeaderStream = 0) (hl : rd.allowIllegalReads = false)
    (hfit : mf ≤ rd.maxReadSize) (p : Bytes) (hp : p.length ≤ mf) :
    ∀ (init : List Frame), (∀ f ∈ init, IsData f ∧ f.endStream = false ∧ f.payload.length ≤ mf) →
      ∃ w, wire sid (init ++ [.data p true]) = some w ∧
        ∀ rest, readBody sid (init.length + 1) rd (w ++ rest) =
          some ((init ++ [Frame.data p true]).map Frame.payload, rest) := by
  have one : ∀ (q : Bytes) (e : Bool), q.length ≤ mf →
      ∃ out, frameWire sid (.data q e) = some out ∧ ∀ rest,
        Req.H2.Frame.readFrame rd (out ++ rest) =
          (.ok (.data ⟨out.length - 9, Req.H2.Frame.tData,
            Req.H2.Frame.b2n e Req.H2.Frame.flagEndStream + Req.H2.Frame.b2n false Req.H2.Frame.flagPadded, sid⟩ q), rd, rest) := by
    intro q e hq
    obtain ⟨out, hw, hr⟩ := Req.Props.C05.data_parse_write sid e q none ⟨hsid, by simp only; omega⟩
    refine ⟨out, by simp [frameWire, hw], ?_⟩
    intro rest
    have hlen : out.length - 9 = q.length := by
      have hs : Req.H2.Frame.validStreamID sid = true := by
        simp [Req.H2.Frame.validStreamID, hsid.2]; have := hsid.1; omega
      simp only [Req.H2.Frame.writeData, hs, Option.getD_none, List.length_nil, Option.isSome_none,
        List.any_nil, Req.H2.Frame.frameBytes] at hw
      simp at hw
      split at hw
      · cases hw
      · cases hw
        simp [Req.H2.Frame.headerBytes, Req.H2.Frame.be32]
    exact hr rd rest ⟨h0, hl, by omega⟩
  intro init
  induction init with
  | nil =>
    intro _
    obtain ⟨out, hw, hr⟩ := one p true hp
    refine ⟨out, by simp [wire, hw], ?_⟩
    intro rest
    simp only [List.length_nil, Nat.zero_add, readBody, hr rest, List.nil_append, List.map_cons, List.map_nil,
      Frame.payload]
    simp [Req.H2.Frame.b2n, Req.H2.Frame.hasFlag, Req.H2.Frame.flagEndStream]
  | cons f init ih =>
    intro hall
    obtain ⟨⟨q, e, hf⟩, he, hq⟩ := hall f (by simp)
    subst hf
    simp only [Frame.endStream] at he
    subst he
    simp only [Frame.payload] at hq
    obtain ⟨w, hw, hr⟩ := ih (fun g hg => hall g (by simp [hg]))
    obtain ⟨out, hwo, hro⟩ := one q false hq
    refine ⟨out ++ w, by simp [wire, hwo, hw], ?_⟩
    intro rest
    have hnf : Req.H2.Frame.hasFlag (Req.H2.Frame.b2n false Req.H2.Frame.flagEndStream +
        Req.H2.Frame.b2n false Req.H2.Frame.flagPadded) Req.H2.Frame.flagEndStream = false := by decide
    have e1 : (Frame.data q false :: init).length + 1 = (init.length + 1) + 1 := by simp
    rw [e1, List.append_assoc, readBody, hro (w ++ rest)]
    simp only [ne_eq, not_true_eq_false, if_false, hnf, Bool.false_eq_true, hr rest]
    simp [Frame.payload]

/-- **h2_wire_body_exact** — for every body, reader behaviour, scratch buffer, window schedule,
declared length and SETTINGS_MAX_FRAME_SIZE below 2^24, on a valid stream id and without a trailer
block: when `writeRequestBody` completes, the bytes it put on the connection (`WriteData` for every
cut) are read by an origin using C05's `ReadFrame` (idle, legal, accepting frames of the size it
advertised) as DATA frames of that stream whose payloads concatenate to EXACTLY the body; the
reading stops at the frame with END_STREAM, which is the last byte written — whatever follows on the
connection (`rest`) is untouched. -/
theorem h2_wire_body_exact (cfg : Cfg) (r : Reader) (avails : List Nat) (sid : Nat)
    (rd : Req.H2.Frame.Reader)
    (hdone : (writeBody cfg r avails).2 = .done)
    (hnt : (cfg.hasTrailers && cfg.trailerBlock) = false)
    (hsid : Req.H2.Frame.ValidSid sid) (hmf : cfg.maxFrame < Req.H2.Frame.two24)
    (h0 : rd.lastHeaderStream = 0) (hl : rd.allowIllegalReads = false) (hfit : cfg.maxFrame ≤ rd.maxReadSize) :
    ∃ w payloads, wire sid (frames (writeBody cfg r avails).1) = some w ∧
      payloads.flatten = r.data ∧
      ∀ rest, readBody sid (writeBody cfg r avails).1.length rd (w ++ rest) = some (payloads, rest) := by
  obtain ⟨hpay, ⟨init, s, hsplit, hend, hno⟩, _⟩ := Req.Props.C01Body.h2_body_exact cfg r avails hdone
  have hwithin := Req.Props.C01Body.h2_within_window cfg r avails
  have hdata := loop_all_data cfg hnt (fuelFor r) (remain0 cfg.cl) r avails
  have hdata' : ∀ x ∈ (writeBody cfg r avails).1, IsData x.frame := hdata
  rw [hsplit] at hwithin hdata' hpay ⊢
  obtain ⟨p, e, hs⟩ := hdata' s (by simp)
  rw [hs] at hend
  simp only [Frame.endStream] at hend
  subst hend
  have hp : p.length ≤ cfg.maxFrame := by
    have := (hwithin s (by simp)).2
    rw [hs] at this
    exact this
  obtain ⟨w, hw, hr⟩ := readBody_wire sid cfg.maxFrame hsid hmf rd h0 hl hfit p hp (frames init) (by
    intro f hf
    simp only [frames, List.mem_map] at hf
    obtain ⟨x, hx, hxf⟩ := hf
    subst hxf
    exact ⟨hdata' x (by simp [hx]), hno x hx, (hwithin x (by simp [hx])).2⟩)
  have hfr : frames (init ++ [s]) = frames init ++ [Frame.data p true] := by
    simp [frames, hs]
  refine ⟨w, (frames init ++ [Frame.data p true]).map Frame.payload, by rw [hfr]; exact hw, ?_, ?_⟩
  · rw [← hfr]; exact hpay
  · intro rest
    have := hr rest
    simpa [frames] using this

example : ∃ w, wire 3 (frames (writeBody { maxFrame := 16384, buf := 4, cl := none }
    { data := [1, 2, 3, 4, 5], sizes := [2], ending := .eof } [1, 10, 10, 10]).1) = some w ∧
    readBody 3 5 { maxReadSize := 16384 } (w ++ [7, 7]) = some ([[1], [2], [3, 4, 5], []], [7, 7]) := by
  refine ⟨_, rfl, ?_⟩
  decide

end Req.Props.C01H2Wire
