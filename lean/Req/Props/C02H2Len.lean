import Req.C02.H2Repair
/-!
C02 round 5 — finding C02-3: HTTP/2 length accounting and statuses that never have a body.
See `Req/C02/H2Repair.lean`.  Tie: lane `h2recv` (frame scripts: 204/304 × Content-Length × the
stream ended by HEADERS / by an empty DATA frame / by trailer HEADERS) and lane `e2eh2` (Go's h2
server with announced trailers).
-/
namespace Req.C02
open Req.Proto

/-- The repair changes nothing for a response that may have a body (every round-1..4 theorem
about `H2Stream` is about such states or about conformant lengths), for HEAD, and before the
head arrived. -/
theorem h2_lenRepair_id (s : H2Stream)
    (h : ∀ r, s.res = some r → r.body = .piped → bodyAllowedForStatusH2 r.status = true) :
    s.lenRepair = s := by
  unfold H2Stream.lenRepair
  cases hr : s.res with
  | none => rfl
  | some r =>
    simp only []
    by_cases hb : r.body = .piped
    · simp [h r hr hb]
    · have : (r.body == H2BodyKind.piped) = false := by
        cases hbb : r.body with
        | noBody => decide
        | missingBody => decide
        | piped => exact absurd hbb hb
      simp [this]

/-- After the repair a 204 / 304 whose HEADERS left the stream open carries no length
expectation, whatever Content-Length it announced. -/
theorem h2_lenRepair_nobody (s : H2Stream) (r : H2Res) (hr : s.res = some r) (hb : r.body = .piped)
    (hst : bodyAllowedForStatusH2 r.status = false) :
    s.lenRepair.bytesRemain = none ∧ s.lenRepair.pipe = s.pipe ∧ s.lenRepair.trailer = s.trailer ∧
      s.lenRepair.readErr = s.readErr := by
  have hpp : (H2BodyKind.piped == H2BodyKind.piped) = true := by decide
  simp [H2Stream.lenRepair, hr, hb, hst, hpp]

/-- Without a length expectation a read reports exactly what the pipe reports: the buffered
bytes, then the pipe's end (`io.EOF` after END_STREAM, with the trailers copied) — never
`io.ErrUnexpectedEOF`, never "more than declared". -/
theorem h2_read_without_accounting (s : H2Stream) (k : Nat) (hb : s.bytesRemain = none)
    (hre : s.readErr = none) (d : Bytes) (e : Option H2Err) (ran : Bool) (p' : Pipe)
    (hp : s.pipe.read k = some ((d, e, ran), p')) :
    ∃ s', s.read k = some ((d, e), s') ∧ s'.bytesRemain = none ∧ s'.readErr = none ∧ s'.pipe = p' ∧
      (ran = true → s'.resTrailer = s.trailer) := by
  cases ran <;> simp [H2Stream.read, hre, hp, hb]

/-! Non-vacuity and the finding itself, on the executable model: `:status 304`,
`content-length: 5`, HEADERS without END_STREAM, then trailer HEADERS (`x-t: 1`) with END_STREAM. -/
def ex304 : H2Stream :=
  [H2Ev.headers [([58, 115, 116, 97, 116, 117, 115], [51, 48, 52]),
      ([99, 111, 110, 116, 101, 110, 116, 45, 108, 101, 110, 103, 116, 104], [53])] false,
   H2Ev.headers [([120, 45, 116], [49])] true].foldl (fun s e => s.event e) (H2Stream.init false)

/-- the code as it is: "unexpected EOF" -/
example : (ex304.read 10).map (·.1) = some ([], some .unexpectedEOF) := by decide

/-- repaired: a clean end, trailers delivered -/
example : (ex304.lenRepair.read 10).map (·.1) = some ([], some .eof) ∧
    (ex304.lenRepair.read 10).map (·.2.resTrailer) = some [([88, 45, 84], [49])] := by decide

end Req.C02
