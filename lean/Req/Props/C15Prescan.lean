import Req.Client.Sniff
import Req.Props.C15
/-!
C15 — "how the body is split across network reads or caller reads can at most decide whether a
meta-declared charset is noticed, never produce any third result", with the CONCRETE scanner.

* `scan_append`, `found_absorbing`: the prescan is a left-to-right automaton and a verdict is final;
* `prescan_prefix`: what the scanner finds in a prefix of a document it finds in the whole
  document — a cut can hide a declaration, it can never make the scanner report a DIFFERENT
  label (a truncated `charset=utf-1|6le`, attribute name, quoted value, comment, script …);
* `findC_prefix`: the same for the whole of `charsets.FindEncoding` (byte-order marks included:
  a cut through a BOM leaves nothing a prescan could find);
* `sniffed_is_prefix`: the bytes shown to the sniffer are a prefix of the body;
* `split_only_affects_meta_detection`: for every body, every split into network reads and every
  sequence of caller reads, the delivered body is the original or the whole-body decode by the
  decoder `FindEncoding` finds ON THE WHOLE BODY — never by another one;
* `two_outcomes_concrete`: `two_outcomes` with the concrete scanner.
-/
namespace Req.Props.C15
open Req.Proto Req.Decode Req.Prescan

/-! ### the automaton -/

theorem scan_append (P : Params) (s : St) (a b : Bytes) : scan P s (a ++ b) = scan P (scan P s a) b := by
  simp [scan, List.foldl_append]

/-- **found_absorbing**: once a declaration has been accepted nothing that follows changes it. -/
theorem found_absorbing (P : Params) (n : Bytes) (b : Bytes) : scan P (.found n) b = .found n := by
  induction b with
  | nil => rfl
  | cons c cs ih => simpa [scan, step] using ih

/-- **prescan_prefix**: a verdict on a prefix is the verdict on every extension. -/
theorem prescan_prefix (P : Params) (a b n : Bytes) (h : prescan P a = some n) :
    prescan P (a ++ b) = some n := by
  unfold prescan at h ⊢
  rw [scan_append]
  cases hs : scan P .data a with
  | found m =>
    rw [hs] at h
    simp only [Option.some.injEq] at h
    subst h
    rw [found_absorbing]
  | _ => rw [hs] at h; simp at h

/-- No markup, no verdict: bytes other than `<` leave the scanner in the text state. -/
theorem scan_no_lt (P : Params) (a : Bytes) (h : ∀ c ∈ a, c ≠ 60) : scan P .data a = .data := by
  induction a with
  | nil => rfl
  | cons c cs ih =>
    have hc : c ≠ 60 := h c List.mem_cons_self
    have : step P .data c = .data := by simp [step, dataStep, hc]
    simp only [scan, List.foldl_cons, this]
    exact ih fun x hx => h x (List.mem_cons_of_mem _ hx)

/-! ### `FindEncoding` -/

variable {σ : Type}

/-- A byte-order mark that is a prefix of `a ++ b` but not of `a`: `a` is a proper prefix of the
mark. -/
theorem cut_bom_cases (bom a b : Bytes) (hb : bom ∈ boms.map Prod.fst)
    (h1 : bom.isPrefixOf (a ++ b) = true) (h2 : bom.isPrefixOf a = false) :
    a = [] ∨ a = [254] ∨ a = [255] ∨ a = [239] ∨ a = [239, 187] := by
  simp only [boms, List.map, List.mem_cons, List.mem_nil_iff, or_false] at hb
  rcases hb with rfl | rfl | rfl
  · rcases a with _ | ⟨x, _ | ⟨y, rest⟩⟩
    · simp
    · simp [List.isPrefixOf] at h1; obtain ⟨rfl, _⟩ := h1; simp
    · simp [List.isPrefixOf] at h1 h2; exact absurd h1.2 (h2 h1.1)
  · rcases a with _ | ⟨x, _ | ⟨y, rest⟩⟩
    · simp
    · simp [List.isPrefixOf] at h1; obtain ⟨rfl, _⟩ := h1; simp
    · simp [List.isPrefixOf] at h1 h2; exact absurd h1.2 (h2 h1.1)
  · rcases a with _ | ⟨x, _ | ⟨y, _ | ⟨z, rest⟩⟩⟩
    · simp
    · simp [List.isPrefixOf] at h1; obtain ⟨rfl, _⟩ := h1; simp
    · simp [List.isPrefixOf] at h1; obtain ⟨rfl, rfl, _⟩ := h1; simp
    · simp [List.isPrefixOf] at h1 h2; exact absurd h1.2.2 (h2 h1.1 h1.2.1)

theorem isPrefixOf_append_of (p a b : Bytes) (h : p.isPrefixOf a = true) :
    p.isPrefixOf (a ++ b) = true := by
  induction p generalizing a with
  | nil => simp
  | cons x xs ih =>
    cases a with
    | nil => simp at h
    | cons y ys =>
      simp only [List.cons_append, List.isPrefixOf_cons_cons, Bool.and_eq_true] at h ⊢
      exact ⟨h.1, ih ys h.2⟩

theorem bomScan_congr (lookup : Bytes → Option (Enc σ)) (tbl : List (Bytes × Bytes)) (a a' : Bytes)
    (h : ∀ bom ∈ tbl.map Prod.fst, bom.isPrefixOf a = bom.isPrefixOf a') :
    bomScan lookup tbl a = bomScan lookup tbl a' := by
  induction tbl with
  | nil => rfl
  | cons e rest ih =>
    obtain ⟨bom, label⟩ := e
    have h0 := h bom (by simp)
    have hr := ih fun x hx => h x (by simp at hx ⊢; exact Or.inr hx)
    simp only [bomScan, h0, hr]

/-- **findC_prefix**: what `FindEncoding` selects on a prefix of the document it selects on
the whole document. -/
theorem findC_prefix (P : Params) (decOf : Bytes → Decoder σ) (a b : Bytes) (d : Decoder σ)
    (h : findC P decOf a = some d) : findC P decOf (a ++ b) = some d := by
  unfold findC findEncoding at h ⊢
  by_cases ha : a = []
  · simp [ha] at h
  · have hab : a ++ b ≠ [] := by simp [ha]
    simp only [ha, hab, if_false] at h ⊢
    by_cases hall : ∀ bom ∈ boms.map Prod.fst, bom.isPrefixOf (a ++ b) = bom.isPrefixOf a
    · rw [bomScan_congr _ _ _ _ hall]
      cases hb : bomScan (lookupC P decOf) boms a with
      | some r => rw [hb] at h; exact h
      | none =>
        rw [hb] at h
        simp only [prescanC] at h ⊢
        cases hp : prescan P a with
        | none => rw [hp] at h; simp at h
        | some n =>
          rw [hp] at h
          rw [prescan_prefix P a b n hp]
          exact h
    · -- a mark straddles the cut: `a` holds no markup and no complete mark, nothing is found in it
      exfalso
      obtain ⟨bom, hb⟩ := Classical.not_forall.mp hall
      obtain ⟨hm, hne⟩ := Classical.not_imp.mp hb
      have h2 : bom.isPrefixOf a = false := by
        cases hx : bom.isPrefixOf a with
        | false => rfl
        | true => exact absurd (by rw [isPrefixOf_append_of bom a b hx, hx]) hne
      have h1 : bom.isPrefixOf (a ++ b) = true := by
        cases hx : bom.isPrefixOf (a ++ b) with
        | true => rfl
        | false => rw [hx, h2] at hne; exact absurd rfl hne
      have hcases := cut_bom_cases bom a b hm h1 h2
      have hpre : prescan P a = none := by
        rcases hcases with rfl | rfl | rfl | rfl | rfl <;> rfl
      have hnb : bomScan (lookupC P decOf) boms a = none := by
        rcases hcases with rfl | rfl | rfl | rfl | rfl <;> simp [boms, bomScan, List.isPrefixOf]
      rw [hnb] at h
      simp [prescanC, hpre] at h

/-! ### through the reader -/

/-- **sniffed_is_prefix**: the sniffer sees a prefix of the body. -/
theorem sniffed_is_prefix (src : Src) (bufs : List Nat) (c : Bytes) (h : sniffed src bufs = some c) :
    ∃ rest, src.body = c ++ rest := by
  induction bufs generalizing src with
  | nil => simp [sniffed] at h
  | cons L Ls ih =>
    unfold sniffed at h
    by_cases hns : noSniff (src.read L) = true
    · simp only [hns, if_true] at h
      by_cases ht : (src.read L).term ≠ none
      · simp [ht] at h
      · simp only [ht, if_false] at h
        obtain ⟨rest, hr⟩ := ih _ h
        -- the read returned no data (no error either): the body is unchanged
        have hout : (src.read L).out = [] := by
          simp only [noSniff, Bool.or_eq_true, decide_eq_true_eq, Bool.and_eq_true] at hns
          rcases hns with h0 | h0
          · simpa using h0
          · exact absurd h0.1 (by simpa using ht)
        have hb := Src.read_body src L
        rw [hout, List.nil_append] at hb
        exact ⟨rest, by rw [← hb, hr]⟩
    · simp only [hns] at h
      simp only [Bool.false_eq_true, if_false, Option.some.injEq] at h
      exact ⟨(src.read L).st.body, by rw [← h]; exact (Src.read_body src L).symm⟩

/-- every decoder `findC` returns is `decOf` of some name -/
theorem findC_is_decOf (P : Params) (decOf : Bytes → Decoder σ) (c : Bytes) (d : Decoder σ)
    (h : findC P decOf c = some d) : ∃ n, d = decOf n := by
  unfold findC findEncoding at h
  split at h
  · simp at h
  · split at h
    next r hr =>
      -- from the BOM loop
      have hb : ∀ (tbl : List (Bytes × Bytes)) (r : Option (Decoder σ)),
          bomScan (lookupC P decOf) tbl c = some r → r = some d → ∃ n, d = decOf n := by
        intro tbl
        induction tbl with
        | nil => intro r h1; simp [bomScan] at h1
        | cons e rest ih =>
          obtain ⟨bom, label⟩ := e
          intro r h1 h2
          simp only [bomScan] at h1
          split at h1
          · cases hlk : lookupC P decOf label with
            | none => rw [hlk] at h1; exact ih r h1 h2
            | some en =>
              rw [hlk] at h1
              simp only [Option.some.injEq] at h1
              subst h1
              simp only [lookupC, Option.map_eq_some_iff] at hlk
              obtain ⟨nm, _, rfl⟩ := hlk
              simp only [dropUtf8, encOf] at h2
              by_cases hx : Req.Ascii.lower nm = utf8Name
              · simp [hx] at h2
              · simp only [hx, if_false, Option.some.injEq] at h2; exact ⟨nm, h2.symm⟩
          · exact ih r h1 h2
      exact hb boms r hr h
    next =>
      simp only [prescanC] at h
      cases hp : prescan P c with
      | none => rw [hp] at h; simp at h
      | some nm =>
        rw [hp] at h
        simp only [Option.map_some, dropUtf8, encOf] at h
        by_cases hx : Req.Ascii.lower nm = utf8Name
        · simp [hx] at h
        · simp only [hx, if_false, Option.some.injEq] at h; exact ⟨nm, h.symm⟩

/-- **split_only_affects_meta_detection**: for every body, every split of it into network reads
(`src`), every sequence of caller reads (`bufs`): a body read to EOF is the original bytes or the
complete decode by the decoder `FindEncoding` finds on the WHOLE body.  The split decides at
most WHETHER that declaration is noticed. -/
theorem split_only_affects_meta_detection (P : Params) (decOf : Bytes → Decoder σ)
    (hlaw : ∀ n, (decOf n).Lawful) (src : Src) (bufs : List Nat)
    (heof : (autoReads (findC P decOf) src bufs).term = some .eof) :
    (autoReads (findC P decOf) src bufs).out = src.body ∨
    ∃ d, findC P decOf src.body = some d ∧ (autoReads (findC P decOf) src bufs).out = d.decodeAll src.body := by
  have hl : ∀ c d, findC P decOf c = some d → d.Lawful := by
    intro c d h
    obtain ⟨n, rfl⟩ := findC_is_decOf P decOf c d h
    exact hlaw n
  rcases two_outcomes (findC P decOf) hl src bufs heof with h | ⟨c, d, hs, hf, hout⟩
  · left; exact h
  · right
    obtain ⟨rest, hr⟩ := sniffed_is_prefix src bufs c hs
    exact ⟨d, by rw [hr]; exact findC_prefix P decOf c rest d hf, hout⟩

/-- **two_outcomes_concrete**: `two_outcomes` for the scanner the code runs. -/
theorem two_outcomes_concrete (exotic : Bytes → Option Bytes) (decOf : Bytes → Decoder σ)
    (hlaw : ∀ n, (decOf n).Lawful) (src : Src) (bufs : List Nat)
    (heof : (autoReads (findC (realParams exotic) decOf) src bufs).term = some .eof) :
    (autoReads (findC (realParams exotic) decOf) src bufs).out = src.body ∨
    ∃ d, findC (realParams exotic) decOf src.body = some d ∧
      (autoReads (findC (realParams exotic) decOf) src bufs).out = d.decodeAll src.body :=
  split_only_affects_meta_detection _ decOf hlaw src bufs heof

/-! ### the charset named by the Content-Type header -/

/-- **unsupported_charset_untouched**: a header charset that neither the WHATWG label table nor
the IANA index resolves to an IMPLEMENTED encoding (unknown name, or a registered name without
an implementation such as `utf-7`, `utf-32`, `cesu-8`) leaves the body alone: every `Read` is
the underlying `Read` — no sniffing either. -/
theorem unsupported_charset_untouched (cfg : Config) (ae ct cs : Bytes) (whatwg : Bytes → Option Bytes)
    (decOf : Bytes → Decoder σ) (iana : Bytes → Iana σ) (find : Bytes → Option (Decoder σ))
    (hw : whatwg (Req.Ascii.lower cs) = none)
    (hi : ∀ d, iana (Req.Ascii.lower cs) ≠ .ok d) (src : Src) (bufs : List Nat) :
    (respReads cfg ae ct (.charset cs) (headerLookup whatwg decOf iana) find src bufs).out = (reads Src.read src bufs).out ∧
    (respReads cfg ae ct (.charset cs) (headerLookup whatwg decOf iana) find src bufs).term = (reads Src.read src bufs).term := by
  have hl : headerLookup whatwg decOf iana (Req.Ascii.lower cs) = none := by
    unfold headerLookup
    rw [hw]
    cases h : iana (Req.Ascii.lower cs) with
    | ok d => exact absurd h (hi d)
    | unimplemented => rfl
    | unknown => rfl
  have hselect : select cfg ae ct (.charset cs) (headerLookup whatwg decOf iana) = .untouched := by
    unfold select
    by_cases h1 : cfg.disable = true ∨ ae ≠ []
    · simp [h1]
    · by_cases h2 : shouldDecode cfg ct = false
      · simp [h1, h2]
      · by_cases h3 : isUtf8Label (Req.Ascii.lower cs) = true
        · simp [h1, h2, h3]
        · simp [h1, h2, h3, hl]
  unfold respReads
  rw [hselect]
  exact bodyReads_raw find bufs src

/-- … and a label of the WHATWG table always selects that table's encoding, whatever the IANA
index would say (e.g. `iso-8859-1` means windows-1252). -/
theorem whatwg_label_wins (whatwg : Bytes → Option Bytes) (decOf : Bytes → Decoder σ) (iana : Bytes → Iana σ)
    (cs n : Bytes) (h : whatwg cs = some n) : headerLookup whatwg decOf iana cs = some (decOf n) := by
  simp [headerLookup, h]

/-! ### non-vacuity: a small label table, every cut of a declaration -/

private def gbk : Bytes := [103, 98, 107]
private def u16le : Bytes := [117, 116, 102, 45, 49, 54, 108, 101]
/-- knows `gbk`, `utf-16le` and (as a trap) the truncated spelling `utf-1`. -/
private def demoP : Params :=
  ⟨fun l => if l = gbk then some gbk else if l = u16le then some u16le
            else if l = [117, 116, 102, 45, 49] then some [84, 82, 65, 80] else none, id⟩

-- `<meta charset=utf-16le>`
private def metaU16 : Bytes :=
  [60, 109, 101, 116, 97, 32, 99, 104, 97, 114, 115, 101, 116, 61, 117, 116, 102, 45, 49, 54, 108, 101, 62]
-- `<meta charset="gbk">x`
private def metaGbk : Bytes :=
  [60, 109, 101, 116, 97, 32, 99, 104, 97, 114, 115, 101, 116, 61, 34, 103, 98, 107, 34, 62, 120]

example : prescan demoP metaU16 = some sUtf8 := by decide   -- utf-16* means utf-8
example : prescan demoP metaGbk = some gbk := by decide
-- every proper prefix of the declaration (also `…charset=utf-1`, a label the table knows) finds nothing
example : (List.range metaU16.length).all (fun k => prescan demoP (metaU16.take k) == none) = true := by decide
example : (List.range 20).all (fun k => prescan demoP (metaGbk.take k) == none) = true := by decide
-- a declaration inside a comment, a script and a title is not one; after them it is
example : prescan demoP ([60, 33, 45, 45] ++ metaGbk ++ [45, 45, 62]) = none := by decide
example : prescan demoP ([60, 115, 99, 114, 105, 112, 116, 62] ++ metaGbk) = none := by decide
example : prescan demoP ([60, 116, 105, 116, 108, 101, 62, 60, 47, 116, 105, 116, 108, 101, 62] ++ metaGbk) = some gbk := by decide

end Req.Props.C15
