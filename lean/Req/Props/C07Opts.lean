import Req.C07.ProtoOpts
import Req.C07.Interim
import Req.C07.Token
/-!
C07 — property theorems, part 2: option life cycle, interim loops, byte-indexed tables.

* No sequence of protocol setters (`EnableHTTP3`, `DisableHTTP3`, `EnableForceHTTP1/2/3`,
  `DisableForceHttpVersion`, `Clone`) — on a toolchain that supports HTTP/3 or not — leaves the
  transport in a state in which a response carrying `Alt-Svc`, or the forced-version dispatch,
  touches a nil field (`run_inv`, `altsvc_never_panics`, `forced_never_panics`).
* The interim-response loop of each protocol reads at most six heads, skips at most five, and what
  it returns is never an interim head (`interim_*`).
* The token table look-up guarded as in `validHeaderFieldByte` has a value for every byte
  (`validHeaderFieldByte_total`); without the guard it has none at 127 (`index_out_of_range`).
-/
namespace Req.Props.C07
open Req.C07

namespace opts
open Req.C07.ProtoOpts

/-- the invariant of a run on a toolchain with (`sup = true`) or without HTTP/3 support -/
def InvS (sup : Bool) (s : St) : Prop := Inv s ∧ (s.t3 = true → sup = true)

theorem invS_init (sup : Bool) : InvS sup {} := by simp [InvS, ProtoOpts.Inv]

theorem enableH3_inv (sup : Bool) (s : St) (h : InvS sup s) : InvS sup (enableH3 sup s) := by
  obtain ⟨⟨h1, h2, h3⟩, h4⟩ := h
  unfold enableH3
  split
  · exact ⟨⟨h1, h2, h3⟩, h4⟩
  · split
    · exact ⟨⟨h1, h2, h3⟩, h4⟩
    · next hs => exact ⟨⟨rfl, rfl, fun _ => rfl⟩, fun _ => by simpa using hs⟩

theorem disableH3_inv (sup : Bool) (s : St) : InvS sup (disableH3 s) := by
  refine ⟨⟨rfl, rfl, ?_⟩, ?_⟩
  · intro hf
    simp only [disableH3] at hf
    split at hf
    · cases hf
    · next hne => exact absurd hf hne
  · intro h; simp [disableH3] at h

theorem clone_inv (sup : Bool) (s : St) (h : InvS sup s) : InvS sup (clone sup s) := by
  obtain ⟨⟨_, _, h3⟩, h4⟩ := h
  unfold clone
  simp only
  split
  · next ht =>
    have hs : sup = true := h4 ht
    subst hs
    exact ⟨⟨rfl, rfl, fun _ => rfl⟩, fun _ => rfl⟩
  · next ht =>
    refine ⟨⟨rfl, rfl, ?_⟩, ?_⟩
    · intro hf
      exact absurd (h3 hf) ht
    · intro h; simp at h

theorem step_inv (sup : Bool) (s : St) (op : Op) (h : InvS sup s) : InvS sup (step sup s op) := by
  cases op with
  | enableH3 => exact enableH3_inv sup s h
  | disableH3 => exact disableH3_inv sup s
  | forceH1 =>
    obtain ⟨⟨h1, h2, _⟩, h4⟩ := h
    exact ⟨⟨h1, h2, fun hf => by cases hf⟩, h4⟩
  | forceH2 =>
    obtain ⟨⟨h1, h2, _⟩, h4⟩ := h
    exact ⟨⟨h1, h2, fun hf => by cases hf⟩, h4⟩
  | forceH3 =>
    have he := enableH3_inv sup s h
    simp only [step]
    split
    · next ht =>
      obtain ⟨⟨h1, h2, _⟩, h4⟩ := he
      exact ⟨⟨h1, h2, fun _ => ht⟩, h4⟩
    · exact he
  | unforce =>
    obtain ⟨⟨h1, h2, _⟩, h4⟩ := h
    exact ⟨⟨h1, h2, fun hf => by cases hf⟩, h4⟩
  | clone => exact clone_inv sup s h

theorem run_invS (sup : Bool) (s : St) (ops : List Op) (h : InvS sup s) : InvS sup (run sup s ops) := by
  induction ops generalizing s with
  | nil => exact h
  | cons op rest ih => exact ih (step sup s op) (step_inv sup s op h)

/-- **run_inv**: after ANY sequence of protocol setters applied to a new transport, the alt-svc jar,
the pending map and the HTTP/3 round tripper are all nil or all non-nil, and HTTP/3 is forced only
while its round tripper exists. -/
theorem run_inv (sup : Bool) (ops : List Op) : Inv (run sup {} ops) :=
  (run_invS sup {} ops (invS_init sup)).1

/-- **altsvc_never_panics**: whatever the setter history, a response that carries a usable
`Alt-Svc: h3=…` header never reaches a nil `pendingAltSvcs` map or a nil HTTP/3 round tripper. -/
theorem altsvc_never_panics (sup : Bool) (ops : List Op) (https respH3 : Bool) :
    onAltSvc (run sup {} ops) https respH3 ≠ .panic := by
  obtain ⟨h1, h2, _⟩ := run_inv sup ops
  unfold onAltSvc
  split
  · simp
  · next hg =>
    have hj : (run sup {} ops).jar = true := by
      simp only [Bool.or_eq_true, Bool.not_eq_true', not_or] at hg
      simpa using hg.1.1.2
    simp [h1, h2, hj]

/-- **forced_never_panics**: the forced-version dispatch never calls a nil HTTP/3 round tripper. -/
theorem forced_never_panics (sup : Bool) (ops : List Op) : onForced (run sup {} ops) ≠ .panic := by
  obtain ⟨_, _, h3⟩ := run_inv sup ops
  unfold onForced
  split
  · next hf => simp [h3 hf]
  · simp
  · simp

/-- **disable_skips_altsvc**: right after `DisableHTTP3` an `Alt-Svc` header is ignored, whatever
came before. -/
theorem disable_skips_altsvc (sup : Bool) (ops : List Op) (https respH3 : Bool) :
    onAltSvc (run sup {} (ops ++ [.disableH3])) https respH3 = .skip := by
  simp [run, List.foldl_append, step, disableH3, onAltSvc]

/-- non-vacuity: the guarded branch is reached (`ok`), and a state violating the invariant — the
alt-svc jar kept while the pending map is dropped — would panic. -/
example : onAltSvc (run true {} [.enableH3, .disableH3, .enableH3]) true false = .ok := by decide
example : onAltSvc { jar := true, pending := false, t3 := false } true false = .panic := by decide
example : onForced (run true {} [.forceH3, .clone]) = .ok := by decide
example : onForced (run false {} [.forceH3, .clone]) = .skip := by decide
example : onForced { force := .h3 } = .panic := by decide

end opts

namespace interim
open Req.C07.Interim

/-- the loop reads at most `6 - n` heads when it has already skipped `n ≤ 5` -/
theorem consumed_le (p : Proto) (n : Nat) (hs : List Head) (hn : n ≤ max1xx) :
    consumed p n hs ≤ max1xx + 1 - n := by
  induction hs generalizing n with
  | nil => simp [consumed]
  | cons h rest ih =>
    unfold consumed
    split
    · split
      · omega
      · split
        · omega
        · next hgt =>
          have : n + 1 ≤ max1xx := by omega
          have := ih (n + 1) this
          omega
    · omega

/-- **interim_reads_at_most_six**: whatever heads the server sends, the interim loop of each
protocol returns after reading at most six of them (no unbounded skipping). -/
theorem interim_reads_at_most_six (p : Proto) (hs : List Head) : consumed p 0 hs ≤ 6 := by
  have := consumed_le p 0 hs (by simp [max1xx])
  simpa [max1xx] using this

theorem loop_final (p : Proto) (n : Nat) (hs : List Head) (c k : Nat) (hn : n ≤ max1xx)
    (h : loop p n hs = .final c k) :
    k ≤ max1xx ∧ n ≤ k ∧ ∃ hd ∈ hs, hd.code = c ∧ isInterim p hd = false := by
  induction hs generalizing n with
  | nil => simp [loop] at h
  | cons hd rest ih =>
    unfold loop at h
    split at h
    · split at h
      · cases h
      · split at h
        · cases h
        · next hgt =>
          obtain ⟨h1, h2, x, hx, hx2⟩ := ih (n + 1) (by omega) h
          exact ⟨h1, by omega, x, List.mem_cons_of_mem _ hx, hx2⟩
    · next hni =>
      cases h
      exact ⟨hn, Nat.le_refl _, hd, List.mem_cons_self, rfl, by simpa using hni⟩

/-- **interim_final_classified**: a head returned to the caller is never an interim head of that
protocol, and at most five heads were skipped before it. -/
theorem interim_final_classified (p : Proto) (hs : List Head) (c k : Nat)
    (h : run p hs = .final c k) :
    k ≤ 5 ∧ ∃ hd ∈ hs, hd.code = c ∧ isInterim p hd = false := by
  obtain ⟨h1, _, h3⟩ := loop_final p 0 hs c k (by simp [max1xx]) h
  exact ⟨by simpa [max1xx] using h1, h3⟩

/-- six interim heads in a row (none ending the stream) are refused, however many follow -/
theorem loop_all_interim (p : Proto) (n : Nat) (hs : List Head)
    (hall : ∀ h ∈ hs, isInterim p h = true ∧ h.endStream = false)
    (hlen : max1xx + 1 ≤ n + hs.length) (hn : n ≤ max1xx) : loop p n hs = .tooMany := by
  induction hs generalizing n with
  | nil => simp [max1xx] at hlen hn; omega
  | cons hd rest ih =>
    obtain ⟨hi, he⟩ := hall hd List.mem_cons_self
    unfold loop
    simp only [hi, he, Bool.and_false, Bool.false_eq_true, ↓reduceIte]
    split
    · rfl
    · next hgt =>
      exact ih (n + 1) (fun h hh => hall h (List.mem_cons_of_mem _ hh)) (by simp at hlen; omega) (by omega)

/-- **interim_flood_refused**: a flood of interim heads ends in the "too many" error after the
sixth, whatever comes later. -/
theorem interim_flood_refused (p : Proto) (flood rest : List Head)
    (hall : ∀ h ∈ flood, isInterim p h = true ∧ h.endStream = false) (hlen : 6 ≤ flood.length) :
    run p (flood ++ rest) = .tooMany := by
  -- the first six decide
  have key : ∀ (n : Nat) (fl : List Head), (∀ h ∈ fl, isInterim p h = true ∧ h.endStream = false) →
      max1xx + 1 ≤ n + fl.length → n ≤ max1xx → loop p n (fl ++ rest) = .tooMany := by
    intro n fl
    induction fl generalizing n with
    | nil => intro _ hl hn; simp [max1xx] at hl hn; omega
    | cons hd tl ih =>
      intro hall hl hn
      obtain ⟨hi, he⟩ := hall hd List.mem_cons_self
      simp only [List.cons_append]
      unfold loop
      simp only [hi, he, Bool.and_false, Bool.false_eq_true, ↓reduceIte]
      split
      · rfl
      · exact ih (n + 1) (fun h hh => hall h (List.mem_cons_of_mem _ hh)) (by simp at hl; omega) (by omega)
  exact key 0 flood hall (by simp [max1xx]; omega) (by simp [max1xx])

example : run .h1 [⟨100, false⟩, ⟨103, false⟩, ⟨200, false⟩] = .final 200 2 := by decide
example : run .h1 [⟨103, false⟩, ⟨101, false⟩, ⟨200, false⟩] = .final 101 1 := by decide
example : run .h2 [⟨103, false⟩, ⟨101, false⟩, ⟨200, false⟩] = .final 200 2 := by decide
example : run .h2 [⟨100, true⟩, ⟨200, false⟩] = .endStream1xx := by decide
example : run .h3 (List.replicate 6 ⟨102, false⟩ ++ [⟨200, false⟩]) = .tooMany := by decide
example : consumed .h1 0 (List.replicate 9 ⟨100, false⟩) = 6 := by decide

end interim

namespace token
open Req.C07.Token Req.Ascii

theorem table_length : table.length = tableLen := by simp [table]

set_option maxRecDepth 100000 in
/-- the guarded look-up agrees with the token predicate on every index below 256 -/
theorem valid_nat : ∀ n, n < 256 →
    validHeaderFieldByte (UInt8.ofNat n) = some (isTokenByte (UInt8.ofNat n)) := by decide

/-- **validHeaderFieldByte_total**: for EVERY byte the guarded table look-up has a value (no
index-out-of-range), and it is the RFC 7230 token predicate. -/
theorem validHeaderFieldByte_total (b : UInt8) : validHeaderFieldByte b = some (isTokenByte b) := by
  have h := valid_nat b.toNat (UInt8.toNat_lt b)
  simpa using h

/-- the table really is one entry short of ASCII: the unguarded index has no value at DEL and
above — the guard is what makes the function total. -/
theorem index_out_of_range : index 127 = none ∧ index 255 = none ∧ index 126 = some true := by decide

set_option maxRecDepth 100000 in
/-- the header-value byte class: everything except controls other than HTAB, and DEL -/
theorem validHeaderValueByte_spec : ∀ n, n < 256 →
    validHeaderValueByte (UInt8.ofNat n) = (n = 9 ∨ (32 ≤ n ∧ n ≠ 127)) := by decide

example : validHeaderFieldByte 127 = some false := by decide
example : validHeaderFieldByte 65 = some true := by decide

end token
end Req.Props.C07
