import Req.Pool.H3Map
import Req.Lemmas.C09H3
/-!
C09 — HTTP/3: which connection a request travels on (`h3_pairing`).  HTTP/3 has no
demultiplexer in the library — every request opens its own QUIC stream and reads its response
from that stream object — so "never mixed up" reduces to the client cache
`RoundTripper.clients` (model `Req/Pool/H3Map.lean`); all theorems quantify over every
interleaving of `getClient` / dial completion / connection death / give-up / `removeClient` /
request end / `CloseIdleConnections` / `Close`.

* `h3_pairing`            : the client a request is given (and keeps until it returns) was dialled
                            for the host of THAT request.
* `h3_one_client_per_host` : the cache has at most one entry per host and the entry of `h` was
                            dialled for `h`.
* `h3_usecount_covers_holders` : `useCount` of a client is at least the number of requests that
                            currently hold it (it is larger only by requests that returned a dial
                            error without giving the count back — the client is dropped then).
* `h3_in_use_not_closed_by_idle_sweep` : `CloseIdleConnections` neither closes nor forgets a client
                            that some request holds.
-/
namespace Req.Props.C09H3
open Req.Pool.H3Map Req.Lemmas.C09H3

theorem inv (ops : List Op) : Inv (run {} ops) := Inv_run {} ops Inv_init

/-- **h3_pairing** -/
theorem h3_pairing (ops : List Op) (r c : Nat) (h : (run {} ops).rst r = .holding c) :
    ((run {} ops).cl c).host = (run {} ops).rhost r ∧ (run {} ops).rhost r ≠ none :=
  (inv ops).pairing r c h

/-- **h3_one_client_per_host** -/
theorem h3_one_client_per_host (ops : List Op) :
    ((run {} ops).clients.map Prod.fst).Nodup ∧
    ∀ h c, (h, c) ∈ (run {} ops).clients → ((run {} ops).cl c).host = some h :=
  ⟨(inv ops).keysNodup, (inv ops).regHost⟩

/-- **h3_usecount_covers_holders** -/
theorem h3_usecount_covers_holders (ops : List Op) (c : Nat) :
    (holders (run {} ops).rst c (run {} ops).reqs : Int) ≤ ((run {} ops).cl c).useCount :=
  (inv ops).count c

/-- **h3_in_use_not_closed_by_idle_sweep** -/
theorem h3_in_use_not_closed_by_idle_sweep (ops : List Op) (r c : Nat)
    (h : (run {} ops).rst r = .holding c) :
    let s := run {} ops
    let s' := (step s .closeIdle).1
    (s'.cl c).closedByUs = (s.cl c).closedByUs ∧ ∀ hst, (hst, c) ∈ s.clients → (hst, c) ∈ s'.clients := by
  have hi := inv ops
  have hm : r ∈ (run {} ops).reqs := (hi.started r).mp (by rw [h]; simp)
  -- at least one holder ⇒ useCount ≥ 1
  have hpos : 1 ≤ ((run {} ops).cl c).useCount := by
    have hc := hi.count c
    have : 1 ≤ holders (run {} ops).rst c (run {} ops).reqs := by
      unfold holders
      apply List.length_pos_of_mem (a := r)
      exact List.mem_filter.mpr ⟨hm, by simp [h]⟩
    omega
  simp only [step]
  constructor
  · have : ((run {} ops).clients.filter (fun p => ((run {} ops).cl p.2).useCount = 0)).any (fun p => p.2 = c) = false := by
      rw [List.any_eq_false]
      intro p hp
      have h0 := (List.mem_filter.mp hp).2
      intro e
      simp at e h0
      subst e
      omega
    simp only [this]
    rfl
  · intro hst hmem
    refine List.mem_filter.mpr ⟨hmem, ?_⟩
    simp
    omega

/-! Non-vacuity: requests 1 and 2 for host 7 share client 0 (dialled by the first), request 3 for
host 8 gets its own; an idle sweep while 2 is still in flight keeps client 0; after the
connection of client 0 has died, request 4 for host 7 gets a fresh client. -/
def exOps : List Op :=
  [.get 1 7 false, .dialDone 0 .ok, .get 2 7 false, .get 3 8 false, .dialDone 1 .ok,
   .finish 1 false, .finish 3 false, .closeIdle]

example : (run {} exOps).clients = [(7, 0)] ∧ (run {} exOps).rst 2 = .holding 0 ∧
    ((run {} exOps).cl 0).useCount = 1 ∧ ((run {} exOps).cl 1).closedByUs = true ∧
    ((run {} exOps).cl 0).closedByUs = false := by decide

example : (runOut {} (exOps ++ [.connDies 0, .get 4 7 false])).getLast? = some (.got 2 true) ∧
    (run {} (exOps ++ [.connDies 0, .get 4 7 false])).clients = [(7, 2)] := by decide

/-- `removeClient` deletes whatever is registered NOW: request 1 fails on the dead client 0 after
request 2 has already replaced it by client 1 — client 1 is forgotten by the cache while 2 uses it
(it is not closed: it serves 2 to the end and is never reused). -/
example :
    let s := run {} [.get 1 7 false, .dialDone 0 .ok, .connDies 0, .get 2 7 false, .dialDone 1 .ok,
                     .finish 1 true]
    s.clients = [] ∧ s.rst 2 = .holding 1 ∧ (s.cl 1).closedByUs = false ∧ (s.cl 1).host = some 7 := by
  decide

/-- The request that started the dial gives up: the dial is cancelled with it, the other waiter
starts over and dials again under its own context (client 1) instead of failing. -/
example :
    let s := run {} [.get 1 7 false, .get 2 7 false, .giveUp 1, .dialDone 0 .cancelled, .retryDial 2,
                     .get 2 7 false]
    s.clients = [(7, 1)] ∧ s.rst 2 = .holding 1 ∧ s.rst 1 = .over ∧ (s.cl 1).creator = 2 := by decide

end Req.Props.C09H3
