import Req.Lemmas.DecodeLive
import Req.Props.C15Prescan
/-!
C15 — liveness: "complete … no bytes lost" without the hypothesis "the reads end in EOF".

A caller that keeps reading with non-empty buffers reaches the end of the stream, through every
reader `autoDecodeResponseBody` can install (raw, header-charset decoder, sniffing reader), for
every body, every split into network reads (empty reads included) and every decoder; and the
end it sees is the end of the underlying body (EOF stays EOF, an error stays that error, never a
crash).  With it the outcome theorems become unconditional:

* `response_reaches_end`: ∃ n: n reads of `L > 0` bytes end the stream with the source's own
  terminal condition;
* `body_fully_delivered`: a body that ends in EOF, read through the sniffing reader with `L`-byte
  buffers: after finitely many reads EOF is reported and what was delivered is the original or
  the whole-body decode (`outcome_by_sniff` with its hypothesis discharged);
* `header_charset_fully_delivered`: the same for a charset named by the Content-Type header;
* `concrete_fully_delivered`: … with the concrete scanner: original or the decode by the decoder
  `FindEncoding` finds on the whole body.
-/
namespace Req.Props.C15
open Req.Proto Req.Decode

variable {σ : Type}

theorem wrap_good (sel : Sel σ) (src : Src) : BodyGood src.term (wrapBody sel src) := by
  cases sel with
  | untouched => simp [wrapBody, BodyGood]
  | header d => simp [wrapBody, BodyGood]
  | peek => simp [wrapBody, BodyGood, State.init]

/-- Any installed reader, read with `L`-byte buffers, ends with the source's terminal condition. -/
theorem body_reaches_end (find : Bytes → Option (Decoder σ)) (T : Term) (b : Body σ) (hg : BodyGood T b)
    (L : Nat) (hL : 0 < L) :
    ∃ n, (reads (Body.read find) b (List.replicate n L)).term = some T := by
  obtain ⟨n, hn⟩ := reads_terminate (Body.read find) (BodyGood T) bodyA bodyB L
    (fun b hb => ⟨(Body.read_progress find T L hL b hb).1, (Body.read_progress find T L hL b hb).2.2⟩) b hg
  refine ⟨n, ?_⟩
  cases ht : (reads (Body.read find) b (List.replicate n L)).term with
  | none => exact absurd ht hn
  | some t =>
    have := reads_term_of (Body.read find) (BodyGood T) (fun t => t = T) L
      (fun b hb => ⟨(Body.read_progress find T L hL b hb).1, (Body.read_progress find T L hL b hb).2.1⟩)
      n b hg t ht
    rw [this]

/-- **response_reaches_end** -/
theorem response_reaches_end (cfg : Config) (ae ct : Bytes) (mp : MediaParse)
    (lookup : Bytes → Option (Decoder σ)) (find : Bytes → Option (Decoder σ)) (src : Src)
    (L : Nat) (hL : 0 < L) :
    ∃ n, (respReads cfg ae ct mp lookup find src (List.replicate n L)).term = some src.term :=
  body_reaches_end find src.term _ (wrap_good _ src) L hL

/-- **body_fully_delivered**: the sniffing reader over a body that ends in EOF. -/
theorem body_fully_delivered (find : Bytes → Option (Decoder σ))
    (hlaw : ∀ c d, find c = some d → d.Lawful) (src : Src) (hsrc : src.term = .eof) (L : Nat) (hL : 0 < L) :
    ∃ n, (autoReads find src (List.replicate n L)).term = some .eof ∧
      (autoReads find src (List.replicate n L)).out =
        match (sniffed src (List.replicate n L)).bind find with
        | none => src.body
        | some d => d.decodeAll src.body := by
  obtain ⟨n, hn⟩ := body_reaches_end find src.term (.auto (State.init src)) (wrap_good .peek src) L hL
  have hb := bodyReads_auto find (List.replicate n L) (State.init src)
  rw [hb.2, hsrc] at hn
  exact ⟨n, hn, outcome_by_sniff find hlaw src _ hn⟩

/-- **header_charset_fully_delivered**: a supported charset in the Content-Type header — after
finitely many reads EOF is reported and the whole body has arrived decoded from that charset. -/
theorem header_charset_fully_delivered (cfg : Config) (ct cs : Bytes) (lookup : Bytes → Option (Decoder σ))
    (find : Bytes → Option (Decoder σ)) (d : Decoder σ) (hl : d.Lawful)
    (hon : cfg.disable = false) (hsel : shouldDecode cfg ct = true)
    (hutf : isUtf8Label (Req.Ascii.lower cs) = false) (hlk : lookup (Req.Ascii.lower cs) = some d)
    (src : Src) (hsrc : src.term = .eof) (L : Nat) (hL : 0 < L) :
    ∃ n, (respReads cfg [] ct (.charset cs) lookup find src (List.replicate n L)).term = some .eof ∧
      (respReads cfg [] ct (.charset cs) lookup find src (List.replicate n L)).out = d.decodeAll src.body := by
  obtain ⟨n, hn⟩ := response_reaches_end cfg [] ct (.charset cs) lookup find src L hL
  rw [hsrc] at hn
  exact ⟨n, hn, header_charset_always_applied cfg ct cs lookup find d hl hon hsel hutf hlk src _ hn⟩

/-- **concrete_fully_delivered**: with the scanner the code runs — after finitely many reads the
caller has the original body or its complete decode by the decoder `FindEncoding` finds on the
whole body. -/
theorem concrete_fully_delivered (P : Req.Prescan.Params) (decOf : Bytes → Decoder σ)
    (hlaw : ∀ n, (decOf n).Lawful) (src : Src) (hsrc : src.term = .eof) (L : Nat) (hL : 0 < L) :
    ∃ n, (autoReads (findC P decOf) src (List.replicate n L)).term = some .eof ∧
      ((autoReads (findC P decOf) src (List.replicate n L)).out = src.body ∨
       ∃ d, findC P decOf src.body = some d ∧
         (autoReads (findC P decOf) src (List.replicate n L)).out = d.decodeAll src.body) := by
  obtain ⟨n, hn⟩ := body_reaches_end (findC P decOf) src.term (.auto (State.init src)) (wrap_good .peek src) L hL
  have hb := bodyReads_auto (findC P decOf) (List.replicate n L) (State.init src)
  rw [hb.2, hsrc] at hn
  exact ⟨n, hn, split_only_affects_meta_detection P decOf hlaw src _ hn⟩

/-- An unselected / utf-8 / unsupported response: the original body arrives completely. -/
theorem unselected_fully_delivered (cfg : Config) (ae ct : Bytes) (mp : MediaParse)
    (lookup : Bytes → Option (Decoder σ)) (find : Bytes → Option (Decoder σ))
    (h : cfg.disable = true ∨ ae ≠ [] ∨ shouldDecode cfg ct = false)
    (src : Src) (hsrc : src.term = .eof) (L : Nat) (hL : 0 < L) :
    ∃ n, (respReads cfg ae ct mp lookup find src (List.replicate n L)).term = some .eof ∧
      (respReads cfg ae ct mp lookup find src (List.replicate n L)).out = src.body := by
  obtain ⟨n, hn⟩ := response_reaches_end cfg ae ct mp lookup find src L hL
  rw [hsrc] at hn
  exact ⟨n, hn, unselected_body_intact cfg ae ct mp lookup find h src _ hn⟩

-- non-vacuity: the UTF-16LE body of `demoSrc` (cut inside a code unit) read with 3-byte buffers
example : (autoReads demoFind demoSrc (List.replicate 3 3)).term = some .eof := by decide
example : (autoReads demoFind demoSrc (List.replicate 3 3)).out = [0xef, 0xbb, 0xbf, 0x68] := by decide
-- an error at the end of the stream is reported as that error
example : (autoReads demoFind ⟨[[0xff, 0xfe, 0x68], [0x00]], .err, true⟩ (List.replicate 4 2)).term = some .err := by decide

end Req.Props.C15
