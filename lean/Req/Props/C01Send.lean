import Req.Lemmas.H1Valid
import Req.Props.C01
/-!
C01 — HTTP/1.1 request fidelity from the checks the code REALLY makes.

`Props/C01.lean: h1_fidelity` is stated under `Valid` (method / target free of SP and CR, …).
Here those hypotheses are replaced by the code's own validation: `sendH1` = the checks of
`Transport.roundTrip` (`validateHeaders`, `validMethod`, URL host) followed by
`persistConn.writeRequest` (`serializeH1`: `PunycodeHostPort` / `ValidHostHeader`,
`URL.RequestURI()` with its path escaping, `stringContainsCTLByte(ruri)`).

* an invalid method, header name or header value, a control byte anywhere in the request target
  make the send FAIL (`h1_invalid_method_fails`, `h1_invalid_header_fails`, `h1_ctl_target_fails`);
* the request target's only unescaped part is the caller's own `RawQuery` (`target_invisible_from_query`);
* a request that is sent is read back EXACTLY by the independent origin (`h1_send_fidelity`), the
  one residual case — a raw SP the caller wrote into the URL's own query, which Go transmits
  verbatim — is REJECTED by the origin, never misread (`h1_raw_space_rejected`).
-/
namespace Req.Props.C01Send
open Req.Proto Req.Ascii Req.BStr Req.Url Req.Validate Req.H1 Req.H1.Origin Req.HeaderSort
open Req.Lemmas.H1Valid Req.Props.C01

/-- the request target is in origin form: no proxy, not CONNECT, the URL is not opaque. -/
structure OriginForm (r : WReq) : Prop where
  noProxy : r.usingProxy = false
  notConnect : (r.method == sCONNECT) = false
  notOpaque : r.url.opaq = []

/-- no framing header under a spelling the exact-key exclusion table of the writer does not know
(`content-length` / `transfer-encoding` set through `SetHeaderNonCanonical`: written next to the
writer's own field, as net/http does — recorded in notes/C01.md). -/
structure NoShadowFraming (r : WReq) : Prop where
  hdr : ∀ kv ∈ r.header, (lower kv.key == sTE || lower kv.key == sCL) = true →
      reqWriteExcludeHeader.contains kv.key = true
  extra : ∀ kv ∈ r.extra, (lower kv.key == sTE || lower kv.key == sCL) = false

theorem send_ok_parts (r : WReq) (wire : Bytes) (h : sendH1 r = .ok wire) :
    roundTripChecks r = .ok () ∧ serializeH1 r = .ok wire := by
  unfold sendH1 at h
  cases hc : roundTripChecks r with
  | error e => simp [hc] at h
  | ok u =>
    simp only [hc] at h
    cases hs : serializeH1 r with
    | error e => simp [hs] at h
    | ok w => simp only [hs, Except.ok.injEq] at h; subst h; exact ⟨rfl, rfl⟩

theorem checks_ok (r : WReq) (h : roundTripChecks r = .ok ()) :
    headersValid (headerPairs r.header) = true ∧ (r.method = [] ∨ validMethod r.method = true) ∧
      r.url.host ≠ [] := by
  unfold roundTripChecks at h
  split at h
  · exact absurd h (by simp)
  next h1 =>
    split at h
    · exact absurd h (by simp)
    next h2 =>
      split at h
      · exact absurd h (by simp)
      next h3 =>
        refine ⟨by simpa using h1, ?_, ?_⟩
        · simp only [Bool.and_eq_true, Bool.not_eq_true', not_and, Bool.not_eq_false] at h2
          cases hm : r.method with
          | nil => exact Or.inl rfl
          | cons a b =>
            right
            rw [← hm]
            apply h2
            simp [hm]
        · intro hc; exact h3 (by simp [hc])

/-- **h1_invalid_method_fails**: a method that is not a token (a SP, CR, LF, colon … in it) never
reaches the wire: the call fails. -/
theorem h1_invalid_method_fails (r : WReq) (hne : r.method ≠ [])
    (hbad : ∃ b ∈ r.method, isTokenByte b = false) : ∃ e, sendH1 r = .error e := by
  cases h : sendH1 r with
  | error e => exact ⟨e, rfl⟩
  | ok w =>
    exfalso
    obtain ⟨hc, _⟩ := send_ok_parts r w h
    obtain ⟨_, hm, _⟩ := checks_ok r hc
    rcases hm with hm | hm
    · exact hne hm
    · obtain ⟨b, hb, hbt⟩ := hbad
      unfold validMethod at hm
      simp only [Bool.and_eq_true] at hm
      have := List.all_eq_true.mp hm.2 b hb
      rw [hbt] at this
      exact absurd this (by simp)

/-- **h1_invalid_header_fails**: a header whose name is not a token, or one of whose values holds
a control byte other than HTAB (CR, LF, NUL …), never reaches the wire: the call fails. -/
theorem h1_invalid_header_fails (r : WReq) (kv : KV) (hkv : kv ∈ r.header)
    (hbad : validHeaderFieldName kv.key = false ∨ ∃ v ∈ kv.values, validHeaderFieldValue v = false) :
    sendH1 r = .error .invalidHeader := by
  have : headersValid (headerPairs r.header) = false := by
    cases hv : headersValid (headerPairs r.header) with
    | false => rfl
    | true =>
      exfalso
      obtain ⟨h1, h2⟩ := headersValid_value r.header hv kv hkv
      rcases hbad with h | ⟨v, hv', hvb⟩
      · rw [h1] at h; exact absurd h (by simp)
      · rw [h2 v hv'] at hvb; exact absurd hvb (by simp)
  unfold sendH1 roundTripChecks
  simp [this]

/-- **h1_ctl_target_fails**: a control byte (CR, LF, NUL, DEL …) anywhere in the request target —
it can only come from the caller's raw query, the path is escaped — fails the write. -/
theorem h1_ctl_target_fails (r : WReq) (host : Bytes) (hh : wireHost r = .ok host)
    (hctl : containsCTL (requestTarget r host) = true) : ∃ e, sendH1 r = .error e := by
  cases h : sendH1 r with
  | error e => exact ⟨e, rfl⟩
  | ok w =>
    exfalso
    obtain ⟨_, hs⟩ := send_ok_parts r w h
    unfold serializeH1 at hs
    simp only [hh, bind, Except.bind, hctl, if_true] at hs
    simp [throw, throwThe, MonadExceptOf.throw] at hs

/-- **target_invisible_from_query**: in origin form every byte of the request target that is not
visible ASCII (SP, control bytes, DEL, non-ASCII) is a byte of the URL's own `RawQuery`: the path
is always percent-encoded by `URL.EscapedPath`. -/
theorem target_invisible_from_query (r : WReq) (host : Bytes) (hof : OriginForm r) (b : UInt8)
    (hb : b ∈ requestTarget r host) (hv : visible b = false) : b ∈ r.url.rawQuery := by
  have ht : requestTarget r host = requestURI r.url := by
    unfold requestTarget
    simp [hof.noProxy, hof.notConnect]
  rw [ht] at hb
  unfold requestURI at hb
  simp only [hof.notOpaque, List.isEmpty_nil, if_true] at hb
  have hp : ∀ x ∈ (if (escapedPath r.url).isEmpty = true then [47] else escapedPath r.url), visible x = true := by
    intro x hx
    split at hx
    · simp only [List.mem_singleton] at hx; rw [hx]; decide
    · exact escapedPath_visible r.url x hx
  split at hb
  · simp only [List.mem_append, List.mem_singleton] at hb
    rcases hb with (hb | hb) | hb
    · rw [hp b hb] at hv; exact absurd hv (by simp)
    · rw [hb] at hv; exact absurd hv (by decide)
    · exact hb
  · rw [hp b hb] at hv; exact absurd hv (by simp)

theorem serialize_ok_noctl (r : WReq) (wire host : Bytes) (hh : wireHost r = .ok host)
    (hs : serializeH1 r = .ok wire) : containsCTL (requestTarget r host) = false := by
  cases hc : containsCTL (requestTarget r host) with
  | false => rfl
  | true =>
    unfold serializeH1 at hs
    simp only [hh, bind, Except.bind, hc, if_true] at hs
    simp [throw, throwThe, MonadExceptOf.throw] at hs

theorem framed_of_not_connect (r : WReq) (f : Framing) (hf : framing r = .ok f)
    (hnc : (r.method == sCONNECT) = false) : f.sendBody = true → f.chunked = true ∨ 0 ≤ f.cl := by
  have hm : (methodOrGet r.method == sCONNECT) = false := by
    unfold methodOrGet
    split
    · decide
    · exact hnc
  unfold framing at hf
  by_cases h1 : (r.contentLength != 0 && !r.hasBody) = true
  · simp [h1] at hf
  · simp only [h1, Bool.false_eq_true, if_false] at hf
    generalize (if (!r.hasBody) = true then (0:Int) else if (r.contentLength != 0) = true then r.contentLength else -1) = cl0 at hf
    by_cases h2 : cl0 < 0
    · simp only [h2, if_true, hm, Bool.false_eq_true, if_false] at hf
      by_cases h4 : methodUsuallyLacksBody (methodOrGet r.method) = true
      · simp only [h4, if_true] at hf
        by_cases h5 : r.body.isEmpty = true
        · simp only [h5, if_true, Except.ok.injEq] at hf; subst hf; simp
        · simp only [h5, Bool.false_eq_true, if_false, Except.ok.injEq] at hf; subst hf; simp
      · simp only [h4, Bool.false_eq_true, if_false, Except.ok.injEq] at hf; subst hf; simp
    · simp only [h2, if_false, Except.ok.injEq] at hf
      subst hf
      intro _
      right
      simp only
      omega

/-- the hypotheses of `h1_fidelity`, from what the code checks itself. -/
theorem valid_of_send (r : WReq) (wire host : Bytes) (f : Framing)
    (hs : sendH1 r = .ok wire) (hh : wireHost r = .ok host) (hf : framing r = .ok f)
    (hof : OriginForm r) (hsh : NoShadowFraming r) (hsp : ∀ b ∈ r.url.rawQuery, b ≠ 32) :
    Valid r host f := by
  obtain ⟨hc, hser⟩ := send_ok_parts r wire hs
  obtain ⟨hhv, hm, _⟩ := checks_ok r hc
  have hnoctl := containsCTL_false (serialize_ok_noctl r wire host hh hser)
  have ht : requestTarget r host = requestURI r.url := by
    unfold requestTarget
    simp [hof.noProxy, hof.notConnect]
  refine ⟨?_, ⟨?_, ?_⟩, ?_, hsh.hdr, hsh.extra, framed_of_not_connect r f hf hof.notConnect⟩
  · intro b hb
    rcases hm with hm | hm
    · rw [hm] at hb
      revert b; decide
    · have hne : r.method.isEmpty = false := by
        unfold validMethod at hm
        simp only [Bool.and_eq_true, Bool.not_eq_true'] at hm
        exact hm.1
      unfold methodOrGet at hb
      simp only [hne, Bool.false_eq_true, if_false] at hb
      exact validMethod_bytes r.method hm b hb
  · rw [ht]
    exact requestURI_ne_nil r.url (by simp [hof.notOpaque])
  · intro b hb
    refine ⟨?_, (hnoctl b hb).1⟩
    cases hv : visible b with
    | true => exact (visible_ne hv).1
    | false => exact hsp b (target_invisible_from_query r host hof b hb hv)
  · intro b hb
    by_cases hne : hdrFirst r.header sUserAgent = []
    · rw [hne] at hb; cases hb
    · obtain ⟨kv, hkv, hv⟩ := hdrFirst_mem r.header sUserAgent hne
      exact validValue_no_cr _ ((headersValid_value r.header hhv kv hkv).2 _ hv) b hb

/-- **h1_send_fidelity**: a request that passes the code's OWN checks (`sendH1 r = .ok wire`:
`validateHeaders`, `validMethod`, `ValidHostHeader`, `stringContainsCTLByte`) in origin form, with no
raw SP in the URL's own query, is read back by the independent origin as EXACTLY ONE request —
method, target, every header line, exact body — whatever bytes follow it. The method / target /
User-Agent hypotheses of `h1_fidelity` are discharged from the validation the code performs. -/
theorem h1_send_fidelity (r : WReq) (wire host : Bytes) (f : Framing)
    (hs : sendH1 r = .ok wire) (hh : wireHost r = .ok host) (hf : framing r = .ok f)
    (hof : OriginForm r) (hsh : NoShadowFraming r) (hsp : ∀ b ∈ r.url.rawQuery, b ≠ 32)
    (rest : Bytes) :
    parseRequestH1 (wire ++ rest) = some (view r host f, rest) :=
  h1_fidelity r wire host f hh hf (send_ok_parts r wire hs).2
    (valid_of_send r wire host f hs hh hf hof hsh hsp) rest

/-- non-vacuity: `POST /a%20b?x=1` with a body passes the checks and is read back. -/
example :
    let r : WReq := { method := [80, 79, 83, 84],
                      url := { scheme := [104], host := [104], path := [47, 97, 32, 98], rawQuery := [120, 61, 49] },
                      header := [⟨[88, 45, 65], [[118]]⟩], hasBody := true, contentLength := 2, body := [1, 2] }
    (sendH1 r).toOption.bind (fun w => parseRequestH1 (w ++ [71])) =
      some (view r [104] ⟨true, false, 2⟩, [71]) := by decide

def errOf : Except SendErr Bytes → Option SendErr
  | .error e => some e
  | .ok _ => none

/-- non-vacuity of the failures: method `GE T`, header value with CR LF, raw query with LF. -/
example :
    let u : Url := { host := [104], path := [47] }
    let r1 : WReq := { method := [71, 69, 32, 84], url := u }
    let r2 : WReq := { method := [71, 69, 84], url := u, header := [⟨[88], [[97, 13, 10, 66, 58, 49]]⟩] }
    let r3 : WReq := { method := [71, 69, 84], url := { u with rawQuery := [97, 10, 98] } }
    errOf (sendH1 r1) = some .invalidMethod ∧ errOf (sendH1 r2) = some .invalidHeader ∧
      errOf (sendH1 r3) = some (.write .ctlInURI) := by decide

theorem split_at_sp : ∀ t : Bytes, (∃ b ∈ t, b = 32) →
    ∃ t1 t2, t = t1 ++ 32 :: t2 ∧ ∀ b ∈ t1, b ≠ 32 := by
  intro t
  induction t with
  | nil => intro ⟨b, hb, _⟩; cases hb
  | cons c t ih =>
    intro ⟨b, hb, hb32⟩
    by_cases hc : c = 32
    · exact ⟨[], t, by simp [hc], by simp⟩
    · have : ∃ b ∈ t, b = 32 := by
        rcases List.mem_cons.mp hb with h | h
        · rw [h] at hb32; exact absurd hb32 hc
        · exact ⟨b, h, hb32⟩
      obtain ⟨t1, t2, h1, h2⟩ := ih this
      refine ⟨c :: t1, t2, by simp [h1], ?_⟩
      intro x hx
      rcases List.mem_cons.mp hx with h | h
      · rw [h]; exact hc
      · exact h2 x h

/-- **h1_raw_space_rejected**: the residual case. A raw SP the caller wrote into the URL's own
query is transmitted verbatim (Go does not validate `RawQuery` beyond control bytes); the origin
then REJECTS the request line — it is never read as a different request. -/
theorem h1_raw_space_rejected (r : WReq) (wire host : Bytes)
    (hs : sendH1 r = .ok wire) (hh : wireHost r = .ok host)
    (hsp : ∃ b ∈ requestTarget r host, b = 32) (rest : Bytes) :
    parseRequestH1 (wire ++ rest) = none := by
  obtain ⟨hc, hser⟩ := send_ok_parts r wire hs
  obtain ⟨_, hm, _⟩ := checks_ok r hc
  have hnoctl := containsCTL_false (serialize_ok_noctl r wire host hh hser)
  have hmeth : ∀ b ∈ methodOrGet r.method, b ≠ 32 ∧ b ≠ 13 := by
    intro b hb
    rcases hm with hm | hm
    · rw [hm] at hb; revert b; decide
    · have hne : r.method.isEmpty = false := by
        unfold validMethod at hm
        simp only [Bool.and_eq_true, Bool.not_eq_true'] at hm
        exact hm.1
      unfold methodOrGet at hb
      simp only [hne, Bool.false_eq_true, if_false] at hb
      exact validMethod_bytes r.method hm b hb
  unfold serializeH1 at hser
  simp only [hh, bind, Except.bind] at hser
  split at hser
  · simp [throw, throwThe, MonadExceptOf.throw] at hser
  cases hf : framing r with
  | error e => simp [hf] at hser
  | ok f =>
    simp only [hf] at hser
    cases hb : bodyBytes r f with
    | error e => simp [hb] at hser
    | ok bw =>
      simp only [hb, pure, Except.pure, Except.ok.injEq] at hser
      subst hser
      obtain ⟨t1, t2, ht, ht1⟩ := split_at_sp _ hsp
      have hline : ∀ b ∈ methodOrGet r.method ++ [32] ++ requestTarget r host ++ [32] ++ sHTTP11, b ≠ 13 := by
        intro b hb'
        simp only [List.mem_append, List.mem_singleton] at hb'
        rcases hb' with (((hb' | hb') | hb') | hb') | hb'
        · exact (hmeth b hb').2
        · rw [hb']; decide
        · exact (hnoctl b hb').1
        · rw [hb']; decide
        · revert b; decide
      have e : requestLine r (requestTarget r host) ++ renderFields (h1Fields r host f) ++ crlf ++ bw ++ rest =
          (methodOrGet r.method ++ [32] ++ requestTarget r host ++ [32] ++ sHTTP11) ++ 13 :: 10 ::
            (renderFields (h1Fields r host f) ++ crlf ++ (bw ++ rest)) := by
        simp [requestLine, crlf, List.append_assoc]
      unfold parseRequestH1
      rw [e, readLine_append _ _ [] hline]
      simp only [List.reverse_nil, List.nil_append]
      have hpl : parseRequestLine (methodOrGet r.method ++ [32] ++ requestTarget r host ++ [32] ++ sHTTP11) = none := by
        unfold parseRequestLine
        have e1 : methodOrGet r.method ++ [32] ++ requestTarget r host ++ [32] ++ sHTTP11 =
            methodOrGet r.method ++ 32 :: (t1 ++ 32 :: (t2 ++ 32 :: sHTTP11)) := by
          rw [ht]; simp
        rw [e1, Req.Query.cut_append 32 _ _ (fun b hb' => (hmeth b hb').1)]
        simp only
        rw [Req.Query.cut_append 32 t1 _ ht1]
        simp only
        have : (t2 ++ 32 :: sHTTP11 == sHTTP11) = false := by
          apply beq_eq_false_iff_ne.mpr
          intro hc
          have := congrArg List.length hc
          simp [sHTTP11] at this
        simp [this]
      rw [hpl]

/-- non-vacuity: `GET /p?a b` is written as is; the origin refuses it. -/
example :
    (sendH1 { method := [71, 69, 84], url := { host := [104], path := [47, 112], rawQuery := [97, 32, 98] } }).toOption.bind
      (fun w => parseRequestH1 w) = none ∧
    (sendH1 { method := [71, 69, 84], url := { host := [104], path := [47, 112], rawQuery := [97, 32, 98] } }).toOption.isSome = true := by
  decide

end Req.Props.C01Send
