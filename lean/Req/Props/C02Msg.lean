import Req.Lemmas.C02H1Transfer
import Req.Lemmas.C02H1Msg
import Req.Lemmas.C02Hex
/-!
C02 — **whole-message round trip over HTTP/1.1.**

The origin writes: up to five interim (1xx) heads, the final head (status line, field lines in
any order, with any optional white space, names in any case; the framing fields
`Content-Length` / `Transfer-Encoding: chunked` / `Connection: close` / `Trailer` anywhere among
them), then the body in the framing it chose — declared length, chunked with ANY split into
chunks and any chunk-size spelling / extension the reader's own line parser accepts, or
delimited by closing the connection — then, for chunked, the trailer section; then whatever
follows on the connection (`rest`).

The client reads: `persistConn.readResponse` = C04's byte-exact head reader
`Req.H1.parseFinalHead` (1xx loop, `readLine`, `ReadMIMEHeader`, `readTransfer`), then the body
through the automaton `Req.C02.H1Body` that `readTransfer` installed, over the connection's
`bufio.Reader` in ANY state that is consistent with the head having been consumed (whatever
was buffered while the head was read, whatever segmentation the network delivers the rest in),
with ANY sequence of caller read sizes.

The theorems: the caller gets exactly the origin's status, exactly the origin's values under
every ordinary field name (canonical key, wire order, optional white space removed), exactly
the body bytes, exactly the trailer fields, and the connection reader stands exactly at `rest`.
-/
namespace Req.Props.C02
open Req.Proto Req.Ascii Req.C02 Req.H1

/-- The framing fields of the origin's head, position-free: what the field list holds under
the framing keys (`valuesOf`: values in wire order). `cl`: a Content-Length value in any
spelling the reader parses to `n`; `te`: `chunked` in any case; `tr`: a `Trailer` announcement. -/
structure OriginFraming (o : OHead) (cc chunked : Bool) (te : Bytes) (cl : Option (Bytes × Nat))
    (tr : Option Bytes) : Prop where
  pragma : valuesOf kPragma (fieldsOf o.fs) = []
  conn : valuesOf kConnection (fieldsOf o.fs) = if cc then [vClose] else []
  teVals : valuesOf kTransferEncoding (fieldsOf o.fs) = if chunked then [te] else []
  teLow : lower te = vChunked
  clVals : valuesOf kContentLength (fieldsOf o.fs) = (match cl with | some p => [p.1] | none => [])
  clParse : ∀ p, cl = some p → parseContentLength1 p.1 = some p.2
  trVals : valuesOf Req.H1.kTrailer (fieldsOf o.fs) = (match tr with | some v => [v] | none => [])

theorem OriginFraming.entries {o : OHead} {cc chunked : Bool} {te : Bytes} {cl : Option (Bytes × Nat)}
    {tr : Option Bytes} (h : OriginFraming o cc chunked te cl tr) :
    FrameEntries o.hmap cc chunked te cl tr := by
  obtain ⟨h1, h2, h3, h4, h5, h6, h7⟩ := h
  refine ⟨?_, ?_, ?_, h4, ?_, h6, ?_⟩
  · simp [OHead.hmap, get_hmapOf, h1]
  · cases cc <;> simp [OHead.hmap, get_hmapOf, h2]
  · cases chunked <;> simp [OHead.hmap, get_hmapOf, h3]
  · cases cl <;> simp [OHead.hmap, get_hmapOf, h5]
  · cases tr <;> simp [OHead.hmap, get_hmapOf, h7]

/-- A field name that is not one of the framing keys `readTransfer` rewrites. -/
def OrdinaryKey (k : Bytes) : Prop :=
  k ≠ kConnection ∧ k ≠ kTransferEncoding ∧ k ≠ kContentLength ∧ k ≠ Req.H1.kTrailer

/-- A status that ends the 1xx loop. -/
def FinalCode (code : Nat) : Prop := ¬ (100 ≤ code ∧ code ≤ 199 ∧ code ≠ 101)

/-- **h1_head_roundtrip.** For every origin head (status digits, reason phrase, field list),
preceded by up to five interim responses and followed by ANY bytes `W`: the head reader returns
the origin's status code; under every ordinary field name exactly the origin's values, in wire
order; `readTransfer`'s framing verdict is the origin's choice; and exactly the heads were
consumed. -/
theorem h1_head_roundtrip (isHead : Bool) (is : List OHead) (his : ∀ i ∈ is, i.Interim) (hn : is.length ≤ 5)
    (o : OHead) (ho : o.OK) (hfc : FinalCode o.code)
    (cc chunked : Bool) (te : Bytes) (cl : Option (Bytes × Nat)) (tr : Option Bytes)
    (hF : OriginFraming o cc chunked te cl tr)
    (hexcl : chunked = true → cl = none) (htrc : tr.isSome = true → chunked = true)
    (hkeys : ∀ tv, tr = some tv → (declKeys tv).any badTrailerKey = false) (W : Bytes) :
    ∃ msg, Req.H1.parseFinalHead 6 isHead (interimsWire is ++ (o.wire ++ W)) = some (msg, W) ∧
      msg.sl.code = o.code ∧
      (∀ k, OrdinaryKey k → msg.header.get k =
        if valuesOf k (fieldsOf o.fs) = [] then none else some (valuesOf k (fieldsOf o.fs))) ∧
      msg.trailerDecl = trailerDeclOf tr ∧
      msg.framing =
        (if (isHead || !Req.H1.bodyAllowedForStatus o.code) = true then RespFraming.none
         else if chunked = true then RespFraming.chunked
         else framingOfCL cl) := by
  obtain ⟨msg, hph, hcode, _, htd, hfr, hhdr⟩ :=
    parseHead_origin isHead o ho cc chunked te cl tr hF.entries hexcl htrc hkeys W
  refine ⟨msg, ?_, hcode, ?_, htd, hfr⟩
  · apply parseFinalHead_origin isHead is his 6 (by omega) (o.wire ++ W) _ hph
    intro m r hmr
    simp only [Option.some.injEq, Prod.mk.injEq] at hmr
    rw [← hmr.1, hcode]
    exact hfc
  · intro k ⟨k1, k2, k3, k4⟩
    rw [hhdr, get_afterTransfer _ _ _ _ _ k k1 k2 k3 k4]
    exact get_hmapOf _ k

/-! ## The origin's message and its framings -/

/-- The trailer section the origin writes after the last-chunk line. -/
def trailerSection (trailers : List WField) : Bytes := blockWire trailers

/-- What `Response.Trailer` receives from it. -/
def trailerGot (trailers : List WField) : Option Trailer :=
  if trailers = [] then none else some (fieldsOf trailers)

theorem trailerOK_section (cap : Nat) (hcap : 2 ≤ cap) (trailers : List WField) (hts : ∀ f ∈ trailers, f.OK)
    (hfit : (blockWire trailers).length ≤ cap) (rest : Bytes) :
    TrailerOK cap (trailerSection trailers ++ rest) rest (trailerGot trailers) := by
  unfold trailerSection trailerGot
  by_cases h : trailers = []
  · subst h
    simpa [blockWire] using trailerOK_empty cap hcap rest
  · simp only [h, if_false]
    exact trailerOK_fields cap trailers hts h hfit rest

/-- **h1_response_roundtrip, no body**: a response to HEAD, or with a status that cannot have a
body (1xx final i.e. 101, 204, 304) — whatever framing fields it carries. The caller gets the
status and the fields, the body reader is `http.NoBody`, and `rest` (the next response) is
untouched. -/
theorem h1_response_roundtrip_nobody (isHead : Bool) (is : List OHead) (his : ∀ i ∈ is, i.Interim)
    (hn : is.length ≤ 5) (o : OHead) (ho : o.OK) (hfc : FinalCode o.code)
    (cc chunked : Bool) (te : Bytes) (cl : Option (Bytes × Nat)) (tr : Option Bytes)
    (hF : OriginFraming o cc chunked te cl tr)
    (hexcl : chunked = true → cl = none) (htrc : tr.isSome = true → chunked = true)
    (hkeys : ∀ tv, tr = some tv → (declKeys tv).any badTrailerKey = false)
    (hnb : (isHead || !Req.H1.bodyAllowedForStatus o.code) = true) (rest : Bytes) :
    ∃ msg, Req.H1.parseFinalHead 6 isHead (interimsWire is ++ (o.wire ++ rest)) = some (msg, rest) ∧
      msg.sl.code = o.code ∧
      (∀ k, OrdinaryKey k → msg.header.get k =
        if valuesOf k (fieldsOf o.fs) = [] then none else some (valuesOf k (fieldsOf o.fs))) ∧
      msg.framing = RespFraming.none := by
  obtain ⟨msg, h1, h2, h3, _, h5⟩ :=
    h1_head_roundtrip isHead is his hn o ho hfc cc chunked te cl tr hF hexcl htrc hkeys rest
  exact ⟨msg, h1, h2, h3, by rw [h5, if_pos hnb]⟩

/-- **h1_response_roundtrip, declared length.** The origin announces `Content-Length` (any
spelling the reader parses to `|body|`) and writes `body`, then `rest` follows. The caller gets
the status, the fields, and — from ANY state `br` of the connection reader that has consumed
exactly the heads, for EVERY read-size sequence — exactly `body`, then `io.EOF`, with the
reader left exactly at `rest`. (An empty body is `http.NoBody`.) -/
theorem h1_response_roundtrip_length (is : List OHead) (his : ∀ i ∈ is, i.Interim) (hn : is.length ≤ 5)
    (o : OHead) (ho : o.OK) (hfc : FinalCode o.code) (hba : Req.H1.bodyAllowedForStatus o.code = true)
    (cc : Bool) (clv : Bytes) (body : Bytes)
    (hF : OriginFraming o cc false vChunked (some (clv, body.length)) none) (rest : Bytes) :
    ∃ msg, Req.H1.parseFinalHead 6 false (interimsWire is ++ (o.wire ++ (body ++ rest))) = some (msg, body ++ rest) ∧
      msg.sl.code = o.code ∧
      (∀ k, OrdinaryKey k → msg.header.get k =
        if valuesOf k (fieldsOf o.fs) = [] then none else some (valuesOf k (fieldsOf o.fs))) ∧
      (body = [] → msg.framing = RespFraming.none) ∧
      (body ≠ [] → msg.framing = RespFraming.length body.length ∧
        ∀ br : Bufio, br.rem = body ++ rest → br.WF →
          BodyExact (H1Body.new (.length body.length) br) body none rest) := by
  obtain ⟨msg, h1, h2, h3, _, h5⟩ :=
    h1_head_roundtrip false is his hn o ho hfc cc false vChunked (some (clv, body.length)) none hF
      (by simp) (by simp) (by simp) (body ++ rest)
  have hnb : ¬ (false || !Req.H1.bodyAllowedForStatus o.code) = true := by simp [hba]
  rw [if_neg hnb, if_neg (by simp)] at h5
  refine ⟨msg, h1, h2, h3, ?_, ?_⟩
  · intro hb
    rw [h5, hb]
    rfl
  · intro hb
    have hpos : 0 < body.length := by
      cases body with
      | nil => exact absurd rfl hb
      | cons a as => simp
    refine ⟨?_, fun br hrem hw => bodyExact_length br body rest hpos hrem hw⟩
    rw [h5]
    obtain ⟨n, hn⟩ : ∃ n, body.length = n + 1 := ⟨body.length - 1, by omega⟩
    rw [hn]
    rfl

/-- **h1_response_roundtrip, chunked.** The origin announces `Transfer-Encoding: chunked` (any
case), optionally a `Trailer`, and writes the body as the chunks `cs` — ANY split, each size
line any spelling / extension the reader's own parser maps to the chunk length —, a last-chunk
line, the trailer section with the fields `trailers` (fitting the read buffer: the code's own
limit), then `rest`. The caller gets the status, the fields, the announced trailer keys, and —
from ANY reader state that has consumed exactly the heads, for EVERY read-size sequence —
exactly the concatenated chunk data, then `io.EOF`; `Response.Trailer` receives exactly the
trailer fields (canonical names, wire order); the reader is left exactly at `rest`. -/
theorem h1_response_roundtrip_chunked (is : List OHead) (his : ∀ i ∈ is, i.Interim) (hn : is.length ≤ 5)
    (o : OHead) (ho : o.OK) (hfc : FinalCode o.code) (hba : Req.H1.bodyAllowedForStatus o.code = true)
    (cc : Bool) (te : Bytes) (tr : Option Bytes) (hF : OriginFraming o cc true te none tr)
    (hkeys : ∀ tv, tr = some tv → (declKeys tv).any badTrailerKey = false)
    (cap : Nat) (hcap : 2 ≤ cap) (cs : List WChunk) (hcs : ∀ c ∈ cs, c.OK cap) (last : Bytes) (hl : LastOK cap last)
    (trailers : List WField) (hts : ∀ f ∈ trailers, f.OK) (hfit : (blockWire trailers).length ≤ cap)
    (rest : Bytes) :
    let after := wireFrom cs last (trailerSection trailers ++ rest)
    ∃ msg, Req.H1.parseFinalHead 6 false (interimsWire is ++ (o.wire ++ after)) = some (msg, after) ∧
      msg.sl.code = o.code ∧
      (∀ k, OrdinaryKey k → msg.header.get k =
        if valuesOf k (fieldsOf o.fs) = [] then none else some (valuesOf k (fieldsOf o.fs))) ∧
      msg.trailerDecl = trailerDeclOf tr ∧
      msg.framing = RespFraming.chunked ∧
      ∀ br : Bufio, br.rem = after → br.WF → br.Fits → br.cap = cap →
        BodyExact (H1Body.new .chunked br) (dataOf cs) (trailerGot trailers) rest := by
  intro after
  obtain ⟨msg, h1, h2, h3, h4, h5⟩ :=
    h1_head_roundtrip false is his hn o ho hfc cc true te none tr hF (by simp) (by simp) hkeys after
  have hnb : ¬ (false || !Req.H1.bodyAllowedForStatus o.code) = true := by simp [hba]
  rw [if_neg hnb, if_pos rfl] at h5
  refine ⟨msg, h1, h2, h3, h4, h5, ?_⟩
  intro br hrem hw hf hc
  subst hc
  exact bodyExact_chunked br cs hcs last hl _ rest _ (trailerOK_section br.cap hcap trailers hts hfit rest)
    hrem hw hf

/-- **h1_response_roundtrip, close-delimited.** The origin announces neither a length nor a
transfer coding, writes `body` and closes the connection. The caller gets the status, the
fields, and — from ANY reader state that has consumed exactly the heads, for EVERY read-size
sequence — exactly `body`, then `io.EOF`. -/
theorem h1_response_roundtrip_close (is : List OHead) (his : ∀ i ∈ is, i.Interim) (hn : is.length ≤ 5)
    (o : OHead) (ho : o.OK) (hfc : FinalCode o.code) (hba : Req.H1.bodyAllowedForStatus o.code = true)
    (cc : Bool) (hF : OriginFraming o cc false vChunked none none) (body : Bytes) :
    ∃ msg, Req.H1.parseFinalHead 6 false (interimsWire is ++ (o.wire ++ body)) = some (msg, body) ∧
      msg.sl.code = o.code ∧
      (∀ k, OrdinaryKey k → msg.header.get k =
        if valuesOf k (fieldsOf o.fs) = [] then none else some (valuesOf k (fieldsOf o.fs))) ∧
      msg.framing = RespFraming.untilClose ∧
      ∀ br : Bufio, br.rem = body → br.WF → br.net.fin = .eof →
        BodyExact (H1Body.new .close br) body none [] := by
  obtain ⟨msg, h1, h2, h3, _, h5⟩ :=
    h1_head_roundtrip false is his hn o ho hfc cc false vChunked none none hF (by simp) (by simp) (by simp) body
  have hnb : ¬ (false || !Req.H1.bodyAllowedForStatus o.code) = true := by simp [hba]
  rw [if_neg hnb, if_neg (by simp)] at h5
  exact ⟨msg, h1, h2, h3, h5, fun br hrem hw hfin => bodyExact_close br body hrem hw hfin⟩

/-! ## From a fresh connection: every segmentation of the WHOLE message -/

/-- **h1_head_lines_split_independent.** The whole connection content — interim heads, the
final head, then anything (`after`: body, trailer section, next response) — delivered in ANY
segmentation `segs`, through a read buffer of any size in which every head line fits: the head
reader's line primitive hands out exactly the origin's head lines, and the connection reader
is then in a state that stands exactly at `after`. (This is the state the body theorems
quantify over: together they cover every segmentation of the whole message.) -/
theorem h1_head_lines_split_independent (hs : List OHead) (hok : ∀ h ∈ hs, h.OK) (cap : Nat)
    (hfit : ∀ h ∈ hs, ∀ l ∈ h.lines, l.length + 1 ≤ cap) (after : Bytes)
    (segs : List Bytes) (fin : NetEnd) (hsegs : segs.flatten = interimsWire hs ++ after) :
    ∃ br, Bufio.readLines (hs.flatMap OHead.lines).length (Bufio.new cap ⟨segs, fin⟩) =
        ((hs.flatMap OHead.lines).map (fun l => l ++ [10]), br) ∧
      br.rem = after ∧ br.WF ∧ br.Fits ∧ br.cap = cap ∧ br.net.fin = fin := by
  have hwire : interimsWire hs = linesWire (hs.flatMap OHead.lines) := by
    clear hok hfit hsegs
    induction hs with
    | nil => simp [interimsWire, linesWire]
    | cons h hs ih =>
      have : interimsWire (h :: hs) = h.wire ++ interimsWire hs := by simp [interimsWire]
      rw [this, ih, OHead.wire_lines, List.flatMap_cons, linesWire_append]
  obtain ⟨br, h1, h2, h3, h4, h5, h6⟩ :=
    Bufio.readLines_spec (hs.flatMap OHead.lines) (Bufio.new cap ⟨segs, fin⟩) after (Bufio.new_wf _ _)
      (Bufio.new_fits _ _) (by rw [Bufio.new_rem, hsegs, hwire])
      (by
        intro l hl
        simp only [List.mem_flatMap] at hl
        obtain ⟨h, hh, hl⟩ := hl
        exact OHead.lines_no_lf h (hok h hh) l hl)
      (by
        intro l hl
        simp only [List.mem_flatMap] at hl
        obtain ⟨h, hh, hl⟩ := hl
        exact hfit h hh l hl)
  exact ⟨br, h1, h2, h3, h4, h5, h6⟩

/-- **h1_response_roundtrip, chunked, from a fresh connection.** The complete statement for one
framing, end to end: the origin's whole output (interim heads, final head, chunks in any split,
last chunk, trailer section, then `rest`) arrives in ANY segmentation `segs` on a fresh
connection with a read buffer in which the head lines, the chunk-size lines and the trailer
section fit. The head reader returns the origin's status and fields and consumes exactly the
heads; after the head lines have been read the body automaton delivers — for EVERY read-size
sequence — exactly the body, then `io.EOF`, exactly the trailer fields, and leaves exactly
`rest` on the connection. -/
theorem h1_response_roundtrip_chunked_wire (is : List OHead) (his : ∀ i ∈ is, i.Interim) (hn : is.length ≤ 5)
    (o : OHead) (ho : o.OK) (hfc : FinalCode o.code) (hba : Req.H1.bodyAllowedForStatus o.code = true)
    (cc : Bool) (te : Bytes) (tr : Option Bytes) (hF : OriginFraming o cc true te none tr)
    (hkeys : ∀ tv, tr = some tv → (declKeys tv).any badTrailerKey = false)
    (cap : Nat) (hcap : 2 ≤ cap) (hfit : ∀ h ∈ is ++ [o], ∀ l ∈ h.lines, l.length + 1 ≤ cap)
    (cs : List WChunk) (hcs : ∀ c ∈ cs, c.OK cap) (last : Bytes) (hl : LastOK cap last)
    (trailers : List WField) (hts : ∀ f ∈ trailers, f.OK) (hfitT : (blockWire trailers).length ≤ cap)
    (rest : Bytes) (segs : List Bytes) (fin : NetEnd)
    (hsegs : segs.flatten =
      interimsWire is ++ (o.wire ++ wireFrom cs last (trailerSection trailers ++ rest))) :
    let after := wireFrom cs last (trailerSection trailers ++ rest)
    let br := (Bufio.readLines ((is ++ [o]).flatMap OHead.lines).length (Bufio.new cap ⟨segs, fin⟩)).2
    (∃ msg, Req.H1.parseFinalHead 6 false segs.flatten = some (msg, after) ∧ msg.sl.code = o.code ∧
      (∀ k, OrdinaryKey k → msg.header.get k =
        if valuesOf k (fieldsOf o.fs) = [] then none else some (valuesOf k (fieldsOf o.fs))) ∧
      msg.framing = RespFraming.chunked) ∧
    br.rem = after ∧
    BodyExact (H1Body.new .chunked br) (dataOf cs) (trailerGot trailers) rest := by
  intro after br
  obtain ⟨msg, h1, h2, h3, _, h5, h6⟩ :=
    h1_response_roundtrip_chunked is his hn o ho hfc hba cc te tr hF hkeys cap hcap cs hcs last hl trailers hts
      hfitT rest
  have hsegs' : segs.flatten = interimsWire (is ++ [o]) ++ after := by
    rw [hsegs]; simp [interimsWire, after, List.append_assoc]
  obtain ⟨br', hb1, hb2, hb3, hb4, hb5, _⟩ :=
    h1_head_lines_split_independent (is ++ [o])
      (by
        intro h hh
        simp only [List.mem_append, List.mem_singleton] at hh
        rcases hh with hh | rfl
        · exact (his h hh).1
        · exact ho)
      cap hfit after segs fin hsegs'
  have hbr : br = br' := by simp only [br, hb1]
  refine ⟨⟨msg, by rw [hsegs]; exact h1, h2, h3, h5⟩, by rw [hbr]; exact hb2, ?_⟩
  rw [hbr]
  exact h6 br' hb2 hb3 hb4 hb5

/-! ## Non-vacuity

`HTTP/1.1 103 Early` + `Link: x`, then `HTTP/1.1 200 OK` with the fields
`x-a:  b `, `content-length: 5`, `X-A: c` — the framing field in the middle, names in mixed
case, optional white space —, body `hello`, then `N` (the next response). -/

def exInterim : OHead := ⟨49, 48, 51, [69, 97, 114, 108, 121], [⟨[76, 105, 110, 107], [32], [120], []⟩]⟩

def exHead : OHead :=
  ⟨50, 48, 48, [79, 75],
   [⟨[120, 45, 97], [32, 32], [98], [32]⟩,
    ⟨[99, 111, 110, 116, 101, 110, 116, 45, 108, 101, 110, 103, 116, 104], [32], [53], []⟩,
    ⟨[88, 45, 65], [32], [99], []⟩]⟩

theorem exInterim_ok : exInterim.Interim := by
  refine ⟨ohead_ok_of_bool _ (by decide), rfl, by decide, ?_⟩
  refine ⟨by decide, by decide, by decide, by decide, by decide, by simp, by decide⟩

theorem exHead_framing : OriginFraming exHead false false vChunked (some ([53], 5)) none := by
  refine ⟨by decide, by decide, by decide, by decide, by decide, ?_, by decide⟩
  intro p hp
  simp only [Option.some.injEq] at hp
  subst hp
  decide

example :
    ∃ msg, Req.H1.parseFinalHead 6 false
        (interimsWire [exInterim] ++ (exHead.wire ++ ([104, 101, 108, 108, 111] ++ [78]))) =
          some (msg, [104, 101, 108, 108, 111] ++ [78]) ∧
      msg.sl.code = 200 ∧
      msg.header.get [88, 45, 65] = some [[98], [99]] ∧
      msg.framing = RespFraming.length 5 ∧
      ∀ br : Bufio, br.rem = [104, 101, 108, 108, 111] ++ [78] → br.WF →
        BodyExact (H1Body.new (.length 5) br) [104, 101, 108, 108, 111] none [78] := by
  obtain ⟨msg, h1, h2, h3, _, h5⟩ :=
    h1_response_roundtrip_length [exInterim] (by intro i hi; simp at hi; subst hi; exact exInterim_ok) (by simp)
      exHead (ohead_ok_of_bool _ (by decide)) (by unfold FinalCode; decide) (by decide) false [53] [104, 101, 108, 108, 111]
      exHead_framing [78]
  refine ⟨msg, h1, h2, ?_, (h5 (by simp)).1, (h5 (by simp)).2⟩
  rw [h3 [88, 45, 65] (by unfold OrdinaryKey; decide)]
  decide

/-! The same message chunked: `Transfer-Encoding: CHUNKED`, `Trailer: X-T`, chunks
`3;x=y` CRLF `hel`, `002` CRLF `lo`, last chunk `0`, trailer `x-t: v`; buffer size 4096. -/

def exHeadChunked : OHead :=
  ⟨50, 48, 48, [79, 75],
   [⟨[84, 114, 97, 110, 115, 102, 101, 114, 45, 69, 110, 99, 111, 100, 105, 110, 103], [32],
      [67, 72, 85, 78, 75, 69, 68], []⟩,
    ⟨[88, 45, 65], [32], [99], []⟩,
    ⟨[116, 114, 97, 105, 108, 101, 114], [32], [88, 45, 84], []⟩]⟩

theorem exHeadChunked_framing :
    OriginFraming exHeadChunked false true [67, 72, 85, 78, 75, 69, 68] none (some [88, 45, 84]) := by
  refine ⟨by decide, by decide, by decide, by decide, by decide, by simp, by decide⟩

example :
    let cs : List WChunk := [⟨[51, 59, 120, 61, 121, 13], [104, 101, 108]⟩, ⟨[48, 48, 50, 13], [108, 111]⟩]
    let trailers : List WField := [⟨[120, 45, 116], [32], [118], []⟩]
    let after := wireFrom cs [48, 13] (trailerSection trailers ++ [78])
    ∃ msg, Req.H1.parseFinalHead 6 false (interimsWire [] ++ (exHeadChunked.wire ++ after)) = some (msg, after) ∧
      msg.trailerDecl = [[88, 45, 84]] ∧
      ∀ br : Bufio, br.rem = after → br.WF → br.Fits → br.cap = 4096 →
        BodyExact (H1Body.new .chunked br) [104, 101, 108, 108, 111] (some [([88, 45, 84], [118])]) [78] := by
  intro cs trailers after
  have hcs : ∀ c ∈ cs, c.OK 4096 := by
    intro c hc
    simp only [cs, List.mem_cons, List.mem_nil_iff, or_false] at hc
    rcases hc with rfl | rfl
    · exact ⟨by decide, by decide, by rfl, by decide, by decide⟩
    · exact ⟨by decide, by decide, by rfl, by decide, by decide⟩
  obtain ⟨msg, h1, _, _, h4, _, h6⟩ :=
    h1_response_roundtrip_chunked [] (by simp) (by simp) exHeadChunked (ohead_ok_of_bool _ (by decide))
      (by unfold FinalCode; decide) (by decide) false _ _ exHeadChunked_framing
      (by intro tv htv; simp only [Option.some.injEq] at htv; subst htv; decide)
      4096 (by omega) cs hcs [48, 13] ⟨by decide, by rfl, by decide, by decide⟩
      trailers (by intro f hf; simp only [trailers, List.mem_singleton] at hf; subst hf; exact wfield_ok_of_bool _ (by decide))
      (by decide) [78]
  refine ⟨msg, h1, ?_, ?_⟩
  · rw [h4]; decide
  · intro br a b c d
    have := h6 br a b c d
    have e1 : dataOf cs = [104, 101, 108, 108, 111] := by decide
    have e2 : trailerGot trailers = some [([88, 45, 84], [118])] := by decide
    rw [e1, e2] at this
    exact this

end Req.Props.C02
