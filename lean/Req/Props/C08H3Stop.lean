import Req.Lemmas.CancelH3Stuck
/-!
# C08 on HTTP/3 — "the upload stops"

`Steps` = any mixture of environment events and internal steps (the peer may grant credit, the
application may go on reading, …).

* `send_side_never_reopens_h3` — once the send side of the request stream is not open any more (FIN,
  cancelled, reset) it stays that way.
* `no_write_after_send_cancel_h3` — from a state whose send side is shut, under ANY continuation, QUIC
  accepts no further write of the upload (`writes` unchanged): the upload has stopped for good.
* `upload_stops_h3` — from the cancel at any reachable state with the response not yet finished by the
  application: at most the writes the peer's credit lets through BEFORE the watcher's first step are
  accepted; as soon as the watcher has taken that step (`wat ≠ waiting`) the count is final.
* `body_close_is_final_h3` — once the request body was closed, under any continuation the upload
  goroutine never reads it again (`upl` never returns to `read` / `write`).
* `released_abs_h3` — refinement link: a released HTTP/3 state maps to a released resource record of the
  protocol-independent lifecycle (`Req.Cancel.Res.released`).
-/
namespace Req.Props.C08H3Stop
open Req.Cancel (CtxErr)
open Req.CancelH3 Req.Lemmas.CancelH3

inductive Step : St → St → Prop
  | ev {s} (e : Ev) : evGuard s e = true → Step s (evApply s e)
  | act {s} (a : Act) : guard s a = true → Step s (apply s a)

inductive Steps : St → St → Prop
  | refl (s) : Steps s s
  | tail {s t u} : Steps s t → Step t u → Steps s u

def shut (x : Side) : Bool := x != .open && x != .idle

theorem step_inv {s t : St} (h : Step s t) (hI : Inv s) : Inv t := by
  cases h with
  | ev e g => exact inv_ev hI g
  | act a g => exact inv_act hI g

theorem step_shut {s t : St} (h : Step s t) (hI : Inv s) (hs : shut s.send = true) :
    shut t.send = true ∧ t.writes = s.writes := by
  have hpre := hI.pre
  have hno := hI.noStr
  rcases s with ⟨hasBody, ctx, cpc, wat, upl, send, recv, respHdr, reqDone, closes, callerClosed, readRes, writes⟩
  cases h with
  | ev e g =>
    cases e <;> simp only [CancelH3.evGuard, Bool.and_eq_true, beq_iff_eq] at g <;>
      simp only [CancelH3.evApply] <;> cases send <;> simp_all [shut, Side.resetIfOpen]
  | act a g =>
    cases a <;> simp only [CancelH3.apply, closeBody] <;> (try split) <;> (try split) <;>
      cases send <;> simp_all [shut, Side.cancelIfOpen, Side.finIfOpen]

/-- **send_side_never_reopens_h3** / **no_write_after_send_cancel_h3** -/
theorem steps_inv {s t : St} (h : Steps s t) (hI : Inv s) : Inv t := by
  induction h with
  | refl => exact hI
  | tail _ st ih => exact step_inv st ih

theorem no_write_after_send_cancel_h3 {s t : St} (hr : Reach s) (h : Steps s t) (hs : shut s.send = true) :
    shut t.send = true ∧ t.writes = s.writes := by
  have hI := reach_inv hr
  induction h with
  | refl => exact ⟨hs, rfl⟩
  | tail pre st ih =>
    obtain ⟨h1, h2⟩ := ih
    obtain ⟨h3, h4⟩ := step_shut st (steps_inv pre hI) h1
    exact ⟨h3, h4.trans h2⟩

theorem send_side_never_reopens_h3 {s t : St} (hr : Reach s) (h : Steps s t) (hs : shut s.send = true) :
    t.send ≠ .open := by
  have := (no_write_after_send_cancel_h3 hr h hs).1
  intro ho
  simp [shut, ho] at this

example : shut (apply (evApply (evApply (evApply (init true) .hsDone) .streamOpen) (.cancel .canceled)) .wFireW).send = true := by
  decide

/-- **upload_stops_h3** — reachable, stream exists: once the watcher of a cancelled request has taken its
first step the send side is shut, so (previous theorem) no write is accepted any more -/
theorem upload_stops_h3 {s t : St} (hr : Reach s) (hw : s.wat = .mid ∨ (s.wat = .done ∧ s.reqDone = false))
    (h : Steps s t) : t.writes = s.writes := by
  have hI := reach_inv hr
  have hs : shut s.send = true := by
    have hne : s.wat ≠ .none := by rcases hw with h | h <;> simp [h]
    have hidle := (hI.str hne).1
    have hopen : s.send ≠ .open := by
      rcases hw with h | ⟨h, hd⟩
      · exact hI.mid h
      · rcases hI.done h with h' | h'
        · rw [hd] at h'; cases h'
        · exact h'.1
    cases hsend : s.send <;> simp_all [shut]
  exact (no_write_after_send_cancel_h3 hr h hs).2

def pastRead (u : UPc) : Bool := u == .fin || u == .done

theorem step_past {s t : St} (h : Step s t) (hI : Inv s) (hs : pastRead s.upl = true) : pastRead t.upl = true := by
  have hhdr := hI.hdr
  rcases s with ⟨hasBody, ctx, cpc, wat, upl, send, recv, respHdr, reqDone, closes, callerClosed, readRes, writes⟩
  cases h with
  | ev e g =>
    cases e <;> simp only [CancelH3.evGuard, Bool.and_eq_true, beq_iff_eq] at g <;>
      simp only [CancelH3.evApply] <;> cases upl <;> simp_all [pastRead]
  | act a g =>
    cases a <;> simp only [CancelH3.guard, Bool.and_eq_true, beq_iff_eq] at g <;>
      simp only [CancelH3.apply, closeBody] <;> (try split) <;> (try split) <;>
      cases upl <;> simp_all [pastRead]

/-- **body_close_is_final_h3** — the upload goroutine past its deferred `body.Close()` never goes back to
reading the body or writing to the stream, whatever happens -/
theorem body_close_is_final_h3 {s t : St} (hr : Reach s) (h : Steps s t) (hs : pastRead s.upl = true) :
    pastRead t.upl = true := by
  have hI := reach_inv hr
  induction h with
  | refl => exact hs
  | tail pre st ih => exact step_past st (steps_inv pre hI) ih

example : pastRead (UPc.fin) = true ∧ pastRead (UPc.write) = false := by decide

/-! ## Refinement link to the protocol-independent lifecycle -/

/-- abstraction of an HTTP/3 state to the abstract lifecycle's per-attempt resource record -/
def absRes (s : Req.CancelH3.St) : Req.Cancel.Res :=
  { bodyOpen := s.hasBody && s.closes == 0
    closes := s.closes
    writer := !(s.upl == .none || s.upl == .done)
    watch := !(s.wat == .none || s.wat == .done)
    stream := if s.send == .idle then Req.Cancel.Stream.none
              else if s.send == .open || s.recv == .open then Req.Cancel.Stream.open
              else if s.send == .cancelled || s.recv == .cancelled then Req.Cancel.Stream.reset
              else Req.Cancel.Stream.closed
    conn := if s.send == .open || s.recv == .open then Req.Cancel.Conn.owned
            else if s.send == .idle then Req.Cancel.Conn.none else Req.Cancel.Conn.pooled }

/-- **released_abs_h3** — a released HTTP/3 state maps to a released abstract resource record
(`Req.Cancel.Res.released`: body not open, no writer, no watcher, stream not open, connection not held) -/
theorem released_abs_h3 (s : Req.CancelH3.St) (h : released s = true) : (absRes s).released = true := by
  rcases s with ⟨hasBody, ctx, cpc, wat, upl, send, recv, respHdr, reqDone, closes, callerClosed, readRes, writes⟩
  simp only [released, isReturned, Bool.and_eq_true, Bool.or_eq_true, beq_iff_eq, bne_iff_ne, ne_eq] at h
  obtain ⟨⟨⟨⟨⟨_, hw⟩, hu⟩, hs⟩, hr⟩, hc⟩ := h
  cases hasBody <;> cases send <;> cases recv <;>
    simp_all [absRes, Req.Cancel.Res.released]

example : (absRes (init true)).bodyOpen = true ∧ (absRes (init true)).released = false := by decide

end Req.Props.C08H3Stop
