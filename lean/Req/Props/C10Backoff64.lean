import Req.Client.Backoff64
import Req.Client.Backoff
import Req.Lemmas.C10Backoff64
import Req.Props.C10
/-!
C10, round 4 — the built-in backoff interval with the ACTUAL float64 / int64 operations
(`Req.Backoff64`), for all `int64` bounds and every attempt number `≥ 0`.

* `backoff64_agrees_below_2p53`: the old "exact below 2^53 ns" argument is now a theorem —
  there the float computation equals the integer model `Req.Backoff`;
* `backoff64_bounds`: for `0 < min`, `2 ≤ max`, attempt `≥ 1`, ALL magnitudes: no panic,
  `1 ≤ half ≤ d < 2·half ≤ float64(max)`, `d` fits an `int64`;
* `backoff64_within_bounds`: the stated bounds `d ≤ max` (for `max < 2^54` ns ≈ 208 days) and
  `min ≤ d` (for `min ≤ 2^53`, `2·min ≤ max`) hold exactly;
* `backoff64_can_exceed_max`, `backoff64_can_undershoot_min`: beyond that the rounding of
  `float64(max)` / `float64(min)` lets the interval leave `[min, max]` by up to half an ulp —
  the inputs where the real code violates the property's letter (`decide`d);
* `backoff64_total`, `backoff64_zero`: total on all inputs (with the C10-4 guard), 0 for
  `min ≤ 0` or `max < 2`, also through `−Inf` / `NaN` and the implementation-defined
  `int64(·)` of those.
-/
namespace Req.Props.C10Backoff64
open Req.Backoff64 Req.Lemmas.C10Backoff64
open Req.Props.C10 (two_pow_pos two_pow_ge_two)

theorem twoP1024_pos : 0 < twoP1024 := by
  unfold twoP1024
  have := two_pow_pos 1024
  omega

theorem two_pow_mono (a b : Nat) (h : a ≤ b) : (2 : Int) ^ a ≤ 2 ^ b := by
  induction b with
  | zero => have : a = 0 := by omega
            subst this; exact Int.le_refl _
  | succ k ih =>
    by_cases hk : a ≤ k
    · have := ih hk
      rw [Int.pow_succ]
      have := two_pow_pos k
      omega
    · have : a = k + 1 := by omega
      subst this; exact Int.le_refl _

theorem pow53 : (2 : Int) ^ 53 = 9007199254740992 := by decide

/-- What `math.Min(cap, base·2^attempt)` is for a positive base. -/
theorem temp_spec (b cap : Int) (a : Nat) (hb : 1 ≤ b) (ha : 1 ≤ a) :
    ∃ t, fmin cap (mulExp2 b a) = .fin t ∧ t ≤ cap ∧ (t = cap ∨ 2 * b ≤ t) := by
  unfold mulExp2
  by_cases h : 1024 ≤ a
  · have hb' : 0 < b := by omega
    simp only [h, ↓reduceIte, hb', fmin]
    exact ⟨cap, rfl, Int.le_refl _, Or.inl rfl⟩
  · simp only [h, ↓reduceIte]
    have hp2 := two_pow_ge_two a ha
    have hp : b * 2 ≤ b * (2 : Int) ^ a := Int.mul_le_mul_of_nonneg_left hp2 (by omega)
    by_cases hbig : twoP1024 ≤ b * (2 : Int) ^ a
    · simp only [hbig, ↓reduceIte, fmin]
      exact ⟨cap, rfl, Int.le_refl _, Or.inl rfl⟩
    · have hneg : ¬ (b * (2 : Int) ^ a ≤ -twoP1024) := by
        have := twoP1024_pos
        omega
      simp only [hbig, hneg, ↓reduceIte, fmin]
      by_cases hle : b * (2 : Int) ^ a ≤ cap
      · exact ⟨_, by simp [hle], hle, Or.inr (by omega)⟩
      · exact ⟨cap, by simp [hle], Int.le_refl _, Or.inl rfl⟩


/-- **backoff64_bounds**: for ALL `int64` arguments with `0 < min`, `2ns ≤ max` and every attempt
number `≥ 1` — no upper limit on durations or attempts — the real computation yields
`half ≥ 1` and an interval `d` with `half ≤ d < 2·half ≤ float64(max)`; `d` fits an `int64`
(no overflow in `halfTemp + rand.Int63n(halfTemp)`). -/
theorem backoff64_bounds (mn mx : Int) (a j : Nat) (hmn : isInt64 mn) (hmx : isInt64 mx)
    (hmin : 0 < mn) (hmax : 2 ≤ mx) (ha : 1 ≤ a) :
    0 < half mn mx a ∧ half mn mx a ≤ interval mn mx a j ∧ interval mn mx a j < 2 * half mn mx a ∧
      2 * half mn mx a ≤ toF mx ∧ interval mn mx a j < 9223372036854775808 ∧
      (toF mx ≤ 2 * toF mn → 2 * half mn mx a + 1 ≥ toF mx) ∧
      (2 * toF mn ≤ toF mx → toF mn ≤ half mn mx a) := by
  obtain ⟨hmn1, hmn2⟩ := hmn
  obtain ⟨hmx1, hmx2⟩ := hmx
  have hb := toF_pos mn hmin (by omega)
  have hc := toF_two mx hmax (by omega)
  have hc63 := toF_le_pow63 mx (by omega)
  obtain ⟨t, ht, htc, hcase⟩ := temp_spec (toF mn) (toF mx) a hb ha
  have ht2 : 2 ≤ t := by rcases hcase with h | h <;> omega
  have hhalf : half mn mx a = t / 2 := by
    unfold half
    rw [ht]
    unfold halfTemp
    have : Int.tdiv t 2 = t / 2 := Int.tdiv_eq_ediv_of_nonneg (by omega)
    simp only [this]
    rw [if_pos (by omega)]
  have hpos : 0 < half mn mx a := by omega
  have hmod : ((j % (half mn mx a).toNat : Nat) : Int) < half mn mx a := by
    have : j % (half mn mx a).toNat < (half mn mx a).toNat := Nat.mod_lt _ (by omega)
    omega
  have hint : interval mn mx a j = half mn mx a + (j % (half mn mx a).toNat : Nat) := by
    unfold interval
    simp only
    rw [if_neg (by omega)]
  refine ⟨hpos, by omega, by omega, by omega, by omega, ?_, ?_⟩
  · intro h; rcases hcase with h' | h' <;> omega
  · intro h; rcases hcase with h' | h' <;> omega

/-- **the stated bounds, exactly**: `d ≤ max` whenever `max < 2^54` ns (208 days: `float64(max)`
is then at most 1 above `max`), and `min ≤ d` whenever moreover `min ≤ 2^53` and `2·min ≤ max`. -/
theorem backoff64_within_bounds (mn mx : Int) (a j : Nat) (hmn : isInt64 mn)
    (hmin : 0 < mn) (hmax : 2 ≤ mx) (hmx54 : mx < 18014398509481984) (ha : 1 ≤ a) :
    0 < interval mn mx a j ∧ interval mn mx a j ≤ mx ∧
      (mn ≤ 9007199254740992 → 2 * mn ≤ mx → mn ≤ interval mn mx a j) := by
  have hmx : isInt64 mx := ⟨by omega, by omega⟩
  obtain ⟨h1, h2, h3, h4, -, -, h7⟩ := backoff64_bounds mn mx a j hmn hmx hmin hmax ha
  have hnear := toF_near mx (by omega) hmx54
  refine ⟨by omega, by omega, ?_⟩
  intro hmn53 h2mn
  have hexact : toF mn = mn := by
    by_cases h : mn = 9007199254740992
    · subst h; decide
    · exact toF_exact mn (by omega) (by omega)
  rw [hexact] at h7
  -- float64(max) ≥ 2·min: 2·min is representable (min ≤ 2^53) and rounding is monotone; here via closeness
  by_cases hsmall : mx < 9007199254740992
  · have := toF_exact mx (by omega) hsmall
    omega
  · -- max ≥ 2^53: float64(max) ≥ max − 1 ≥ 2·min − 1, and float64(max) is even
    have hev : toF mx % 2 = 0 := by
      rw [toF_of_nonneg mx (by omega)]
      have hn : mx.toNat < 18014398509481984 := by omega
      have hn2 : 9007199254740992 ≤ mx.toNat := by omega
      rcases shiftOf_spec mx.toNat with ⟨hs, h1⟩ | ⟨hs, h1, h2⟩ | ⟨hs, h1, h2⟩ | ⟨hs, h1, h2⟩ | ⟨hs, h1, h2⟩ | ⟨hs, h1, h2⟩ |
        ⟨hs, h1, h2⟩ | ⟨hs, h1, h2⟩ | ⟨hs, h1, h2⟩ | ⟨hs, h1, h2⟩ | ⟨hs, h1, h2⟩ | ⟨hs, h1⟩ <;> try omega
      simp only [roundF, hs, roundAt, Nat.reducePow, Nat.reduceDiv, ↓reduceIte, Nat.succ_ne_zero]
      split <;> omega
    have := h7 (by omega)
    omega

set_option exponentiation.threshold 2000 in
set_option maxRecDepth 10000 in
/-- **above 2^54 ns the float arithmetic can leave the configured bounds** (by up to half an ulp):
`max = 2^54 + 6` is rounded UP to `2^54 + 8`, so `halfTemp = 2^53 + 4` and the largest jitter
gives `2^54 + 7 > max`; `min = 2^53 + 1` is rounded DOWN to `2^53`, so the smallest jitter gives
`2^53 < min`.  (Probability 2^-53 per call: not observable by running the code; the exact tie of
`halfTemp` is what lane `backoff64` checks.) -/
theorem backoff64_can_exceed_max :
    interval 18014398509481984 18014398509481990 1 9007199254740995 = 18014398509481991 := by decide
set_option exponentiation.threshold 2000 in
set_option maxRecDepth 10000 in
theorem backoff64_can_undershoot_min :
    interval 9007199254740993 1152921504606846976 1 0 = 9007199254740992 := by decide

/-- With the C10-4 guard the function is total on all of `int64 × int64 × ℕ`: never negative,
never beyond `int64`; and it answers 0 whenever `min ≤ 0` or `max < 2` — including the inputs
whose intermediate result is `−Inf` or `NaN` (`min < 0` resp. `min = 0` with an attempt number
`≥ 1024`), where `int64(·)` is implementation-defined: the amd64 value `−2^63` and every other
platform's value (saturation, 0 for NaN) are `≤ 0`. -/
theorem backoff64_total (mn mx : Int) (a j : Nat) (hmx : isInt64 mx) :
    0 ≤ interval mn mx a j ∧ interval mn mx a j < 9223372036854775808 := by
  unfold interval
  simp only
  by_cases h : half mn mx a ≤ 0
  · simp [h]
  · rw [if_neg h]
    have hmod : ((j % (half mn mx a).toNat : Nat) : Int) < half mn mx a := by
      have : j % (half mn mx a).toNat < (half mn mx a).toNat := Nat.mod_lt _ (by omega)
      omega
    have hle : half mn mx a ≤ 4611686018427387904 := by
      have hc63 := toF_le_pow63 mx (by have := hmx.2; omega)
      unfold half halfTemp at *
      cases hf : fmin (toF mx) (mulExp2 (toF mn) a) with
      | fin v =>
        simp only [hf] at h ⊢
        have hv : v ≤ toF mx := by
          unfold fmin at hf
          cases hm : mulExp2 (toF mn) a with
          | fin w => simp only [hm, F.fin.injEq] at hf; rw [← hf]; split <;> omega
          | posInf => simp only [hm, F.fin.injEq] at hf; omega
          | negInf => simp [hm] at hf
          | nan => simp [hm] at hf
        split
        · have : Int.tdiv v 2 ≤ v / 2 ∨ v < 0 := by
            by_cases hv0 : 0 ≤ v
            · exact Or.inl (by rw [Int.tdiv_eq_ediv_of_nonneg hv0]; exact Int.le_refl _)
            · exact Or.inr (by omega)
          rcases this with h' | h'
          · omega
          · have : Int.tdiv v 2 ≤ 0 := by
              have h1 : v = -(-v) := by omega
              rw [h1, Int.neg_tdiv]
              have := Int.tdiv_nonneg (a := -v) (b := 2) (by omega) (by omega)
              omega
            omega
        · simp [indefinite]
      | posInf => simp [indefinite]
      | negInf => simp [indefinite]
      | nan => simp [indefinite]
    omega


theorem halfTemp_nonpos_of_nonpos (v : Int) (h : v ≤ 1) : halfTemp (.fin v) ≤ 0 := by
  unfold halfTemp
  simp only
  split
  · by_cases hv : 0 ≤ v
    · rw [Int.tdiv_eq_ediv_of_nonneg hv]; omega
    · have h1 : v = -(-v) := by omega
      rw [h1, Int.neg_tdiv]
      have := Int.tdiv_nonneg (a := -v) (b := 2) (by omega) (by omega)
      omega
  · simp [indefinite]

/-- **backoff64_zero**: `min ≤ 0` (or `max < 2`) — nothing to randomise, the answer is 0, for
every attempt number, `−Inf`/`NaN` intermediates included. -/
theorem backoff64_zero (mn mx : Int) (a j : Nat) (hmx : isInt64 mx) (h : mn ≤ 0 ∨ mx < 2) :
    interval mn mx a j = 0 := by
  have hnp : half mn mx a ≤ 0 := by
    unfold half
    rcases h with h | h
    · have hb := toF_nonpos mn h
      unfold mulExp2
      by_cases h1024 : 1024 ≤ a
      · have : ¬ 0 < toF mn := by omega
        simp only [h1024, ↓reduceIte, this]
        split <;> simp [fmin, halfTemp, indefinite]
      · simp only [h1024, ↓reduceIte]
        have hp : toF mn * (2 : Int) ^ a ≤ 0 := by
          have := two_pow_pos a
          exact Int.mul_nonpos_of_nonpos_of_nonneg hb (by omega)
        have : ¬ twoP1024 ≤ toF mn * (2 : Int) ^ a := by have := twoP1024_pos; omega
        simp only [this, ↓reduceIte]
        split
        · simp [fmin, halfTemp, indefinite]
        · simp only [fmin]
          apply halfTemp_nonpos_of_nonpos
          split <;> omega
    · have hc : toF mx ≤ 1 := by
        by_cases hx : mx ≤ 0
        · have := toF_nonpos mx hx; omega
        · have : mx = 1 := by omega
          subst this; decide
      cases hm : mulExp2 (toF mn) a with
      | fin w => simp only [fmin]; apply halfTemp_nonpos_of_nonpos; split <;> omega
      | posInf => simp only [fmin]; exact halfTemp_nonpos_of_nonpos _ hc
      | negInf => simp [fmin, halfTemp, indefinite]
      | nan => simp [fmin, halfTemp, indefinite]
  unfold interval
  simp [hnp]

/-- **the 2^53 caveat is a theorem**: for arguments of magnitude below 2^53 ns (104 days) the
float computation IS the integer model `Req.Backoff` — `halfTemp` is positive in one exactly when
it is in the other, and then they are equal — so `Req.Props.C10.backoff_bounds` speaks about
the real arithmetic there. -/
theorem backoff64_agrees_below_2p53 (mn mx : Int) (a j : Nat)
    (h1 : -9007199254740992 < mn) (h2 : mn < 9007199254740992)
    (h3 : -9007199254740992 < mx) (h4 : mx < 9007199254740992) :
    Req.Backoff.interval true mn mx a j = .ok (interval mn mx a j) := by
  have hkey : (half mn mx a ≤ 0 ∧ Req.Backoff.half mn mx a ≤ 0) ∨
      (0 < half mn mx a ∧ half mn mx a = Req.Backoff.half mn mx a) := by
    unfold half Req.Backoff.half Req.Backoff.temp
    rw [toF_exact mn h1 h2, toF_exact mx h3 h4]
    simp only
    have hT := twoP1024_pos
    have h53 : (9007199254740992 : Int) ≤ twoP1024 := by
      unfold twoP1024; rw [← pow53]; exact two_pow_mono 53 1024 (by omega)
    have hsame : ∀ v : Int, v < 9007199254740992 →
        (halfTemp (.fin v) ≤ 0 ∧ Int.tdiv v 2 ≤ 0) ∨ (0 < halfTemp (.fin v) ∧ halfTemp (.fin v) = Int.tdiv v 2) := by
      intro v hv
      by_cases hv1 : v ≤ 1
      · left
        refine ⟨halfTemp_nonpos_of_nonpos v hv1, ?_⟩
        by_cases hv0 : 0 ≤ v
        · rw [Int.tdiv_eq_ediv_of_nonneg hv0]; omega
        · have h1 : v = -(-v) := by omega
          rw [h1, Int.neg_tdiv]
          have := Int.tdiv_nonneg (a := -v) (b := 2) (by omega) (by omega)
          omega
      · right
        unfold halfTemp
        simp only
        rw [Int.tdiv_eq_ediv_of_nonneg (by omega), if_pos (by omega)]
        exact ⟨by omega, rfl⟩
    have hneg : ∀ v : Int, v < 0 → Int.tdiv v 2 ≤ 0 := by
      intro v hv
      have h1 : v = -(-v) := by omega
      rw [h1, Int.neg_tdiv]
      have := Int.tdiv_nonneg (a := -v) (b := 2) (by omega) (by omega)
      omega
    unfold mulExp2
    by_cases h1024 : 1024 ≤ a
    · simp only [h1024, ↓reduceIte]
      have hpa : (9007199254740992 : Int) ≤ (2 : Int) ^ a := by
        rw [← pow53]; exact two_pow_mono 53 a (by omega)
      by_cases hp : 0 < mn
      · have hx : mx ≤ mn * (2 : Int) ^ a := by
          have : 1 * (2 : Int) ^ a ≤ mn * (2 : Int) ^ a := Int.mul_le_mul_of_nonneg_right (by omega) (by omega)
          omega
        simp only [hp, ↓reduceIte, fmin, hx]
        exact hsame mx h4
      · simp only [hp, ↓reduceIte]
        left
        have hx0 : mn * (2 : Int) ^ a ≤ 0 := Int.mul_nonpos_of_nonpos_of_nonneg (by omega) (by omega)
        refine ⟨by split <;> simp [fmin, halfTemp, indefinite], ?_⟩
        split
        · by_cases hm0 : mx ≤ 1
          · by_cases hv0 : 0 ≤ mx
            · rw [Int.tdiv_eq_ediv_of_nonneg hv0]; omega
            · exact hneg mx (by omega)
          · omega
        · by_cases hz : mn * (2 : Int) ^ a = 0
          · rw [hz]; decide
          · exact hneg _ (by omega)
    · simp only [h1024, ↓reduceIte]
      by_cases hbig : twoP1024 ≤ mn * (2 : Int) ^ a
      · have hx : mx ≤ mn * (2 : Int) ^ a := by omega
        simp only [hbig, ↓reduceIte, fmin, hx]
        exact hsame mx h4
      · simp only [hbig, ↓reduceIte]
        by_cases hsmall : mn * (2 : Int) ^ a ≤ -twoP1024
        · simp only [hsmall, ↓reduceIte]
          left
          refine ⟨by simp [fmin, halfTemp, indefinite], ?_⟩
          split
          · exact hneg mx (by omega)
          · exact hneg _ (by omega)
        · simp only [hsmall, ↓reduceIte, fmin]
          by_cases hle : mx ≤ mn * (2 : Int) ^ a
          · by_cases heq : mn * (2 : Int) ^ a ≤ mx
            · have : mn * (2 : Int) ^ a = mx := by omega
              simp only [this, Int.le_refl, ↓reduceIte]
              exact hsame mx h4
            · simp only [hle, heq, ↓reduceIte]
              exact hsame mx h4
          · have heq : mn * (2 : Int) ^ a ≤ mx := by omega
            simp only [hle, heq, ↓reduceIte]
            exact hsame _ (by omega)
  unfold Req.Backoff.interval interval
  simp only
  rcases hkey with ⟨ha, hb⟩ | ⟨ha, hb⟩
  · simp [ha, hb]
  · have : ¬ Req.Backoff.half mn mx a ≤ 0 := by omega
    have h' : ¬ half mn mx a ≤ 0 := by omega
    simp only [this, h', ↓reduceIte, hb]

/-! ## non-vacuity -/

set_option exponentiation.threshold 2000 in
set_option maxRecDepth 10000 in
example : interval 100 1000 2 7 = 207 ∧ interval 100 1000 9 499 = 999 ∧ half 100 1000 9 = 500 := by decide
set_option exponentiation.threshold 2000 in
set_option maxRecDepth 10000 in
/-- `float64(MaxInt64) = 2^63`: `halfTemp = 2^62`, the largest possible interval is `MaxInt64` itself -/
example : half 1 9223372036854775807 5000 = 4611686018427387904 ∧
    interval 1 9223372036854775807 5000 4611686018427387903 = 9223372036854775807 := by decide
set_option exponentiation.threshold 2000 in
set_option maxRecDepth 10000 in
/-- `−Inf` and `NaN` intermediates: `min < 0` resp. `min = 0` with attempt 1024 -/
example : mulExp2 (toF (-5)) 1024 = .negInf ∧ mulExp2 (toF 0) 1024 = .nan ∧
    interval (-5) 100 1024 3 = 0 ∧ interval 0 100 1024 3 = 0 ∧ interval 0 100 1 3 = 0 := by decide
/-- rounding: `2^53 + 1 ↦ 2^53` (tie to even), `2^53 + 3 ↦ 2^53 + 4`, `MaxInt64 ↦ 2^63` -/
example : toF 9007199254740993 = 9007199254740992 ∧ toF 9007199254740995 = 9007199254740996 ∧
    toF 9223372036854775807 = 9223372036854775808 ∧ toF (-9223372036854775808) = -9223372036854775808 := by decide

end Req.Props.C10Backoff64
