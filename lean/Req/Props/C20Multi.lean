import Req.Props.C20Digest
/-!
C20 — multi-scheme challenge lists: the challenges of OTHER schemes (Basic, Bearer, Negotiate,
anything) that a response offers next to Digest — before it, after it, between two Digest
challenges, on the same field line or on another — never change what `parseChallenge` answers,
whatever parameter names they use (`realm` as well as the Digest challenge, practically always).
-/
namespace Req.Props.C20
open Req.Proto Req.Digest Req.DigestAuth Req.Ascii

/-! ### the meaning of a list is read challenge by challenge -/

theorem meanParam_append (acc rest : List SChal) (hne : acc ≠ []) (p : ParamW) :
    meanParam (acc ++ rest) p = (meanParam acc p).map (· ++ rest) := by
  cases acc with
  | nil => exact absurd rfl hne
  | cons ch tl =>
    simp only [List.cons_append, meanParam]
    split
    · rfl
    · split
      · rfl
      · rfl

theorem meanParam_ne_nil (acc acc' : List SChal) (p : ParamW) (h : meanParam acc p = some acc') : acc' ≠ [] := by
  cases acc with
  | nil => cases h
  | cons ch tl =>
    simp only [meanParam] at h
    split at h
    · cases h
    · split at h
      · cases h
      · simp only [Option.some.injEq] at h; subst h; simp

theorem meanStep_append (acc rest : List SChal) (hne : acc ≠ []) (w : ElemW) :
    meanStep (acc ++ rest) w = (meanStep acc w).map (· ++ rest) := by
  cases w with
  | empty => rfl
  | scheme s => rfl
  | scheme68 s sp t =>
    simp only [meanStep]
    split <;> rfl
  | schemeParam s sp p =>
    simp only [meanStep]
    exact meanParam_append ({ scheme := s } :: acc) rest (by simp) p
  | param p => exact meanParam_append acc rest hne p

theorem meanStep_ne_nil (acc acc' : List SChal) (hne : acc ≠ []) (w : ElemW) (h : meanStep acc w = some acc') :
    acc' ≠ [] := by
  cases w with
  | empty => simp only [meanStep, Option.some.injEq] at h; subst h; exact hne
  | scheme s => simp only [meanStep, Option.some.injEq] at h; subst h; simp
  | scheme68 s sp t =>
    simp only [meanStep] at h
    split at h
    · cases h
    · simp only [Option.some.injEq] at h; subst h; simp
  | schemeParam s sp p => exact meanParam_ne_nil ({ scheme := s } :: acc) _ p h
  | param p => exact meanParam_ne_nil acc _ p h

/-- the steps only ever look at the most recent challenge -/
theorem meanElems_append_acc : ∀ (ws : List ElemW) (acc rest : List SChal), acc ≠ [] →
    meanElems ws (acc ++ rest) = (meanElems ws acc).map (· ++ rest) := by
  intro ws
  induction ws with
  | nil => intro acc rest _; rfl
  | cons w ws ih =>
    intro acc rest hne
    simp only [meanElems, meanStep_append acc rest hne w]
    cases hs : meanStep acc w with
    | none => rfl
    | some acc' => exact ih acc' rest (meanStep_ne_nil acc acc' hne w hs)

/-- the first element that is not empty begins a challenge (or there is none) -/
def startsChallenge : List ElemW → Bool
  | [] => true
  | .empty :: r => startsChallenge r
  | .param _ :: _ => false
  | _ :: _ => true

/-- … then what was read before does not matter -/
theorem meanElems_starts : ∀ (ws : List ElemW) (acc : List SChal), startsChallenge ws = true →
    meanElems ws acc = (meanElems ws []).map (· ++ acc) := by
  intro ws
  induction ws with
  | nil => intro acc _; simp [meanElems]
  | cons w ws ih =>
    intro acc h
    cases w with
    | empty =>
      simp only [meanElems, meanStep]
      exact ih acc h
    | param p => cases h
    | scheme s =>
      simp only [meanElems, meanStep]
      exact meanElems_append_acc ws [{ scheme := s }] acc (by simp)
    | scheme68 s sp t =>
      simp only [meanElems, meanStep]
      by_cases hd : isDigest s = true
      · simp [hd]
      · simp only [hd]
        exact meanElems_append_acc ws [{ scheme := s, t68 := some t }] acc (by simp)
    | schemeParam s sp p =>
      simp only [meanElems, meanStep]
      have := meanParam_append [{ scheme := s }] acc (by simp) p
      simp only [List.cons_append, List.nil_append] at this
      rw [this]
      cases hp : meanParam [{ scheme := s }] p with
      | none => rfl
      | some acc' => exact meanElems_append_acc ws acc' acc (meanParam_ne_nil _ _ p hp)

theorem meanElems_append : ∀ (a b : List ElemW) (acc : List SChal),
    meanElems (a ++ b) acc = (meanElems a acc).bind (meanElems b) := by
  intro a
  induction a with
  | nil => intro b acc; rfl
  | cons w a ih =>
    intro b acc
    simp only [List.cons_append, meanElems]
    cases meanStep acc w with
    | none => rfl
    | some acc' => exact ih b acc'

/-- a list that has a meaning begins with a challenge -/
theorem starts_of_meaning : ∀ (ws : List ElemW) (acc : List SChal), meanElems ws [] = some acc →
    startsChallenge ws = true := by
  intro ws
  induction ws with
  | nil => intro _ _; rfl
  | cons w ws ih =>
    intro acc h
    cases w with
    | empty => simp only [meanElems, meanStep] at h; exact ih acc h
    | param p => simp [meanElems, meanStep, meanParam] at h
    | scheme s => rfl
    | scheme68 s sp t => rfl
    | schemeParam s sp p => rfl

theorem starts_append : ∀ (a b : List ElemW), startsChallenge a = true → startsChallenge b = true →
    startsChallenge (a ++ b) = true := by
  intro a
  induction a with
  | nil => intro b _ hb; exact hb
  | cons w a ih =>
    intro b ha hb
    cases w with
    | empty => exact ih b ha hb
    | param p => cases ha
    | scheme s => rfl
    | scheme68 s sp t => rfl
    | schemeParam s sp p => rfl

/-- **meaning_append**: the meaning of two lists written one after the other, the second
beginning with a challenge, is the challenges of the first followed by those of the second. -/
theorem meaning_append (a b : List ElemW) (hb : startsChallenge b = true) :
    meaning (a ++ b) = (meaning a).bind fun ca => (meaning b).map (ca ++ ·) := by
  unfold meaning
  rw [meanElems_append]
  cases ha : meanElems a [] with
  | none => rfl
  | some acc =>
    simp only [Option.bind_some, Option.map_some]
    rw [meanElems_starts b acc hb]
    cases meanElems b [] with
    | none => rfl
    | some accb => simp

theorem filterMap_digestOf_others (others : List SChal) (h : ∀ o ∈ others, isDigest o.scheme = false) :
    others.filterMap digestOf = [] := by
  induction others with
  | nil => rfl
  | cons o r ih =>
    have ho := h o (List.mem_cons_self ..)
    simp only [List.filterMap_cons, digestOf, ho, Bool.false_eq_true, if_false]
    exact ih (fun x hx => h x (List.mem_cons_of_mem _ hx))

/-- **other_schemes_do_not_interfere**: take ANY well-written challenge list `xs ++ ys` with a
meaning, `ys` beginning with a challenge (or empty), and insert between the two — i.e. at the
front, at the end or at any challenge boundary — ANY well-written list `zs` of challenges of other
schemes (`Basic realm="…"`, `Bearer`, `Negotiate <token68>`, `Newauth realm="…", nonce="…"`; any
number, any parameter names and values — the very names the Digest challenges use included —, any
white space, any way of quoting). `parseChallenge` answers exactly as without them: the same
Digest challenge is selected with the same parameters, or the same error is returned. -/
theorem other_schemes_do_not_interfere (xs zs ys : List Elem) (hne : xs ++ ys ≠ [])
    (hx : ∀ x ∈ xs, x.OK) (hz : ∀ x ∈ zs, x.OK) (hy : ∀ x ∈ ys, x.OK)
    (hys : startsChallenge (ys.map (·.e)) = true)
    (chs : List SChal) (hm : meaning ((xs ++ ys).map (·.e)) = some chs)
    (others : List SChal) (hzm : meaning (zs.map (·.e)) = some others)
    (hnd : ∀ o ∈ others, isDigest o.scheme = false) :
    parseChallenge algOf (commaCat ((xs ++ zs ++ ys).map Elem.render)) =
      parseChallenge algOf (commaCat ((xs ++ ys).map Elem.render)) := by
  have hzs : startsChallenge (zs.map (·.e)) = true := by
    unfold meaning at hzm
    cases hz' : meanElems (zs.map (·.e)) [] with
    | none => rw [hz'] at hzm; cases hzm
    | some acc => exact starts_of_meaning _ acc hz'
  -- the meaning of xs ++ ys, taken apart
  rw [List.map_append, meaning_append _ _ hys] at hm
  cases hxa : meaning (xs.map (·.e)) with
  | none => rw [hxa] at hm; cases hm
  | some ca =>
    rw [hxa] at hm
    simp only [Option.bind_some] at hm
    cases hyb : meaning (ys.map (·.e)) with
    | none => rw [hyb] at hm; cases hm
    | some cb =>
      rw [hyb] at hm
      simp only [Option.map_some, Option.some.injEq] at hm
      -- the meaning of xs ++ zs ++ ys
      have hm2 : meaning ((xs ++ zs ++ ys).map (·.e)) = some (ca ++ (others ++ cb)) := by
        rw [List.append_assoc, List.map_append, List.map_append,
          meaning_append _ _ (starts_append _ _ hzs hys), hxa, meaning_append _ _ hys, hzm, hyb]
        rfl
      have hok2 : ∀ x ∈ xs ++ zs ++ ys, x.OK := by
        intro x hx'
        rcases List.mem_append.mp hx' with h | h
        · rcases List.mem_append.mp h with h | h
          · exact hx x h
          · exact hz x h
        · exact hy x h
      have hok1 : ∀ x ∈ xs ++ ys, x.OK := by
        intro x hx'
        rcases List.mem_append.mp hx' with h | h
        · exact hx x h
        · exact hy x h
      have hne2 : xs ++ zs ++ ys ≠ [] := by
        intro h
        apply hne
        simp only [List.append_eq_nil_iff] at h ⊢
        exact ⟨h.1.1, h.2⟩
      have hm1 : meaning ((xs ++ ys).map (·.e)) = some (ca ++ cb) := by
        rw [List.map_append, meaning_append _ _ hys, hxa, hyb]
        rfl
      rw [parse_faithful _ hne2 hok2 _ hm2, parse_faithful _ hne hok1 _ hm1]
      simp only [List.filterMap_append, filterMap_digestOf_others others hnd, List.nil_append]

/-! non-vacuity: the list of seed C20-r5-1 — Digest first, then `Basic realm=…` with the same
parameter name (and a token68 challenge, and a third scheme reusing `nonce`) -/

def mxDigest : List Elem := [
  ⟨[], .schemeParam b!"Digest" b!" " ⟨b!"realm", [], [], plainQ b!"r"⟩, []⟩,
  ⟨b!" ", .param ⟨b!"nonce", [], [], plainQ b!"n"⟩, []⟩]

def mxOthers : List Elem := [
  ⟨b!" ", .schemeParam b!"Basic" b!" " ⟨b!"realm", [], [], plainQ b!"r"⟩, []⟩,
  ⟨b!" ", .scheme68 b!"Negotiate" b!" " b!"abc==", []⟩,
  ⟨b!" ", .schemeParam b!"Newauth" b!" " ⟨b!"REALM", [], b!" ", plainQ b!"x, y"⟩, []⟩,
  ⟨[], .param ⟨b!"nonce", b!" ", [], .tok b!"n"⟩, []⟩]

example : commaCat ((mxDigest ++ mxOthers ++ []).map Elem.render) =
    b!"Digest realm=\"r\", nonce=\"n\", Basic realm=\"r\", Negotiate abc==, Newauth REALM= \"x, y\",nonce =n" := by
  decide

example : (∀ x ∈ mxDigest, x.OK) ∧ (∀ x ∈ mxOthers, x.OK) := by decide

def mxOthersMeaning : List SChal := [
  { scheme := b!"Basic", params := [(b!"realm", b!"r")] },
  { scheme := b!"Negotiate", t68 := some b!"abc==" },
  { scheme := b!"Newauth", params := [(b!"realm", b!"x, y"), (b!"nonce", b!"n")] }]

example : meaning (mxOthers.map (·.e)) = some mxOthersMeaning ∧ ∀ o ∈ mxOthersMeaning, isDigest o.scheme = false := by
  decide

/-- the answerable Digest challenge IS answered when other schemes follow it (seed C20-r5-1
refuses exactly this list), precede it, or both -/
theorem digest_first_then_others :
    parseChallenge algOf (commaCat ((mxDigest ++ mxOthers ++ []).map Elem.render)) =
      .ok { realm := b!"r", nonce := b!"n" } ∧
    parseChallenge algOf (commaCat (([] ++ mxOthers ++ mxDigest).map Elem.render)) =
      .ok { realm := b!"r", nonce := b!"n" } := by decide

end Req.Props.C20
