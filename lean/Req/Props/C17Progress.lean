import Req.Client.ProgressClock
import Req.Lemmas.Progress
/-!
C17 — progress callbacks are truthful: interval throttling under an explicit (arbitrary) clock,
`Close` of the download reader, several files, several attempts.
-/
namespace Req.Props.C17Progress
open Req.Progress

/-! ### the clock: callbacks may be skipped, never the final one; the interval is respected -/

/-- bytes transferred by a list of calls -/
def bytesC : List WCall → Int
  | [] => 0
  | e :: es => (if e.n ≤ 0 then 0 else e.n) + bytesC es

theorem bytesW_bits (st : WState) (c : Clock) (calls : List WCall) :
    bytesW (bitsW st c calls) = bytesC calls := by
  induction calls generalizing st c with
  | nil => rfl
  | cons e es ih => simp only [bitsW, bytesW_cons, bytesC, ih]

/-- **throttle** — whatever the clock does (it need not even be monotone): two successive
callbacks fired by the INTERVAL test are at least `interval` apart, the first at least
`interval` after the writer was created. -/
theorem throttle_spacing_upload (st : WState) (c : Clock) (calls : List WCall) :
    spaced c.interval c.last (intervalTimesW st c calls) := by
  induction calls generalizing st c with
  | nil => trivial
  | cons e es ih =>
    simp only [intervalTimesW]
    split
    · rename_i h
      simp only [Bool.and_eq_true, elapsed, decide_eq_true_eq] at h
      exact ⟨h.2, ih _ { c with last := e.now }⟩
    · exact ih _ c

/-- **skipped, but truthful** — for EVERY clock and interval the reported counts are strictly
increasing, each one the true byte count after some call, none above the bytes written. -/
theorem progress_monotone_upload_clock (st : WState) (c : Clock) (calls : List WCall) :
    (runWT st c calls).Pairwise (· < ·) ∧
    ∀ x ∈ runWT st c calls, st.written < x ∧ x ≤ st.written + bytesC calls := by
  have hs := runW_sublist st (bitsW st c calls)
  refine ⟨(countsW_increasing st.written _).sublist hs, fun x hx => ?_⟩
  have := countsW_bounds st.written (bitsW st c calls) x (hs.subset hx)
  rwa [bytesW_bits] at this

/-- **the final one arrives** — known size = bytes written > 0: for EVERY clock and EVERY
interval (one hour, a year) the last reported count is the size. -/
theorem progress_final_upload_clock (total : Int) (c : Clock) (calls : List WCall)
    (hknown : total = bytesC calls) (hpos : 0 < total) :
    (runWT ⟨0, total⟩ c calls).getLast? = some total := by
  have := runW_final ⟨0, total⟩ (bitsW ⟨0, total⟩ c calls) (by simp [bytesW_bits, hknown])
    (by rw [bytesW_bits]; omega)
  simpa [runWT] using this

/-- a clock that never lets the interval elapse: everything is skipped except the final count -/
example : runWT ⟨0, 1000⟩ ⟨0, 3600⟩ [⟨512, 1⟩, ⟨400, 2⟩, ⟨88, 3⟩] = [1000] := by decide
/-- interval 2: calls at times 1,2,3,4,5 → reports at 2 and 4, then the final one -/
example : runWT ⟨0, 50⟩ ⟨0, 2⟩ [⟨10, 1⟩, ⟨10, 2⟩, ⟨10, 3⟩, ⟨10, 4⟩, ⟨10, 5⟩] = [20, 40, 50] ∧
    intervalTimesW ⟨0, 50⟩ ⟨0, 2⟩ [⟨10, 1⟩, ⟨10, 2⟩, ⟨10, 3⟩, ⟨10, 4⟩, ⟨10, 5⟩] = [2, 4] := by decide

/-! ### download: `Close` makes the final count unconditional -/

theorem finalR_spec (st : RState) (evs : List REvent) :
    (finalR st evs).read = st.read + bytesR evs ∧
    (finalR st evs).lastRead = ((runR st evs).getLast?).getD st.lastRead := by
  induction evs generalizing st with
  | nil => simp [finalR, bytesR, runR]
  | cons e es ih =>
    obtain ⟨h1, h2⟩ := ih (stepR st e).1
    simp only [finalR]
    refine ⟨?_, ?_⟩
    · rw [h1, bytesR_cons]
      rcases stepR_cases st e with ⟨hn, -, h⟩ | ⟨hn, -, h⟩ | ⟨hp, h⟩ | ⟨hp, -, h⟩ <;> rw [h] <;> simp only <;>
        split <;> omega
    · rw [h2, runR_cons]
      rcases stepR_cases st e with ⟨hn, -, h⟩ | ⟨hn, -, h⟩ | ⟨hp, h⟩ | ⟨hp, -, h⟩
      · rw [h]
        simp only [Option.toList_some, List.cons_append, List.nil_append]
        generalize runR _ es = l
        cases l with
        | nil => simp
        | cons y ys => simpa [List.getLast?_cons_cons] using getLast?_getD_cons y ys _ _
      · rw [h]; simp
      · rw [h]
        simp only [Option.toList_some, List.cons_append, List.nil_append]
        generalize runR _ es = l
        cases l with
        | nil => simp
        | cons y ys => simpa [List.getLast?_cons_cons] using getLast?_getD_cons y ys _ _
      · rw [h]; simp

/-- what `Close` reports is above everything reported before and equals the bytes read -/
theorem closeR_spec (evs : List REvent) (x : Int) (h : closeR (finalR ⟨0, 0⟩ evs) = some x) :
    x = bytesR evs ∧ ∀ y ∈ runR ⟨0, 0⟩ evs, y < x := by
  obtain ⟨h1, h2⟩ := finalR_spec ⟨0, 0⟩ evs
  simp only [closeR] at h
  split at h
  · rename_i hlt
    simp only [Option.some.injEq] at h
    subst h
    refine ⟨by rw [h1]; simp, fun y hy => ?_⟩
    have hinc := runR_increasing ⟨0, 0⟩ evs (by simp)
    -- y ≤ last emitted = lastRead < read
    cases hg : (runR ⟨0, 0⟩ evs).getLast? with
    | none => rw [List.getLast?_eq_none_iff] at hg; rw [hg] at hy; cases hy
    | some z =>
      rw [hg] at h2
      simp only [Option.getD_some] at h2
      have hyz : y ≤ z := by
        obtain ⟨l, hl⟩ : ∃ l, runR ⟨0, 0⟩ evs = l ++ [z] := List.getLast?_eq_some_iff.mp hg
        rw [hl] at hinc hy
        rw [List.pairwise_append] at hinc
        simp only [List.mem_append, List.mem_singleton] at hy
        rcases hy with hy | rfl
        · exact Int.le_of_lt (hinc.2.2 y hy z (by simp))
        · exact Int.le_refl _
      omega
  · cases h

/-- **progress_monotone** (download, with `Close`). -/
theorem progress_monotone_download_closed (evs : List REvent) :
    (runRC ⟨0, 0⟩ evs).Pairwise (· < ·) ∧ ∀ x ∈ runRC ⟨0, 0⟩ evs, 0 < x ∧ x ≤ bytesR evs := by
  have hinc := runR_increasing ⟨0, 0⟩ evs (by simp)
  have hb := runR_bounds ⟨0, 0⟩ evs (by simp)
  unfold runRC
  cases hc : closeR (finalR ⟨0, 0⟩ evs) with
  | none =>
    simp only [Option.toList_none, List.append_nil]
    exact ⟨hinc, fun x hx => by simpa using hb x hx⟩
  | some z =>
    obtain ⟨hz, hlt⟩ := closeR_spec evs z hc
    simp only [Option.toList_some]
    refine ⟨?_, fun x hx => ?_⟩
    · rw [List.pairwise_append]
      exact ⟨hinc, by simp, fun a ha b hb' => by simp at hb'; subst hb'; exact hlt a ha⟩
    · simp only [List.mem_append, List.mem_singleton] at hx
      rcases hx with hx | rfl
      · simpa using hb x hx
      · have : (finalR ⟨0, 0⟩ evs).lastRead < (finalR ⟨0, 0⟩ evs).read := by
          simp only [closeR] at hc; split at hc <;> simp_all
        obtain ⟨h1, h2⟩ := finalR_spec ⟨0, 0⟩ evs
        refine ⟨?_, by omega⟩
        have : 0 ≤ (finalR ⟨0, 0⟩ evs).lastRead := by
          rw [h2]
          cases hg : (runR ⟨0, 0⟩ evs).getLast? with
          | none => simp
          | some y =>
            have := (hb y (List.mem_of_getLast? hg)).1
            simp at this ⊢; omega
        rw [hz]; simp at h1; omega

/-- **progress_final** (download, with `Close`, fixes/C17-9) — for EVERY sequence of reads —
`io.EOF` seen or not (a decoder that stops at the end of its stream, a caller that stops early),
every clock — once the body is closed the last reported count is the number of bytes read. -/
theorem progress_final_download_closed (evs : List REvent) (hpos : 0 < bytesR evs) :
    (runRC ⟨0, 0⟩ evs).getLast? = some (bytesR evs) := by
  obtain ⟨h1, h2⟩ := finalR_spec ⟨0, 0⟩ evs
  unfold runRC
  cases hc : closeR (finalR ⟨0, 0⟩ evs) with
  | some z =>
    obtain ⟨hz, -⟩ := closeR_spec evs z hc
    simp [hz]
  | none =>
    simp only [Option.toList_none, List.append_nil]
    have hle : (finalR ⟨0, 0⟩ evs).read ≤ (finalR ⟨0, 0⟩ evs).lastRead := by
      simp only [closeR] at hc; split at hc
      · cases hc
      · omega
    cases hg : (runR ⟨0, 0⟩ evs).getLast? with
    | none => rw [hg] at h2; simp at h1 h2; omega
    | some y =>
      rw [hg] at h2
      have hy := (runR_bounds ⟨0, 0⟩ evs (by simp) y (List.mem_of_getLast? hg)).2
      simp at h1 h2 hy
      congr 1; omega

/-- the situation of a deflate response: the last bytes arrive without `io.EOF`, the clock never
elapses, nobody reads again — without `Close` nothing was ever reported -/
example : runR ⟨0, 0⟩ [⟨4096, false, false⟩, ⟨1000, false, false⟩] = [] ∧
    runRC ⟨0, 0⟩ [⟨4096, false, false⟩, ⟨1000, false, false⟩] = [5096] := by decide

/-! ### several files -/

theorem filter_other (id : Nat) (g : FileRun) (hne : g.id ≠ id) :
    ((runW ⟨0, g.total⟩ g.evs).map fun x => (g.id, x)).filter (fun p => p.1 == id) = [] := by
  rw [List.filter_eq_nil_iff]
  intro p hp
  simp only [List.mem_map] at hp
  obtain ⟨x, -, rfl⟩ := hp
  simpa using hne

theorem filter_self (g : FileRun) :
    ((runW ⟨0, g.total⟩ g.evs).map fun x => (g.id, x)).filter (fun p => p.1 == g.id)
      = (runW ⟨0, g.total⟩ g.evs).map fun x => (g.id, x) := by
  rw [List.filter_eq_self]
  intro p hp
  simp only [List.mem_map] at hp
  obtain ⟨x, -, rfl⟩ := hp
  simp

/-- **which file** — with distinct files, the reports that name file `f` are exactly that file's
own run, starting from 0: counts are per file, not cumulative over the request. -/
theorem upload_reports_per_file (files : List FileRun) (hnd : (files.map (·.id)).Nodup)
    (f : FileRun) (hf : f ∈ files) :
    ((runFiles files).filter fun p => p.1 == f.id).map (·.2) = runW ⟨0, f.total⟩ f.evs := by
  induction files with
  | nil => cases hf
  | cons g gs ih =>
    simp only [List.map_cons, List.nodup_cons] at hnd
    simp only [runFiles, List.flatMap_cons, List.filter_append]
    rcases List.mem_cons.mp hf with rfl | hf'
    · rw [filter_self]
      have : (gs.flatMap fun f' => (runW ⟨0, f'.total⟩ f'.evs).map fun x => (f'.id, x)).filter
          (fun p => p.1 == f.id) = [] := by
        rw [List.filter_eq_nil_iff]
        intro p hp
        simp only [List.mem_flatMap, List.mem_map] at hp
        obtain ⟨g', hg', x, -, rfl⟩ := hp
        have : g'.id ≠ f.id := fun he => hnd.1 (he ▸ List.mem_map_of_mem hg')
        simpa using this
      rw [this]
      simp [List.map_map, Function.comp_def]
    · have hne : g.id ≠ f.id := fun he => hnd.1 (he ▸ List.mem_map_of_mem hf')
      rw [filter_other f.id g hne]
      simpa [runFiles] using ih hnd.2 hf'

/-- per file: strictly increasing, never above that file's bytes, and — size known — ending at
it; whatever the other files did -/
theorem upload_per_file_truthful (files : List FileRun) (hnd : (files.map (·.id)).Nodup)
    (f : FileRun) (hf : f ∈ files) :
    let mine := ((runFiles files).filter fun p => p.1 == f.id).map (·.2)
    mine.Pairwise (· < ·) ∧ (∀ x ∈ mine, 0 < x ∧ x ≤ bytesW f.evs) ∧
    (f.total = bytesW f.evs → 0 < f.total → mine.getLast? = some f.total) := by
  simp only [upload_reports_per_file files hnd f hf]
  have hs := runW_sublist ⟨0, f.total⟩ f.evs
  refine ⟨(countsW_increasing 0 _).sublist hs, fun x hx => ?_, fun hk hp => ?_⟩
  · simpa using countsW_bounds 0 f.evs x (hs.subset hx)
  · exact runW_final ⟨0, f.total⟩ f.evs (by simp [hk]) (by omega)

/-- the files report in the order they are written: all reports of an earlier file come before
all reports of a later one -/
theorem upload_files_in_order (files : List FileRun) (hsorted : (files.map (·.id)).Pairwise (· < ·)) :
    ((runFiles files).map (·.1)).Pairwise (· ≤ ·) := by
  induction files with
  | nil => simp [runFiles]
  | cons g gs ih =>
    simp only [List.map_cons, List.pairwise_cons] at hsorted
    simp only [runFiles, List.flatMap_cons, List.map_append, List.pairwise_append]
    refine ⟨?_, by simpa [runFiles] using ih hsorted.2, ?_⟩
    · simp only [List.map_map, Function.comp_def]
      exact List.pairwise_map.mpr (List.Pairwise.imp (fun _ => Nat.le_refl _) (List.pairwise_of_forall (fun _ _ => trivial)))
    · intro a ha b hb
      simp only [List.map_map, Function.comp_def, List.mem_map] at ha
      obtain ⟨x, -, rfl⟩ := ha
      simp only [List.mem_map, List.mem_flatMap] at hb
      obtain ⟨p, ⟨g', hg', y, -, rfl⟩, rfl⟩ := hb
      exact Nat.le_of_lt (hsorted.1 g'.id (List.mem_map_of_mem hg'))

/-! ### several attempts (retry, redirect re-send, authentication re-send) -/

/-- **counts restart** — what an attempt reports is a function of that attempt alone: the output
of a sequence of attempts is the concatenation of the attempts' own outputs, each starting every
file from 0 again; so in EVERY attempt every file's reports are per-file truthful. -/
theorem resend_counts_restart (before after : List (List FileRun)) (a : List FileRun)
    (hnd : (a.map (·.id)).Nodup) :
    runAttempts (before ++ a :: after) = runAttempts before ++ runFiles a ++ runAttempts after ∧
    ∀ f ∈ a,
      let mine := ((runFiles a).filter fun p => p.1 == f.id).map (·.2)
      mine.Pairwise (· < ·) ∧ (∀ x ∈ mine, 0 < x ∧ x ≤ bytesW f.evs) ∧
      (f.total = bytesW f.evs → 0 < f.total → mine.getLast? = some f.total) := by
  refine ⟨by simp [runAttempts], fun f hf => upload_per_file_truthful a hnd f hf⟩

/-- two files, re-sent once: the second attempt starts both files from 0 again -/
example : runAttempts [[⟨0, 700, [⟨512, true⟩, ⟨188, false⟩]⟩, ⟨1, 0, [⟨300, true⟩]⟩],
                       [⟨0, 700, [⟨512, false⟩, ⟨188, false⟩]⟩, ⟨1, 0, [⟨300, false⟩]⟩]]
    = [(0, 512), (0, 700), (1, 300), (0, 700)] := by decide

/-! ### downloads through redirects, challenges, retries -/

theorem runBodies_hops (hops : List (List REvent)) (rest : List BodyRun) :
    runBodies (hops.map (fun h => ⟨h, false⟩) ++ rest) = runBodies rest := by
  induction hops with
  | nil => rfl
  | cons h hs ih => simpa [runBodies] using ih

/-- **download_counts_only_final_body** — whatever exchanges precede the response the caller
gets — any number of redirect hops with bodies of any size, read in any way (larger than the file,
read partly, closed early) — the download callback receives exactly the reports of the FINAL
body alone: strictly increasing, each at most the final body's size, and (once closed) ending at
it.  Nothing of a hop's body is ever counted. -/
theorem download_counts_only_final_body (hops : List (List REvent)) (final : List REvent) :
    runBodies (roundTrip hops final) = runRC ⟨0, 0⟩ final ∧
    (runBodies (roundTrip hops final)).Pairwise (· < ·) ∧
    (∀ x ∈ runBodies (roundTrip hops final), 0 < x ∧ x ≤ bytesR final) ∧
    (0 < bytesR final → (runBodies (roundTrip hops final)).getLast? = some (bytesR final)) := by
  have h : runBodies (roundTrip hops final) = runRC ⟨0, 0⟩ final := by
    unfold roundTrip
    rw [runBodies_hops]
    simp [runBodies]
  rw [h]
  exact ⟨rfl, (progress_monotone_download_closed final).1, (progress_monotone_download_closed final).2,
    progress_final_download_closed final⟩

/-- retries: the reports are the concatenation of the attempts' own final bodies — every attempt
starts from 0 again and is truthful for the response IT ended with. -/
theorem download_attempts_restart (before after : List (List (List REvent) × List REvent))
    (hops : List (List REvent)) (final : List REvent) :
    runDownloadAttempts (before ++ (hops, final) :: after) =
      runDownloadAttempts before ++ runRC ⟨0, 0⟩ final ++ runDownloadAttempts after := by
  simp [runDownloadAttempts, (download_counts_only_final_body hops final).1]

/-- the seeded behaviour (one counter for all the bodies of the round trip): a 100-byte file behind
a redirect with a 37-byte body ends at 137 — above the file's size; the model reports 100 -/
example : runSharedCounter [[⟨37, true, false⟩], [⟨100, true, false⟩]] = [37, 137] ∧
    runBodies (roundTrip [[⟨37, true, false⟩]] [⟨100, true, false⟩]) = [100] := by decide

/-- the behaviour before fixes/C17-11 (fresh reader per body, but every body reported): a hop body
larger than the file is reported first — `[2048, 100]` -/
example : runBodies [⟨[⟨2048, false, false⟩], true⟩, ⟨[⟨100, true, false⟩], true⟩] = [2048, 100] := by decide

end Req.Props.C17Progress
