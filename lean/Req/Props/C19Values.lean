import Req.Client.ValuesHeap
import Req.Lemmas.C19Values
/-!
# C19 (round 5) — cloned maps of slices: capacity

* `stepH_refines`, `values_heap_refines` — under the separation invariant `Sep` (the CAPACITY ranges of
  the slices of different keys are apart) every sequence of `add` (append in place while it fits, else
  move — for EVERY growth policy), `set`, `del` on the heap denotes exactly the multimap operations of
  the value model, and `Sep` is kept. Keys of several maps (original and clone) live in one `MapS`, so
  this is at once "adding to one key of the clone changes no other key of the clone" and "… no key
  of the original" (and the other way round).
* `sepB_sound` — the Boolean judge of lane `vals` implies `Sep`.
* `cloneUrlValues_caps` — a clone laid out in ONE backing array with every slice capped at its length
  (`sv[:n:n]`, what `http.Header.Clone` does) next to ANY separated original is separated, hence
  (with the above) behaves as a value; `perKey_sep` — so is one array per key (`cloneUrlValues` today).
* `uncapped_counterexample` — the same layout WITHOUT the cap (`sv[:n]`): adding a value to key 1 of
  the clone overwrites the value of key 2 of the clone (`decide`); the judge rejects the layout.
-/
namespace Req.Props.C19Values
open Req.Scope Req.ValuesHeap

theorem stepH_refines (grow : Nat → Nat → Nat) (st : Store) (m : MapS) (op : VOp) (hs : Sep st m) :
    Sep (stepH grow (st, m) op).1 (stepH grow (st, m) op).2 ∧
    absMap (stepH grow (st, m) op).1 (stepH grow (st, m) op).2 = stepA (absMap st m) op := by
  cases op with
  | add k vs =>
    simp only [stepH, stepA, AMap.addMany]
    rw [get_absMap]
    cases hl : lookup m k with
    | some s =>
      have hmem := lookup_mem m k s hl
      simp only []
      by_cases hfit : s.len + vs.length ≤ s.cap
      · simp only [hfit, if_true]
        have hap : ∀ e ∈ m, e.1 ≠ k → Apart e.2 { s with len := s.len + vs.length } := by
          intro e he hk
          have := hs.apart e he (k, s) hmem hk
          exact this
        have hread : ∀ e ∈ m, e.1 ≠ k →
            readSl (writeAt st s.arr (s.off + s.len) vs) e.2 = readSl st e.2 := by
          intro e he hk
          exact readSl_writeAt_apart st s e.2 vs hfit (hs.fits e he)
            (apart_symm _ _ (hs.apart e he (k, s) hmem hk))
        refine ⟨sep_put st _ m k _ hs (Nat.le_refl _) (hs.fresh _ hmem) hfit hap, ?_⟩
        rw [absMap_put st _ m k _ hread, readSl_writeAt_self]
      · simp only [hfit, if_false]
        have hread : ∀ e ∈ m, e.1 ≠ k → readSl (alloc st (readSl st s ++ vs)) e.2 = readSl st e.2 :=
          fun e he _ => readSl_alloc st _ e.2 (hs.fresh e he)
        refine ⟨sep_put st _ m k _ hs (Nat.le_succ _) (Nat.lt_succ_self _) (Nat.le_max_right _ _) ?_, ?_⟩
        · intro e he _
          exact Or.inl (Nat.ne_of_lt (hs.fresh e he))
        · rw [absMap_put st _ m k _ hread, readSl_alloc_new]
    | none =>
      simp only []
      have hread : ∀ e ∈ m, e.1 ≠ k → readSl (alloc st vs) e.2 = readSl st e.2 :=
        fun e he _ => readSl_alloc st _ e.2 (hs.fresh e he)
      refine ⟨sep_put st _ m k _ hs (Nat.le_succ _) (Nat.lt_succ_self _) (Nat.le_max_right _ _) ?_, ?_⟩
      · intro e he _
        exact Or.inl (Nat.ne_of_lt (hs.fresh e he))
      · rw [absMap_put st _ m k _ hread, readSl_alloc_new]; simp
  | set k vs =>
    simp only [stepH, stepA]
    have hread : ∀ e ∈ m, e.1 ≠ k → readSl (alloc st vs) e.2 = readSl st e.2 :=
      fun e he _ => readSl_alloc st _ e.2 (hs.fresh e he)
    refine ⟨sep_put st _ m k _ hs (Nat.le_succ _) (Nat.lt_succ_self _) (Nat.le_refl _) ?_, ?_⟩
    · intro e he _
      exact Or.inl (Nat.ne_of_lt (hs.fresh e he))
    · rw [absMap_put st _ m k _ hread, readSl_alloc_new]
  | del k =>
    simp only [stepH, stepA]
    refine ⟨⟨?_, ?_, ?_⟩, absMap_filter st m k⟩
    · intro e he; exact hs.fresh e (List.mem_filter.mp he).1
    · intro e he; exact hs.fits e (List.mem_filter.mp he).1
    · intro e1 h1 e2 h2; exact hs.apart e1 (List.mem_filter.mp h1).1 e2 (List.mem_filter.mp h2).1

/-- **Maps of slices behave as values while their capacities are apart** — every op sequence, every
growth policy. -/
theorem values_heap_refines (grow : Nat → Nat → Nat) : ∀ (ops : List VOp) (st : Store) (m : MapS), Sep st m →
    Sep (runH grow (st, m) ops).1 (runH grow (st, m) ops).2 ∧
    absMap (runH grow (st, m) ops).1 (runH grow (st, m) ops).2 = runA (absMap st m) ops := by
  intro ops
  induction ops with
  | nil => intro st m hs; exact ⟨hs, rfl⟩
  | cons op ops ih =>
    intro st m hs
    obtain ⟨h1, h2⟩ := stepH_refines grow st m op hs
    have := ih (stepH grow (st, m) op).1 (stepH grow (st, m) op).2 h1
    simp only [runH, runA, List.foldl_cons] at this ⊢
    rw [← h2]
    exact this

theorem sepB_sound (st : Store) (m : MapS) (h : sepB st.next m = true) : Sep st m := by
  unfold sepB at h
  rw [Bool.and_eq_true, List.all_eq_true, List.all_eq_true] at h
  constructor
  · intro e he
    have := h.1 e he
    simp only [Bool.and_eq_true, decide_eq_true_eq] at this
    exact this.1
  · intro e he
    have := h.1 e he
    simp only [Bool.and_eq_true, decide_eq_true_eq] at this
    exact this.2
  · intro e1 h1 e2 h2 hne
    have := h.2 e1 h1
    rw [List.all_eq_true] at this
    have := this e2 h2
    simp only [Bool.or_eq_true, beq_iff_eq, decide_eq_true_eq] at this
    rcases this with h | h
    · exact absurd h hne
    · exact h

/-- shape of the capped flat layout: every slice in array `a`, at or after `off`, capacity = length -/
theorem flat_capped_shape (a total : Nat) : ∀ (m : AMap) (off : Nat) (e : Nat × Sl),
    e ∈ flat true a off total m → e.2.arr = a ∧ off ≤ e.2.off ∧ e.2.cap = e.2.len := by
  intro m
  induction m with
  | nil => intro off e he; simp [flat] at he
  | cons x m ih =>
    intro off e he
    obtain ⟨k, vs⟩ := x
    simp only [flat, List.mem_cons] at he
    rcases he with rfl | he
    · simp
    · have := ih (off + vs.length) e he
      exact ⟨this.1, by omega, this.2.2⟩

theorem flat_capped_apart (a total : Nat) : ∀ (m : AMap) (off : Nat) (e1 e2 : Nat × Sl),
    e1 ∈ flat true a off total m → e2 ∈ flat true a off total m → e1.1 ≠ e2.1 → Apart e1.2 e2.2 := by
  intro m
  induction m with
  | nil => intro off e1 e2 h1; simp [flat] at h1
  | cons x m ih =>
    intro off e1 e2 h1 h2 hne
    obtain ⟨k, vs⟩ := x
    simp only [flat, List.mem_cons] at h1 h2
    rcases h1 with rfl | h1
    · rcases h2 with rfl | h2
      · exact absurd rfl hne
      · have := flat_capped_shape a total m (off + vs.length) e2 h2
        right; left
        show off + vs.length ≤ e2.2.off
        exact this.2.1
    · rcases h2 with rfl | h2
      · have := flat_capped_shape a total m (off + vs.length) e1 h1
        right; right
        show off + vs.length ≤ e1.2.off
        exact this.2.1
      · exact ih (off + vs.length) e1 e2 h1 h2 hne

/-- **A flat clone with capped slices is separated** — from itself and from ANY separated original:
`orig` are the slices that existed (the original's keys), the clone's array is the new one. -/
theorem cloneUrlValues_caps (st : Store) (orig : MapS) (hs : Sep st orig) (vals : AMap) :
    Sep (flatStore st vals) (orig ++ flat true st.next 0 (totalLen vals) vals) := by
  constructor
  · intro e he
    rw [List.mem_append] at he
    rcases he with he | he
    · exact Nat.lt_succ_of_lt (hs.fresh e he)
    · rw [(flat_capped_shape _ _ vals 0 e he).1]; exact Nat.lt_succ_self _
  · intro e he
    rw [List.mem_append] at he
    rcases he with he | he
    · exact hs.fits e he
    · rw [(flat_capped_shape _ _ vals 0 e he).2.2]; exact Nat.le_refl _
  · intro e1 h1 e2 h2 hne
    rw [List.mem_append] at h1 h2
    rcases h1 with h1 | h1
    · rcases h2 with h2 | h2
      · exact hs.apart e1 h1 e2 h2 hne
      · left; rw [(flat_capped_shape _ _ vals 0 e2 h2).1]; exact Nat.ne_of_lt (hs.fresh e1 h1)
    · rcases h2 with h2 | h2
      · left; rw [(flat_capped_shape _ _ vals 0 e1 h1).1]; exact Nat.ne_of_gt (hs.fresh e2 h2)
      · exact flat_capped_apart _ _ vals 0 e1 e2 h1 h2 hne

/-- … hence every later sequence of adds / sets / deletes on either map acts on values. -/
theorem capped_clone_behaves_as_value (grow : Nat → Nat → Nat) (st : Store) (orig : MapS) (hs : Sep st orig)
    (vals : AMap) (ops : List VOp) :
    let x := runH grow (flatStore st vals, orig ++ flat true st.next 0 (totalLen vals) vals) ops
    absMap x.1 x.2 = runA (absMap (flatStore st vals) (orig ++ flat true st.next 0 (totalLen vals) vals)) ops :=
  (values_heap_refines grow ops _ _ (cloneUrlValues_caps st orig hs vals)).2

/-! ## Non-vacuity and the counterexample -/

def st0 : Store := ⟨fun _ _ => 0, 0⟩
def vals0 : AMap := [(1, [10]), (2, [20]), (3, [30, 31])]

/-- the capped flat clone reads the values it was made from -/
example : absMap (flatStore st0 vals0) (flat true 0 0 (totalLen vals0) vals0) = vals0 := by decide

example : sepB 1 (flat true 0 0 (totalLen vals0) vals0) = true := by decide

/-- capped: add to key 1, key 2 keeps its value -/
example : let x := runH (fun _ n => 2 * n) (flatStore st0 vals0, flat true 0 0 (totalLen vals0) vals0) [.add 1 [11]]
    (absMap x.1 x.2).get 1 = [10, 11] ∧ (absMap x.1 x.2).get 2 = [20] := by decide

/-- **Without the cap** (`sv[:n]`): the judge rejects the layout, and adding a value to key 1 of the
clone overwrites the value of key 2. -/
theorem uncapped_counterexample :
    sepB 1 (flat false 0 0 (totalLen vals0) vals0) = false ∧
    (let x := runH (fun _ n => 2 * n) (flatStore st0 vals0, flat false 0 0 (totalLen vals0) vals0) [.add 1 [11]]
     (absMap x.1 x.2).get 1 = [10, 11] ∧ (absMap x.1 x.2).get 2 = [11]) ∧
    (runA vals0 [.add 1 [11]]).get 2 = [20] := by decide

end Req.Props.C19Values
