import Req.Client.DumpSetters
import Req.Client.DumpStop
import Req.Client.DumpPartial
import Req.Lemmas.C13Sites
/-!
C13, round 5: call-ORDER of the request-level dump setters.
-/
namespace Req.Props.C13R5
open Req.Client.Dump Req.Client.DumpSetters

/-- the invariant that ties the pointer model to the value semantics -/
def Inv (s : RSt) (v : VSt) : Prop :=
  match s.cur with
  | none => v = {} ∧ s.dumper = none
  | some i => (∃ o, s.heap i = some o ∧ v.opts = some o) ∧ s.dumper = (if v.enabled then some i else none)

theorem inv_step (buf : Writer) (s : RSt) (v : VSt) (op : ROp) (h : Inv s v) :
    Inv (step buf false s op) (vstep buf v op) := by
  unfold Inv at h
  cases op with
  | preset p =>
    cases hc : s.cur with
    | none =>
      rw [hc] at h
      obtain ⟨hv, _⟩ := h
      subst hv
      simp [Inv, step, getOpts, hc, RSt.alloc, RSt.store, vstep]
    | some i =>
      rw [hc] at h
      obtain ⟨⟨o, ho, hv⟩, _⟩ := h
      simp [Inv, step, getOpts, hc, RSt.store, vstep, ho, hv]
  | set o =>
    cases hc : s.cur with
    | none =>
      rw [hc] at h
      obtain ⟨hv, hd⟩ := h
      subst hv
      simp [Inv, step, hc, RSt.alloc, vstep, hd]
    | some i =>
      rw [hc] at h
      obtain ⟨⟨o', ho, hv⟩, hd⟩ := h
      cases hen : v.enabled <;> simp [Inv, step, hc, RSt.store, vstep, hd, hen]

theorem inv_run (buf : Writer) (ops : List ROp) (s : RSt) (v : VSt) (h : Inv s v) :
    Inv (ops.foldl (step buf false) s) (ops.foldl (vstep buf) v) := by
  induction ops generalizing s v with
  | nil => exact h
  | cons op rest ih => exact ih _ _ (inv_step buf s v op h)

/-- **Setter order, request level.** For EVERY sequence of request-level calls (`EnableDump`,
`EnableDumpTo`, `EnableDumpWithout…`, `SetDumpOptions`, in any order, any number of times) the
options the transport reads through the request-level dumper at send time are exactly the options
the calls produce when read as plain value updates in program order, and a dumper exists iff an
`EnableDump…` was called: a dumper made EARLY still follows every later setter. -/
theorem request_setters_follow_final (buf : Writer) (ops : List ROp) :
    (run buf false ops).effective = (vrun buf ops).effective := by
  have h := inv_run buf ops {} {} (by simp [Inv])
  unfold run vrun
  generalize ops.foldl (step buf false) {} = s at h
  generalize ops.foldl (vstep buf) {} = v at h
  unfold Inv at h
  cases hc : s.cur with
  | none =>
    rw [hc] at h
    obtain ⟨hv, hd⟩ := h
    subst hv
    simp [RSt.effective, VSt.effective, hd]
  | some i =>
    rw [hc] at h
    obtain ⟨⟨o, ho, hv⟩, hd⟩ := h
    cases he : v.enabled <;> simp [RSt.effective, VSt.effective, hd, he, ho, hv]

/-- non-vacuity: `EnableDump(); SetDumpOptions({only response body, writer 7})` -/
example : (run 30 false [.preset .all, .set { output := some 7, responseBody := true }]).effective
    = some { output := some 7, responseBody := true } := by decide

theorem vrun_append (buf : Writer) (a b : List ROp) :
    vrun buf (a ++ b) = b.foldl (vstep buf) (vrun buf a) := by
  simp [vrun, List.foldl_append]

theorem vrun_enabled (buf : Writer) (ops : List ROp) (v : VSt) :
    (ops.foldl (vstep buf) v).enabled = (v.enabled || ops.any ROp.enables) := by
  induction ops generalizing v with
  | nil => simp
  | cons op rest ih =>
    rw [List.foldl_cons, ih]
    cases op <;> simp [vstep, ROp.enables]

/-- **`SetDumpOptions` as the LAST call wins, whatever came before**: the dumper follows exactly
the options given (nil Output → the request's buffer) if dump was switched on anywhere before, and
there is no dumper otherwise. -/
theorem set_last_wins (buf : Writer) (ops : List ROp) (o : Opts) :
    (run buf false (ops ++ [.set o])).effective =
      if ops.any ROp.enables then some (fill buf o) else none := by
  rw [request_setters_follow_final, vrun_append]
  have he : (vrun buf ops).enabled = ops.any ROp.enables := by
    simpa [vrun] using vrun_enabled buf ops {}
  simp [vstep, VSt.effective, he]

/-- **Call order of `SetDumpOptions` and `EnableDump` does not matter**: after any prefix,
`SetDumpOptions(o).EnableDump()` and `EnableDump().SetDumpOptions(o)` leave the same dumper. -/
theorem enable_set_commute (buf : Writer) (ops : List ROp) (o : Opts) :
    (run buf false (ops ++ [.set o, .preset .all])).effective =
    (run buf false (ops ++ [.preset .all, .set o])).effective := by
  rw [request_setters_follow_final, request_setters_follow_final, vrun_append, vrun_append]
  cases o
  simp [vstep, VSt.effective, Preset.apply, Preset.off]

example : (run 30 false [.set { output := some 7, requestHeader := true }, .preset .all]).effective
    = (run 30 false [.preset .all, .set { output := some 7, requestHeader := true }]).effective := by decide

/-- The variant that re-points `r.dumpOptions` at the caller's struct (seed C13-r5-3 as a class)
is NOT order-independent: the dumper made by an earlier `EnableDump` keeps the old struct. -/
theorem replace_breaks_setter_order :
    (run 30 true [.preset .all, .set { output := some 7, responseBody := true }]).effective
      ≠ (vrun 30 [.preset .all, .set { output := some 7, responseBody := true }]).effective := by
  decide

/-! ### the asynchronous queue with `Stop` -/

open Req.Client.DumpStop

/-- the invariant of channel + `Start` loop -/
def QInv (prog : List Item) (q : Q) : Prop :=
  if q.running then q.written ++ upToStop (q.queue ++ q.todo) = upToStop prog
  else q.written = upToStop prog

theorem qinv_step (cap : Nat) (prog : List Item) (q q' : Q) (st : Step)
    (h : QInv prog q) (hs : q.step cap st = some q') : QInv prog q' := by
  unfold QInv at h ⊢
  cases st with
  | send =>
    simp only [Q.step] at hs
    split at hs
    · cases hs
    · rename_i x rest htodo
      split at hs
      · cases hs
        simp only [htodo] at h
        simpa [List.append_assoc] using h
      · cases hs
  | recv =>
    simp only [Q.step] at hs
    split at hs
    · rename_i hr
      simp only [hr, if_true] at h
      split at hs
      · cases hs
      · rename_i e rest hq
        cases hs
        simp only [hr, if_true]
        rw [hq] at h
        simpa [upToStop, List.append_assoc] using h
      · rename_i rest hq
        cases hs
        rw [hq] at h
        simpa [upToStop] using h
    · cases hs

theorem qinv_run (cap : Nat) (prog : List Item) (sched : List Step) (q : Q) (h : QInv prog q) :
    QInv prog (q.run cap sched) := by
  induction sched generalizing q with
  | nil => exact h
  | cons st rest ih =>
    simp only [Q.run]
    cases hs : q.step cap st with
    | none => exact ih q h
    | some q' => exact ih q' (qinv_step cap prog q q' st h hs)

/-- **`Stop` flushes.** For every program of `DumpTo` / `Stop` calls, every queue capacity and
EVERY schedule (any speed of the writer, any moment at which the sentinel is queued behind data):
once the `Start` loop has returned, everything that was enqueued before `Stop` has been written —
exactly once, in order (the written list IS the list of tasks in front of the sentinel); and while
it runs, what is written plus what is still to come in front of the sentinel is that list
(nothing lost, nothing duplicated, nothing reordered at any moment). -/
theorem async_stop_flushes (cap : Nat) (prog : List Item) (sched : List Step) :
    let q := (Q.run cap { todo := prog } sched)
    (q.running = false → q.written = upToStop prog) ∧
    (q.running = true → q.written ++ upToStop (q.queue ++ q.todo) = upToStop prog) := by
  have h := qinv_run cap prog sched { todo := prog } (by simp [QInv])
  unfold QInv at h
  intro q
  constructor
  · intro hr
    simpa [q, hr] using h
  · intro hr
    simpa [q, hr] using h

/-- non-vacuity: three chunks then `Stop`, all sent before the slow writer takes anything; the
loop returns having written all three. -/
example :
    let q := Q.run 20 { todo := [.task ⟨1, [65]⟩, .task ⟨1, [66]⟩, .task ⟨2, [67]⟩, .stop] }
      [.send, .send, .send, .send, .recv, .recv, .recv, .recv]
    q.running = false ∧ q.written = [⟨1, [65]⟩, ⟨1, [66]⟩, ⟨2, [67]⟩] := by decide

/-- The gathering drain loop that returns on the sentinel WITHOUT writing what it holds (the class
of seed C13-r5-1) loses data: same program, queue filled behind a slow writer. -/
theorem gather_without_flush_loses :
    (QB.drain false 10 { queue := [.task ⟨1, [65]⟩, .task ⟨1, [66]⟩, .task ⟨2, [67]⟩, .stop] }).written
      ≠ [⟨1, [65, 66]⟩, ⟨2, [67]⟩] ∧
    (QB.drain true 10 { queue := [.task ⟨1, [65]⟩, .task ⟨1, [66]⟩, .task ⟨2, [67]⟩, .stop] }).written
      = [⟨1, [65, 66]⟩, ⟨2, [67]⟩] := by decide

/-! ### life cycle with data in flight -/

theorem noStop_snoc_task (l : List Item) (e : Event) : noStop (l ++ [.task e]) = noStop l := by
  induction l with
  | nil => rfl
  | cons x rest ih => cases x <;> simp [noStop, ih]

theorem upToStop_noStop (p tl : List Item) (h : noStop p = true) :
    upToStop (p ++ .stop :: tl) = tasksOf p := by
  induction p with
  | nil => simp [upToStop, tasksOf]
  | cons x rest ih =>
    cases x with
    | stop => simp [noStop] at h
    | task e => simp [upToStop, tasksOf, ih (by simpa [noStop] using h)]

theorem tasksOf_snoc_stop (p : List Item) : tasksOf (p ++ [.stop]) = tasksOf p := by
  induction p with
  | nil => rfl
  | cons x rest ih => cases x <;> simp [tasksOf, ih]

/-- `DisableDumpAll` never leaves anything behind the sentinel: in every dumper generation's
channel program, after ANY sequence of client operations, a sentinel — if there is one — is the
last item, and a generation that is still live has none. -/
def CInv (s : CSt) : Prop :=
  (∀ g, noStop (s.progs g) = true ∨
        (s.live ≠ some g ∧ ∃ p, s.progs g = p ++ [.stop] ∧ noStop p = true)) ∧
  (∀ g, s.live = some g → noStop (s.progs g) = true ∧ g < s.count) ∧
  (∀ g, s.count ≤ g → s.progs g = [])

theorem cinv_fresh (s : CSt) (h : CInv s) : CInv s.fresh := by
  obtain ⟨h1, h2, h3⟩ := h
  refine ⟨?_, ?_, ?_⟩
  · intro g
    by_cases hg : g = s.count
    · left; simp [CSt.fresh, hg, noStop]
    · rcases h1 g with hl | ⟨_, p, hp, hpa⟩
      · left; simpa [CSt.fresh, hg] using hl
      · right
        refine ⟨?_, p, ?_, hpa⟩
        · simp only [CSt.fresh]; intro hc; cases hc; exact hg rfl
        · simpa [CSt.fresh, hg] using hp
  · intro g hg
    simp only [CSt.fresh] at hg
    cases hg
    simp [CSt.fresh, noStop]
  · intro g hg
    simp only [CSt.fresh] at hg ⊢
    have : g ≠ s.count := by omega
    simp only [this, if_false]
    exact h3 g (by omega)

theorem cinv_step (s : CSt) (op : COp) (h : CInv s) : CInv (cstep s op) := by
  cases op with
  | hold => exact h
  | release => exact h
  | setOpts o => exact h
  | clone =>
    simp only [cstep]
    split
    · exact h
    · exact cinv_fresh s h
  | enable =>
    simp only [cstep]
    split
    · exact h
    · exact cinv_fresh { s with opts := _ } h
  | dump p data =>
    simp only [cstep]
    split
    · exact h
    · rename_i g hl
      split
      · exact h
      · obtain ⟨h1, h2, h3⟩ := h
        have hg := h2 g hl
        refine ⟨?_, ?_, ?_⟩
        · intro j
          by_cases hj : j = g
          · left; subst hj; simp only [CSt.send, if_true]; rw [noStop_snoc_task]; exact hg.1
          · rcases h1 j with hl' | ⟨hne, p', hp, hpa⟩
            · left; simpa [CSt.send, hj] using hl'
            · right; exact ⟨by simpa [CSt.send] using hne, p', by simpa [CSt.send, hj] using hp, hpa⟩
        · intro j hj
          simp only [CSt.send] at hj
          rw [hl] at hj; cases hj
          simp only [CSt.send, if_true]; rw [noStop_snoc_task]; exact hg
        · intro j hj
          simp only [CSt.send] at hj ⊢
          have : j ≠ g := by omega
          simp only [this, if_false]
          exact h3 j hj
  | disable =>
    simp only [cstep]
    split
    · exact h
    · rename_i g hl
      obtain ⟨h1, h2, h3⟩ := h
      have hg := h2 g hl
      refine ⟨?_, ?_, ?_⟩
      · intro j
        by_cases hj : j = g
        · right; subst hj
          exact ⟨by simp, s.progs j, by simp [CSt.send], hg.1⟩
        · rcases h1 j with hl' | ⟨_, p', hp, hpa⟩
          · left; simpa [CSt.send, hj] using hl'
          · right; exact ⟨by simp, p', by simpa [CSt.send, hj] using hp, hpa⟩
      · intro j hj
        simp at hj
      · intro j hj
        simp only [CSt.send] at hj ⊢
        have : j ≠ g := by omega
        simp only [this, if_false]
        exact h3 j hj

theorem cinv_run (ops : List COp) (s : CSt) (h : CInv s) : CInv (ops.foldl cstep s) := by
  induction ops generalizing s with
  | nil => exact h
  | cons op rest ih => exact ih _ (cinv_step s op h)

/-- **Life cycle under a slow writer.** After ANY sequence of client operations (dumps, enable,
disable, clone, new options, writer stalls) and for EVERY schedule of every dumper generation's
channel: once that generation's `Start` loop has returned it has written everything that was ever
handed to that dumper — all tasks of its channel program, once, in order: nothing is ever queued
behind a sentinel, so switching dump off (or cloning, or re-configuring) with data in flight loses
nothing. -/
theorem lifecycle_stop_flushes (ops : List COp) (g cap : Nat) (sched : List Step) :
    let q := Q.run cap { todo := (crun ops).progs g ++ [.stop] } sched
    q.running = false →
      q.written = expectedOf (crun ops) g ∧ q.written = tasksOf ((crun ops).progs g) := by
  intro q hr
  have hq : q.written = upToStop ((crun ops).progs g ++ [.stop]) :=
    (async_stop_flushes cap _ sched).1 hr
  have hinv : CInv (crun ops) := cinv_run ops {} (by
    refine ⟨fun g => Or.inl rfl, fun g hg => by simp at hg, fun g _ => rfl⟩)
  refine ⟨hq, ?_⟩
  rw [hq]
  rcases hinv.1 g with hall | ⟨_, p, hp, hpa⟩
  · exact upToStop_noStop _ [] hall
  · rw [hp, List.append_assoc]
    show upToStop (p ++ .stop :: [.stop]) = _
    rw [upToStop_noStop p _ hpa, tasksOf_snoc_stop]

/-- non-vacuity: options, enable, two chunks, disable with both still queued, enable again, one
more chunk: generation 0 must deliver two chunks, generation 1 one. -/
example :
    let s := crun [.setOpts { output := some 7, requestHeader := true }, .enable, .hold,
      .dump .reqHeader [1], .dump .reqBody [2], .disable, .enable, .dump .respBody [3], .release]
    expectedOf s 0 = [⟨7, [1]⟩, ⟨7, [2]⟩] ∧ expectedOf s 1 = [⟨7, [3]⟩] := by decide

/-! ### HTTP/2 request body, partial uploads -/

open Req.Proto Req.Client.DumpSites Req.Client.DumpPartial

theorem sendRead_spec (maxFrame : Nat) : ∀ (fuel : Nat) (remain : Bytes) (gs : List Nat) (k : Nat),
    sendRead maxFrame fuel remain gs k =
      if (cutRead maxFrame fuel remain gs).1.length ≤ k
      then ((cutRead maxFrame fuel remain gs).1,
            some ((cutRead maxFrame fuel remain gs).2, k - (cutRead maxFrame fuel remain gs).1.length))
      else ((cutRead maxFrame fuel remain gs).1.take k, none) := by
  intro fuel
  induction fuel with
  | zero => intro remain gs k; simp [sendRead, cutRead]
  | succ fuel ih =>
    intro remain gs k
    unfold sendRead cutRead
    by_cases he : remain.isEmpty
    · simp [he]
    · simp only [he, Bool.false_eq_true, ↓reduceIte]
      cases k with
      | zero => simp
      | succ k =>
        simp only [ih]
        simp only [List.length_cons, Nat.add_le_add_iff_right]
        split
        · simp
        · simp

theorem sendBody_frames (maxFrame : Nat) (pieces : List Bytes) : ∀ (gs : List Nat) (k : Nat),
    (sendBody maxFrame pieces gs k).frames = (dataFrames maxFrame pieces gs).take k ∧
    ((sendBody maxFrame pieces gs k).aborted = false →
      (sendBody maxFrame pieces gs k).frames = dataFrames maxFrame pieces gs) := by
  induction pieces with
  | nil => intro gs k; simp [sendBody, dataFrames]
  | cons p ps ih =>
    intro gs k
    unfold sendBody dataFrames
    rw [sendRead_spec]
    generalize cutRead maxFrame p.length p gs = c
    obtain ⟨fs, gs'⟩ := c
    by_cases hl : fs.length ≤ k
    · simp only [hl, ↓reduceIte]
      obtain ⟨i1, i2⟩ := ih gs' (k - fs.length)
      constructor
      · rw [i1, List.take_append, List.take_of_length_le hl]
      · intro ha
        rw [i2 ha]
    · simp only [hl, ↓reduceIte]
      constructor
      · rw [List.take_append]
        have : k - fs.length = 0 := by omega
        simp [this]
      · intro ha; simp at ha

theorem flatten_take_prefix (l : List Bytes) (k : Nat) : (l.take k).flatten <+: l.flatten := by
  refine ⟨(l.drop k).flatten, ?_⟩
  rw [← List.flatten_append, List.take_append_drop]

/-- **dump = wire, HTTP/2 request body, uploads cut short.** For every frame size limit, every
sequence of body reads, EVERY flow-control schedule and EVERY abort point (the `awaitFlowControl`
call at which the stream turns out reset / answered / cancelled): the dumper has been handed
exactly the DATA payloads that were written — the first `k` frames of the complete upload's cut —
so its content is a prefix of the body, namely the bytes that went out, each once; and the whole
body iff the upload was not cut short. Bytes that were read from the body but never sent are not
dumped. -/
theorem dump_equals_wire_h2_body_partial (maxFrame : Nat) (hm : 1 ≤ maxFrame) (pieces : List Bytes)
    (gs : List Nat) (k : Nat) :
    let o := sendBody maxFrame pieces gs k
    dumpAtWrite o = o.frames ∧
    o.frames = (dataFrames maxFrame pieces gs).take k ∧
    (dumpAtWrite o).flatten <+: pieces.flatten ∧
    (o.aborted = false → (dumpAtWrite o).flatten = pieces.flatten) := by
  intro o
  obtain ⟨h1, h2⟩ := sendBody_frames maxFrame pieces gs k
  refine ⟨rfl, h1, ?_, ?_⟩
  · show o.frames.flatten <+: _
    rw [h1, ← (dataFrames_spec maxFrame hm pieces gs).1]
    exact flatten_take_prefix _ _
  · intro ha
    show o.frames.flatten = _
    rw [h2 ha]
    exact (dataFrames_spec maxFrame hm pieces gs).1

/-- non-vacuity: a 5-byte read against a window of 2 that is never re-opened: the second
`awaitFlowControl` fails; 2 bytes went out, 2 bytes are dumped. -/
example : (sendBody 16384 [[1, 2, 3, 4, 5]] [2] 1).frames = [[1, 2]] ∧
    (sendBody 16384 [[1, 2, 3, 4, 5]] [2] 1).aborted = true := by decide

/-- The class of seed C13-r5-2 — dumping where the chunk is read — shows bytes that were never
sent as soon as an upload is cut short. -/
theorem dump_at_read_not_exact :
    (dumpAtRead (sendBody 16384 [[1, 2, 3, 4, 5]] [2] 1)).flatten
      ≠ (sendBody 16384 [[1, 2, 3, 4, 5]] [2] 1).frames.flatten := by decide

end Req.Props.C13R5
