import Req.Lemmas.C05Inj
import Req.Props.C05
/-!
C05 — canonical encoding: over ALL `Framer.Write*` entry points at once (`WOp`),

* `every_write_read_back` — `parse (write x) = x` for every writer the client uses: one statement
  that collects the per-frame `*_parse_write` theorems (the composite `writeHeaders` is
  `header_block_reassembled` in `Req.Props.C05Frag`);
* `write_wire_form` — what each writer puts on the wire: 9-byte header (length, type, flags,
  stream) and payload;
* `write_injective` — two accepted argument tuples that give the same bytes are the same tuple, of
  the same writer: the encoding is canonical (no two requests to write are confused on the wire,
  which is what makes byte-identity with the reference equivalent to frame-identity).
-/
namespace Req.Props.C05
open Req.Proto Req.H2.Frame Req.Lemmas.C05.Inj

/-- **write_wire_form**: every writer, on its accepted arguments, writes exactly
`headerBytes(payload length, type, flags, stream id) ++ payload`, with the payload below 2^24
bytes, type and flags one byte, the stream id 31 bits. -/
theorem write_wire_form (a : WOp) (h : a.Wf) :
    a.write = .ok (headerBytes a.payload.length a.typ a.flags a.sid ++ a.payload) ∧
      a.payload.length < two24 ∧ a.typ < 256 ∧ a.flags < 256 ∧ a.sid < two31 :=
  write_parts a h

example : (WOp.windowUpdate 3 65535).Wf := by simp [WOp.Wf, two31]
example : (WOp.windowUpdate 3 65535).write = .ok [0, 0, 4, 8, 0, 0, 0, 0, 3, 0, 0, 255, 255] := by decide

/-- **every_write_read_back**: `parse (write x) = x` for EVERY writer entry point: whatever
`Write*` call on accepted arguments, `ReadFrame` on the bytes (followed by anything) returns the
frame with exactly these arguments, consumes exactly the frame, and moves the header-block state as
the frame says — for every reader that is in the state the frame needs (inside the block of its
stream for CONTINUATION, outside a block otherwise) and accepts the frame size. -/
theorem every_write_read_back (a : WOp) (h : a.Wf) :
    ∃ out, a.write = .ok out ∧ ∀ (r : Reader) (rest : Bytes), Ready r a.payload.length a.inBlock →
      readFrame r (out ++ rest) = (.ok a.frame, { r with lastHeaderStream := a.leaves }, rest) := by
  obtain ⟨hw, _⟩ := write_parts a h
  refine ⟨_, hw, ?_⟩
  intro r rest hr
  have hlen : (headerBytes a.payload.length a.typ a.flags a.sid ++ a.payload).length - 9
      = a.payload.length := by simp [headerBytes, be32]
  have hst : a.inBlock = a.leaves → ({ r with lastHeaderStream := a.leaves } : Reader) = r := by
    intro e
    have := hr.state
    rw [e] at this
    cases r; simp_all
  cases a with
  | data sid es d pad =>
    obtain ⟨out, hw', hrd⟩ := data_parse_write sid es d pad h
    have e : out = _ := Except.ok.inj (hw'.symm.trans hw)
    subst e
    have := hrd r rest (by rw [hlen]; exact hr)
    rw [hlen] at this
    rw [this, hst rfl]
    rfl
  | headers p =>
    obtain ⟨out, hw', hrd⟩ := headers_parse_write p h
    have e : out = _ := Except.ok.inj (hw'.symm.trans hw)
    subst e
    have := hrd r rest (by rw [hlen]; exact hr)
    rw [hlen] at this
    rw [this]
    rfl
  | priority sid p =>
    obtain ⟨out, hw', hrd⟩ := priority_parse_write sid p h.1 h.2
    have e : out = _ := Except.ok.inj (hw'.symm.trans hw)
    subst e
    have hl5 : (WOp.priority sid p).payload.length = 5 := by simp [WOp.payload, prioBytes, be32]
    rw [hrd r rest (by rw [← hl5]; exact hr), hst rfl]
    simp only [WOp.frame, hl5]
    rfl
  | rstStream sid c =>
    obtain ⟨out, hw', hrd⟩ := rstStream_parse_write sid c h.1 h.2
    have e : out = _ := Except.ok.inj (hw'.symm.trans hw)
    subst e
    have hl4 : (WOp.rstStream sid c).payload.length = 4 := by simp [WOp.payload, be32]
    rw [hrd r rest (by rw [← hl4]; exact hr), hst rfl]
    simp only [WOp.frame, hl4]
    rfl
  | settings ss =>
    obtain ⟨out, hw', hrd⟩ := settings_parse_write ss h
    have e : out = _ := Except.ok.inj (hw'.symm.trans hw)
    subst e
    have hl6 : (WOp.settings ss).payload.length = 6 * ss.length :=
      Req.Lemmas.C05.H2.encodeSettings_length ss
    rw [hrd r rest (by rw [← hl6]; exact hr), hst rfl]
    simp only [WOp.frame, hl6]
    rfl
  | settingsAck =>
    obtain ⟨out, hw', hrd⟩ := settingsAck_parse_write
    have e : out = _ := Except.ok.inj (hw'.symm.trans hw)
    subst e
    rw [hrd r rest hr, hst rfl]
    rfl
  | pushPromise p =>
    obtain ⟨out, hw', hrd⟩ := pushPromise_parse_write p h
    have e : out = _ := Except.ok.inj (hw'.symm.trans hw)
    subst e
    have := hrd r rest (by rw [hlen]; exact hr)
    rw [hlen] at this
    rw [this, hst rfl]
    rfl
  | ping ack d =>
    have hd : d.length = 8 := h
    obtain ⟨out, hw', hrd⟩ := ping_parse_write ack d hd
    have e : out = _ := Except.ok.inj (hw'.symm.trans hw)
    subst e
    have hl8 : (WOp.ping ack d).payload.length = 8 := hd
    rw [hrd r rest (by rw [← hl8]; exact hr), hst rfl]
    simp only [WOp.frame, hl8]
    rfl
  | goAway m c d =>
    obtain ⟨out, hw', hrd⟩ := goAway_parse_write m c d h.2.1 h.2.2
    have e : out = _ := Except.ok.inj (hw'.symm.trans hw)
    subst e
    have hl : (WOp.goAway m c d).payload.length = 8 + d.length := by
      simp [WOp.payload, be32]; omega
    rw [hrd r rest (by rw [← hl]; exact hr), hst rfl]
    simp only [WOp.frame, hl]
    rfl
  | windowUpdate sid i =>
    obtain ⟨out, hw', hrd⟩ := windowUpdate_parse_write sid i h.1 h.2
    have e : out = _ := Except.ok.inj (hw'.symm.trans hw)
    subst e
    have hl4 : (WOp.windowUpdate sid i).payload.length = 4 := by simp [WOp.payload, be32]
    rw [hrd r rest (by rw [← hl4]; exact hr), hst rfl]
    simp only [WOp.frame, hl4]
    rfl
  | continuation sid eh f =>
    obtain ⟨out, hw', hrd⟩ := continuation_parse_write sid eh f h.1 h.2
    have e : out = _ := Except.ok.inj (hw'.symm.trans hw)
    subst e
    rw [hrd r rest hr]
    rfl
  | raw t fl sid p =>
    obtain ⟨out, hw', hrd⟩ := rawFrame_parse_write t fl sid p ⟨h.1, h.2.1⟩ h.2.2.1 h.2.2.2.1 h.2.2.2.2
    have e : out = _ := Except.ok.inj (hw'.symm.trans hw)
    subst e
    rw [hrd r rest hr, hst rfl]
    rfl

/-- the four parts determine the operation. -/
theorem args_determined (a b : WOp) (ha : a.Wf) (hb : b.Wf) (ht : a.typ = b.typ)
    (hf : a.flags = b.flags) (hs : a.sid = b.sid) (hp : a.payload = b.payload) : a = b := by
  cases a <;> cases b
  case data.data sid es d pad sid' es' d' pad' =>
    exact data_args_inj sid sid' es es' d d' pad pad' ha hb hf hs hp
  case headers.headers p q => exact congrArg WOp.headers (headers_args_inj p q ha hb hf hs hp)
  case priority.priority sid p sid' p' =>
    have e1 : sid = sid' := hs
    have e2 : p = p' := prioBytes_inj p p' ha.2 hb.2 hp
    rw [e1, e2]
  case rstStream.rstStream sid c sid' c' =>
    have e1 : sid = sid' := hs
    have e2 : c = c' := be32_inj c c' ha.2 hb.2 hp
    rw [e1, e2]
  case settings.settings ss ss' =>
    have e : ss = ss' := encodeSettings_inj ss ss' ha.1 hb.1 hp
    rw [e]
  case settingsAck.settingsAck => rfl
  case pushPromise.pushPromise p q =>
    exact congrArg WOp.pushPromise (pushPromise_args_inj p q ha hb hf hs hp)
  case ping.ping ack d ack' d' =>
    have e1 : d = d' := hp
    have e2 : ack = ack' := by
      have : b2n ack flagAck = b2n ack' flagAck := hf
      cases ack <;> cases ack' <;> simp [b2n] at this ⊢
    rw [e1, e2]
  case goAway.goAway m c d m' c' d' =>
    obtain ⟨hm, hc, _⟩ := ha
    obtain ⟨hm', hc', _⟩ := hb
    have hp' : be32 (m % two31) ++ (be32 c ++ d) = be32 (m' % two31) ++ (be32 c' ++ d') := by
      simpa [WOp.payload] using hp
    have l4 : ∀ x y : Nat, (be32 x).length = (be32 y).length := by intro x y; simp [be32]
    obtain ⟨h1, h2⟩ := List.append_inj hp' (l4 _ _)
    obtain ⟨h3, h4⟩ := List.append_inj h2 (l4 _ _)
    have e1 : m = m' := by
      have := be32_inj _ _ (by simp only [two31] at *; omega) (by simp only [two31] at *; omega) h1
      rw [Nat.mod_eq_of_lt hm, Nat.mod_eq_of_lt hm'] at this
      exact this
    have e2 : c = c' := be32_inj _ _ hc hc' h3
    rw [e1, e2, h4]
  case windowUpdate.windowUpdate sid i sid' i' =>
    have e1 : sid = sid' := hs
    have e2 : i = i' := be32_inj i i' (by have := ha.2.2; omega) (by have := hb.2.2; omega) hp
    rw [e1, e2]
  case continuation.continuation sid eh f sid' eh' f' =>
    have e1 : sid = sid' := hs
    have e2 : f = f' := hp
    have e3 : eh = eh' := by
      have : b2n eh flagEndHeaders = b2n eh' flagEndHeaders := hf
      cases eh <;> cases eh' <;> simp [b2n] at this ⊢
    rw [e1, e2, e3]
  case raw.raw t fl sid p t' fl' sid' p' =>
    have e1 : t = t' := ht
    have e2 : fl = fl' := hf
    have e3 : sid = sid' := hs
    have e4 : p = p' := hp
    rw [e1, e2, e3, e4]
  case settings.settingsAck => simp [WOp.flags] at hf
  case settingsAck.settings => simp [WOp.flags] at hf
  all_goals
    exfalso
    simp only [WOp.typ, tData, tHeaders, tPriority, tRSTStream, tSettings, tPushPromise, tPing, tGoAway,
      tWindowUpdate, tContinuation] at ht
    first
      | omega
      | (have := ha.1; omega)
      | (have := hb.1; omega)

/-- **write_injective**: for all write operations `a`, `b` — of any writer entry points — on
their accepted arguments: the same bytes on the wire ⇒ the same writer and the same arguments. -/
theorem write_injective (a b : WOp) (ha : a.Wf) (hb : b.Wf) (h : a.write = b.write) : a = b := by
  obtain ⟨wa, la, ta, fa, sa⟩ := write_parts a ha
  obtain ⟨wb, lb, tb, fb, sb⟩ := write_parts b hb
  rw [wa, wb] at h
  obtain ⟨_, e2, e3, e4, e5⟩ := wire_inj _ _ _ _ _ _ _ _ _ _ la ta fa sa lb tb fb sb (Except.ok.inj h)
  exact args_determined a b ha hb e2 e3 e4 e5

/-- the mask on GOAWAY's last-stream-id is why `Wf` asks for 31 bits there: outside that domain the
writer is NOT injective (5 and 5 + 2^31 give the same frame). -/
example : (WOp.goAway 5 0 []).write = (WOp.goAway (5 + 2147483648) 0 []).write := by decide
/-- PADDED with a zero-length padding is not reachable through `WriteHeaders` (PadLength 0 means
"not padded"), so no two `HeadersParam` collide … -/
example : (WOp.headers ⟨1, [7], false, true, 0, Priority.zero⟩).write =
    .ok [0, 0, 1, 1, 4, 0, 0, 0, 1, 7] := by decide
/-- … while `WriteDataPadded` distinguishes `nil` padding from empty padding on the wire. -/
example : (WOp.data 1 false [7] none).write ≠ (WOp.data 1 false [7] (some [])).write := by decide

end Req.Props.C05
