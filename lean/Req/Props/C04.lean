import Req.Lemmas.H1Chunk
/-!
C04 — HTTP/1.1 response parsing and framing.

The property is relational (the fork's reader ≡ Go's reference reader).  It is decided by ONE
model (`Req.H1.parseResponse`) that the reference lane ties to BOTH implementations on every
run; the theorems below are what makes that agreement meaningful:

* `parse_deterministic_end` — where a complete message ends does not depend on what follows
  it: bytes of one response are never attributed to another.
* `head_deterministic_end` — the same for status line + header block alone (every framing).
* `framing_*`, `te_and_cl` — the framing decision: which of {no body, declared length, chunked,
  until close} is chosen, exclusively, and that chunked overrides and removes Content-Length.
* `reject_*` — malformed classes of the grammar map to rejection.
* `hex_roundtrip`, `chunked_roundtrip` — the chunked reader inverts the chunked writer for every
  split of the body into chunks and whatever follows the body.
-/
namespace Req.Props.C04
open Req.Proto Req.H1

/-! ### the end of a message is determined by the message -/

/-- Status line + header block + framing decision read from `s` are read identically from any
extension of `s`, leaving the extension in the stream. -/
theorem head_deterministic_end {isHead : Bool} {s r : Bytes} {m : Msg}
    (h : parseHead isHead s = some (m, r)) (t : Bytes) :
    parseHead isHead (s ++ t) = some (m, r ++ t) := by
  unfold parseHead at h ⊢
  cases hl : readLine s with
  | none => simp [hl] at h
  | some p =>
    obtain ⟨line, r1⟩ := p
    simp only [hl] at h
    cases hs : parseStatusLine line with
    | none => simp [hs] at h
    | some sl =>
      simp only [hs] at h
      cases hm : readMIMEHeader r1 with
      | none => simp [hm] at h
      | some q =>
        obtain ⟨hd, r2⟩ := q
        simp only [hm] at h
        have hr1 : r1 ≠ [] := by
          intro hnil; subst hnil; simp [readMIMEHeader] at hm
        rw [readLine_stable_of_rest hl hr1 t]
        simp only [hs, readMIMEHeader_append hm t]
        cases ht : readTransfer isHead sl (fixPragmaCacheControl hd) with
        | none => simp [ht] at h
        | some m' =>
          simp only [ht, Option.some.injEq, Prod.mk.injEq] at h ⊢
          obtain ⟨rfl, rfl⟩ := h
          exact ⟨rfl, rfl⟩

/-- A body that was read to its end (`io.EOF`) under a framing other than "until close" is read
identically from any extension of the stream. -/
theorem body_deterministic_end {B : Nat} {m : Msg} {s : Bytes}
    (hok : (readBody B m s).ok = true) (hf : m.framing ≠ .untilClose) (t : Bytes) :
    readBody B m (s ++ t) = { readBody B m s with rest := (readBody B m s).rest ++ t } := by
  unfold readBody at hok ⊢
  cases hfr : m.framing with
  | none => simp
  | untilClose => exact absurd hfr hf
  | length n =>
    simp only [hfr] at hok ⊢
    split at hok
    · next hle =>
      have hle' : n ≤ s.length + t.length := by omega
      simp [hle, hle', List.take_append_of_le_length hle, List.drop_append_of_le_length hle]
    · simp at hok
  | chunked =>
    simp only [hfr] at hok ⊢
    cases hd : decodeChunked B s with
    | mk d e =>
      cases e with
      | none => simp [hd] at hok
      | some r =>
        simp only [hd] at hok ⊢
        have hd' : decodeChunked B (s ++ t) = (d, some (r ++ t)) := by
          unfold decodeChunked at hd ⊢
          exact chunkLoop_append hd t _ (by simp)
        simp only [hd']
        cases htr : readTrailer B (declMap m.trailerDecl) r with
        | none => simp [htr] at hok
        | some p =>
          obtain ⟨tr, rest⟩ := p
          simp [readTrailer_append htr t]

/-- **parse_deterministic_end.** If the stream `s` holds a complete response (accepted, body
read to EOF, framing not close-delimited) with `rest` left over, then on `s ++ t` the reader
produces the same response and leaves `rest ++ t`: what follows a message never changes how the
message is read, and none of `t` is attributed to it. -/
theorem parse_deterministic_end {isHead : Bool} {B : Nat} {s : Bytes} {m : Msg} {b : BodyRes}
    (h : parseResponse isHead B s = .resp m b) (hok : b.ok = true)
    (hf : m.framing ≠ .untilClose) (t : Bytes) :
    parseResponse isHead B (s ++ t) = .resp m { b with rest := b.rest ++ t } := by
  unfold parseResponse at h ⊢
  cases hh : parseHead isHead s with
  | none => simp [hh] at h
  | some p =>
    obtain ⟨m', r⟩ := p
    simp only [hh, Outcome.resp.injEq] at h
    obtain ⟨rfl, rfl⟩ := h
    simp only [head_deterministic_end hh t]
    rw [body_deterministic_end hok hf t]

/-- Close-delimited bodies are the one framing whose end is the end of the connection: the
body is everything that follows the header block. -/
theorem until_close_takes_all {B : Nat} {m : Msg} (s : Bytes) (hf : m.framing = .untilClose) :
    (readBody B m s).data = s ∧ (readBody B m s).rest = [] ∧ (readBody B m s).ok = true := by
  simp [readBody, hf]

example : parseResponse false 4096
    [72,84,84,80,47,49,46,49,32,50,48,48,32,79,75,13,10,  -- HTTP/1.1 200 OK
     67,111,110,116,101,110,116,45,76,101,110,103,116,104,58,32,50,13,10,13,10,  -- Content-Length: 2
     104,105, 78,69,88,84] =                                -- "hi" then "NEXT"
    .resp ⟨⟨[72,84,84,80,47,49,46,49], [50,48,48,32,79,75], 200, 1, 1⟩,
           [(kContentLength, [[50]])], 2, false, false, [], .length 2⟩
          ⟨[104,105], true, [], [78,69,88,84]⟩ := by decide

/-! ### the framing decision -/

/-- What `fixLength` returns: 0 for HEAD and for statuses without a body, -1 for chunked
otherwise, else the declared length or -1. -/
theorem fixLength_facts {code : Nat} {isHead chunked : Bool} {h2 h3 : HeaderMap} {realLength : Int}
    (hfl : fixLength code isHead h2 chunked = some (realLength, h3)) :
    (isHead = true → realLength = 0) ∧
    (bodyAllowedForStatus code = false → realLength = 0) ∧
    (chunked = true → isHead = false → bodyAllowedForStatus code = true → realLength = -1) ∧
    (-1 ≤ realLength) := by
  unfold fixLength at hfl
  simp only at hfl
  split at hfl
  · simp at hfl
  · split at hfl
    · simp at hfl
    · next n? hp =>
      by_cases hH : isHead = true
      · simp [hH] at hfl; simp [hH, ← hfl.1]
      · have hH' : isHead = false := by simpa using hH
        simp only [hH', Bool.false_eq_true, if_false] at hfl
        by_cases h1 : code / 100 = 1
        · simp [h1] at hfl
          have : bodyAllowedForStatus code = false := by
            simp [bodyAllowedForStatus]; omega
          simp [hH', this, ← hfl.1]
        · simp only [h1, if_false] at hfl
          by_cases h2 : code = 204 ∨ code = 304
          · simp [h2] at hfl
            have : bodyAllowedForStatus code = false := by
              simp [bodyAllowedForStatus]; omega
            simp [hH', this, ← hfl.1]
          · simp only [h2, if_false] at hfl
            have hba : bodyAllowedForStatus code = true := by
              simp [bodyAllowedForStatus]; omega
            by_cases hc : chunked = true
            · simp [hc] at hfl; simp [hH', hba, ← hfl.1]
            · have hc' : chunked = false := by simpa using hc
              simp only [hc', Bool.false_eq_true, if_false] at hfl
              cases n? with
              | none => simp at hfl; simp [hH', hba, hc', ← hfl.1]
              | some n =>
                simp at hfl
                simp [hH', hba, hc', ← hfl.1]

/-- The framing is one of four and `readTransfer` picks it by this table (so exactly one
applies): chunked iff a valid chunked Transfer-Encoding was seen and a body is allowed; else a
declared length; else until close. -/
theorem framing_table {isHead : Bool} {sl : StatusLine} {h0 : HeaderMap} {m : Msg}
    (h : readTransfer isHead sl h0 = some m) :
    (m.framing = .chunked ↔ (m.teChunked = true ∧ isHead = false ∧ bodyAllowedForStatus sl.code = true)) ∧
    (m.framing = .untilClose → m.teChunked = false ∧ m.close = true ∧ isHead = false ∧
        bodyAllowedForStatus sl.code = true ∧ m.contentLength = -1) ∧
    (∀ n, m.framing = .length n → m.teChunked = false ∧ 0 < n ∧ m.contentLength = n ∧ isHead = false) := by
  unfold readTransfer at h
  simp only at h
  split at h
  · simp at h
  · next chunked h2 hte =>
    split at h
    · simp at h
    · next realLength h3 hfl =>
      split at h
      · simp at h
      · next cl hcl =>
        split at h
        · simp at h
        · next tr h4 htr =>
          simp only [Option.some.injEq] at h
          subst h
          have hfix := fixLength_facts hfl
          obtain ⟨hfH, hfB, hfC, hfge⟩ := hfix
          have hclH : isHead = false → cl = realLength := by
            intro hH; simp [hH] at hcl; exact hcl.symm
          dsimp only
          refine ⟨?_, ?_, ?_⟩
          · -- chunked
            constructor
            · intro hfr
              by_cases hc : chunked = true
              · simp only [hc, if_true] at hfr
                split at hfr
                · simp at hfr
                · next hcond =>
                  simp at hcond
                  exact ⟨hc, hcond.1, hcond.2⟩
              · have hc' : chunked = false := by simpa using hc
                simp only [hc', Bool.false_eq_true, if_false] at hfr
                repeat (split at hfr <;> try simp at hfr)
            · intro ⟨hc, hH, hba⟩
              simp [hc, hH, hba]
          · intro hfr
            by_cases hc : chunked = true
            · simp only [hc, if_true] at hfr
              split at hfr <;> simp at hfr
            · have hc' : chunked = false := by simpa using hc
              simp only [hc', Bool.false_eq_true, if_false] at hfr
              split at hfr
              · simp at hfr
              · next hz =>
                split at hfr
                · simp at hfr
                · next hpos =>
                  split at hfr
                  · next hclose =>
                    have hrl : realLength = -1 := by omega
                    have hH : isHead = false := by
                      cases hi : isHead with
                      | false => rfl
                      | true => have := hfH hi; omega
                    have hba : bodyAllowedForStatus sl.code = true := by
                      cases hb : bodyAllowedForStatus sl.code with
                      | true => rfl
                      | false => have := hfB hb; omega
                    refine ⟨hc', ?_, hH, hba, ?_⟩
                    · rw [hc']; exact hclose
                    · rw [hclH hH, hrl]
                  · simp at hfr
          · intro n hfr
            by_cases hc : chunked = true
            · simp only [hc, if_true] at hfr
              split at hfr <;> simp at hfr
            · have hc' : chunked = false := by simpa using hc
              simp only [hc', Bool.false_eq_true, if_false] at hfr
              split at hfr
              · simp at hfr
              · split at hfr
                · next hpos =>
                  simp only [RespFraming.length.injEq] at hfr
                  have hH : isHead = false := by
                    cases hi : isHead with
                    | false => rfl
                    | true => have := hfH hi; omega
                  refine ⟨hc', by omega, ?_, hH⟩
                  rw [hclH hH]; omega
                · split at hfr <;> simp at hfr

/-- A chunked body comes with `ContentLength = -1`. -/
theorem chunked_content_length {isHead : Bool} {sl : StatusLine} {h0 : HeaderMap} {m : Msg}
    (h : readTransfer isHead sl h0 = some m) (hf : m.framing = .chunked) :
    m.contentLength = -1 := by
  obtain ⟨hch, _, _⟩ := framing_table h
  obtain ⟨hte, hH, hba⟩ := hch.mp hf
  unfold readTransfer at h
  simp only at h
  split at h
  · simp at h
  · next chunked h2 hte' =>
    split at h
    · simp at h
    · next realLength h3 hfl =>
      split at h
      · simp at h
      · next cl hcl =>
        split at h
        · simp at h
        · next tr h4 htr =>
          simp only [Option.some.injEq] at h
          subst h
          dsimp only at hte ⊢
          obtain ⟨_, _, hfC, _⟩ := fixLength_facts hfl
          simp [hH] at hcl
          rw [← hcl]
          exact hfC hte hH hba

/-! ### chunked writer / reader round trip -/

/-- **hex_roundtrip.** -/
theorem hex_roundtrip (n : Nat) (h : n < 2 ^ 64) : parseHexUint (toHex n) = some n :=
  parseHexUint_toHex n h

/-- **chunked_roundtrip.** For every split of a body into non-empty chunks (each below 2^61
bytes), every read-buffer size of at least 18 bytes, and whatever follows: the chunked reader
returns exactly the concatenation of the chunks, ends with io.EOF, and has consumed exactly the
writer's output (`rest` untouched). -/
theorem chunked_roundtrip {B : Nat} (hB : 18 ≤ B) (chunks : List Bytes)
    (hne : ∀ c ∈ chunks, c ≠ []) (hsz : ∀ c ∈ chunks, c.length < 2 ^ 61) (rest : Bytes) :
    decodeChunked B (encodeChunked chunks ++ rest) = (chunks.flatten, some rest) := by
  unfold decodeChunked
  apply chunkLoop_encodeChunked hB chunks hne hsz rest
  have := encodeChunked_length chunks hne
  simp
  omega

/-- The same through `readBody`: chunked framing, no trailers (the final CRLF), followed by
the bytes of the next message. -/
theorem chunked_body_roundtrip {B : Nat} (hB : 18 ≤ B) {m : Msg} (hf : m.framing = .chunked)
    (chunks : List Bytes) (hne : ∀ c ∈ chunks, c ≠ []) (hsz : ∀ c ∈ chunks, c.length < 2 ^ 61)
    (next : Bytes) :
    readBody B m (encodeChunked chunks ++ [CR, LF] ++ next) =
      ⟨chunks.flatten, true, declMap m.trailerDecl, next⟩ := by
  unfold readBody
  simp only [hf]
  have := chunked_roundtrip hB chunks hne hsz ([CR, LF] ++ next)
  rw [List.append_assoc, this]
  simp [readTrailer]

example : decodeChunked 4096 (encodeChunked [[104, 101], [108, 108, 111]] ++ [13, 10, 88]) =
    ([104, 101, 108, 108, 111], some [13, 10, 88]) := by decide

/-! ### Transfer-Encoding and Content-Length together -/

/-- In the chunked branch `fixLength` hands back a header without Content-Length. -/
theorem fixLength_chunked_header {code : Nat} {h2 h3 : HeaderMap} {rl : Int}
    (hfl : fixLength code false h2 true = some (rl, h3))
    (hba : bodyAllowedForStatus code = true) : HeaderMap.get h3 kContentLength = none := by
  unfold fixLength at hfl
  simp only at hfl
  split at hfl
  · simp at hfl
  · split at hfl
    · simp at hfl
    · simp only [Bool.false_eq_true, if_false] at hfl
      have h1 : ¬ code / 100 = 1 := by
        intro h; simp [bodyAllowedForStatus] at hba; omega
      have h2 : ¬ (code = 204 ∨ code = 304) := by
        intro h; simp [bodyAllowedForStatus] at hba; omega
      simp only [h1, h2, if_false, if_true, Option.some.injEq, Prod.mk.injEq] at hfl
      rw [← hfl.2]
      exact Req.H1.HeaderMap.get_del_self _ _

/-- **te_and_cl.** A response that is chunked (valid `Transfer-Encoding: chunked` on HTTP/1.1+,
body allowed, not HEAD): the framing is chunked whatever Content-Length said, the reported
length is -1 and the Content-Length field is gone from the header. -/
theorem te_and_cl {sl : StatusLine} {h0 : HeaderMap} {m : Msg}
    (h : readTransfer false sl h0 = some m) (hte : m.teChunked = true)
    (hba : bodyAllowedForStatus sl.code = true) :
    m.framing = .chunked ∧ m.contentLength = -1 ∧ HeaderMap.get m.header kContentLength = none := by
  have hfr : m.framing = .chunked := (framing_table h).1.mpr ⟨hte, rfl, hba⟩
  refine ⟨hfr, chunked_content_length h hfr, ?_⟩
  unfold readTransfer at h
  simp only at h
  split at h
  · simp at h
  · next chunked h2 hte' =>
    split at h
    · simp at h
    · next realLength h3 hfl =>
      split at h
      · simp at h
      · next cl hcl =>
        split at h
        · simp at h
        · next tr h4 htr =>
          simp only [Option.some.injEq] at h
          subst h
          dsimp only at hte ⊢
          subst hte
          have h3n := fixLength_chunked_header hfl hba
          unfold fixTrailer at htr
          split at htr
          · simp only [Option.some.injEq, Prod.mk.injEq] at htr
            rw [← htr.2]; exact h3n
          · simp only [Bool.not_true, Bool.false_eq_true, if_false] at htr
            split at htr
            · simp at htr
            · simp only [Option.some.injEq, Prod.mk.injEq] at htr
              rw [← htr.2]
              exact Req.H1.HeaderMap.get_del_none _ _ _ h3n

/-! ### malformed classes are rejected -/

/-- Two Transfer-Encoding field lines (or any number other than one) on HTTP/1.1: rejected. -/
theorem reject_te_not_single {major minor : Nat} {h : HeaderMap} {raw : List Bytes}
    (hget : HeaderMap.get h kTransferEncoding = some raw) (hv : major > 1 ∨ (major = 1 ∧ minor ≥ 1))
    (hlen : raw.length ≠ 1) : parseTransferEncoding major minor h = none := by
  unfold parseTransferEncoding
  simp only [hget]
  have : (!(decide (major > 1) || (decide (major = 1) && decide (minor ≥ 1)))) = false := by
    rcases hv with h1 | ⟨h1, h2⟩ <;> simp [*]
  simp only [this, Bool.false_eq_true, if_false]
  match raw, hlen with
  | [], _ => rfl
  | [_], hl => simp at hl
  | _ :: _ :: _, _ => rfl

/-- A Transfer-Encoding other than (case-insensitive) `chunked`: rejected. -/
theorem reject_te_unsupported {major minor : Nat} {h : HeaderMap} {v : Bytes}
    (hget : HeaderMap.get h kTransferEncoding = some [v]) (hv : major > 1 ∨ (major = 1 ∧ minor ≥ 1))
    (hne : Req.Ascii.lower v ≠ vChunked) : parseTransferEncoding major minor h = none := by
  unfold parseTransferEncoding
  simp only [hget]
  have : (!(decide (major > 1) || (decide (major = 1) && decide (minor ≥ 1)))) = false := by
    rcases hv with h1 | ⟨h1, h2⟩ <;> simp [*]
  simp only [this, Bool.false_eq_true, if_false]
  have : (Req.Ascii.lower v == vChunked) = false := by simpa using hne
  simp [this]

/-- Content-Length values that disagree (after trimming): rejected, whatever the method. -/
theorem reject_cl_disagree {code : Nat} {isHead chunked : Bool} {h : HeaderMap}
    {a b : Bytes} {more : List Bytes}
    (hget : HeaderMap.get h kContentLength = some (a :: b :: more))
    (hne : trimString b ≠ trimString a) : fixLength code isHead h chunked = none := by
  unfold fixLength
  simp only [hget]
  have : ((a :: b :: more).all fun c => trimString c == trimString a) = false := by
    simp only [List.all_cons, beq_self_eq_true, Bool.true_and]
    have : (trimString b == trimString a) = false := by simpa using hne
    simp [this]
  simp [this]

/-- A Content-Length that is not a plain decimal number below 2^63: rejected. -/
theorem reject_cl_invalid {code : Nat} {isHead chunked : Bool} {h : HeaderMap} {v : Bytes}
    (hget : HeaderMap.get h kContentLength = some [v])
    (hbad : parseContentLength1 v = none) : fixLength code isHead h chunked = none := by
  unfold fixLength
  simp [hget, hbad]

/-- An empty chunk-size line (also with only an extension or blanks) is an error, not a last
chunk — the repaired behaviour; `parseHexUintLenient` is the unpatched fork. -/
theorem reject_empty_chunk_size : parseHexUint [] = none ∧ parseHexUintLenient [] = some 0 := by
  decide

/-- Witness of the known finding (DESIGN section 5 row 14): `5 CRLF hello CRLF CRLF CRLF`. -/
example : decodeChunked 4096 [53, 13, 10, 104, 101, 108, 108, 111, 13, 10, 13, 10, 13, 10] =
    ([104, 101, 108, 108, 111], none) := by decide

/-- A status line without a three-digit code, a header line without colon, a header block
starting with a blank, a control byte in a value: rejected. -/
example : parseResponse false 4096 [72,84,84,80,47,49,46,49,32,50,48,32,79,75,13,10,13,10] = .reject := by
  decide
example : readMIMEHeader [88, 13, 10, 13, 10] = none := by decide
example : readMIMEHeader [32, 88, 58, 49, 13, 10, 13, 10] = none := by decide
example : readMIMEHeader [88, 58, 1, 13, 10, 13, 10] = none := by decide

/-! ### keep-alive after a terminal status ≤ 199 -/

/-- A response whose status is at most 199 (a terminal 101 — with or without Upgrade headers —
or a status below 100) never leaves a reusable connection, whatever else holds: the
`resp.StatusCode <= 199` guard of `readLoop` (tied to the code and to net/http by the
`keepalive` lane: two requests in sequence, connections counted). -/
theorem status_le_199_not_reused (m : Msg) (e : ReuseEnv) (h : m.sl.code ≤ 199) :
    mayReuse m e = false := by
  unfold mayReuse
  simp [h]

example : ∃ m : Msg, m.sl.code = 101 ∧ m.close = false ∧
    parseHead false [72,84,84,80,47,49,46,49,32,49,48,49,32,83,13,10,13,10] = some (m, []) := by
  refine ⟨_, ?_, ?_, rfl⟩ <;> decide

end Req.Props.C04
