/-! C04 — property theorems (none yet). -/
