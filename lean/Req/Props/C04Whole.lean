import Req.Props.C04Split
import Req.H1.ErrClass
import Req.H1.AliasMime
import Req.Lemmas.H1Line
/-!
C04 round 5 — the incremental head line reader computes the whole-stream reader.

The C04 theorems (`parse_deterministic_end`, `framing_*`, `parseHeadE_*` …) are about whole-stream
functions (`readLineB`, `readContB`, `mimeLoopE`: "these bytes, then EOF").  The code reads
incrementally: `bufio.Reader` of `B` bytes filled segment by segment, `ReadLine` fragments glued by
`readLineSlice`, a CR put back at a full buffer, `ReadByte`/`UnreadByte` in `skipSpace`, a `Peek(2)`
fast path, lines as views into the buffer.  Here the two are proved EQUAL, for every `B ≥ 2`
(bufio: ≥ 16) and every clean script (any segmentation):

* `readLineSliceLoop_whole` / `readLineSlice_whole` — the fragment loop = `readLineB B` (incl. the
  CR put back when "\r\n" straddles the buffer end, and the corner `untermEOF`: an unterminated
  last line that fills the buffer exactly is `io.EOF`); this is also the status-line read.
* `skipSpace_whole` — `skipSpace` = `countOWS`; `contLoopV_whole` — continuation loop = `readContB`.
* `continued_line_whole_stream` — `readContinuedLineSlice` of the code over the ALIASING reader =
  `contSpec` (`readLineB` + colon check + `readContB`: the loop body of `mimeLoopE`), same rest.
* `head_incremental_is_whole_stream` — `amimeLoop` (`readMIMEHeader`'s loop over the aliasing
  reader) = `mimeLoopE B`: same header map, same error class, same unread rest.
Helpers: `cutNL_splitLF`, `stripCR_eq`, `stripCR_append`, `untermEOF_fuel`, `readLineB_step`.
-/
namespace Req.Props.C04
open Req.Proto Req.H1 Req.H1.BufLine Req.H1.BufAlias

/-! ### `cutNL` (bufio side) and `splitLF` (whole-stream side) -/

theorem cutNL_splitLF {s l r : Bytes} (h : cutNL s = some (l, r)) :
    ∃ a, l = a ++ [10] ∧ splitLF s = some (a, r) := by
  induction s generalizing l r with
  | nil => simp [cutNL] at h
  | cons c s ih =>
    unfold cutNL at h
    split at h
    · next hc =>
      simp only [Option.some.injEq, Prod.mk.injEq] at h
      obtain ⟨rfl, rfl⟩ := h
      exact ⟨[], by simp [hc], by simp [splitLF, hc]⟩
    · next hc =>
      cases hx : cutNL s with
      | none => simp [hx] at h
      | some p =>
        obtain ⟨l', r'⟩ := p
        simp only [hx, Option.some.injEq, Prod.mk.injEq] at h
        obtain ⟨rfl, rfl⟩ := h
        obtain ⟨a, ha, hs⟩ := ih hx
        refine ⟨c :: a, by simp [ha], ?_⟩
        simp [splitLF, hc, hs]

theorem cutNL_none {s : Bytes} (h : cutNL s = none) : splitLF s = none ∧ ∀ c ∈ s, c ≠ 10 := by
  induction s with
  | nil => simp [splitLF]
  | cons c s ih =>
    unfold cutNL at h
    split at h
    · simp at h
    · next hc =>
      cases hx : cutNL s with
      | some p => simp [hx] at h
      | none =>
        obtain ⟨h1, h2⟩ := ih hx
        refine ⟨by simp [splitLF, hc, h1], ?_⟩
        intro x hx'
        rcases List.mem_cons.mp hx' with rfl | hx'
        · exact hc
        · exact h2 x hx'

theorem cutNL_of_noLF {s : Bytes} (h : ∀ c ∈ s, c ≠ 10) : cutNL s = none := by
  induction s with
  | nil => rfl
  | cons c s ih =>
    unfold cutNL
    rw [if_neg (h c (by simp)), ih (fun x hx => h x (List.mem_cons_of_mem _ hx))]

theorem splitLF_noLF_prefix {f : Bytes} (h : ∀ c ∈ f, c ≠ 10) (x : Bytes) :
    splitLF (f ++ x) = (splitLF x).map (fun p => (f ++ p.1, p.2)) := by
  induction f with
  | nil => cases hsx : splitLF x <;> simp [hsx]
  | cons c f ih =>
    have hc : c ≠ LF := h c (by simp)
    have := ih (fun y hy => h y (List.mem_cons_of_mem _ hy))
    simp only [List.cons_append, splitLF, hc, if_false, this]
    cases splitLF x <;> simp

theorem stripCR_eq (a : Bytes) : stripCR a = if lastIs 13 a then a.dropLast else a := by
  induction a with
  | nil => simp [stripCR, lastIs]
  | cons c t ih =>
    cases t with
    | nil =>
      by_cases hc : c = 13 <;> simp [stripCR, lastIs, hc, CR]
    | cons d t =>
      have hl : lastIs 13 (c :: d :: t) = lastIs 13 (d :: t) := by simp [lastIs]
      show c :: stripCR (d :: t) = _
      rw [ih, hl]
      by_cases h : lastIs 13 (d :: t) = true
      · rw [if_pos h, if_pos h]; rfl
      · rw [if_neg h, if_neg h]

theorem stripCR_append {x : Bytes} (hx : x ≠ []) (f : Bytes) : stripCR (f ++ x) = f ++ stripCR x := by
  induction f with
  | nil => rfl
  | cons c f ih =>
    cases hfx : f ++ x with
    | nil => simp at hfx; exact absurd hfx.2 hx
    | cons d t =>
      simp only [List.cons_append, hfx, stripCR]
      rw [← hfx, ih]

theorem dropEOL_snoc (a : Bytes) : dropEOL (a ++ [10]) = stripCR a := by
  unfold dropEOL
  have h1 : lastIs 10 (a ++ [10]) = true := by simp [lastIs]
  rw [if_pos h1, List.dropLast_concat, stripCR_eq]

theorem dropEOL_noLF {s : Bytes} (h : ∀ c ∈ s, c ≠ 10) : dropEOL s = s := by
  unfold dropEOL
  split
  · next hl =>
    exfalso
    simp only [lastIs, beq_iff_eq] at hl
    exact h 10 (List.mem_of_getLast? hl) rfl
  · rfl

/-! ### the fragment walk of `untermEOF` / `readLineB` -/

theorem head_drop_eq_last_take (s : Bytes) (n : Nat) (h : n < s.length) :
    (s.drop n).head? = (s.take (n + 1)).getLast? := by
  induction n generalizing s with
  | zero =>
    cases s with
    | nil => simp at h
    | cons c t => simp
  | succ n ih =>
    cases s with
    | nil => simp at h
    | cons c t =>
      have hn : n < t.length := by simpa using h
      simp only [List.drop_succ_cons, List.take_succ_cons]
      rw [ih t hn]
      cases hq : t.take (n + 1) with
      | nil =>
        have h1 : (t.take (n + 1)).length = min (n + 1) t.length := List.length_take
        rw [hq] at h1
        simp only [List.length_nil] at h1
        omega
      | cons d u => simp [List.getLast?_cons_cons]

theorem untermEOF_fuel (B : Nat) (hB : 2 ≤ B) (f1 f2 : Nat) (s : Bytes)
    (h1 : s.length + 1 ≤ f1) (h2 : s.length + 1 ≤ f2) : untermEOF B f1 s = untermEOF B f2 s := by
  induction f1 generalizing f2 s with
  | zero => omega
  | succ f1 ih =>
    cases f2 with
    | zero => omega
    | succ f2 =>
      unfold untermEOF
      split
      · rfl
      · next hne =>
        split
        · rfl
        · next hlen =>
          have hb1 : ¬ B ≤ 1 := by omega
          simp only [hb1, if_false]
          have hpos : 0 < s.length := by omega
          split
          · apply ih <;> (simp only [List.length_drop]; omega)
          · apply ih <;> (simp only [List.length_drop]; omega)

/-- One fragment of the walk: the first `B` bytes hold no LF and the stream has at least `B`
bytes — the reader takes `B` bytes (`B - 1` when the last of them is a CR) and goes on. -/
theorem readLineB_step (B : Nat) (hB : 2 ≤ B) (s : Bytes) (hlen : B ≤ s.length)
    (hno : ∀ c ∈ s.take B, c ≠ 10) :
    readLineB B s =
      (readLineB B (s.drop (if lastIs 13 (s.take B) then B - 1 else B))).map
        (fun p => (s.take (if lastIs 13 (s.take B) then B - 1 else B) ++ p.1, p.2)) := by
  have hcr : ((s.drop (B - 1)).head? == some CR) = lastIs 13 (s.take B) := by
    have := head_drop_eq_last_take s (B - 1) (by omega)
    rw [show B - 1 + 1 = B from by omega] at this
    simp [lastIs, this, CR]
  generalize hk : (if lastIs 13 (s.take B) then B - 1 else B) = k
  have hk1 : 1 ≤ k := by rw [← hk]; split <;> omega
  have hkB : k ≤ B := by rw [← hk]; split <;> omega
  have hf : ∀ c ∈ s.take k, c ≠ 10 := by
    intro c hc
    apply hno c
    have : s.take k = (s.take B).take k := by rw [List.take_take, Nat.min_eq_left hkB]
    rw [this] at hc
    exact List.mem_of_mem_take hc
  have hsplit : s.take k ++ s.drop k = s := List.take_append_drop k s
  have hsne : s ≠ [] := by intro h; rw [h] at hlen; simp at hlen; omega
  -- the walk takes the same step
  have hwalk : untermEOF B (s.length + 1) s = untermEOF B s.length (s.drop k) := by
    conv => lhs; unfold untermEOF
    rw [if_neg (by simpa using hsne), if_neg (by omega), if_neg (by omega), hcr]
    rw [← hk]
    split <;> rfl
  have hs1 : splitLF s = (splitLF (s.drop k)).map (fun p => (s.take k ++ p.1, p.2)) := by
    conv => lhs; rw [← hsplit]
    exact splitLF_noLF_prefix hf _
  cases s with
  | nil => exact absurd rfl hsne
  | cons c0 t0 =>
    unfold readLineB
    simp only
    rw [hs1]
    cases hx : splitLF ((c0 :: t0).drop k) with
    | some p =>
      obtain ⟨a', rest⟩ := p
      have hxne : (c0 :: t0).drop k ≠ [] := by
        intro h; rw [h] at hx; simp [splitLF] at hx
      cases hd : (c0 :: t0).drop k with
      | nil => exact absurd hd hxne
      | cons c1 t1 =>
        rw [hd] at hx
        simp only [Option.map_some]
        congr 2
        by_cases ha : a' = []
        · -- the LF is the first byte behind the fragment: the fragment does not end in CR
          subst ha
          have hc1 : c1 = 10 := by
            have := splitLF_eq hx
            simp at this; exact this.1
          have hnl : lastIs 13 ((c0 :: t0).take B) = false := by
            cases hl : lastIs 13 ((c0 :: t0).take B) with
            | false => rfl
            | true =>
              exfalso
              rw [hl] at hk hcr
              simp only [if_true] at hk
              rw [hk, hd] at hcr
              simp [hc1, CR] at hcr
          rw [hnl] at hk
          simp only [Bool.false_eq_true, if_false] at hk
          subst hk
          simp only [List.append_nil, stripCR]
          rw [stripCR_eq, hnl]
          simp
        · exact stripCR_append ha _
    | none =>
      simp only [Option.map_none]
      rw [hwalk]
      cases hd : (c0 :: t0).drop k with
      | nil =>
        simp only [Option.map_none]
        have : untermEOF B (c0 :: t0).length [] = true := by
          simp only [List.length_cons]; unfold untermEOF; simp
        rw [this]; rfl
      | cons c1 t1 =>
        rw [hd] at hx
        simp only []
        have hfuel := untermEOF_fuel B hB (c0 :: t0).length ((c1 :: t1).length + 1) (c1 :: t1)
          (by have := congrArg List.length hd; simp only [List.length_drop] at this; omega) (by omega)
        rw [hfuel]
        split
        · rfl
        · simp only [Option.map_some]
          rw [← hd, hsplit]

/-! ### `readLineSlice` over the real reader = `readLineB` on the bytes -/

theorem rlsl_succ (B f : Nat) (acc d : Bytes) (st : Rd) :
    readLineSliceLoop (plainReadLine B) none (f + 1) acc d st =
      match (BufLine.readLine B st).1.err with
      | some e => ⟨.error e, (BufLine.readLine B st).2, d ++ []⟩
      | none =>
        if (BufLine.readLine B st).1.isPrefix then
          readLineSliceLoop (plainReadLine B) none f (acc ++ (BufLine.readLine B st).1.line) (d ++ [])
            (BufLine.readLine B st).2
        else ⟨.ok (acc ++ (BufLine.readLine B st).1.line), (BufLine.readLine B st).2, d ++ []⟩ := by
  conv => lhs; unfold readLineSliceLoop
  simp only [plainReadLine, overLimit, Bool.false_eq_true, if_false]
  cases (BufLine.readLine B st).1.err <;> rfl

theorem take_dropLast_of_cr (s : Bytes) (B : Nat) (hB : 1 ≤ B) (hlen : B ≤ s.length)
    (hcr : lastIs 13 (s.take B) = true) :
    (s.take B).dropLast = s.take (B - 1) ∧ s.drop (B - 1) = 13 :: s.drop B := by
  constructor
  · rw [List.dropLast_eq_take, List.take_take]
    congr 1
    simp only [List.length_take]
    omega
  · have h := head_drop_eq_last_take s (B - 1) (by omega)
    rw [show B - 1 + 1 = B from by omega] at h
    have hl : (s.take B).getLast? = some 13 := by simpa [lastIs] using hcr
    rw [hl] at h
    cases hd : s.drop (B - 1) with
    | nil => rw [hd] at h; simp at h
    | cons c t =>
      rw [hd] at h
      simp only [List.head?_cons, Option.some.injEq] at h
      subst h
      have : s.drop B = (s.drop (B - 1)).drop 1 := by
        rw [List.drop_drop]; congr 1; omega
      rw [this, hd]; rfl

/-- **readLineSlice_whole (loop).** Over clean scripts, for every buffer size `B ≥ 2`, every state
and every accumulated prefix: the fragment loop of `readLineSlice` ends exactly as `readLineB B`
says on the unread bytes — `io.EOF` where it says none, else the accumulated prefix plus its line,
leaving its rest. -/
theorem readLineSliceLoop_whole (B : Nat) (hB : 2 ≤ B) (f : Nat) (acc d : Bytes) (st : Rd)
    (hg : Good B st) (hf : st.bytes.length + 2 ≤ f) :
    (∀ l rest, readLineB B st.bytes = some (l, rest) →
      (readLineSliceLoop (plainReadLine B) none f acc d st).res = .ok (acc ++ l) ∧
      Good B (readLineSliceLoop (plainReadLine B) none f acc d st).st ∧
      (readLineSliceLoop (plainReadLine B) none f acc d st).st.bytes = rest) ∧
    (readLineB B st.bytes = none →
      (readLineSliceLoop (plainReadLine B) none f acc d st).res = .error (.src .eof) ∧
      Good B (readLineSliceLoop (plainReadLine B) none f acc d st).st ∧
      (readLineSliceLoop (plainReadLine B) none f acc d st).st.bytes = []) := by
  induction f generalizing acc d st with
  | zero => omega
  | succ f ih =>
    obtain ⟨hspec, hg1, hfull⟩ := readSlice_clean B st hg
    rw [rlsl_succ]
    cases hrs : readSlice B st with
    | mk r st1 =>
      rw [hrs] at hspec hg1 hfull
      simp only at hspec hg1 hfull
      unfold sliceSpec at hspec
      have hsplit : st.bytes.take B ++ st.bytes.drop B = st.bytes := List.take_append_drop B _
      cases hcut : cutNL (st.bytes.take B) with
      | some p =>
        obtain ⟨l, r'⟩ := p
        rw [hcut] at hspec
        simp only [Prod.mk.injEq] at hspec
        obtain ⟨hline, herr, hbytes⟩ := hspec
        have hfullcut := cutNL_prefix hcut (st.bytes.drop B)
        rw [hsplit] at hfullcut
        obtain ⟨a, hl, hsp⟩ := cutNL_splitLF hfullcut
        have hrest : st.bytes.drop l.length = r' ++ st.bytes.drop B := by
          have := cutNL_append hfullcut
          conv => lhs; rw [← this]
          simp
        have hrl : BufLine.readLine B st = (⟨stripCR a, false, none⟩, st1) := by
          unfold BufLine.readLine
          rw [hrs]
          simp only [herr, hline, hl]
          rw [if_neg (by simp), if_neg (by simp), dropEOL_snoc]
        have hw : readLineB B st.bytes = some (stripCR a, r' ++ st.bytes.drop B) := by
          cases hs : st.bytes with
          | nil => rw [hs] at hsp; simp [splitLF] at hsp
          | cons c t => rw [hs] at hsp; simp [readLineB, hsp]
        rw [hrl]
        simp only [Bool.false_eq_true, if_false]
        constructor
        · intro l' rest' hq
          rw [hw] at hq
          simp only [Option.some.injEq, Prod.mk.injEq] at hq
          obtain ⟨rfl, rfl⟩ := hq
          exact ⟨rfl, hg1, by rw [hbytes, hrest]⟩
        · intro hq; rw [hw] at hq; simp at hq
      | none =>
        rw [hcut] at hspec
        simp only at hspec
        obtain ⟨hnl1, hnl2⟩ := cutNL_none hcut
        by_cases hlen : B ≤ st.bytes.length
        · rw [if_pos hlen] at hspec
          simp only [Prod.mk.injEq] at hspec
          obtain ⟨hline, herr, hbytes⟩ := hspec
          obtain ⟨hb0, he0⟩ := hfull herr
          have hstep := readLineB_step B hB st.bytes hlen hnl2
          by_cases hcr : lastIs 13 (st.bytes.take B) = true
          · obtain ⟨htk, hdr⟩ := take_dropLast_of_cr st.bytes B (by omega) hlen hcr
            have hrl : BufLine.readLine B st =
                (⟨st.bytes.take (B - 1), true, none⟩, { st1 with buf := 13 :: st1.buf }) := by
              unfold BufLine.readLine
              rw [hrs]
              simp only [herr, hline, if_true, hcr, htk]
            have hg2 : Good B { st1 with buf := 13 :: st1.buf } :=
              ⟨hg1.clean, Or.inl he0, by simp [hb0]; omega, by simp [he0]⟩
            have hb2 : ({ st1 with buf := 13 :: st1.buf } : Rd).bytes = st.bytes.drop (B - 1) := by
              rw [hdr, ← hbytes]; simp [Rd.bytes]
            rw [hrl]
            simp only [if_true]
            have hf2 : ({ st1 with buf := 13 :: st1.buf } : Rd).bytes.length + 2 ≤ f := by
              rw [hb2]; simp only [List.length_drop]; omega
            obtain ⟨ih1, ih2⟩ := ih (acc ++ st.bytes.take (B - 1)) (d ++ []) _ hg2 hf2
            rw [hb2] at ih1 ih2
            simp only [hcr, if_true] at hstep
            constructor
            · intro l' rest' hq
              rw [hstep] at hq
              cases hx : readLineB B (st.bytes.drop (B - 1)) with
              | none => rw [hx] at hq; simp at hq
              | some p =>
                obtain ⟨l2, r2⟩ := p
                rw [hx] at hq
                simp only [Option.map_some, Option.some.injEq, Prod.mk.injEq] at hq
                obtain ⟨rfl, rfl⟩ := hq
                have := ih1 l2 r2 hx
                rw [List.append_assoc] at this
                exact this
            · intro hq
              rw [hstep] at hq
              cases hx : readLineB B (st.bytes.drop (B - 1)) with
              | none => exact ih2 hx
              | some p => rw [hx] at hq; simp at hq
          · have hcr' : lastIs 13 (st.bytes.take B) = false := by
              cases h : lastIs 13 (st.bytes.take B) <;> simp_all
            have hrl : BufLine.readLine B st = (⟨st.bytes.take B, true, none⟩, st1) := by
              unfold BufLine.readLine
              rw [hrs]
              simp only [herr, hline, if_true, hcr', Bool.false_eq_true, if_false]
            rw [hrl]
            simp only [if_true]
            have hf2 : st1.bytes.length + 2 ≤ f := by
              rw [hbytes]; simp only [List.length_drop]; omega
            obtain ⟨ih1, ih2⟩ := ih (acc ++ st.bytes.take B) (d ++ []) st1 hg1 hf2
            rw [hbytes] at ih1 ih2
            simp only [hcr', Bool.false_eq_true, if_false] at hstep
            constructor
            · intro l' rest' hq
              rw [hstep] at hq
              cases hx : readLineB B (st.bytes.drop B) with
              | none => rw [hx] at hq; simp at hq
              | some p =>
                obtain ⟨l2, r2⟩ := p
                rw [hx] at hq
                simp only [Option.map_some, Option.some.injEq, Prod.mk.injEq] at hq
                obtain ⟨rfl, rfl⟩ := hq
                have := ih1 l2 r2 hx
                rw [List.append_assoc] at this
                exact this
            · intro hq
              rw [hstep] at hq
              cases hx : readLineB B (st.bytes.drop B) with
              | none => exact ih2 hx
              | some p => rw [hx] at hq; simp at hq
        · rw [if_neg hlen] at hspec
          simp only [Prod.mk.injEq] at hspec
          obtain ⟨hline, herr, hbytes⟩ := hspec
          have htake : st.bytes.take B = st.bytes := List.take_of_length_le (by omega)
          rw [htake] at hnl1 hnl2
          cases hs : st.bytes with
          | nil =>
            have hrl : BufLine.readLine B st = (⟨[], false, some (.src .eof)⟩, st1) := by
              unfold BufLine.readLine
              rw [hrs]
              simp [herr, hline, hs]
            rw [hrl]
            simp only
            constructor
            · intro l' rest' hq; simp [readLineB] at hq
            · intro _; exact ⟨trivial, hg1, hbytes⟩
          | cons c t =>
            have hrl : BufLine.readLine B st = (⟨st.bytes, false, none⟩, st1) := by
              unfold BufLine.readLine
              rw [hrs]
              simp only [herr, hline]
              rw [if_neg (by simp), if_neg (by rw [hs]; simp), dropEOL_noLF hnl2]
            have hw : readLineB B (c :: t) = some (c :: t, []) := by
              rw [hs] at hnl1 hlen
              unfold readLineB
              simp only [hnl1]
              have : untermEOF B ((c :: t).length + 1) (c :: t) = false := by
                unfold untermEOF
                rw [if_neg (by simp), if_pos (by omega)]
              rw [this]; simp
            rw [hrl]
            simp only [Bool.false_eq_true, if_false]
            constructor
            · intro l' rest' hq
              rw [hw] at hq
              simp only [Option.some.injEq, Prod.mk.injEq] at hq
              obtain ⟨rfl, rfl⟩ := hq
              exact ⟨by rw [hs], hg1, hbytes⟩
            · intro hq; rw [hw] at hq; simp at hq

theorem readLineSlice_whole (B : Nat) (hB : 2 ≤ B) (st : Rd) (hg : Good B st) :
    (∀ l rest, readLineB B st.bytes = some (l, rest) →
      (readLineSlice (plainReadLine B) none st).res = .ok l ∧
      Good B (readLineSlice (plainReadLine B) none st).st ∧
      (readLineSlice (plainReadLine B) none st).st.bytes = rest) ∧
    (readLineB B st.bytes = none →
      (readLineSlice (plainReadLine B) none st).res = .error (.src .eof) ∧
      Good B (readLineSlice (plainReadLine B) none st).st ∧
      (readLineSlice (plainReadLine B) none st).st.bytes = []) := by
  have := readLineSliceLoop_whole B hB (st.bytes.length + 2) [] [] st hg (Nat.le_refl _)
  simpa [readLineSlice] using this

/-! ### `skipSpace` = `countOWS` -/

theorem skipSpaceLoop_whole (B : Nat) (hB : 0 < B) (f : Nat) (acc : Bytes) (st : Rd) (hg : Good B st)
    (hf : st.bytes.length + 1 ≤ f) :
    (skipSpaceLoop B f acc st).1 = acc ++ st.bytes.take (countOWS st.bytes) ∧
    (skipSpaceLoop B f acc st).2.bytes = st.bytes.drop (countOWS st.bytes) ∧
    Good B (skipSpaceLoop B f acc st).2 := by
  induction f generalizing acc st with
  | zero => omega
  | succ f ih =>
    obtain ⟨hspec, hg1, hun⟩ := readByte_clean B hB st hg
    unfold skipSpaceLoop
    cases hrb : readByte B st with
    | mk r st1 =>
      rw [hrb] at hspec hg1 hun
      simp only at hspec hg1 hun ⊢
      cases hs : st.bytes with
      | nil =>
        rw [hs] at hspec
        simp only [byteSpec, Prod.mk.injEq] at hspec
        obtain ⟨rfl, hb1⟩ := hspec
        simp only [countOWS, List.take_nil, List.append_nil, List.drop_nil]
        exact ⟨trivial, hb1, hg1⟩
      | cons c t =>
        rw [hs] at hspec hf
        simp only [byteSpec, Prod.mk.injEq] at hspec
        obtain ⟨rfl, hb1⟩ := hspec
        simp only
        have hows : isSpTab c = isOWS c := rfl
        by_cases hc : isOWS c = true
        · rw [hows, if_pos hc]
          have := ih (acc ++ [c]) st1 hg1 (by rw [hb1]; simp only [List.length_cons] at hf; omega)
          rw [hb1] at this
          simp only [countOWS, hc, if_true, List.take_succ_cons, List.drop_succ_cons]
          simpa [List.append_assoc] using this
        · rw [hows, if_neg hc]
          simp only [countOWS, hc, Bool.false_eq_true, if_false, List.take_zero, List.append_nil, List.drop_zero]
          exact ⟨trivial, by simp [Rd.bytes] at hb1 ⊢; exact hb1, hun c rfl⟩

theorem skipSpace_whole (B : Nat) (hB : 0 < B) (st : Rd) (hg : Good B st) :
    (skipSpace B st).1 = st.bytes.take (countOWS st.bytes) ∧
    (skipSpace B st).2.bytes = st.bytes.drop (countOWS st.bytes) ∧
    Good B (skipSpace B st).2 := by
  have := skipSpaceLoop_whole B hB (st.bytes.length + 1) [] st hg (Nat.le_refl _)
  simpa [skipSpace] using this

theorem take_countOWS_isEmpty (s : Bytes) : (s.take (countOWS s)).isEmpty = decide (countOWS s = 0) := by
  cases s with
  | nil => simp [countOWS]
  | cons c t =>
    unfold countOWS
    split <;> simp

/-! ### continuation lines = `readContB` -/

theorem contLoopV_whole (B : Nat) (hB : 2 ≤ B) (f : Nat) (acc : Bytes) (st : Rd) (hg : Good B st) :
    (contLoopV B f acc st).1 = .ok (readContB B f acc st.bytes).1 ∧
    (contLoopV B f acc st).2.bytes = (readContB B f acc st.bytes).2 ∧
    Good B (contLoopV B f acc st).2 := by
  induction f generalizing acc st with
  | zero => exact ⟨rfl, rfl, hg⟩
  | succ f ih =>
    obtain ⟨hsk, hskb, hskg⟩ := skipSpace_whole B (by omega) st hg
    unfold contLoopV readContB
    cases hss : skipSpace B st with
    | mk sk st1 =>
      rw [hss] at hsk hskb hskg
      simp only at hsk hskb hskg ⊢
      rw [hsk, take_countOWS_isEmpty]
      by_cases hn : countOWS st.bytes = 0
      · simp only [hn, decide_true, if_true]
        rw [hn] at hskb
        exact ⟨by first | rfl | trivial, by simpa using hskb, hskg⟩
      · simp only [hn, decide_false, Bool.false_eq_true, if_false]
        obtain ⟨hw1, hw2⟩ := readLineSlice_whole B hB st1 hskg
        rw [hskb] at hw1 hw2
        cases hx : readLineB B (st.bytes.drop (countOWS st.bytes)) with
        | none =>
          obtain ⟨hr, hgg, hbb⟩ := hw2 hx
          cases hq : readLineSlice (plainReadLine B) none st1 with
          | mk res st2 dd =>
            rw [hq] at hr hgg hbb
            simp only at hr hgg hbb
            subst hr
            exact ⟨rfl, hbb, hgg⟩
        | some p =>
          obtain ⟨l, rest⟩ := p
          obtain ⟨hr, hgg, hbb⟩ := hw1 l rest hx
          cases hq : readLineSlice (plainReadLine B) none st1 with
          | mk res st2 dd =>
            rw [hq] at hr hgg hbb
            simp only at hr hgg hbb
            subst hr
            simp only
            have := ih (acc ++ [32] ++ trimOWS l) st2 hgg
            rw [hbb] at this
            exact this

/-- `readContinuedLineSlice` as a function of the unread bytes — the body of `mimeLoopE`'s loop. -/
def contSpec (B : Nat) (valid : Bytes → Bool) (s : Bytes) : ContRes × Bytes :=
  match readLineB B s with
  | none => (.err (.src .eof), [])
  | some (l, rest) =>
    if l.isEmpty then (.ok [], rest)
    else if !valid l then (.invalid, rest)
    else (.ok (readContB B (rest.length + 1) (trimOWS l) rest).1,
          (readContB B (rest.length + 1) (trimOWS l) rest).2)

theorem readContinuedSlow_whole (B : Nat) (hB : 2 ≤ B) (valid : Bytes → Bool) (st : Rd) (hg : Good B st) :
    (readContinuedSlow B valid st).1 = (contSpec B valid st.bytes).1 ∧
    (readContinuedSlow B valid st).2.bytes = (contSpec B valid st.bytes).2 ∧
    Good B (readContinuedSlow B valid st).2 := by
  obtain ⟨hw1, hw2⟩ := readLineSlice_whole B hB st hg
  unfold readContinuedSlow contSpec
  cases hx : readLineB B st.bytes with
  | none =>
    obtain ⟨hr, hgg, hbb⟩ := hw2 hx
    cases hq : readLineSlice (plainReadLine B) none st with
    | mk res st1 dd =>
      rw [hq] at hr hgg hbb
      simp only at hr hgg hbb
      subst hr
      exact ⟨rfl, hbb, hgg⟩
  | some p =>
    obtain ⟨l, rest⟩ := p
    obtain ⟨hr, hgg, hbb⟩ := hw1 l rest hx
    cases hq : readLineSlice (plainReadLine B) none st with
    | mk res st1 dd =>
      rw [hq] at hr hgg hbb
      simp only at hr hgg hbb
      subst hr
      simp only
      split
      · exact ⟨rfl, hbb, hgg⟩
      · split
        · exact ⟨rfl, hbb, hgg⟩
        · have := contLoopV_whole B hB (st1.bytes.length + 1) (trimOWS l) st1 hgg
          rw [hbb] at this ⊢
          exact this

/-- **continued_line_whole_stream.** For every buffer size `B ≥ 2`, first-line check and aliasing
reader over a clean script: `readContinuedLineSlice` of the code (array, views, fast path,
fragments, put-backs — under whatever segmentation) returns, by content, exactly what the
whole-stream model `readLineB` + `readContB` (the loop body of `mimeLoopE`) computes from the unread
bytes, and leaves exactly its rest. -/
theorem continued_line_whole_stream (B : Nat) (hB : 2 ≤ B) (valid : Bytes → Bool) (a : ARd)
    (hg : Good B a.rd) :
    (areadContinued B 1 valid a).1 = (contSpec B valid a.rd.bytes).1 ∧
    (areadContinued B 1 valid a).2.rd.bytes = (contSpec B valid a.rd.bytes).2 ∧
    Good B (areadContinued B 1 valid a).2.rd := by
  obtain ⟨p1, q1⟩ := continued_line_alias_safe_slow B valid a
  rw [p1, q1]
  exact readContinuedSlow_whole B hB valid a.rd hg

/-! ### the header block: `readMIMEHeader`'s loop over the aliasing reader = `mimeLoopE` -/

theorem mem_dropWhile_of_not {p : UInt8 → Bool} {c : UInt8} (l : Bytes) (hc : c ∈ l) (hp : p c = false) :
    c ∈ l.dropWhile p := by
  induction l with
  | nil => simp at hc
  | cons x t ih =>
    by_cases hx : p x = true
    · rw [List.dropWhile_cons_of_pos hx]
      rcases List.mem_cons.mp hc with rfl | h
      · rw [hp] at hx; simp at hx
      · exact ih h
    · rw [List.dropWhile_cons_of_neg hx]; exact hc

theorem trimOWS_ne_nil {l : Bytes} (h : l.contains 58 = true) : trimOWS l ≠ [] := by
  have hm : (58 : UInt8) ∈ l := by simpa using h
  have h1 := mem_dropWhile_of_not (p := isOWS) l hm (by decide)
  have h2 := mem_dropWhile_of_not (p := isOWS) _ (List.mem_reverse.mpr h1) (by decide)
  intro h0
  unfold trimOWS at h0
  have : (58 : UInt8) ∈ ((l.dropWhile isOWS).reverse.dropWhile isOWS).reverse := List.mem_reverse.mpr h2
  rw [h0] at this
  simp at this

theorem readContB_ne_nil (B f : Nat) (acc s : Bytes) (h : acc ≠ []) : (readContB B f acc s).1 ≠ [] := by
  induction f generalizing acc s with
  | zero => exact h
  | succ f ih =>
    unfold readContB
    simp only
    split
    · exact h
    · split
      · simp
      · exact ih _ _ (by simp)

/-- **head_incremental_is_whole_stream.** The header-block loop of the real reader (aliasing
`bufio.Reader`, every buffer size `B ≥ 2`, every clean segmentation of the connection) computes the
whole-stream model `mimeLoopE B` that the C04 theorems are stated about: same map, same error
class, same unread rest. -/
theorem head_incremental_is_whole_stream (B : Nat) (hB : 2 ≤ B) (f : Nat) (m : HeaderMap) (a : ARd)
    (hg : Good B a.rd) :
    (match amimeLoop B f m a with
      | .ok (m', a') => Except.ok (m', a'.rd.bytes)
      | .error e => Except.error e) = mimeLoopE B f m a.rd.bytes := by
  induction f generalizing m a with
  | zero => rfl
  | succ f ih =>
    obtain ⟨h1, h2, h3⟩ := continued_line_whole_stream B hB (fun l => l.contains 58) a hg
    unfold amimeLoop mimeLoopE
    unfold contSpec at h1 h2
    cases hr : areadContinued B 1 (fun l => l.contains 58) a with
    | mk r a1 =>
      rw [hr] at h1 h2 h3
      simp only at h1 h2 h3
      cases hx : readLineB B a.rd.bytes with
      | none =>
        rw [hx] at h1 h2
        simp only at h1 h2
        subst h1
        rfl
      | some p =>
        obtain ⟨l, rest⟩ := p
        rw [hx] at h1 h2
        simp only at h1 h2 ⊢
        by_cases hl : l.isEmpty = true
        · rw [if_pos hl] at h1 h2
          simp only at h1 h2
          subst h1
          simp only [hl, if_true, List.isEmpty_nil, h2]
        · rw [if_neg hl] at h1 h2
          simp only [hl, Bool.false_eq_true, if_false]
          by_cases hv : l.contains 58 = true
          · have hv' : (!l.contains 58) = false := by rw [hv]; rfl
            rw [hv'] at h1 h2
            simp only [Bool.false_eq_true, if_false] at h1 h2
            subst h1
            have hne := readContB_ne_nil B (rest.length + 1) (trimOWS l) rest (trimOWS_ne_nil hv)
            have hne' : (readContB B (rest.length + 1) (trimOWS l) rest).1.isEmpty = false := by
              cases hq : (readContB B (rest.length + 1) (trimOWS l) rest).1 with
              | nil => exact absurd hq hne
              | cons _ _ => rfl
            simp only [hv', Bool.false_eq_true, if_false, hne']
            cases hadd : addHeaderLine m (readContB B (rest.length + 1) (trimOWS l) rest).1 with
            | none => rfl
            | some m' =>
              simp only
              have := ih m' a1 h3
              rw [h2] at this
              exact this
          · have hv0 : l.contains 58 = false := by
              cases h : l.contains 58 with
              | false => rfl
              | true => exact absurd h hv
            have hv' : (!l.contains 58) = true := by rw [hv0]; rfl
            rw [hv'] at h1 h2
            simp only [if_true] at h1 h2
            subst h1
            simp only [hv', if_true]

/-- The status line is read by the same `readLineSlice`: `_readResponse`'s first line. -/
theorem status_line_whole_stream (B : Nat) (hB : 2 ≤ B) (a : ARd) (hg : Good B a.rd)
    (l rest : Bytes) (h : readLineB B a.rd.bytes = some (l, rest)) :
    resGet (areadLineSlice B a).2 (areadLineSlice B a).1 = .ok l ∧
    (areadLineSlice B a).2.rd.bytes = rest := by
  obtain ⟨g1, g2⟩ := readLineSlice_view B a
  obtain ⟨hw, _⟩ := readLineSlice_whole B hB a.rd hg
  obtain ⟨hr, _, hb⟩ := hw l rest h
  rw [g2, g1]
  exact ⟨hr, hb⟩

/-! ### the whole response head -/

theorem peekTail (B : Nat) (x : ARd) (hg : Good B x.rd) (hne : x.rd.buf = [] → x.rd.bytes = []) :
    Good B (if x.rd.buf.length < 1 then clearErr x else x).rd ∧
    (if x.rd.buf.length < 1 then clearErr x else x).rd.bytes = x.rd.bytes ∧
    (if x.rd.buf.length < 1 then clearErr x else x).rd.buf.head? = x.rd.bytes.head? := by
  by_cases hb : x.rd.buf.length < 1
  · have hbuf : x.rd.buf = [] := List.eq_nil_of_length_eq_zero (by omega)
    rw [if_pos hb]
    refine ⟨⟨hg.clean, Or.inl rfl, hg.len, by simp [clearErr]⟩, by simp [clearErr, Rd.bytes], ?_⟩
    rw [hne hbuf]
    simp [clearErr, hbuf]
  · rw [if_neg hb]
    refine ⟨hg, rfl, ?_⟩
    cases hq : x.rd.buf with
    | nil => rw [hq] at hb; simp at hb
    | cons c t => simp [Rd.bytes, hq]

theorem apeek1_good (B : Nat) (hB : 0 < B) (a : ARd) (hg : Good B a.rd) :
    Good B (apeek1 B a).rd ∧ (apeek1 B a).rd.bytes = a.rd.bytes ∧
    (apeek1 B a).rd.buf.head? = a.rd.bytes.head? := by
  unfold apeek1
  by_cases hc : a.rd.buf.length < 1 ∧ 0 < B ∧ a.rd.err = none
  · simp only [hc, and_self, if_true]
    have hbuf : a.rd.buf = [] := List.eq_nil_of_length_eq_zero (by omega)
    obtain ⟨hg1, hb1, d, hd, hcase⟩ := fill_good B a.rd hg hc.2.2 (by rw [hbuf]; exact hB)
    rw [hbuf, List.nil_append] at hd
    have hfill : (afill B a).rd = fill B a.rd := rfl
    have := peekTail B (afill B a) (by rw [hfill]; exact hg1) (by
      rw [hfill]
      intro h0
      rcases hcase with ⟨hdne, _⟩ | ⟨_, _, _, hs1⟩
      · rw [hd] at h0; exact absurd h0 hdne
      · simp [Rd.bytes, h0, hs1, srcBytes])
    rw [hfill, hb1] at this
    exact this
  · rw [if_neg hc]
    apply peekTail B a hg
    intro hbuf
    have he : a.rd.err ≠ none := by
      intro he
      exact hc ⟨by rw [hbuf]; simp, hB, he⟩
    rcases hg.err with h0 | ⟨_, h2⟩
    · exact absurd h0 he
    · simp [Rd.bytes, hbuf, h2, srcBytes]

/-- **response_head_incremental_is_whole_stream.** `_readResponse`'s head over the aliasing reader
(every `B ≥ 2`, every clean segmentation) = `parseHeadE B` on the bytes: same accept/reject, error
class, status line, header map, `Close`, `ContentLength`, `TransferEncoding`, framing decision and
unread rest — whenever the header block does not start with a blank (that rejection path is
`initialBlankClass` on the whole-stream side only). -/
theorem response_head_incremental_is_whole_stream (B : Nat) (hB : 2 ≤ B) (isHead : Bool) (a : ARd)
    (hg : Good B a.rd) (r : Except ErrClass (Msg × ARd)) (h : aparseHead B isHead a = some r) :
    (match r with
      | .ok (m, a') => Except.ok (m, a'.rd.bytes)
      | .error e => Except.error e) = parseHeadE B isHead a.rd.bytes := by
  obtain ⟨g1, g2⟩ := readLineSlice_view B a
  obtain ⟨hw1, hw2⟩ := readLineSlice_whole B hB a.rd hg
  unfold aparseHead at h
  unfold parseHeadE
  cases hl : areadLineSlice B a with
  | mk res a1 =>
    rw [hl] at h g1 g2
    simp only at h g1 g2
    cases hx : readLineB B a.rd.bytes with
    | none =>
      obtain ⟨hr, _, _⟩ := hw2 hx
      rw [← g2] at hr
      cases res with
      | ok ln => simp [resGet] at hr
      | error e =>
        simp only [Option.some.injEq] at h
        subst h
        rfl
    | some p =>
      obtain ⟨line, rest⟩ := p
      obtain ⟨hr, hgg, hbb⟩ := hw1 line rest hx
      rw [← g2] at hr
      rw [← g1] at hgg hbb
      cases res with
      | error e => simp [resGet] at hr
      | ok ln =>
        simp only [resGet, Res.ok.injEq] at hr
        simp only [hr] at h
        simp only
        cases hsl : parseStatusLine line with
        | none =>
          rw [hsl] at h
          simp only [Option.some.injEq] at h
          subst h
          rfl
        | some sl =>
          rw [hsl] at h
          simp only at h ⊢
          obtain ⟨pg, pb, ph⟩ := apeek1_good B (by omega) a1 hgg
          rw [hbb] at pb ph
          split at h
          · simp at h
          · next hnb =>
            rw [ph] at hnb
            have hmime := head_incremental_is_whole_stream B hB ((apeek1 B a1).rd.bytes.length + 1) []
              (apeek1 B a1) pg
            rw [pb] at hmime
            have hrm : readMIMEHeaderE B rest = mimeLoopE B (rest.length + 1) [] rest := by
              unfold readMIMEHeaderE
              cases rest with
              | nil => simp [mimeLoopE, readLineB]
              | cons c t =>
                simp only [List.head?_cons, Option.map_some] at hnb
                have : isOWS c = false := by
                  cases hc : isOWS c with
                  | false => rfl
                  | true => rw [hc] at hnb; simp at hnb
                simp [this]
            rw [hrm, ← hmime]
            rw [pb] at h
            cases ham : amimeLoop B (rest.length + 1) [] (apeek1 B a1) with
            | error e =>
              rw [ham] at h
              simp only [Option.some.injEq] at h
              subst h
              rfl
            | ok q =>
              obtain ⟨hh, a3⟩ := q
              rw [ham] at h
              simp only at h ⊢
              cases hrt : readTransfer isHead sl (fixPragmaCacheControl hh) with
              | none =>
                rw [hrt] at h
                simp only [Option.some.injEq] at h
                subst h
                rfl
              | some m =>
                rw [hrt] at h
                simp only [Option.some.injEq] at h
                subst h
                rfl

/-! ### non-vacuity -/

/-- "K: v\r\n w\r\n\r\nR" cut into 1-byte segments, 16-byte buffer: one header `K: v w`, rest "R". -/
def oneByteSegs : ARd := ARd.init 16
  ([75, 58, 32, 118, 13, 10, 32, 119, 13, 10, 13, 10, 82].map fun b => (⟨[b], none⟩ : Chunk))

example : Good 16 oneByteSegs.rd := good_ofSrc 16 _ (by unfold Clean; decide)

set_option maxRecDepth 100000 in
example : (match amimeLoop 16 20 [] oneByteSegs with
    | .ok (m, a) => some (m, a.rd.bytes)
    | .error _ => none) = some ([([75], [[118, 32, 119]])], [82]) := by decide

set_option maxRecDepth 100000 in
example : (match mimeLoopE 16 20 [] [75, 58, 32, 118, 13, 10, 32, 119, 13, 10, 13, 10, 82] with
    | .ok p => some p
    | .error _ => none) = some ([([75], [[118, 32, 119]])], [82]) := by decide

/-- the B-dependent corner is part of the equality: 16 unterminated bytes, B = 16 → `io.EOF`. -/
example : readLineB 16 (List.replicate 16 120) = none ∧ (readLineB 17 (List.replicate 16 120)).isSome := by
  decide

end Req.Props.C04
