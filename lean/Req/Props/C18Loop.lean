import Req.Client.Retry
import Req.Props.C18Pipeline
/-!
C18 — property theorems, part 5: the attempt loop of a call is ANY outcome script.

The error-contract theorems of `Req.Props.C18Pipeline` (`pipeline_never_panics`,
`resp_nonnil_and_err_agree`, `onError_once`, `request_mw_order`, `response_mw_every_attempt`,
`stage_error_is_seen`, `success/error_bound_call`) are stated over `run fx s` for ALL stacks `s`,
and a stack now scripts the whole control of `do()`'s loop: `SetRetryCount(n)` with `n ≥ 0` or
`n < 0` (`unbounded`), the default rule or scripted retry conditions per attempt, an error that
wraps `context.Canceled` coming out of any attempt, the request's context being done at the wait
before any retry. This file ties that loop to the retry-loop model of property C10
(`Req.Retry`): the loop continues after an attempt EXACTLY when C10's specification `wants` says
a further attempt is made, on the C10 view of that attempt; and the fuel the model needs for an
unbounded loop is immaterial as soon as the script lets the call end.
-/
namespace Req.Props.C18
open Req.Result Req.Pipeline

/-- Does `do()` go on to another attempt after attempt `a` ended as `t`? (The loop's tests in
the order of the code.) -/
def continues (s : Stack) (a : Nat) (t : Att) : Bool :=
  !t.crash && !t.returned && !cannotRetry s a t.err && needRetry s a t.err && t.resp.isSome && !s.ctxDoneAt a

/-- One unfolding of the loop: it stops with this attempt, or goes on with the cleaned-up
response — according to `continues`. -/
theorem doLoop_step (fx : Fixes) (s : Stack) (fuel a : Nat) (prev : Option Resp) :
    (continues s a (attempt fx s a prev) = true ∧ ∃ r, (attempt fx s a prev).resp = some r ∧
      doLoop fx s (fuel + 1) a prev =
        { doLoop fx s fuel (a + 1) (some (cleanup (applyHook r (s.retryHookAt a)))) with
          atts := attempt fx s a prev :: (doLoop fx s fuel (a + 1) (some (cleanup (applyHook r (s.retryHookAt a))))).atts }) ∨
    (continues s a (attempt fx s a prev) = false ∧ (doLoop fx s (fuel + 1) a prev).atts = [attempt fx s a prev] ∧
      (doLoop fx s (fuel + 1) a prev).exhausted = false) := by
  simp only [doLoop, continues]
  generalize attempt fx s a prev = t
  by_cases hc : t.crash = true
  · right; simp [hc, crashOut]
  · by_cases hret : t.returned = true
    · right; simp [hc, hret, stopOut]
    · by_cases hcr : cannotRetry s a t.err = true
      · right; simp [hc, hret, hcr, stopOut]
      · by_cases hn : needRetry s a t.err = true
        · cases hr : t.resp with
          | none => right; simp [hc, hret, hcr, hn, crashOut]
          | some r =>
            by_cases hx : s.ctxDoneAt a = true
            · right; simp [hc, hret, hcr, hn, hx, waitOut]
            · left; simp [hc, hret, hcr, hn, hx]
        · right; simp [hc, hret, hcr, hn, stopOut]

/-- **fuel_is_immaterial** — if the loop comes to an end with some fuel, it gives the very same
result with any larger fuel: for an unbounded retry the answer of the model does not depend on
the bound the model needs to be a total function. -/
theorem fuel_is_immaterial (fx : Fixes) (s : Stack) :
    ∀ fuel a prev, (doLoop fx s fuel a prev).exhausted = false →
      ∀ k, doLoop fx s (fuel + k) a prev = doLoop fx s fuel a prev := by
  intro fuel
  induction fuel with
  | zero => intro a prev h; simp [doLoop, exhaustedOut] at h
  | succ fuel ih =>
    intro a prev h k
    have e : fuel + 1 + k = (fuel + k) + 1 := by omega
    rw [e]
    simp only [doLoop] at h ⊢
    generalize attempt fx s a prev = t at h ⊢
    by_cases hc : t.crash = true
    · simp [hc]
    · by_cases hret : t.returned = true
      · simp [hc, hret]
      · by_cases hcr : cannotRetry s a t.err = true
        · simp [hc, hret, hcr]
        · by_cases hn : needRetry s a t.err = true
          · cases hr : t.resp with
            | none => simp [hc, hret, hcr, hn]
            | some r =>
              by_cases hx : s.ctxDoneAt a = true
              · simp [hc, hret, hcr, hn, hx]
              · simp only [hc, hret, hcr, hn, hr, hx, if_false, if_true] at h ⊢
                rw [ih _ _ h k]
          · simp [hc, hret, hcr, hn]

/-! ### agreement with the retry-loop model of C10 -/

/-- The C10 view (`Req.Retry.Outcome`) of one attempt of the C18 pipeline. -/
def outcomeOf (s : Stack) (a : Nat) (t : Att) : Retry.Outcome :=
  if t.returned = true ∧ Ev.builtin ∉ t.evs then .beforeErr             -- a request middleware failed
  else if t.err = some .ctxCanceled then .cancelled
  else
    let code : Nat := match t.resp.bind (·.http) with
      | some h => h.status.toNat
      | none => 0
    if s.ctxDoneAt a then (if t.err.isSome then .deadlineCtx else .lateCancel code)
    else match t.err, t.resp.bind (·.http) with
      | none, _ => .status code
      | some _, some _ => .badBody code
      | some _, none => .transportErr

/-- The C10 policy of a stack: `MaxRetries` (negative = unbounded), the scripted joint verdict of
the retry conditions, and — as the one request-level response middleware C10 knows — "a
request-level response middleware returned an error in this attempt". -/
def policyOf (s : Stack) (aborts : Nat → Bool) : Retry.Policy Unit :=
  { enabled := true
    maxRetries := if s.unbounded then -1 else (s.maxRetries : Int)
    conds := match s.conds with
      | none => []
      | some l => [(0, fun o => l.getD o.attempt false)]
    hooks := []
    after := [fun o => aborts o.attempt]
    interval := .dflt }

theorem outcomeOf_errKind (s : Stack) (a : Nat) (t : Att)
    (h1 : ¬ (t.returned = true ∧ Ev.builtin ∉ t.evs)) (h2 : t.err ≠ some .ctxCanceled) :
    (outcomeOf s a t).errKind.isSome = t.err.isSome := by
  unfold outcomeOf
  rw [if_neg h1, if_neg h2]
  simp only
  split
  · split <;> rename_i he <;> simp [Retry.Outcome.errKind, he]
  · cases he : t.err <;> cases hh : t.resp.bind (·.http) <;> simp [Retry.Outcome.errKind]

/-- **retry_decision_agrees_with_C10** — after ANY attempt of ANY stack (the repaired code's
attempt never crashes and leaves a response), `do()` goes on to a further attempt exactly when
C10's specification `Req.Retry.wants` says so on the C10 view of the attempt: no request or
response middleware aborted the call, the error does not wrap `context.Canceled`, retries are
left (`MaxRetries < 0` or `RetryAttempt < MaxRetries`), the conditions — or the default rule —
ask for it, and the context is not done when the wait begins. -/
theorem retry_decision_agrees_with_C10 (s : Stack) (a : Nat) (prev : Option Resp) :
    continues s a (attempt Fixes.all s a prev) =
      Retry.wants (policyOf s (fun i => decide (i = a) && (attempt Fixes.all s a prev).returned))
        (outcomeOf s a (attempt Fixes.all s a prev)) a := by
  obtain ⟨hc, hr⟩ := attempt_some Fixes.all rfl rfl s a prev
  generalize attempt Fixes.all s a prev = t at hc hr ⊢
  have hcr : t.crash = false := hc
  by_cases hb : t.returned = true ∧ Ev.builtin ∉ t.evs
  · -- request phase failed
    have ho : outcomeOf s a t = .beforeErr := by unfold outcomeOf; rw [if_pos hb]
    simp [continues, Retry.wants, ho, hb.1]
  · by_cases hret : t.returned = true
    · -- a request-level response middleware returned an error
      have hne : outcomeOf s a t ≠ .beforeErr := by
        unfold outcomeOf; rw [if_neg hb]
        split
        · simp
        · simp only; split
          · split <;> simp
          · split <;> simp
      simp [continues, Retry.wants, Retry.aborted, policyOf, hret]
    · have hrs : t.resp.isSome = true := by
        rcases hr with h | ⟨h, _⟩
        · exact h
        · exact absurd h hret
      by_cases hcan : t.err = some .ctxCanceled
      · have ho : outcomeOf s a t = .cancelled := by unfold outcomeOf; rw [if_neg hb, if_pos hcan]
        simp [continues, Retry.wants, ho, cannotRetry, hcan]
      · have hek := outcomeOf_errKind s a t hb hcan
        have hne1 : (outcomeOf s a t != .beforeErr) = true := by
          unfold outcomeOf; rw [if_neg hb, if_neg hcan]
          simp only; split
          · split <;> simp
          · split <;> simp
        have hne2 : (outcomeOf s a t != .cancelled) = true := by
          unfold outcomeOf; rw [if_neg hb, if_neg hcan]
          simp only; split
          · split <;> simp
          · split <;> simp
        have hctx : (outcomeOf s a t).ctxDone = s.ctxDoneAt a := by
          unfold outcomeOf; rw [if_neg hb, if_neg hcan]
          simp only
          cases hx : s.ctxDoneAt a
          · simp only [Bool.false_eq_true, if_false]
            split <;> rfl
          · simp only [if_true]
            split <;> rfl
        have hfa : (decide (a = a) && t.returned) = false := by simp [hret]
        generalize hf : (fun i => decide (i = a) && t.returned) = f
        have hfa' : f a = false := by rw [← hf]; exact hfa
        have hab : Retry.aborted (policyOf s f) (outcomeOf s a t) a = false := by
          simp [Retry.aborted, policyOf, hfa']
        have hneed : Retry.need (policyOf s f) (outcomeOf s a t) a = needRetry s a t.err := by
          unfold Retry.need needRetry policyOf
          cases hcs : s.conds with
          | none => simp [hek]
          | some l => simp
        have hcanb : (t.err == some Err.ctxCanceled) = false := by
          cases he : t.err with
          | none => rfl
          | some e => simp only [beq_eq_false_iff_ne, ne_eq]; rw [he] at hcan; exact hcan
        have hen : (policyOf s f).enabled = true := rfl
        have hmax : (policyOf s f).maxRetries = if s.unbounded then -1 else (s.maxRetries : Int) := rfl
        have hrf : t.returned = false := by simpa using hret
        simp only [continues, Retry.wants, hcr, hrf, hrs, hne1, hne2, hab, hneed, hctx, cannotRetry, hcanb, hen, hmax,
          Bool.not_false, Bool.true_and, Bool.false_or, Bool.and_true]
        cases hu : s.unbounded
        · simp only [Bool.false_eq_true, if_false, Bool.not_false, Bool.true_and]
          have e1 : (decide ((s.maxRetries : Int) < 0)) = false := by simp
          have e2 : decide ((a : Int) < (s.maxRetries : Int)) = !decide (s.maxRetries ≤ a) := by
            by_cases hle : s.maxRetries ≤ a
            · simp only [hle, decide_true, Bool.not_true, decide_eq_false_iff_not]; omega
            · simp only [hle, decide_false, Bool.not_false, decide_eq_true_eq]; omega
          rw [e1, e2]; simp
        · simp

/-- a stack with an unbounded retry, a context that is done at the wait after the second
attempt: the loop continues after attempt 0 and stops (waiting) after attempt 1 -/
example : let s : Stack := { unbounded := true, fuel := 9, transport := [.fail (.stage 1), .fail (.stage 2)], ctxDone := [false, true] }
    continues s 0 (attempt Fixes.all s 0 none) = true ∧
    Retry.wants (policyOf s (fun _ => false)) (outcomeOf s 1 (attempt Fixes.all s 1 none)) 1 = false := by decide

end Req.Props.C18
