import Req.C02.H2GoAway
import Req.Props.C02Proto
/-!
C02 round 6 — **a response is delivered whole whatever the connection is told meanwhile.**

Between (before, after) the frames of a response the server may send connection-level frames:
GOAWAY (graceful or with an error code, any last-stream-id), PING, SETTINGS, WINDOW_UPDATE on
stream 0, extension frames.  RFC 9113 §6.8: streams with an identifier up to and including
last-stream-id are still being served.

* `goaway_keeps_streams_up_to_last_id` — `setGoAway` leaves every stream `id ≤ last` exactly as
  it was (state, buffered bytes, errors), for every table and every error code.
* `goaway_aborts_streams_above_last_id` — and what it does to the others (so the first
  statement is not vacuous: the comparison is the whole difference).
* `goaway_abort_keeps_delivered` — an abort never takes back what was delivered: the head that
  `RoundTrip` returned and the bytes already buffered stay readable.
* `conn_frames_invisible` — refinement: for EVERY sequence of connection frames, frames of other
  streams, frames of this stream and caller reads, in which every GOAWAY names a last-stream-id
  ≥ this stream, the caller's observations and the stream's final state are those of the stream
  run on its own frames alone.
* `goaway_response_whole` — hence `h2_message_roundtrip` holds on a connection that is being
  shut down around the response: exact status, fields, body, trailers.
-/
namespace Req.Props.C02
open Req.Proto Req.Ascii Req.C02

/-- **goaway_keeps_streams_up_to_last_id.** -/
theorem goaway_keeps_streams_up_to_last_id (c : H2Conn) (last code id : Nat) (h : id ≤ last) :
    (c.setGoAway last code).streams id = c.streams id := by
  simp only [H2Conn.setGoAway]
  cases c.streams id with
  | none => rfl
  | some s => simp [h]

/-- **goaway_aborts_streams_above_last_id.** -/
theorem goaway_aborts_streams_above_last_id (c : H2Conn) (last code id : Nat) (s : H2Stream)
    (hs : c.streams id = some s) (h : last < id) :
    (c.setGoAway last code).streams id =
      some (s.abort (goAwayAbortErr id (mergeGoAwayCode c.goAway code))) ∧
    (c.setGoAway last code).goAway = some { last := last, code := mergeGoAwayCode c.goAway code } := by
  simp only [H2Conn.setGoAway, hs]
  have : ¬ id ≤ last := by omega
  simp [this]

-- non-vacuity: GOAWAY(last = 3) on a table with streams 3 and 5: 3 untouched, 5 aborted
example :
    let c : H2Conn := { streams := fun j => if j = 3 ∨ j = 5 then some (H2Stream.init false) else none, goAway := none }
    ((c.setGoAway 3 0).streams 3).map (·.headErr) = some none ∧
    ((c.setGoAway 3 0).streams 5).map (·.headErr) = some (some .goAwayRetry) ∧
    ((c.setGoAway 0 2).streams 1 |>.map (·.headErr)) = none := by decide

-- stream 1 after an error GOAWAY is not retryable; a graceful GOAWAY that follows keeps the code
example :
    let c : H2Conn := H2Conn.single 1 (H2Stream.init false)
    ((c.setGoAway 0 2).streams 1).map (·.headErr) = some (some .goAwayErr) ∧
    ((c.setGoAway 0 0).streams 1).map (·.headErr) = some (some .goAwayRetry) ∧
    (((c.setGoAway 1 2).setGoAway 0 0).streams 1).map (·.headErr) = some (some .goAwayErr) := by decide

/-- **goaway_abort_keeps_delivered.** An abort (by GOAWAY or otherwise) leaves the delivered
head, the buffered body bytes and the trailers where they are; it fails `RoundTrip` only if no
head was delivered. -/
theorem goaway_abort_keeps_delivered (s : H2Stream) (e : H2Err) :
    (s.abort e).res = s.res ∧ (s.abort e).pipe.buf = s.pipe.buf ∧ (s.abort e).pipe.hasBuf = s.pipe.hasBuf ∧
    (s.abort e).resTrailer = s.resTrailer ∧
    (s.res.isSome → (s.abort e).headErr = s.headErr) := by
  cases hr : s.res <;> cases hh : s.headErr <;> cases hp : s.pipe.err <;>
    simp [H2Stream.abort, Pipe.closeWithError, hr, hh, hp]

/-! ### refinement -/

theorem H2Conn.set_streams_self (c : H2Conn) (id : Nat) (s : H2Stream) : (c.set id s).streams id = some s := by
  simp [H2Conn.set]

theorem H2Conn.set_streams_other (c : H2Conn) (id j : Nat) (s : H2Stream) (h : j ≠ id) :
    (c.set id s).streams j = c.streams j := by
  simp [H2Conn.set, h]

/-- One connection frame, seen from stream `sid`. -/
theorem H2Conn.event_streams (c : H2Conn) (sid : Nat) (s : H2Stream) (hs : c.streams sid = some s) (e : CEv)
    (hk : KeepsStream sid [COp.ev e]) :
    (c.event e).streams sid = some (match e with
      | .frame id ev => if id = sid then s.event ev else s
      | _ => s) := by
  cases e with
  | frame id ev =>
    by_cases hid : id = sid
    · subst hid; simp [H2Conn.event, hs, H2Conn.set]
    · simp only [H2Conn.event, hid, if_false]
      cases hj : c.streams id with
      | none => simpa using hs
      | some t => simp only []; rw [H2Conn.set_streams_other _ _ _ _ (Ne.symm hid)]; exact hs
  | goAway last code =>
    simp only [H2Conn.event]
    rw [goaway_keeps_streams_up_to_last_id c last code sid hk.1]; exact hs
  | neutral k => simpa [H2Conn.event] using hs

/-- **conn_frames_invisible.** -/
theorem conn_frames_invisible (sid : Nat) (ops : List COp) :
    ∀ (c : H2Conn) (s : H2Stream), c.streams sid = some s → KeepsStream sid ops →
      (c.runOps sid ops).1 = (s.runOps (eraseOps sid ops)).1 ∧
      (c.runOps sid ops).2.streams sid = some (s.runOps (eraseOps sid ops)).2 := by
  induction ops with
  | nil => intro c s hs _; exact ⟨rfl, hs⟩
  | cons op ops ih =>
    intro c s hs hk
    cases op with
    | read k =>
      have hk' : KeepsStream sid ops := hk
      simp only [H2Conn.runOps, hs, eraseOps, H2Stream.runOps]
      cases hr : s.read k with
      | none =>
        obtain ⟨h1, h2⟩ := ih c s hs hk'
        exact ⟨by simp [h1], by simp [h2]⟩
      | some r =>
        obtain ⟨o, s'⟩ := r
        obtain ⟨h1, h2⟩ := ih (c.set sid s') s' (H2Conn.set_streams_self c sid s') hk'
        exact ⟨by simp [h1], by simp [h2]⟩
    | ev e =>
      have hk1 : KeepsStream sid [COp.ev e] := by
        cases e <;> simp_all [KeepsStream]
      have hk' : KeepsStream sid ops := by
        cases e <;> simp_all [KeepsStream]
      have hev := H2Conn.event_streams c sid s hs e hk1
      cases e with
      | frame id ev =>
        by_cases hid : id = sid
        · simp only [hid, if_true] at hev
          obtain ⟨h1, h2⟩ := ih _ _ hev hk'
          simp only [H2Conn.runOps, eraseOps, hid, if_true, H2Stream.runOps]
          exact ⟨h1, h2⟩
        · simp only [hid, if_false] at hev
          obtain ⟨h1, h2⟩ := ih _ _ hev hk'
          simp only [H2Conn.runOps, eraseOps, hid, if_false]
          exact ⟨h1, h2⟩
      | goAway last code =>
        obtain ⟨h1, h2⟩ := ih _ _ hev hk'
        simp only [H2Conn.runOps, eraseOps]
        exact ⟨h1, h2⟩
      | neutral k =>
        obtain ⟨h1, h2⟩ := ih _ _ hev hk'
        simp only [H2Conn.runOps, eraseOps]
        exact ⟨h1, h2⟩

theorem KeepsStream.append_reads (sid : Nat) (ks : List Nat) :
    ∀ cops : List COp, KeepsStream sid cops → KeepsStream sid (cops ++ ks.map COp.read)
  | [], _ => by
    induction ks with
    | nil => trivial
    | cons k ks ih => exact ih
  | .read _ :: cops, h => KeepsStream.append_reads sid ks cops h
  | .ev (.frame _ _) :: cops, h => KeepsStream.append_reads sid ks cops h
  | .ev (.neutral _) :: cops, h => KeepsStream.append_reads sid ks cops h
  | .ev (.goAway _ _) :: cops, h => ⟨h.1, KeepsStream.append_reads sid ks cops h.2⟩

theorem eraseOps_append_reads (sid : Nat) (ks : List Nat) :
    ∀ cops : List COp, eraseOps sid (cops ++ ks.map COp.read) = eraseOps sid cops ++ ks.map H2Op.read
  | [] => by
    induction ks with
    | nil => rfl
    | cons k ks ih => simpa [eraseOps] using ih
  | .read k :: cops => by simp [eraseOps, eraseOps_append_reads sid ks cops]
  | .ev (.frame id e) :: cops => by
    by_cases hid : id = sid <;> simp [eraseOps, hid, eraseOps_append_reads sid ks cops]
  | .ev (.neutral _) :: cops => by simp [eraseOps, eraseOps_append_reads sid ks cops]
  | .ev (.goAway _ _) :: cops => by simp [eraseOps, eraseOps_append_reads sid ks cops]

-- non-vacuity: HEADERS, DATA "ab", GOAWAY(last = 3 = this stream, NO_ERROR), PING, a frame of
-- stream 5, DATA "c" with END_STREAM, reads: the caller of stream 3 reads "abc" then EOF
example :
    let hd : H2Ev := .headers [([58, 115, 116, 97, 116, 117, 115], [50, 48, 48])] false
    let ops : List COp := [.ev (.frame 3 hd), .ev (.frame 3 (.data [97, 98] false false)), .ev (.goAway 3 0),
      .ev (.neutral 0), .ev (.frame 5 .rst), .read 10, .ev (.frame 3 (.data [99] false true)), .read 10, .read 10]
    KeepsStream 3 ops ∧
    ((H2Conn.single 3 (H2Stream.init false)).runOps 3 ops).1 =
      [some ([97, 98], none), some ([99], none), some ([], some .eof)] := by
  refine ⟨by simp [KeepsStream], by decide⟩

-- the same traffic with GOAWAY(last = 1): stream 3 is cut off after "ab"
example :
    let hd : H2Ev := .headers [([58, 115, 116, 97, 116, 117, 115], [50, 48, 48])] false
    let ops : List COp := [.ev (.frame 3 hd), .ev (.frame 3 (.data [97, 98] false false)), .ev (.goAway 1 0),
      .read 10, .ev (.frame 3 (.data [99] false true)), .read 10]
    ((H2Conn.single 3 (H2Stream.init false)).runOps 3 ops).1 =
      [some ([97, 98], none), some ([], some .goAwayRetry)] := by decide

/-- **goaway_response_whole.** `h2_message_roundtrip` on a connection that is told to go away
(or pinged, or re-configured) around the response: for EVERY origin message, framing and DATA
split, every stream id, EVERY sequence `cops` of connection frames, frames of other streams, a
prefix of this response's frames and caller reads — where every GOAWAY names a last-stream-id
that is not below this stream — the caller's reads are a prefix of the origin's body, report
nothing but data or `io.EOF`; `io.EOF` means exactly the body and exactly the trailers; once the
final HEADERS is in, the response has the origin's status and fields; and when all frames have
arrived enough non-empty reads reach `io.EOF`. -/
theorem goaway_response_whole (M : AMsg) (hM : M.OK) (declare : Option Bytes)
    (hdecl : ∀ cb, declare = some cb → natOfDigits cb = some M.body.length)
    (interims : List Fields) (hint : ∀ fs ∈ interims, InterimOK fs) (hn : interims.length ≤ 5)
    (datas : List (Bytes × Bool)) (lastData : Option (Bytes × Bool))
    (hsplit : (datas.map (·.1)).flatten ++ lastDataBytes lastData = M.body)
    (htr : lastData.isSome = true → M.trailers = []) (sid : Nat) :
    let m := h2MsgOf M declare interims datas lastData
    (∀ (cops : List COp) (rest : List H2Ev), KeepsStream sid cops →
      m.events = evsOf (eraseOps sid cops) ++ rest →
      let run := (H2Conn.single sid (H2Stream.init false)).runOps sid cops
      (∃ t, M.body = readsOut run.1 ++ t) ∧ (∀ o ∈ run.1, ObsOK o) ∧
      (SawEOF run.1 → readsOut run.1 = M.body ∧
        (run.2.streams sid).map (·.resTrailer) = some M.trailer) ∧
      (rest.length ≤ datas.length + 1 →
        ∃ st res, run.2.streams sid = some st ∧ st.res = some res ∧ res.status = M.code ∧
          res.fields = clEntry declare ++ M.header)) ∧
    (∀ (cops : List COp) (ks : List Nat), KeepsStream sid cops →
      m.events = evsOf (eraseOps sid cops) → (∀ k ∈ ks, 0 < k) → M.body.length < ks.length →
      let run := (H2Conn.single sid (H2Stream.init false)).runOps sid (cops ++ ks.map COp.read)
      SawEOF run.1 ∧ readsOut run.1 = M.body ∧
        (run.2.streams sid).map (·.resTrailer) = some M.trailer) := by
  intro m
  obtain ⟨hA, hB⟩ := h2_message_roundtrip M hM declare hdecl interims hint hn datas lastData hsplit htr
  have hsingle : (H2Conn.single sid (H2Stream.init false)).streams sid = some (H2Stream.init false) := by
    simp [H2Conn.single]
  refine ⟨?_, ?_⟩
  · intro cops rest hk hev
    obtain ⟨h1, h2⟩ := conn_frames_invisible sid cops _ _ hsingle hk
    obtain ⟨a1, a2, a3, a4⟩ := hA (eraseOps sid cops) rest hev
    simp only [h1, h2]
    refine ⟨a1, a2, ?_, ?_⟩
    · intro hs; obtain ⟨b1, b2⟩ := a3 hs; exact ⟨b1, by simp [b2]⟩
    · intro hr; obtain ⟨res, r1, r2, r3⟩ := a4 hr; exact ⟨_, res, rfl, r1, r2, r3⟩
  · intro cops ks hk hev hpos hlen
    have hk2 : KeepsStream sid (cops ++ ks.map COp.read) := KeepsStream.append_reads sid ks cops hk
    have her := eraseOps_append_reads sid ks cops
    obtain ⟨h1, h2⟩ := conn_frames_invisible sid _ _ _ hsingle hk2
    obtain ⟨b1, b2, b3⟩ := hB (eraseOps sid cops) ks hev hpos hlen
    simp only [h1, h2, her]
    exact ⟨b1, b2, by simp [b3]⟩

end Req.Props.C02
