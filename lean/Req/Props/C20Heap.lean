import Req.Client.AuthHeap
/-!
C20 — credentials over the life of a client (several requests, several attempts each, setters
between the attempts): the slices shared between `Client.Headers` and `Request.Headers` by
`parseRequestHeader` are never written through.
-/
namespace Req.Props.C20
open Req.Proto Req.Auth

theorem derefC_append (cells : List Bytes) (v : Bytes) (s : Option Nat)
    (h : ∀ r, s = some r → r < cells.length) : derefC (cells ++ [v]) s = derefC cells s := by
  cases s with
  | none => rfl
  | some r =>
    have := h r rfl
    simp [derefC, List.getElem?_append_left this]

theorem derefC_new (cells : List Bytes) (v : Bytes) : derefC (cells ++ [v]) (some cells.length) = some v := by
  simp [derefC]

theorem map_derefC_append (cells : List Bytes) (v : Bytes) (reqs : List (Option Nat))
    (h : ∀ s ∈ reqs, ∀ r, s = some r → r < cells.length) :
    reqs.map (derefC (cells ++ [v])) = reqs.map (derefC cells) := by
  apply List.map_congr_left
  intro s hs
  exact derefC_append cells v s (h s hs)

theorem derefC_inherit (cells : List Bytes) (slot client : Option Nat)
    (h : ∀ r, slot = some r → r < cells.length) :
    derefC cells (inherit slot client) = orElse (derefC cells slot) (derefC cells client) := by
  cases slot with
  | none => rfl
  | some r =>
    have hr := h r rfl
    simp [inherit, derefC, orElse, List.getElem?_eq_getElem hr]

/-- **request_setters_never_write_client** (heap level): a credential setter of a request — whatever
the request went through before: sent, sent again, sharing the client's slice since its first
attempt — leaves the client's reference where it is, writes NO cell that existed before (so none that
the client or another request can reach), and the slice it stores is a new one that neither the
client nor any other request holds. -/
theorem request_setters_never_write_client (h : Heap) (hw : WF h) (i : Nat) (v : Bytes) :
    (step .fresh h (.request i v)).1.client = h.client ∧
    (∀ r, r < h.cells.length → (step .fresh h (.request i v)).1.cells[r]? = h.cells[r]?) ∧
    h.client ≠ some h.cells.length ∧ (∀ s ∈ h.reqs, s ≠ some h.cells.length) ∧
    derefC (step .fresh h (.request i v)).1.cells (step .fresh h (.request i v)).1.client = derefC h.cells h.client := by
  have hc : h.client ≠ some h.cells.length := fun e => Nat.lt_irrefl _ (hw.1 _ e)
  have hr : ∀ s ∈ h.reqs, s ≠ some h.cells.length := fun s hs e => Nat.lt_irrefl _ (hw.2 s hs _ e)
  simp only [step]
  cases hs : h.reqs[i]? with
  | none => exact ⟨rfl, fun _ _ => rfl, hc, hr, rfl⟩
  | some slot =>
    refine ⟨rfl, ?_, hc, hr, ?_⟩
    · intro r hlt
      simp [store, List.getElem?_append_left hlt]
    · simp only [store]
      exact derefC_append h.cells v h.client hw.1

/-- under `Header.Set` NO event ever changes a cell that exists: the heap only grows -/
theorem fresh_cells_immutable (h : Heap) (e : Ev) (r : Nat) (hlt : r < h.cells.length) :
    (step .fresh h e).1.cells[r]? = h.cells[r]? := by
  cases e with
  | client v => simp [step, List.getElem?_append_left hlt]
  | newReq => rfl
  | request i v =>
    simp only [step]
    cases h.reqs[i]? with
    | none => rfl
    | some slot => simp [store, List.getElem?_append_left hlt]
  | send i url =>
    simp only [step]
    cases h.reqs[i]? <;> rfl

theorem wf_set (cells : List Bytes) (reqs : List (Option Nat)) (i : Nat) (s : Option Nat)
    (hr : ∀ x ∈ reqs, ∀ r, x = some r → r < cells.length) (hs : ∀ r, s = some r → r < cells.length) :
    ∀ x ∈ reqs.set i s, ∀ r, x = some r → r < cells.length := by
  intro x hx r e
  rcases List.mem_or_eq_of_mem_set hx with h | h
  · exact hr x h r e
  · exact hs r (h ▸ e)

/-- one step: the heap with its sharing does what the value-only description does -/
theorem step_refines (h : Heap) (hw : WF h) (e : Ev) :
    abs (step .fresh h e).1 = (stepPure (abs h) e).1 ∧
    (step .fresh h e).2 = (stepPure (abs h) e).2 ∧ WF (step .fresh h e).1 := by
  obtain ⟨hc, hr⟩ := hw
  cases e with
  | client v =>
    refine ⟨?_, rfl, ?_, ?_⟩
    · simp only [step, abs, stepPure]
      rw [derefC_new, map_derefC_append _ _ _ hr]
    · intro r e
      simp only [step, Option.some.injEq] at e
      simp only [step, List.length_append, List.length_singleton]
      omega
    · intro s hs r e
      have := hr s hs r e
      simp only [step, List.length_append, List.length_singleton]
      omega
  | newReq =>
    refine ⟨?_, rfl, hc, ?_⟩
    · simp [step, abs, stepPure, derefC]
    · intro s hs r e
      simp only [step, List.mem_append, List.mem_singleton] at hs
      rcases hs with hs | hs
      · exact hr s hs r e
      · rw [hs] at e; cases e
  | request i v =>
    simp only [step, stepPure, abs, List.getElem?_map]
    cases hs : h.reqs[i]? with
    | none => exact ⟨rfl, rfl, hc, hr⟩
    | some slot =>
      have hlen : ∀ r, r < h.cells.length → r < (h.cells ++ [v]).length := by
        intro r hr; simp only [List.length_append, List.length_singleton]; omega
      refine ⟨?_, rfl, ?_, ?_⟩
      · simp only [store, Option.map_some]
        rw [derefC_append _ _ _ hc, List.map_set, derefC_new, map_derefC_append _ _ _ hr]
      · intro r e
        exact hlen r (hc r e)
      · simp only [store]
        apply wf_set
        · intro x hx r e; exact hlen r (hr x hx r e)
        · intro r e
          simp only [Option.some.injEq] at e
          simp only [List.length_append, List.length_singleton]
          omega
  | send i url =>
    simp only [step, stepPure, abs, List.getElem?_map]
    cases hs : h.reqs[i]? with
    | none => exact ⟨rfl, rfl, hc, hr⟩
    | some slot =>
      have hslot : ∀ r, slot = some r → r < h.cells.length :=
        fun r e => hr slot (List.mem_of_getElem? hs) r e
      have hin : ∀ r, inherit slot h.client = some r → r < h.cells.length := by
        intro r e
        cases slot with
        | none => exact hc r e
        | some q => exact hslot r e
      refine ⟨?_, ?_, hc, ?_⟩
      · simp only [Option.map_some]
        rw [List.map_set, derefC_inherit _ _ _ hslot]
      · simp only [Option.map_some]
        rw [derefC_inherit _ _ _ hslot]
      · exact wf_set _ _ _ _ hr hin

theorem wf_empty : WF {} := ⟨fun _ e => (by cases e), fun _ hs => (by cases hs)⟩

/-- **sharing_unobservable**: for EVERY sequence of events — any number of requests, attempts,
setters at both levels in any order, from any reachable heap — the values that leave with the
attempts are those of the description without references. -/
theorem sharing_unobservable : ∀ (es : List Ev) (h : Heap), WF h →
    abs (runFrom .fresh h es).1 = (runPure (abs h) es).1 ∧ (runFrom .fresh h es).2 = (runPure (abs h) es).2 := by
  intro es
  induction es with
  | nil => intro h _; exact ⟨rfl, rfl⟩
  | cons e es ih =>
    intro h hw
    obtain ⟨ha, ho, hw'⟩ := step_refines h hw e
    obtain ⟨i1, i2⟩ := ih _ hw'
    simp only [runFrom, runPure]
    rw [i1, i2, ha, ho]
    exact ⟨rfl, rfl⟩

theorem life_eq_pure (es : List Ev) : life .fresh es = (runPure {} es).2 :=
  (sharing_unobservable es {} wf_empty).2

/-! what the value-only description says about the common credentials -/

def lastClient : List Ev → Option Bytes
  | [] => none
  | .client v :: es => orElse (lastClient es) (some v)
  | _ :: es => lastClient es

def countReqs : List Ev → Nat
  | [] => 0
  | .newReq :: es => countReqs es + 1
  | _ :: es => countReqs es

theorem runPure_append (p : Pure) (xs ys : List Ev) :
    runPure p (xs ++ ys) = ((runPure (runPure p xs).1 ys).1, (runPure p xs).2 ++ (runPure (runPure p xs).1 ys).2) := by
  induction xs generalizing p with
  | nil => rfl
  | cons e xs ih =>
    simp only [List.cons_append, runPure, ih]
    cases (stepPure p e).2 <;> rfl

theorem runPure_client_len : ∀ (es : List Ev) (p : Pure),
    (runPure p es).1.client = orElse (lastClient es) p.client ∧
    (runPure p es).1.reqs.length = p.reqs.length + countReqs es := by
  intro es
  induction es with
  | nil => intro p; exact ⟨rfl, rfl⟩
  | cons e es ih =>
    intro p
    obtain ⟨i1, i2⟩ := ih (stepPure p e).1
    simp only [runPure]
    rw [i1, i2]
    cases e with
    | client v =>
      simp only [stepPure, lastClient, countReqs]
      cases lastClient es <;> simp [orElse]
    | newReq =>
      simp only [stepPure, lastClient, countReqs, List.length_append, List.length_singleton]
      refine ⟨?_, ?_⟩ <;> first | trivial | rfl | omega
    | request i v =>
      simp only [stepPure, lastClient, countReqs]
      cases p.reqs[i]? <;> simp
    | send i url =>
      simp only [stepPure, lastClient, countReqs]
      cases p.reqs[i]? <;> simp

/-- **other_requests_carry_common_credentials**: after ANY life of the client — requests sent with
the common credentials, given credentials of their own afterwards (retry hook, between two sends),
sent again, in any number and order — a NEW request of the client leaves with exactly the value of the
last client-level setter (or the URL's user information when there was none): nothing a request-level
setter did is seen by it. -/
theorem other_requests_carry_common_credentials (es : List Ev) (url : Option (Bytes × Bytes)) :
    life .fresh (es ++ [.newReq, .send (countReqs es) url]) =
      life .fresh es ++ [effective none (lastClient es) url] := by
  rw [life_eq_pure, life_eq_pure, runPure_append]
  obtain ⟨hc, hl⟩ := runPure_client_len es {}
  simp only [List.append_cancel_left_eq]
  generalize runPure {} es = r at hc hl
  obtain ⟨p, out⟩ := r
  simp only at hc hl
  have hn : countReqs es = p.reqs.length := by simpa using hl.symm
  have hcl : p.client = lastClient es := by
    rw [hc]; cases lastClient es <;> rfl
  simp only [runPure, stepPure, hn, List.getElem?_append_right (Nat.le_refl _), Nat.sub_self,
    List.getElem?_cons_zero, orElse, hcl]
  cases lastClient es <;> rfl

/-- a request-level setter counts from the next attempt on, also on a request that was already sent
with the client's credentials -/
theorem own_credentials_from_next_attempt (es : List Ev) (i : Nat) (v : Bytes) (url : Option (Bytes × Bytes))
    (hi : i < countReqs es) :
    life .fresh (es ++ [.request i v, .send i url]) = life .fresh es ++ [some v] := by
  rw [life_eq_pure, life_eq_pure, runPure_append]
  obtain ⟨_, hl⟩ := runPure_client_len es {}
  simp only [List.append_cancel_left_eq]
  generalize runPure {} es = r at hl
  obtain ⟨p, out⟩ := r
  simp only at hl
  have hlt : i < p.reqs.length := by
    have : p.reqs.length = countReqs es := by simpa using hl
    omega
  simp [runPure, stepPure, List.getElem?_eq_getElem hlt, orElse, effective, List.getElem?_set_self hlt]

/-- the events of the seeded class: common credentials, request 0 sent, given its own value, sent
again, then request 1 -/
def leakTrace (c x : Bytes) : List Ev :=
  [.client c, .newReq, .send 0 none, .request 0 x, .send 0 none, .newReq, .send 1 none]

example : life .fresh (leakTrace [99] [120]) = [some [99], some [120], some [99]] := by decide

/-- what the theorems exclude: were the request setter to overwrite the slice it holds, the write
would reach the client (shared since the first attempt) and request 1 would leave with request 0's
credentials -/
theorem in_place_store_leaks : life .inPlace (leakTrace [99] [120]) = [some [99], some [120], some [120]] := by
  decide

example : life .fresh ([.client [99], .newReq, .send 0 none, .request 0 [120], .send 0 none] ++
    [.newReq, .send 1 (some ([117], [112]))]) = [some [99], some [120], some [99]] := by
  rw [show (1 : Nat) = countReqs [.client [99], .newReq, .send 0 none, .request 0 [120], .send 0 none] from rfl,
    other_requests_carry_common_credentials]
  decide

end Req.Props.C20
