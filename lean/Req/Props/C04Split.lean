import Req.Props.C04Alias
/-!
C04 round 5 — the header line reader does not depend on how the connection segments the bytes.
-/
namespace Req.Props.C04
open Req.Proto Req.H1 Req.H1.BufLine Req.H1.BufAlias

/-- A network script: every read delivers at least one byte and no error; after the last segment
the connection reports `io.EOF`. -/
def Clean (src : List Chunk) : Prop := ∀ c ∈ src, c.err = none ∧ c.data ≠ []

/-- Reader states that occur over clean scripts with a buffer of `B` bytes. -/
structure Good (B : Nat) (st : Rd) : Prop where
  clean : Clean st.src
  err : st.err = none ∨ (st.err = some (.src .eof) ∧ st.src = [])
  len : st.buf.length ≤ B
  room : st.err ≠ none → st.buf.length < B

theorem good_ofSrc (B : Nat) (src : List Chunk) (h : Clean src) : Good B (Rd.ofSrc src) :=
  ⟨h, Or.inl rfl, by simp [Rd.ofSrc], by simp [Rd.ofSrc]⟩

theorem srcRead_clean (cap : Nat) (src : List Chunk) (h : Clean src) (hcap : 0 < cap) :
    (src = [] ∧ srcRead cap src = ([], some .eof, [])) ∨
    (∃ d src', srcRead cap src = (d, none, src') ∧ d ≠ [] ∧ d.length ≤ cap ∧ Clean src' ∧
      d ++ srcBytes src' = srcBytes src) := by
  cases src with
  | nil => exact Or.inl ⟨rfl, rfl⟩
  | cons c rest =>
    right
    have hc := h c (by simp)
    have hrest : Clean rest := fun x hx => h x (List.mem_cons_of_mem _ hx)
    have hpos : 0 < c.data.length := List.length_pos_iff.mpr hc.2
    by_cases hle : c.data.length ≤ cap
    · refine ⟨c.data, rest, ?_, hc.2, hle, hrest, rfl⟩
      simp [srcRead, hle, hc.1]
    · refine ⟨c.data.take cap, { c with data := c.data.drop cap } :: rest, ?_, ?_, ?_, ?_, ?_⟩
      · simp [srcRead, hle]
      · intro h0
        have h1 : (c.data.take cap).length = min cap c.data.length := List.length_take
        rw [h0] at h1
        simp only [List.length_nil] at h1
        omega
      · simp [List.length_take]; omega
      · intro x hx
        rcases List.mem_cons.mp hx with rfl | hx
        · refine ⟨hc.1, ?_⟩
          intro h0
          have := congrArg List.length h0
          simp at this; omega
        · exact hrest x hx
      · simp [srcBytes, ← List.append_assoc]

/-- One `fill` on a good state with room: the bytes are kept, the buffer grows by at least one
byte — or the script is exhausted and `io.EOF` is pending. -/
theorem fill_good (B : Nat) (st : Rd) (hg : Good B st) (he : st.err = none) (hr : st.buf.length < B) :
    Good B (fill B st) ∧ (fill B st).bytes = st.bytes ∧
    ∃ d, (fill B st).buf = st.buf ++ d ∧
      ((d ≠ [] ∧ (fill B st).err = none) ∨
       (d = [] ∧ st.src = [] ∧ (fill B st).err = some (.src .eof) ∧ (fill B st).src = [])) := by
  refine ⟨?_, fill_bytes B st, ?_⟩
  all_goals
    unfold fill
    rw [show (100 : Nat) = 99 + 1 from rfl]
    unfold fillLoop
    rcases srcRead_clean (B - st.buf.length) st.src hg.clean (by omega) with ⟨hs, hsr⟩ | ⟨d, src', hsr, hd, hdl, hcl, _⟩
  · rw [hsr]
    exact ⟨by intro c hc; simp at hc, Or.inr ⟨rfl, rfl⟩, by simpa using hg.len, by intro _; simpa using hr⟩
  · rw [hsr]
    have hpos : d.length > 0 := List.length_pos_iff.mpr hd
    simp only [hpos, if_true]
    exact ⟨hcl, Or.inl he, by simp; omega, by intro h; exact absurd he h⟩
  · rw [hsr]
    exact ⟨[], by simp, Or.inr ⟨rfl, hs, rfl, rfl⟩⟩
  · rw [hsr]
    have hpos : d.length > 0 := List.length_pos_iff.mpr hd
    simp only [hpos, if_true]
    exact ⟨d, rfl, Or.inl ⟨hd, he⟩⟩

/-! ### `ReadSlice` as a function of the bytes -/

theorem take_app (x y : Bytes) (n : Nat) (h : x.length ≤ n) :
    (x ++ y).take n = x ++ y.take (n - x.length) := by
  induction x generalizing n with
  | nil => simp
  | cons c x ih =>
    cases n with
    | zero => simp at h
    | succ n =>
      simp only [List.cons_append, List.take_succ_cons, List.length_cons, Nat.add_sub_add_right]
      rw [ih n (by simpa using h)]

theorem cutNL_prefix {x l r : Bytes} (h : cutNL x = some (l, r)) (y : Bytes) :
    cutNL (x ++ y) = some (l, r ++ y) := by
  induction x generalizing l r with
  | nil => simp [cutNL] at h
  | cons c x ih =>
    simp only [cutNL, List.cons_append] at h ⊢
    split
    · next hc =>
      rw [if_pos hc] at h
      simp only [Option.some.injEq, Prod.mk.injEq] at h
      obtain ⟨rfl, rfl⟩ := h; rfl
    · next hc =>
      rw [if_neg hc] at h
      cases hx : cutNL x with
      | none => simp [hx] at h
      | some p =>
        obtain ⟨l', r'⟩ := p
        simp only [hx, Option.some.injEq, Prod.mk.injEq] at h
        obtain ⟨rfl, rfl⟩ := h
        simp [ih hx]

/-- What `ReadSlice('\n')` returns and leaves, from the unread bytes alone. -/
def sliceSpec (B : Nat) (s : Bytes) : Bytes × Option RErr × Bytes :=
  match cutNL (s.take B) with
  | some (l, _) => (l, none, s.drop l.length)
  | none =>
    if B ≤ s.length then (s.take B, some .bufferFull, s.drop B) else (s, some (.src .eof), [])

theorem readSliceLoop_clean (B f : Nat) (st : Rd) (hg : Good B st)
    (hf : (B - st.buf.length) + (if st.err.isSome then 0 else 1) + 1 ≤ f) :
    ((readSliceLoop B f st).1.line, (readSliceLoop B f st).1.err, (readSliceLoop B f st).2.bytes)
      = sliceSpec B st.bytes ∧
    Good B (readSliceLoop B f st).2 ∧
    ((readSliceLoop B f st).1.err = some .bufferFull →
      (readSliceLoop B f st).2.buf = [] ∧ (readSliceLoop B f st).2.err = none) := by
  induction f generalizing st with
  | zero => omega
  | succ f ih =>
    unfold readSliceLoop
    cases hc : cutNL st.buf with
    | some p =>
      obtain ⟨line, rest⟩ := p
      have hb := cutNL_append hc
      simp only
      refine ⟨?_, ?_, by simp⟩
      · unfold sliceSpec Rd.bytes
        rw [take_app _ _ _ hg.len, cutNL_prefix hc]
        simp only [← hb, List.append_assoc, List.drop_left']
      · have hl : rest.length ≤ st.buf.length := by rw [← hb]; simp
        have hlen := hg.len
        exact ⟨hg.clean, hg.err, by simp only; omega, by intro h; have := hg.room h; simp only; omega⟩
    | none =>
      simp only
      cases he : st.err with
      | some e =>
        simp only
        have hroom := hg.room (by simp [he])
        rcases hg.err with h0 | ⟨h1, h2⟩
        · simp [he] at h0
        · rw [he] at h1
          refine ⟨?_, ⟨hg.clean, Or.inl rfl, by simp, by simp⟩, by simp [h1]⟩
          unfold sliceSpec Rd.bytes
          simp only [h2, srcBytes, List.append_nil]
          rw [List.take_of_length_le (by omega), hc, if_neg (by omega)]
          simp [h1]
      | none =>
        simp only
        split
        · next hle =>
          have hlen : st.buf.length = B := by have := hg.len; omega
          refine ⟨?_, ⟨hg.clean, Or.inl rfl, by simp, by simp⟩, by simp⟩
          unfold sliceSpec Rd.bytes
          have ht : (st.buf ++ srcBytes st.src).take B = st.buf := by
            rw [take_app _ _ _ hg.len, hlen]; simp
          have hd : (st.buf ++ srcBytes st.src).drop B = srcBytes st.src := by
            rw [← hlen]; simp
          rw [ht, hc, if_pos (by simp; omega), hd]
          rfl
        · next hlt =>
          have hlt' : st.buf.length < B := by omega
          obtain ⟨hg1, hb1, d, hbuf, hcase⟩ := fill_good B st hg he hlt'
          have hf1 : (B - (fill B st).buf.length) + (if (fill B st).err.isSome then 0 else 1) + 1 ≤ f := by
            simp only [he, Option.isSome_none, Bool.false_eq_true, if_false] at hf
            rw [hbuf]
            rcases hcase with ⟨hd, he1⟩ | ⟨hd, _, he1, _⟩
            · have : 0 < d.length := List.length_pos_iff.mpr hd
              simp only [he1, Option.isSome_none, Bool.false_eq_true, if_false, List.length_append]
              omega
            · simp only [he1, hd, Option.isSome_some, if_true, List.length_append, List.length_nil]
              omega
          have := ih (fill B st) hg1 hf1
          rw [hb1] at this
          exact this

theorem readSlice_clean (B : Nat) (st : Rd) (hg : Good B st) :
    ((readSlice B st).1.line, (readSlice B st).1.err, (readSlice B st).2.bytes) = sliceSpec B st.bytes ∧
    Good B (readSlice B st).2 ∧
    ((readSlice B st).1.err = some .bufferFull →
      (readSlice B st).2.buf = [] ∧ (readSlice B st).2.err = none) := by
  apply readSliceLoop_clean B (B + 2) st hg
  split <;> omega

end Req.Props.C04
