import Req.Props.C04Alias
/-!
C04 round 5 — the header line reader does not depend on how the connection segments the bytes.

Setting: `Clean` scripts (every read delivers ≥ 1 byte without error; EOF after the last segment)
and the reader states `Good B` that occur over them.  `Same B s1 s2` = two such states with the
same unread bytes (buffered ++ still to come), however these are split.

* `fill_good` — one `fill` keeps the bytes and either buffers ≥ 1 more byte or finds the script
  exhausted (`io.EOF` pending).
* `readSlice_clean` — `ReadSlice('\n')` is the function `sliceSpec B` of the unread bytes: the
  line up to the first LF within the first `B` bytes, else `ErrBufferFull` with exactly `B` bytes,
  else everything with `io.EOF`; `readByte_clean` likewise (`byteSpec`).
* `readLine_same`, `readLineSlice_same`, `skipSpace_same`, … — every layer of the text reader maps
  `Same` states to equal results and `Same` states.
* `continued_line_split_independent` — for ANY two aliasing readers (explicit arrays, lines as
  views) with `Same` value parts, `readContinuedLineSlice` (guard `Buffered() > 1`) returns the same
  line by content and leaves the same unread bytes; `_fresh`: two segmentations of one byte
  string; `head_lines_split_independent`: the whole sequence of lines of a header block.
  Chain: aliasing reader = value reader (`continued_line_alias_safe`) = slow-path value reader
  (`continued_line_fastpath_irrelevant`), which touches the connection only through
  `ReadSlice`/`ReadByte`, which are functions of the bytes.
-/
namespace Req.Props.C04
open Req.Proto Req.H1 Req.H1.BufLine Req.H1.BufAlias

/-- A network script: every read delivers at least one byte and no error; after the last segment
the connection reports `io.EOF`. -/
def Clean (src : List Chunk) : Prop := ∀ c ∈ src, c.err = none ∧ c.data ≠ []

/-- Reader states that occur over clean scripts with a buffer of `B` bytes. -/
structure Good (B : Nat) (st : Rd) : Prop where
  clean : Clean st.src
  err : st.err = none ∨ (st.err = some (.src .eof) ∧ st.src = [])
  len : st.buf.length ≤ B
  room : st.err ≠ none → st.buf.length < B

theorem good_ofSrc (B : Nat) (src : List Chunk) (h : Clean src) : Good B (Rd.ofSrc src) :=
  ⟨h, Or.inl rfl, by simp [Rd.ofSrc], by simp [Rd.ofSrc]⟩

theorem srcRead_clean (cap : Nat) (src : List Chunk) (h : Clean src) (hcap : 0 < cap) :
    (src = [] ∧ srcRead cap src = ([], some .eof, [])) ∨
    (∃ d src', srcRead cap src = (d, none, src') ∧ d ≠ [] ∧ d.length ≤ cap ∧ Clean src' ∧
      d ++ srcBytes src' = srcBytes src) := by
  cases src with
  | nil => exact Or.inl ⟨rfl, rfl⟩
  | cons c rest =>
    right
    have hc := h c (by simp)
    have hrest : Clean rest := fun x hx => h x (List.mem_cons_of_mem _ hx)
    have hpos : 0 < c.data.length := List.length_pos_iff.mpr hc.2
    by_cases hle : c.data.length ≤ cap
    · refine ⟨c.data, rest, ?_, hc.2, hle, hrest, rfl⟩
      simp [srcRead, hle, hc.1]
    · refine ⟨c.data.take cap, { c with data := c.data.drop cap } :: rest, ?_, ?_, ?_, ?_, ?_⟩
      · simp [srcRead, hle]
      · intro h0
        have h1 : (c.data.take cap).length = min cap c.data.length := List.length_take
        rw [h0] at h1
        simp only [List.length_nil] at h1
        omega
      · simp [List.length_take]; omega
      · intro x hx
        rcases List.mem_cons.mp hx with rfl | hx
        · refine ⟨hc.1, ?_⟩
          intro h0
          have := congrArg List.length h0
          simp at this; omega
        · exact hrest x hx
      · simp [srcBytes, ← List.append_assoc]

/-- One `fill` on a good state with room: the bytes are kept, the buffer grows by at least one
byte — or the script is exhausted and `io.EOF` is pending. -/
theorem fill_good (B : Nat) (st : Rd) (hg : Good B st) (he : st.err = none) (hr : st.buf.length < B) :
    Good B (fill B st) ∧ (fill B st).bytes = st.bytes ∧
    ∃ d, (fill B st).buf = st.buf ++ d ∧
      ((d ≠ [] ∧ (fill B st).err = none) ∨
       (d = [] ∧ st.src = [] ∧ (fill B st).err = some (.src .eof) ∧ (fill B st).src = [])) := by
  refine ⟨?_, fill_bytes B st, ?_⟩
  all_goals
    unfold fill
    rw [show (100 : Nat) = 99 + 1 from rfl]
    unfold fillLoop
    rcases srcRead_clean (B - st.buf.length) st.src hg.clean (by omega) with ⟨hs, hsr⟩ | ⟨d, src', hsr, hd, hdl, hcl, _⟩
  · rw [hsr]
    exact ⟨by intro c hc; simp at hc, Or.inr ⟨rfl, rfl⟩, by simpa using hg.len, by intro _; simpa using hr⟩
  · rw [hsr]
    have hpos : d.length > 0 := List.length_pos_iff.mpr hd
    simp only [hpos, if_true]
    exact ⟨hcl, Or.inl he, by simp; omega, by intro h; exact absurd he h⟩
  · rw [hsr]
    exact ⟨[], by simp, Or.inr ⟨rfl, hs, rfl, rfl⟩⟩
  · rw [hsr]
    have hpos : d.length > 0 := List.length_pos_iff.mpr hd
    simp only [hpos, if_true]
    exact ⟨d, rfl, Or.inl ⟨hd, he⟩⟩

/-! ### `ReadSlice` as a function of the bytes -/

theorem take_app (x y : Bytes) (n : Nat) (h : x.length ≤ n) :
    (x ++ y).take n = x ++ y.take (n - x.length) := by
  induction x generalizing n with
  | nil => simp
  | cons c x ih =>
    cases n with
    | zero => simp at h
    | succ n =>
      simp only [List.cons_append, List.take_succ_cons, List.length_cons, Nat.add_sub_add_right]
      rw [ih n (by simpa using h)]

theorem cutNL_prefix {x l r : Bytes} (h : cutNL x = some (l, r)) (y : Bytes) :
    cutNL (x ++ y) = some (l, r ++ y) := by
  induction x generalizing l r with
  | nil => simp [cutNL] at h
  | cons c x ih =>
    simp only [cutNL, List.cons_append] at h ⊢
    split
    · next hc =>
      rw [if_pos hc] at h
      simp only [Option.some.injEq, Prod.mk.injEq] at h
      obtain ⟨rfl, rfl⟩ := h; rfl
    · next hc =>
      rw [if_neg hc] at h
      cases hx : cutNL x with
      | none => simp [hx] at h
      | some p =>
        obtain ⟨l', r'⟩ := p
        simp only [hx, Option.some.injEq, Prod.mk.injEq] at h
        obtain ⟨rfl, rfl⟩ := h
        simp [ih hx]

/-- What `ReadSlice('\n')` returns and leaves, from the unread bytes alone. -/
def sliceSpec (B : Nat) (s : Bytes) : Bytes × Option RErr × Bytes :=
  match cutNL (s.take B) with
  | some (l, _) => (l, none, s.drop l.length)
  | none =>
    if B ≤ s.length then (s.take B, some .bufferFull, s.drop B) else (s, some (.src .eof), [])

theorem readSliceLoop_clean (B f : Nat) (st : Rd) (hg : Good B st)
    (hf : (B - st.buf.length) + (if st.err.isSome then 0 else 1) + 1 ≤ f) :
    ((readSliceLoop B f st).1.line, (readSliceLoop B f st).1.err, (readSliceLoop B f st).2.bytes)
      = sliceSpec B st.bytes ∧
    Good B (readSliceLoop B f st).2 ∧
    ((readSliceLoop B f st).1.err = some .bufferFull →
      (readSliceLoop B f st).2.buf = [] ∧ (readSliceLoop B f st).2.err = none) := by
  induction f generalizing st with
  | zero => omega
  | succ f ih =>
    unfold readSliceLoop
    cases hc : cutNL st.buf with
    | some p =>
      obtain ⟨line, rest⟩ := p
      have hb := cutNL_append hc
      simp only
      refine ⟨?_, ?_, by simp⟩
      · unfold sliceSpec Rd.bytes
        rw [take_app _ _ _ hg.len, cutNL_prefix hc]
        simp only [← hb, List.append_assoc, List.drop_left']
      · have hl : rest.length ≤ st.buf.length := by rw [← hb]; simp
        have hlen := hg.len
        exact ⟨hg.clean, hg.err, by simp only; omega, by intro h; have := hg.room h; simp only; omega⟩
    | none =>
      simp only
      cases he : st.err with
      | some e =>
        simp only
        have hroom := hg.room (by simp [he])
        rcases hg.err with h0 | ⟨h1, h2⟩
        · simp [he] at h0
        · rw [he] at h1
          refine ⟨?_, ⟨hg.clean, Or.inl rfl, by simp, by simp⟩, by simp [h1]⟩
          unfold sliceSpec Rd.bytes
          simp only [h2, srcBytes, List.append_nil]
          rw [List.take_of_length_le (by omega), hc, if_neg (by omega)]
          simp [h1]
      | none =>
        simp only
        split
        · next hle =>
          have hlen : st.buf.length = B := by have := hg.len; omega
          refine ⟨?_, ⟨hg.clean, Or.inl rfl, by simp, by simp⟩, by simp⟩
          unfold sliceSpec Rd.bytes
          have ht : (st.buf ++ srcBytes st.src).take B = st.buf := by
            rw [take_app _ _ _ hg.len, hlen]; simp
          have hd : (st.buf ++ srcBytes st.src).drop B = srcBytes st.src := by
            rw [← hlen]; simp
          rw [ht, hc, if_pos (by simp; omega), hd]
          rfl
        · next hlt =>
          have hlt' : st.buf.length < B := by omega
          obtain ⟨hg1, hb1, d, hbuf, hcase⟩ := fill_good B st hg he hlt'
          have hf1 : (B - (fill B st).buf.length) + (if (fill B st).err.isSome then 0 else 1) + 1 ≤ f := by
            simp only [he, Option.isSome_none, Bool.false_eq_true, if_false] at hf
            rw [hbuf]
            rcases hcase with ⟨hd, he1⟩ | ⟨hd, _, he1, _⟩
            · have : 0 < d.length := List.length_pos_iff.mpr hd
              simp only [he1, Option.isSome_none, Bool.false_eq_true, if_false, List.length_append]
              omega
            · simp only [he1, hd, Option.isSome_some, if_true, List.length_append, List.length_nil]
              omega
          have := ih (fill B st) hg1 hf1
          rw [hb1] at this
          exact this

theorem readSlice_clean (B : Nat) (st : Rd) (hg : Good B st) :
    ((readSlice B st).1.line, (readSlice B st).1.err, (readSlice B st).2.bytes) = sliceSpec B st.bytes ∧
    Good B (readSlice B st).2 ∧
    ((readSlice B st).1.err = some .bufferFull →
      (readSlice B st).2.buf = [] ∧ (readSlice B st).2.err = none) := by
  apply readSliceLoop_clean B (B + 2) st hg
  split <;> omega

/-! ### `ReadByte` as a function of the bytes -/

def byteSpec : Bytes → Res UInt8 × Bytes
  | [] => (.error (.src .eof), [])
  | c :: t => (.ok c, t)

theorem readByte_clean (B : Nat) (hB : 0 < B) (st : Rd) (hg : Good B st) :
    ((readByte B st).1, (readByte B st).2.bytes) = byteSpec st.bytes ∧
    Good B (readByte B st).2 ∧
    (∀ c, (readByte B st).1 = .ok c →
      Good B { (readByte B st).2 with buf := c :: (readByte B st).2.buf }) := by
  unfold readByte
  rw [show (2 : Nat) = 1 + 1 from rfl]
  unfold readByteLoop
  cases hb : st.buf with
  | cons c rest =>
    simp only
    have hlen := hg.len
    rw [hb] at hlen
    simp only [List.length_cons] at hlen
    refine ⟨by simp [Rd.bytes, hb, byteSpec], ⟨hg.clean, hg.err, by simp only; omega, ?_⟩, ?_⟩
    · intro h; have := hg.room h; rw [hb] at this; simp only [List.length_cons] at this ⊢; omega
    · intro c' hc'
      simp only [Res.ok.injEq] at hc'
      subst hc'
      exact ⟨hg.clean, hg.err, by simp only [List.length_cons]; omega,
        by intro h; have := hg.room h; rw [hb] at this; simpa using this⟩
  | nil =>
    simp only
    cases he : st.err with
    | some e =>
      simp only
      rcases hg.err with h0 | ⟨h1, h2⟩
      · simp [he] at h0
      · rw [he] at h1
        simp only [Option.some.injEq] at h1
        subst h1
        refine ⟨by simp [Rd.bytes, hb, h2, srcBytes, byteSpec], ⟨hg.clean, Or.inl rfl, by simp, by simp⟩, by simp⟩
    | none =>
      simp only
      obtain ⟨hg1, hb1, d, hbuf, hcase⟩ := fill_good B st hg he (by rw [hb]; exact hB)
      rw [hb, List.nil_append] at hbuf
      unfold readByteLoop
      rcases hcase with ⟨hd, he1⟩ | ⟨hd, _, he1, hs1⟩
      · cases hdd : d with
        | nil => exact absurd hdd hd
        | cons c rest =>
          rw [hdd] at hbuf
          simp only [hbuf]
          have hlen := hg1.len
          rw [hbuf] at hlen
          simp only [List.length_cons] at hlen
          refine ⟨?_, ⟨hg1.clean, hg1.err, by simp only; omega, by simp [he1]⟩, ?_⟩
          · rw [← hb1]; simp [Rd.bytes, hbuf, byteSpec]
          · intro c' hc'
            simp only [Res.ok.injEq] at hc'
            subst hc'
            exact ⟨hg1.clean, hg1.err, by simp only [List.length_cons]; omega, by simp [he1]⟩
      · rw [hd] at hbuf
        simp only [hbuf, he1]
        refine ⟨?_, ⟨hg1.clean, Or.inl rfl, by simp, by simp⟩, by simp⟩
        rw [← hb1]; simp [Rd.bytes, hbuf, hs1, srcBytes, byteSpec]

/-! ### two readers over the same bytes -/

/-- Two reader states over clean scripts with the same unread bytes — however they are split
between the buffer and the segments still to come. -/
def Same (B : Nat) (s1 s2 : Rd) : Prop := Good B s1 ∧ Good B s2 ∧ s1.bytes = s2.bytes

theorem readLine_same (B : Nat) (hB : 0 < B) (s1 s2 : Rd) (h : Same B s1 s2) :
    (BufLine.readLine B s1).1 = (BufLine.readLine B s2).1 ∧
    Same B (BufLine.readLine B s1).2 (BufLine.readLine B s2).2 := by
  obtain ⟨g1, g2, hb⟩ := h
  obtain ⟨e1, gg1, f1⟩ := readSlice_clean B s1 g1
  obtain ⟨e2, gg2, f2⟩ := readSlice_clean B s2 g2
  rw [hb] at e1
  have e := e1.trans e2.symm
  simp only [Prod.mk.injEq] at e
  obtain ⟨hl, he, hbytes⟩ := e
  unfold BufLine.readLine
  cases h1 : readSlice B s1 with
  | mk r1 t1 =>
    cases h2 : readSlice B s2 with
    | mk r2 t2 =>
      rw [h1] at hl he hbytes gg1 f1
      rw [h2] at hl he hbytes gg2 f2
      simp only at hl he hbytes gg1 gg2 f1 f2 ⊢
      rw [hl, he]
      split
      · next hfull =>
        obtain ⟨b1, n1⟩ := f1 (he.trans hfull)
        obtain ⟨b2, n2⟩ := f2 hfull
        split
        · refine ⟨rfl, ?_, ?_, ?_⟩
          · exact ⟨gg1.clean, Or.inl n1, by simp [b1]; omega, by simp [n1]⟩
          · exact ⟨gg2.clean, Or.inl n2, by simp [b2]; omega, by simp [n2]⟩
          · simp only [Rd.bytes] at hbytes ⊢
            simp only [List.cons_append, hbytes]
        · exact ⟨rfl, gg1, gg2, hbytes⟩
      · split
        · exact ⟨rfl, gg1, gg2, hbytes⟩
        · exact ⟨rfl, gg1, gg2, hbytes⟩

theorem readLineSliceLoop_same (B : Nat) (hB : 0 < B) (f : Nat) (acc d1 d2 : Bytes) (s1 s2 : Rd)
    (h : Same B s1 s2) :
    (readLineSliceLoop (plainReadLine B) none f acc d1 s1).res
      = (readLineSliceLoop (plainReadLine B) none f acc d2 s2).res ∧
    Same B (readLineSliceLoop (plainReadLine B) none f acc d1 s1).st
      (readLineSliceLoop (plainReadLine B) none f acc d2 s2).st := by
  induction f generalizing acc d1 d2 s1 s2 with
  | zero => exact ⟨rfl, h⟩
  | succ f ih =>
    obtain ⟨hr, hs⟩ := readLine_same B hB s1 s2 h
    unfold readLineSliceLoop
    cases h1 : BufLine.readLine B s1 with
    | mk r1 t1 =>
      cases h2 : BufLine.readLine B s2 with
      | mk r2 t2 =>
        rw [show plainReadLine B s1 = (r1, t1, []) from by simp [plainReadLine, h1]]
        rw [show plainReadLine B s2 = (r2, t2, []) from by simp [plainReadLine, h2]]
        rw [h1, h2] at hr hs
        simp only at hr hs ⊢
        subst hr
        cases he : r1.err with
        | some e => exact ⟨rfl, hs⟩
        | none =>
          simp only [overLimit, Bool.false_eq_true, if_false]
          split
          · exact ih _ _ _ t1 t2 hs
          · exact ⟨rfl, hs⟩

theorem readLineSlice_same (B : Nat) (hB : 0 < B) (s1 s2 : Rd) (h : Same B s1 s2) :
    (readLineSlice (plainReadLine B) none s1).res = (readLineSlice (plainReadLine B) none s2).res ∧
    Same B (readLineSlice (plainReadLine B) none s1).st (readLineSlice (plainReadLine B) none s2).st := by
  unfold readLineSlice
  rw [h.2.2]
  exact readLineSliceLoop_same B hB _ [] [] [] s1 s2 h

theorem readByte_same (B : Nat) (hB : 0 < B) (s1 s2 : Rd) (h : Same B s1 s2) :
    (readByte B s1).1 = (readByte B s2).1 ∧ Same B (readByte B s1).2 (readByte B s2).2 ∧
    (∀ c, (readByte B s1).1 = .ok c →
      Same B { (readByte B s1).2 with buf := c :: (readByte B s1).2.buf }
             { (readByte B s2).2 with buf := c :: (readByte B s2).2.buf }) := by
  obtain ⟨g1, g2, hb⟩ := h
  obtain ⟨e1, gg1, u1⟩ := readByte_clean B hB s1 g1
  obtain ⟨e2, gg2, u2⟩ := readByte_clean B hB s2 g2
  rw [hb] at e1
  have e := e1.trans e2.symm
  simp only [Prod.mk.injEq] at e
  obtain ⟨hr, hbytes⟩ := e
  refine ⟨hr, ⟨gg1, gg2, hbytes⟩, ?_⟩
  intro c hc
  refine ⟨u1 c hc, u2 c (hr ▸ hc), ?_⟩
  simp only [Rd.bytes] at hbytes ⊢
  simp only [List.cons_append, hbytes]

theorem skipSpaceLoop_same (B : Nat) (hB : 0 < B) (f : Nat) (acc : Bytes) (s1 s2 : Rd)
    (h : Same B s1 s2) :
    (skipSpaceLoop B f acc s1).1 = (skipSpaceLoop B f acc s2).1 ∧
    Same B (skipSpaceLoop B f acc s1).2 (skipSpaceLoop B f acc s2).2 := by
  induction f generalizing acc s1 s2 with
  | zero => exact ⟨rfl, h⟩
  | succ f ih =>
    obtain ⟨hr, hs, hu⟩ := readByte_same B hB s1 s2 h
    unfold skipSpaceLoop
    cases h1 : readByte B s1 with
    | mk r1 t1 =>
      cases h2 : readByte B s2 with
      | mk r2 t2 =>
        rw [h1, h2] at hr hs hu
        simp only at hr hs hu ⊢
        subst hr
        cases r1 with
        | error e => exact ⟨rfl, hs⟩
        | ok c =>
          simp only
          split
          · exact ih _ t1 t2 hs
          · exact ⟨rfl, hu c rfl⟩

theorem skipSpace_same (B : Nat) (hB : 0 < B) (s1 s2 : Rd) (h : Same B s1 s2) :
    (skipSpace B s1).1 = (skipSpace B s2).1 ∧ Same B (skipSpace B s1).2 (skipSpace B s2).2 := by
  unfold skipSpace
  rw [h.2.2]
  exact skipSpaceLoop_same B hB _ [] s1 s2 h

theorem contLoopV_same (B : Nat) (hB : 0 < B) (f : Nat) (acc : Bytes) (s1 s2 : Rd) (h : Same B s1 s2) :
    (contLoopV B f acc s1).1 = (contLoopV B f acc s2).1 ∧
    Same B (contLoopV B f acc s1).2 (contLoopV B f acc s2).2 := by
  induction f generalizing acc s1 s2 with
  | zero => exact ⟨rfl, h⟩
  | succ f ih =>
    obtain ⟨hr, hs⟩ := skipSpace_same B hB s1 s2 h
    unfold contLoopV
    cases h1 : skipSpace B s1 with
    | mk k1 t1 =>
      cases h2 : skipSpace B s2 with
      | mk k2 t2 =>
        rw [h1, h2] at hr hs
        simp only at hr hs ⊢
        subst hr
        split
        · exact ⟨rfl, hs⟩
        · obtain ⟨hl, hls⟩ := readLineSlice_same B hB t1 t2 hs
          cases h3 : readLineSlice (plainReadLine B) none t1 with
          | mk res1 u1 dd1 =>
            cases h4 : readLineSlice (plainReadLine B) none t2 with
            | mk res2 u2 dd2 =>
              rw [h3, h4] at hl hls
              simp only at hl hls ⊢
              subst hl
              cases res1 with
              | error e => exact ⟨rfl, hls⟩
              | ok l => exact ih _ u1 u2 hls

theorem readContinuedSlow_same (B : Nat) (hB : 0 < B) (valid : Bytes → Bool) (s1 s2 : Rd)
    (h : Same B s1 s2) :
    (readContinuedSlow B valid s1).1 = (readContinuedSlow B valid s2).1 ∧
    Same B (readContinuedSlow B valid s1).2 (readContinuedSlow B valid s2).2 := by
  obtain ⟨hl, hls⟩ := readLineSlice_same B hB s1 s2 h
  unfold readContinuedSlow
  cases h3 : readLineSlice (plainReadLine B) none s1 with
  | mk res1 u1 dd1 =>
    cases h4 : readLineSlice (plainReadLine B) none s2 with
    | mk res2 u2 dd2 =>
      rw [h3, h4] at hl hls
      simp only at hl hls ⊢
      subst hl
      cases res1 with
      | error e => exact ⟨rfl, hls⟩
      | ok l =>
        simp only
        split
        · exact ⟨rfl, hls⟩
        · split
          · exact ⟨rfl, hls⟩
          · rw [hls.2.2]
            exact contLoopV_same B hB _ _ u1 u2 hls

/-- **continued_line_split_independent.** For every buffer size `B ≥ 1` (bufio: ≥ 16), every
first-line check and ANY two `bufio.Reader`s — explicit arrays, lines as views — whose unread bytes
(buffered + still to be delivered, in whatever segments, over clean scripts) are the same:
`readContinuedLineSlice` returns the same line, by content, and leaves the same unread bytes.
In particular the result depends on the byte stream only, not on where the network cut it, how
much was buffered when the call began, or what the array held before. -/
theorem continued_line_split_independent (B : Nat) (hB : 0 < B) (valid : Bytes → Bool) (a1 a2 : ARd)
    (h : Same B a1.rd a2.rd) :
    (areadContinued B 1 valid a1).1 = (areadContinued B 1 valid a2).1 ∧
    (areadContinued B 1 valid a1).2.rd.bytes = (areadContinued B 1 valid a2).2.rd.bytes ∧
    Same B (areadContinued B 1 valid a1).2.rd (areadContinued B 1 valid a2).2.rd := by
  obtain ⟨p1, q1⟩ := continued_line_alias_safe_slow B valid a1
  obtain ⟨p2, q2⟩ := continued_line_alias_safe_slow B valid a2
  obtain ⟨hr, hs⟩ := readContinuedSlow_same B hB valid a1.rd a2.rd h
  rw [p1, p2, q1, q2]
  exact ⟨hr, hs.2.2, hs⟩

/-- The same for fresh readers over two segmentations of one byte string. -/
theorem continued_line_split_independent_fresh (B : Nat) (hB : 0 < B) (valid : Bytes → Bool)
    (src1 src2 : List Chunk) (h1 : Clean src1) (h2 : Clean src2)
    (hb : srcBytes src1 = srcBytes src2) :
    (areadContinued B 1 valid (ARd.init B src1)).1 = (areadContinued B 1 valid (ARd.init B src2)).1 ∧
    (areadContinued B 1 valid (ARd.init B src1)).2.rd.bytes
      = (areadContinued B 1 valid (ARd.init B src2)).2.rd.bytes := by
  have h : Same B (ARd.init B src1).rd (ARd.init B src2).rd :=
    ⟨good_ofSrc B src1 h1, good_ofSrc B src2 h2, by simp [ARd.init, Rd.ofSrc, Rd.bytes, hb]⟩
  have := continued_line_split_independent B hB valid _ _ h
  exact ⟨this.1, this.2.1⟩

/-- **head_lines_split_independent.** The whole sequence of continued lines of a header block
(until the blank line / first error), as `readMIMEHeader` reads them one after the other. -/
theorem head_lines_split_independent (B : Nat) (hB : 0 < B) (valid : Bytes → Bool) (f : Nat)
    (a1 a2 : ARd) (h : Same B a1.rd a2.rd) :
    (aheadLines B 1 valid f a1).1 = (aheadLines B 1 valid f a2).1 ∧
    (aheadLines B 1 valid f a1).2.1 = (aheadLines B 1 valid f a2).2.1 ∧
    Same B (aheadLines B 1 valid f a1).2.2.rd (aheadLines B 1 valid f a2).2.2.rd := by
  induction f generalizing a1 a2 with
  | zero => exact ⟨rfl, rfl, h⟩
  | succ f ih =>
    obtain ⟨hr, _, hs⟩ := continued_line_split_independent B hB valid a1 a2 h
    unfold aheadLines
    cases h1 : areadContinued B 1 valid a1 with
    | mk r1 t1 =>
      cases h2 : areadContinued B 1 valid a2 with
      | mk r2 t2 =>
        rw [h1, h2] at hr hs
        simp only at hr hs ⊢
        subst hr
        cases r1 with
        | ok l =>
          simp only
          split
          · exact ⟨rfl, rfl, hs⟩
          · have := ih t1 t2 hs
            exact ⟨by rw [this.1], this.2.1, this.2.2⟩
        | err e => exact ⟨rfl, rfl, hs⟩
        | invalid => exact ⟨rfl, rfl, hs⟩

/-! ### non-vacuity -/

/-- "A: b\r\n c\r\nD" in one piece and cut after every byte: clean scripts, same bytes. -/
example : Clean [⟨[65, 58, 32, 98, 13, 10, 32, 99, 13, 10, 68], none⟩] ∧
    Clean ([65, 58, 32, 98, 13, 10, 32, 99, 13, 10, 68].map fun b => (⟨[b], none⟩ : Chunk)) := by
  unfold Clean; decide

set_option maxRecDepth 100000 in
example : (areadContinued 16 1 colonCheck
      (ARd.init 16 [⟨[65, 58, 32, 98, 13, 10, 32, 99, 13, 10, 68], none⟩])).1 = .ok [65, 58, 32, 98, 32, 99] ∧
    (areadContinued 16 1 colonCheck
      (ARd.init 16 ([65, 58, 32, 98, 13, 10, 32, 99, 13, 10, 68].map fun b => (⟨[b], none⟩ : Chunk)))).1
      = .ok [65, 58, 32, 98, 32, 99] := by decide

end Req.Props.C04
