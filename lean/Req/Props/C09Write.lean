import Req.Pool.WriteTok

/-!
# C09 round 7 — the connection goes back to the pool on the report of ITS OWN request's write

`Req.Pool.WriteTok`: `pc.writeErrCh` as a one-slot channel of reports labelled (ghost) with the
request whose write they report.  For every sequence of requests on one connection, whatever the
timing of the reports (`late`) and whichever uploads are still being written when their response
is processed (`held`):
* `report_is_own` — every report `wroteRequest` consumes for request r is the report of r's write;
* `wrote_iff_written` — the check passes exactly when r's write is finished (so an upload answered
  early never sends its connection back to the pool), and leaves the channel clean;
* `fast_path_breaks` — with the fast path of seed C09-r7-1 both statements are false.
-/

namespace Req.Props.C09Write
open Req.Pool.WriteTok

theorem serveOne_written (s : St) (q : Rq) (hc : Clean s) (hh : q.held = false) :
    (serveOne {} s q).2 = true ∧ Clean (serveOne {} s q).1 ∧
      (serveOne {} s q).1.used = (q.id, q.id) :: s.used := by
  obtain ⟨h1, h2, h3⟩ := hc
  cases hl : q.late <;> simp [serveOne, step, check, Clean, h1, h2, h3, hh, hl]

theorem serveOne_held (s : St) (q : Rq) (hc : Clean s) (hh : q.held = true) :
    (serveOne {} s q).2 = false ∧ (serveOne {} s q).1.used = s.used := by
  obtain ⟨h1, h2, h3⟩ := hc
  cases hl : q.late <;> simp [serveOne, step, check, h1, h2, h3, hh, hl]

/-- The check passes exactly when the write of THIS request is finished. -/
theorem wrote_iff_written (s : St) (q : Rq) (hc : Clean s) :
    (serveOne {} s q).2 = !q.held := by
  cases hh : q.held
  · simpa using (serveOne_written s q hc hh).1
  · simpa using (serveOne_held s q hc hh).1

/-- Every consumed report is the report of the checking request's own write — for all request
sequences, all report timings, all held uploads. -/
theorem report_is_own (qs : List Rq) : ∀ (s : St), Clean s → (∀ p ∈ s.used, p.1 = p.2) →
    ∀ p ∈ (serve {} s qs).1.used, p.1 = p.2 := by
  induction qs with
  | nil => intro s _ hu; simpa [serve] using hu
  | cons q qs ih =>
    intro s hc hu
    cases hh : q.held
    · obtain ⟨hw, hc', hu'⟩ := serveOne_written s q hc hh
      simp only [serve, hw, if_true]
      apply ih _ hc'
      intro p hp
      rw [hu'] at hp
      cases hp with
      | head => rfl
      | tail _ hp => exact hu p hp
    · obtain ⟨hw, hu'⟩ := serveOne_held s q hc hh
      simp only [serve, hw]
      intro p hp
      have : p ∈ (serveOne {} s q).1.used := by simpa using hp
      rw [hu'] at this
      exact hu p this

/-- The verdicts of a whole sequence: `true` up to the first held upload, `false` there, nothing after. -/
theorem verdicts (qs : List Rq) : ∀ (s : St), Clean s →
    (serve {} s qs).2 = (qs.takeWhile (fun q => !q.held)).map (fun _ => true) ++
      (if qs.all (fun q => !q.held) then [] else [false]) := by
  induction qs with
  | nil => intro s _; simp [serve]
  | cons q qs ih =>
    intro s hc
    cases hh : q.held
    · obtain ⟨hw, hc', _⟩ := serveOne_written s q hc hh
      simp [serve, hw, hh, ih _ hc']
    · obtain ⟨hw, _⟩ := serveOne_held s q hc hh
      simp [serve, hw, hh]

/-- Seed C09-r7-1: a body-less request whose report is late passes without a token; the next
request — an upload still being written — consumes that report and its connection is reused. -/
theorem fast_path_breaks :
    let qs : List Rq := [⟨0, false, true, true⟩, ⟨1, true, false, false⟩]
    (serve ⟨true⟩ {} qs).2 = [true, true] ∧ (1, 0) ∈ (serve ⟨true⟩ {} qs).1.used := by
  decide

/-- non-vacuity: the same sequence on the code -/
example : (serve {} {} [⟨0, false, true, true⟩, ⟨1, true, false, false⟩]).2 = [true, false] := by decide

end Req.Props.C09Write
