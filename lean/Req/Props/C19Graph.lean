import Req.Client.Graph
/-!
# C19 on the object graph — a clone shares nothing mutable with its original

`Req/Client/Graph.lean` models the heap behind a client as a graph with one node per Go object
(nested structs, back-pointers and closures included) and `Clone` as a copy directed by a
per-field specification (`share` / `copy` / `fresh` / `toNew` / `zero`).

* `clone_reads_only` — `Clone` changes no existing object.
* `clone_root_faithful` — the copy has the type, the scalar content and (in order) every
  reference-typed field of the original that the specification does not drop; `share` fields
  refer to the original's objects ("a cloned client initially behaves identically", on the graph).
* `clone_separates` — if the specification shares only fields whose target is deeply immutable or
  that are listed as shared by design, then after `Clone` EVERY object reachable from both the
  original and the copy is of an immutable type or lies below a shared-by-design reference of the
  copy. For every graph, every specification, every nesting depth — nothing is flattened.
* `original_unaffected`, `copy_unaffected` — hence overwriting any other object reachable from
  one of the two (new content and new references arbitrary: map insert, append in place, write
  through a pointer, re-pointing a field) leaves every object reachable from the other one, and
  the set of those objects, unchanged. This is "a change to either has no effect on the other"
  at the level of the heap.
* `rows_clone_separates` — the same from a finite table of field rows whose safety is a
  decidable check (`rowsSafe`): what `Bridge/C19.lean` instantiates with the regenerated table.
-/
namespace Req.Props.C19Graph
open Req.Graph

/-- `Clone` only reads: every object that existed before is what it was. -/
theorem clone_reads_only (S : Spec) (fuel : Nat) (g : G) (r : Nat) (hwf : WFBelow g.next g) (hr : r < g.next) :
    ∀ i, i < g.next → (clone S fuel g r).1.node i = g.node i := by
  have h := cloneNode_spec S g g.next hwf fuel (fun _ => none) g r (Nat.le_refl _) hr (fun _ _ => rfl)
    (by intro u n h; simp at h) (by intro i h1 h2; omega)
  exact h.2.2.1

/-- **Separation.** After `Clone`, an object reachable from both the original `r` and the copy is
of a deeply immutable type, or lies at or below the target of a shared-by-design reference held by
a new object. -/
theorem clone_separates (S : Spec) (imm : Ty → Bool) (design : Ty → Label → Bool) (fuel : Nat) (g : G) (r : Nat)
    (hwf : WFBelow g.next g) (hr : r < g.next)
    (himm : ImmClosed imm g.next g) (hsafe : ShareSafe S imm design g.next g) :
    ∀ n, Reach (clone S fuel g r).1 r n → Reach (clone S fuel g r).1 (clone S fuel g r).2 n →
      imm ((clone S fuel g r).1.node n).ty = true ∨ ViaDesign design (clone S fuel g r).1 g.next n := by
  intro n h1 h2
  obtain ⟨hroot, hlt, hsame, hnew, _⟩ := cloneNode_spec S g g.next hwf fuel (fun _ => none) g r (Nat.le_refl _) hr
    (fun _ _ => rfl) (by intro u n h; simp at h) (by intro i h1 h2; omega)
  have hagree : AgreeBelow g.next (clone S fuel g r).1 g := hsame
  have hwf' : WFBelow g.next (clone S fuel g r).1 := by
    intro i hi e he
    rw [hagree i hi] at he
    exact hwf i hi e he
  have hold : n < g.next := reach_below hwf' hr h1
  have hr' : (clone S fuel g r).2 = g.next := hroot
  rcases new_reach hnew hagree hwf himm hsafe (by rw [hr']; exact Nat.le_refl _) (by rw [hr']; exact hlt) h2 with ⟨hb, _⟩ | ⟨_, h⟩
  · omega
  · exact h

/-- **The copy initially is what the original is** (one level; the targets of `copy` fields are
copies made the same way): same type, same scalar content, the same reference-typed fields in the
same order — every field but those the specification drops — and every `share` field refers to the
very object the original's refers to. -/
theorem clone_root_faithful (S : Spec) (fuel : Nat) (g : G) (r : Nat) :
    let c := clone S (fuel + 1) g r
    let env : Ty → Option Nat := fun u => if u = (g.node r).ty then some g.next else none
    (c.1.node c.2).ty = (g.node r).ty ∧ (c.1.node c.2).val = (g.node r).val ∧
    (c.1.node c.2).out.map Prod.fst = ((g.node r).out.filter (kept S env (g.node r).ty)).map Prod.fst ∧
    (∀ e ∈ (g.node r).out, S (g.node r).ty e.1 = .share → e ∈ (c.1.node c.2).out) := by
  intro c env
  have hc : c = cloneNode S (fuel + 1) (fun _ => none) g r := rfl
  simp only [cloneNode] at hc
  have h2 : c.2 = g.next := by rw [hc]
  have hnode : c.1.node c.2 = ⟨(g.node r).ty, (g.node r).val,
      ((g.node r).out.foldl (cloneEdge S (g.node r).ty env (cloneNode S fuel env))
        (g.alloc ⟨(g.node r).ty, (g.node r).val, []⟩, [])).2⟩ := by
    rw [h2, hc]
    simp [G.set, env]
  rw [hnode]
  refine ⟨rfl, rfl, ?_, ?_⟩
  · simp only
    rw [foldl_labels]
    simp
  · intro e he hS
    exact foldl_shared S (g.node r).ty env _ _ _ e (Or.inr ⟨he, hS⟩)

/-- the objects that may be common to both: immutable ones and those under a shared-by-design reference -/
def Common (imm : Ty → Bool) (design : Ty → Label → Bool) (g' : G) (b n : Nat) : Prop :=
  imm (g'.node n).ty = true ∨ ViaDesign design g' b n

/-- **A change to the copy has no effect on the original.** Overwrite any object `n` reachable from
the copy that is not `Common` with ANY content `x`: every object reachable from the original is
unchanged, and exactly the same objects are reachable from it. -/
theorem original_unaffected (S : Spec) (imm : Ty → Bool) (design : Ty → Label → Bool) (fuel : Nat) (g : G) (r : Nat)
    (hwf : WFBelow g.next g) (hr : r < g.next)
    (himm : ImmClosed imm g.next g) (hsafe : ShareSafe S imm design g.next g)
    (n : Nat) (x : Node) (hn : Reach (clone S fuel g r).1 (clone S fuel g r).2 n)
    (hnc : ¬ Common imm design (clone S fuel g r).1 g.next n) :
    ∀ m, (Reach ((clone S fuel g r).1.set n x) r m ↔ Reach (clone S fuel g r).1 r m) ∧
      (Reach (clone S fuel g r).1 r m → ((clone S fuel g r).1.set n x).node m = (clone S fuel g r).1.node m) := by
  have hnot : ¬ Reach (clone S fuel g r).1 r n := fun h =>
    hnc (clone_separates S imm design fuel g r hwf hr himm hsafe n h hn)
  intro m
  exact ⟨⟨set_frame_conv _ r n x hnot, fun h => (set_frame _ r n x hnot h).2⟩, fun h => (set_frame _ r n x hnot h).1⟩

/-- **A change to the original has no effect on the copy.** -/
theorem copy_unaffected (S : Spec) (imm : Ty → Bool) (design : Ty → Label → Bool) (fuel : Nat) (g : G) (r : Nat)
    (hwf : WFBelow g.next g) (hr : r < g.next)
    (himm : ImmClosed imm g.next g) (hsafe : ShareSafe S imm design g.next g)
    (n : Nat) (x : Node) (hn : Reach (clone S fuel g r).1 r n)
    (hnc : ¬ Common imm design (clone S fuel g r).1 g.next n) :
    ∀ m, (Reach ((clone S fuel g r).1.set n x) (clone S fuel g r).2 m ↔ Reach (clone S fuel g r).1 (clone S fuel g r).2 m) ∧
      (Reach (clone S fuel g r).1 (clone S fuel g r).2 m →
        ((clone S fuel g r).1.set n x).node m = (clone S fuel g r).1.node m) := by
  have hnot : ¬ Reach (clone S fuel g r).1 (clone S fuel g r).2 n := fun h =>
    hnc (clone_separates S imm design fuel g r hwf hr himm hsafe n hn h)
  intro m
  exact ⟨⟨set_frame_conv _ _ n x hnot, fun h => (set_frame _ _ n x hnot h).2⟩, fun h => (set_frame _ _ n x hnot h).1⟩

/-! ## From a finite table of field rows -/

/-- one reference-typed field of one struct type -/
structure FieldRow where
  owner : Ty
  label : Label
  treat : Treat
  /-- type of the object the field refers to -/
  target : Ty
  /-- the field is in the SharedByDesign list -/
  design : Bool
  deriving DecidableEq, Repr

def findRow (rows : List FieldRow) (t : Ty) (l : Label) : Option FieldRow :=
  rows.find? fun r => r.owner == t && r.label == l

/-- a field without a row is left out of the copy -/
def specOf (rows : List FieldRow) : Spec := fun t l =>
  match findRow rows t l with
  | some r => r.treat
  | none => .zero

def targetOf (rows : List FieldRow) (t : Ty) (l : Label) : Ty :=
  match findRow rows t l with
  | some r => r.target
  | none => 0

def designOf (rows : List FieldRow) (t : Ty) (l : Label) : Bool :=
  match findRow rows t l with
  | some r => r.design
  | none => false

def immOf (immTys : List Ty) (t : Ty) : Bool := immTys.contains t

/-- the decidable check: a shared field is shared by design or refers to an immutable type -/
def rowsSafe (rows : List FieldRow) (immTys : List Ty) : Bool :=
  rows.all fun r => r.treat != .share || r.design || immTys.contains r.target

/-- the graph is an instance of the schema: fields refer to objects of their declared type, and
objects of immutable types hold no references -/
structure Conforms (rows : List FieldRow) (immTys : List Ty) (g : G) : Prop where
  typed : ∀ i, i < g.next → ∀ e ∈ (g.node i).out, (g.node e.2).ty = targetOf rows (g.node i).ty e.1
  leaves : ∀ i, i < g.next → immOf immTys (g.node i).ty = true → (g.node i).out = []

theorem rows_clone_separates (rows : List FieldRow) (immTys : List Ty) (hsafe : rowsSafe rows immTys = true)
    (fuel : Nat) (g : G) (r : Nat) (hwf : WFBelow g.next g) (hr : r < g.next) (hc : Conforms rows immTys g) :
    ∀ n, Reach (clone (specOf rows) fuel g r).1 r n →
      Reach (clone (specOf rows) fuel g r).1 (clone (specOf rows) fuel g r).2 n →
      Common (immOf immTys) (designOf rows) (clone (specOf rows) fuel g r).1 g.next n := by
  apply clone_separates (specOf rows) (immOf immTys) (designOf rows) fuel g r hwf hr
  · intro i hi himm e he
    rw [hc.leaves i hi himm] at he
    simp at he
  · intro a ha e he hS
    unfold specOf at hS
    cases hf : findRow rows (g.node a).ty e.1 with
    | none => simp [hf] at hS
    | some row =>
      simp only [hf] at hS
      have hmem : row ∈ rows := List.mem_of_find?_eq_some hf
      unfold rowsSafe at hsafe
      rw [List.all_eq_true] at hsafe
      have := hsafe row hmem
      simp only [hS, bne_self_eq_false, Bool.false_or, Bool.or_eq_true] at this
      rcases this with hd | hi
      · left; simp [designOf, hf, hd]
      · right
        rw [hc.typed a ha e he]
        simp only [targetOf, hf, immOf]
        exact hi

/-! ## Non-vacuity: a client, its transport with an HTTP/2 transport pointing back, a shared logger -/

namespace Demo

/-- types: 0 scalar leaf (immutable), 1 logger, 2 client, 3 transport, 4 http2 transport, 5 header map -/
def rows : List FieldRow := [
  ⟨2, 0, .copy, 3, false⟩,      -- Client.Transport: Clone()
  ⟨2, 1, .share, 1, true⟩,      -- Client.log: shared by design
  ⟨2, 2, .share, 0, false⟩,     -- Client.BaseURL: a value
  ⟨3, 0, .copy, 5, false⟩,      -- Transport.Headers: Clone()
  ⟨3, 1, .copy, 4, false⟩,      -- Transport.t2: rebuilt
  ⟨4, 0, .toNew 3, 3, false⟩]   -- http2.Transport.Options = &tt.Options

/-- objects: 0 client, 1 transport, 2 http2 transport (→ 1), 3 headers, 4 logger, 5 base URL -/
def g : G := ⟨6, fun i =>
  match i with
  | 0 => ⟨2, 7, [(0, 1), (1, 4), (2, 5)]⟩
  | 1 => ⟨3, 8, [(0, 3), (1, 2)]⟩
  | 2 => ⟨4, 9, [(0, 1)]⟩
  | 3 => ⟨5, 10, []⟩
  | 4 => ⟨1, 11, []⟩
  | 5 => ⟨0, 12, []⟩
  | _ => ⟨0, 0, []⟩⟩

example : rowsSafe rows [0] = true := by decide

/-- the copy: new client 6 → new transport 7 → new headers 8 and new http2 transport 9, whose
back-pointer goes to the NEW transport; the logger and the base URL are the original's -/
example : (clone (specOf rows) 3 g 0).2 = 6 ∧
    ((clone (specOf rows) 3 g 0).1.node 6).out = [(0, 7), (1, 4), (2, 5)] ∧
    ((clone (specOf rows) 3 g 0).1.node 7).out = [(0, 8), (1, 9)] ∧
    ((clone (specOf rows) 3 g 0).1.node 9).out = [(0, 7)] ∧
    (clone (specOf rows) 3 g 0).1.next = 10 := by decide

/-- `clone_root_faithful` on the demo: all three reference fields of the client are kept, in order -/
example : ((clone (specOf rows) 3 g 0).1.node 6).out.map Prod.fst =
    ((g.node 0).out.filter (kept (specOf rows) (fun u => if u = 2 then some 6 else none) 2)).map Prod.fst := by decide

/-- with the back-pointer shared instead (`Options: t.t2.Options`), the table is not safe … -/
def badRows : List FieldRow := rows.map fun r => if r.owner = 4 then { r with treat := .share } else r

example : rowsSafe badRows [0] = false := by decide

/-- … and indeed the copy's http2 transport then points at the ORIGINAL transport -/
example : ((clone (specOf badRows) 3 g 0).1.node 9).out = [(0, 1)] := by decide

end Demo

end Req.Props.C19Graph
