import Req.H1.Conn
import Req.Props.C04Framing
/-!
C04 — connection-level attribution: "the two never disagree about where a message ends, so
bytes belonging to one response are never attributed to another", at the level of the
persistent-connection read loop (`Req.H1.Conn`: `exchange`, `connSequence`, `connTimed`,
`transportRun`).  All statements are unbounded: every buffer size, every request list, every
byte stream, every number of messages.

* `exchange_deterministic_end` — an exchange that leaves the connection reusable is read
  identically from any extension of the stream; the extension is left unread.
* `sequence_attribution` — for every stream `m₁ ++ … ++ m_k ++ tail` where each `mᵢ` alone is a
  complete, reusable exchange for request `qᵢ`: response `i` is exactly what `mᵢ` alone yields
  (no byte of `m_{i+1}` in it and vice versa) and the reading continues at `tail`.
* `sequence_stops` / `forbids_reuse` — after a message that forbids reuse (`Connection: close`,
  HTTP/1.0 without keep-alive, status ≤ 199, close-delimited body, caller did not read the body
  to EOF, body error, `Request.Close`, protocol switch, rejected head) nothing more is read.
* `unsolicited_bytes_not_attributed` — bytes that arrive while no request is outstanding are
  never delivered to a later request: the connection ends with the current delivery.
* `timed_delivery_from_own_segment` — with arrival times, response `j` is a function of what
  the peer sent in answer to request `j` alone.
* `timed_agrees_with_sequence` — when the peer alternates properly, the timed and the one-stream
  readings coincide.
* `expect100_irrelevant`, `transport_one_delivery_per_request`, `transport_dials_le`.
-/
namespace Req.Props.C04
open Req.Proto Req.H1 Req.Lemmas.H1Framing

/-- The environment `exchange` hands to `connReusable`. -/
def exchEnv (q : ConnReq) (all : Bool) : ReuseEnv := ⟨q.reqClose, q.isHead, false, false, true, true, all⟩

/-- What an exchange that keeps the connection looks like. -/
theorem exchange_some_inv {B : Nat} {q : ConnReq} {s r : Bytes} {d : Delivery}
    (h : exchange B q s = (d, some r)) :
    ∃ m r0, parseFinalHead 6 q.isHead s = some (m, r0) ∧ isProtocolSwitch m = false ∧
      (readBody B m r0).ok = true ∧ m.framing ≠ .untilClose ∧ r = (readBody B m r0).rest ∧
      m.close = false ∧ q.reqClose = false ∧ 200 ≤ m.sl.code ∧
      (m.framing = .none ∨ q.consume.readsAll (readBody B m r0).data.length = true) := by
  unfold exchange at h
  cases hp : parseFinalHead 6 q.isHead s with
  | none => simp [hp] at h
  | some p =>
    obtain ⟨m, r0⟩ := p
    simp only [hp] at h
    cases hsw : isProtocolSwitch m with
    | true => simp [hsw] at h
    | false =>
      simp only [hsw, Bool.false_eq_true, if_false, Prod.mk.injEq] at h
      obtain ⟨_, hre⟩ := h
      split at hre
      · next hreuse =>
        simp only [Option.some.injEq] at hre
        obtain ⟨sl, h0, hrt⟩ := parseFinalHead_readTransfer hp
        obtain ⟨_, _, _, _, _, hsl, _⟩ := readTransfer_inv hrt
        unfold connReusable at hreuse
        have hk := (keepalive_iff hrt _ rfl).mp hreuse
        obtain ⟨hclose, hrc, h200, _, hbody, _, _, _⟩ := hk
        have hnu : m.framing ≠ .untilClose := by
          intro hu
          have := (close_iff hrt).mpr (Or.inr (Or.inr (Or.inr hu)))
          rw [hclose] at this; cases this
        have hok : (readBody B m r0).ok = true := by
          rcases hbody with hn | hb
          · simp [readBody, hn]
          · simp only [Bool.and_eq_true] at hb; exact hb.2
        refine ⟨m, r0, rfl, hsw, hok, hnu, hre.symm, hclose, hrc, hsl ▸ h200, ?_⟩
        rcases hbody with hn | hb
        · exact Or.inl hn
        · simp only [Bool.and_eq_true] at hb; exact Or.inr hb.1
      · cases hre

/-- **exchange_deterministic_end.** -/
theorem exchange_deterministic_end {B : Nat} {q : ConnReq} {s r : Bytes} {d : Delivery}
    (h : exchange B q s = (d, some r)) (t : Bytes) :
    exchange B q (s ++ t) = (d, some (r ++ t)) := by
  obtain ⟨m, r0, hp, hsw, hok, hnu, hr, _⟩ := exchange_some_inv h
  have hb := body_deterministic_end hok hnu t
  unfold exchange at h ⊢
  rw [parseFinalHead_append hp t]
  simp only [hp, hsw, Bool.false_eq_true, if_false] at h ⊢
  rw [hb]
  simp only [Prod.mk.injEq] at h ⊢
  obtain ⟨hd, hre⟩ := h
  refine ⟨hd, ?_⟩
  have hcr : connReusable (.resp m { readBody B m r0 with rest := (readBody B m r0).rest ++ t })
      ⟨q.reqClose, q.isHead, false, false, true, true,
        q.consume.readsAll (readBody B m r0).data.length⟩ =
      connReusable (.resp m (readBody B m r0))
      ⟨q.reqClose, q.isHead, false, false, true, true,
        q.consume.readsAll (readBody B m r0).data.length⟩ := rfl
  rw [hcr]
  split at hre
  · next hreuse =>
    simp only [Option.some.injEq] at hre
    simp [hreuse, hre]
  · cases hre

/-! ### one stream, k messages -/

/-- A request, the bytes of its response, and what the caller gets when these bytes are all
there is. -/
structure Attributed (B : Nat) where
  q : ConnReq
  msg : Bytes
  d : Delivery
  alone : exchange B q msg = (d, some [])

/-- **sequence_attribution.**  For every `k`, every stream `m₁ ++ … ++ m_k ++ tail` in which
each `mᵢ` on its own is a complete exchange for `qᵢ` that keeps the connection: response `i`
is exactly the one `mᵢ` alone yields — its head, body and trailers are parsed from the bytes of
`mᵢ` and from nothing else — and the loop goes on reading at `tail` with the remaining
requests. -/
theorem sequence_attribution {B : Nat} (l : List (Attributed B)) (more : List ConnReq)
    (tail : Bytes) :
    connSequence B (l.map (·.q) ++ more) ((l.map (·.msg)).flatten ++ tail) =
      l.map (·.d) ++ connSequence B more tail := by
  induction l with
  | nil => simp
  | cons a l ih =>
    simp only [List.map_cons, List.cons_append, List.flatten_cons, List.append_assoc]
    have := exchange_deterministic_end a.alone ((l.map (·.msg)).flatten ++ tail)
    simp only [List.nil_append] at this
    rw [connSequence, this]
    simp only [ih]

/-- The same read off by position: the `i`-th delivery on the concatenated stream is the one
its own message yields. -/
theorem sequence_attribution_get {B : Nat} (l : List (Attributed B)) (more : List ConnReq)
    (tail : Bytes) (i : Nat) (hi : i < l.length) :
    (connSequence B (l.map (·.q) ++ more) ((l.map (·.msg)).flatten ++ tail))[i]? =
      some (exchange B l[i].q l[i].msg).1 := by
  rw [sequence_attribution, List.getElem?_append_left (by simpa using hi)]
  simp [hi, l[i].alone]

/-- **sequence_stops.** An exchange that does not put the connection back ends the sequence:
whatever requests are queued and whatever bytes follow, nothing more is delivered. -/
theorem sequence_stops {B : Nat} (l : List (Attributed B)) (q : ConnReq) (more : List ConnReq)
    (s : Bytes) (hstop : (exchange B q s).2 = none) :
    connSequence B (l.map (·.q) ++ q :: more) ((l.map (·.msg)).flatten ++ s) =
      l.map (·.d) ++ [(exchange B q s).1] := by
  rw [sequence_attribution]
  congr 1
  rw [connSequence]
  cases he : exchange B q s with
  | mk d o =>
    rw [he] at hstop
    simp only at hstop
    subst hstop
    rfl

/-- **forbids_reuse.** The messages after which `readLoop` ends: the response asks to close
(`close_iff`: HTTP/1.0 without keep-alive, `Connection: close`, major version 0, close-delimited
body), the request did, the status is at most 199 (terminal 101, statuses below 100), the body
was not read to its end by the caller, or it ended in an error. -/
theorem forbids_reuse {B : Nat} {q : ConnReq} {s r0 : Bytes} {m : Msg}
    (hp : parseFinalHead 6 q.isHead s = some (m, r0))
    (hwhy : m.close = true ∨ q.reqClose = true ∨ m.sl.code ≤ 199 ∨ isProtocolSwitch m = true ∨
      (m.framing ≠ .none ∧ q.consume.readsAll (readBody B m r0).data.length = false) ∨
      (readBody B m r0).ok = false) :
    (exchange B q s).2 = none := by
  cases he : exchange B q s with
  | mk d o =>
    cases o with
    | none => rfl
    | some r =>
      exfalso
      obtain ⟨m', r0', hp', hsw, hok, _, _, hclose, hrc, h200, hbody⟩ := exchange_some_inv he
      rw [hp] at hp'
      simp only [Option.some.injEq, Prod.mk.injEq] at hp'
      obtain ⟨rfl, rfl⟩ := hp'
      rcases hwhy with h | h | h | h | ⟨hn, h⟩ | h
      · rw [hclose] at h; cases h
      · rw [hrc] at h; cases h
      · omega
      · rw [hsw] at h; cases h
      · rcases hbody with hb | hb
        · exact hn hb
        · rw [hb] at h; cases h
      · rw [hok] at h; cases h

/-- A rejected head ends the connection as well. -/
theorem reject_ends_connection {B : Nat} {q : ConnReq} {s : Bytes}
    (hp : parseFinalHead 6 q.isHead s = none) : exchange B q s = (.fail, none) := by
  simp [exchange, hp]

/-! ### arrival times -/

/-- **unsolicited_bytes_not_attributed.** If, when the exchange for request `q` ends with the
connection back in the idle pool, bytes are left that the peer sent without a request being
outstanding (`r ≠ []`), the connection ends there: no later request — however many are queued,
whatever the peer sends afterwards — is answered from this connection, so no byte of `r` (or of
anything after it) is ever delivered as a response. -/
theorem unsolicited_bytes_not_attributed {B : Nat} (q : ConnReq) (qs : List ConnReq)
    (seg : Bytes) (segs : List Bytes) {d : Delivery} {r : Bytes}
    (h : exchange B q seg = (d, some r)) (hr : r ≠ []) :
    connTimed B (q :: qs) (seg :: segs) = [d] := by
  rw [connTimed, h]
  cases r with
  | nil => exact absurd rfl hr
  | cons _ _ => rfl

/-- … and the delivery itself is the one the message alone yields: the unsolicited bytes do not
leak into the response they follow either. -/
theorem unsolicited_bytes_not_in_previous {B : Nat} {q : ConnReq} {msg : Bytes} {d : Delivery}
    (h : exchange B q msg = (d, some [])) (extra : Bytes) :
    exchange B q (msg ++ extra) = (d, some extra) := by
  simpa using exchange_deterministic_end h extra

/-- **timed_delivery_from_own_segment.** Response `j` on a connection depends on nothing but
request `j` and what the peer sent between request `j` and request `j+1`. -/
theorem timed_delivery_from_own_segment {B : Nat} (reqs : List ConnReq) (segs : List Bytes)
    (j : Nat) (hj : j < (connTimed B reqs segs).length) :
    ∃ (hq : j < reqs.length) (hs : j < segs.length),
      (connTimed B reqs segs)[j] = (exchange B reqs[j] segs[j]).1 := by
  induction reqs generalizing segs j with
  | nil => simp [connTimed] at hj
  | cons q qs ih =>
    cases segs with
    | nil => simp [connTimed] at hj
    | cons seg segs =>
      cases he : exchange B q seg with
      | mk d o =>
        have hstop : ∀ o', (o' ≠ some []) → exchange B q seg = (d, o') →
            connTimed B (q :: qs) (seg :: segs) = [d] := by
          intro o' ho' he'
          rw [connTimed, he']
          match o', ho' with
          | none, _ => rfl
          | some (_ :: _), _ => rfl
          | some [], h => exact absurd rfl h
        by_cases ho : o = some []
        · subst ho
          have hc : connTimed B (q :: qs) (seg :: segs) = d :: connTimed B qs segs := by
            rw [connTimed, he]
          cases j with
          | zero => exact ⟨by simp, by simp, by simp [hc, he]⟩
          | succ j =>
            have hj' : j < (connTimed B qs segs).length := by
              rw [hc] at hj; simpa using hj
            obtain ⟨hq, hs, heq⟩ := ih segs j hj'
            exact ⟨by simp; omega, by simp; omega, by simp [hc, heq]⟩
        · have hc := hstop o ho he
          have hj0 : j = 0 := by rw [hc] at hj; simpa using hj
          subst hj0
          exact ⟨by simp, by simp, by simp [hc, he]⟩

/-- With proper alternation the timed reading delivers what each message alone yields. -/
theorem timed_attribution {B : Nat} (l : List (Attributed B)) :
    connTimed B (l.map (·.q)) (l.map (·.msg)) = l.map (·.d) := by
  induction l with
  | nil => rfl
  | cons a l ih =>
    simp only [List.map_cons]
    rw [connTimed, a.alone]
    simp only [ih]

/-- **timed_agrees_with_sequence.** When the peer answers each request with exactly one
complete message, reading with arrival times and reading the concatenated stream coincide. -/
theorem timed_agrees_with_sequence {B : Nat} (l : List (Attributed B)) :
    connTimed B (l.map (·.q)) (l.map (·.msg)) =
      connSequence B (l.map (·.q)) (l.map (·.msg)).flatten := by
  have h := sequence_attribution l [] []
  simp only [List.append_nil] at h
  rw [h, timed_attribution]
  simp [connSequence]

/-- **expect100_irrelevant.** Whether the request carried `Expect: 100-continue` changes
nothing in how the response stream is read (a `100 Continue` is one of the at most five skipped
informational heads either way). -/
theorem expect100_irrelevant (B : Nat) (q : ConnReq) (x : Bool) (s : Bytes) :
    exchange B { q with expect100 := x } s = exchange B q s := rfl

/-! ### where `Attributed` comes from: two parametric families -/

/-- Any head that keeps the connection (no `Close`, status ≥ 200, no protocol switch) with a
declared length `n`, followed by exactly `n` body bytes, read to the end by a non-HEAD caller:
the exchange delivers exactly these bytes and leaves nothing. -/
theorem attributed_length {B : Nat} {hd body : Bytes} {m : Msg} {n : Nat} (x : Bool)
    (hp : parseFinalHead 6 false hd = some (m, []))
    (hf : m.framing = .length n) (hn : body.length = n)
    (hclose : m.close = false) (h200 : 200 ≤ m.sl.code) (hsw : isProtocolSwitch m = false) :
    exchange B ⟨false, false, x, .full⟩ (hd ++ body) =
      (.resp m body .eof (declMap m.trailerDecl), some []) := by
  have hp' := parseFinalHead_append hp body
  simp only [List.nil_append] at hp'
  obtain ⟨sl, h0, hrt⟩ := parseFinalHead_readTransfer hp
  have hb : readBody B m body = ⟨body, true, declMap m.trailerDecl, []⟩ := by
    simp [readBody, hf, ← hn]
  have hre : connReusable (.resp m (readBody B m body))
      ⟨false, false, false, false, true, true, true⟩ = true := by
    unfold connReusable
    rw [hb]
    apply (keepalive_iff hrt _ rfl).mpr
    obtain ⟨_, _, _, _, _, hsl, _⟩ := readTransfer_inv hrt
    exact ⟨hclose, rfl, hsl ▸ h200, rfl, Or.inr rfl, rfl, rfl, rfl⟩
  unfold exchange
  simp only [hp', hsw, Bool.false_eq_true, if_false, Consume.readsAll, if_true, hre]
  simp [hb]

/-- The same for a chunked message: any head that keeps the connection with chunked framing,
followed by the chunked writer's output for ANY split of the body into non-empty chunks and the
final CRLF (no trailers sent). -/
theorem attributed_chunked {B : Nat} (hB : 18 ≤ B) {hd : Bytes} {m : Msg} (x : Bool)
    (hp : parseFinalHead 6 false hd = some (m, []))
    (hf : m.framing = .chunked)
    (hclose : m.close = false) (h200 : 200 ≤ m.sl.code) (hsw : isProtocolSwitch m = false)
    (chunks : List Bytes) (hne : ∀ c ∈ chunks, c ≠ []) (hsz : ∀ c ∈ chunks, c.length < 2 ^ 61) :
    exchange B ⟨false, false, x, .full⟩ (hd ++ (encodeChunked chunks ++ [CR, LF])) =
      (.resp m chunks.flatten .eof (declMap m.trailerDecl), some []) := by
  have hp' := parseFinalHead_append hp (encodeChunked chunks ++ [CR, LF])
  simp only [List.nil_append] at hp'
  obtain ⟨sl, h0, hrt⟩ := parseFinalHead_readTransfer hp
  have hb : readBody B m (encodeChunked chunks ++ [CR, LF]) =
      ⟨chunks.flatten, true, declMap m.trailerDecl, []⟩ := by
    have := chunked_body_roundtrip hB hf chunks hne hsz []
    simpa using this
  have hre : connReusable (.resp m (readBody B m (encodeChunked chunks ++ [CR, LF])))
      ⟨false, false, false, false, true, true, true⟩ = true := by
    unfold connReusable
    rw [hb]
    apply (keepalive_iff hrt _ rfl).mpr
    obtain ⟨_, _, _, _, _, hsl, _⟩ := readTransfer_inv hrt
    exact ⟨hclose, rfl, hsl ▸ h200, rfl, Or.inr rfl, rfl, rfl, rfl⟩
  unfold exchange
  simp only [hp', hsw, Bool.false_eq_true, if_false, Consume.readsAll, if_true, hre]
  simp [hb]

/-- `attributed_length` as a constructor of `Attributed`: every keep-alive Content-Length
message qualifies, so `sequence_attribution` applies to every pipelined run of such messages. -/
def Attributed.ofLength {B : Nat} {hd body : Bytes} {m : Msg} {n : Nat}
    (hp : parseFinalHead 6 false hd = some (m, []))
    (hf : m.framing = .length n) (hn : body.length = n)
    (hclose : m.close = false) (h200 : 200 ≤ m.sl.code) (hsw : isProtocolSwitch m = false) :
    Attributed B :=
  ⟨⟨false, false, false, .full⟩, hd ++ body, .resp m body .eof (declMap m.trailerDecl),
    attributed_length false hp hf hn hclose h200 hsw⟩

/-- … and every keep-alive chunked message, for every split of its body into chunks. -/
def Attributed.ofChunked {B : Nat} (hB : 18 ≤ B) {hd : Bytes} {m : Msg}
    (hp : parseFinalHead 6 false hd = some (m, []))
    (hf : m.framing = .chunked)
    (hclose : m.close = false) (h200 : 200 ≤ m.sl.code) (hsw : isProtocolSwitch m = false)
    (chunks : List Bytes) (hne : ∀ c ∈ chunks, c ≠ []) (hsz : ∀ c ∈ chunks, c.length < 2 ^ 61) :
    Attributed B :=
  ⟨⟨false, false, false, .full⟩, hd ++ (encodeChunked chunks ++ [CR, LF]),
    .resp m chunks.flatten .eof (declMap m.trailerDecl),
    attributed_chunked hB false hp hf hclose h200 hsw chunks hne hsz⟩

/-! ### non-vacuity: concrete messages -/

namespace Ex
def get : ConnReq := ⟨false, false, false, .full⟩
/-- `HTTP/1.1 200 OK`, `Content-Length: 2`, body `hi`. -/
def m1 : Bytes := [72,84,84,80,47,49,46,49,32,50,48,48,32,79,75,13,10,67,111,110,116,101,110,116,45,76,101,110,103,116,104,58,32,50,13,10,13,10,104,105]
/-- `HTTP/1.1 200 OK`, `Transfer-Encoding: chunked`, `1 CRLF A CRLF 0 CRLF CRLF`. -/
def m2 : Bytes := [72,84,84,80,47,49,46,49,32,50,48,48,32,79,75,13,10,84,114,97,110,115,102,101,114,45,69,110,99,111,100,105,110,103,58,32,99,104,117,110,107,101,100,13,10,13,10,49,13,10,65,13,10,48,13,10,13,10]
/-- `HTTP/1.1 200 OK`, `Connection: close`, `Content-Length: 1`, body `Z`. -/
def m3 : Bytes := [72,84,84,80,47,49,46,49,32,50,48,48,32,79,75,13,10,67,111,110,110,101,99,116,105,111,110,58,32,99,108,111,115,101,13,10,67,111,110,116,101,110,116,45,76,101,110,103,116,104,58,32,49,13,10,13,10,90]
def a1 : Attributed 4096 := ⟨get, m1, (exchange 4096 get m1).1, by decide⟩
def a2 : Attributed 4096 := ⟨get, m2, (exchange 4096 get m2).1, by decide⟩

set_option maxRecDepth 16384 in
/-- Two pipelined messages and a third that forbids reuse, then junk: three deliveries, with
bodies `hi`, `A`, `Z`; the junk is never read. -/
example : (connSequence 4096 [get, get, get, get] (m1 ++ m2 ++ m3 ++ m1)).map
    (fun d => match d with | .resp _ b _ _ => b | .fail => []) = [[104,105], [65], [90]] := by decide

/-- `sequence_stops` applies to `m3` (`Connection: close`). -/
example : (exchange 4096 get (m3 ++ m1)).2 = none := by decide

set_option maxRecDepth 16384 in
/-- Unsolicited: `m1` immediately followed by another complete response in the same segment;
the second request gets nothing from this connection. -/
example : connTimed 4096 [get, get] [m1 ++ m2, m1] = [a1.d] := by decide

/-- Proper alternation: both are delivered. -/
example : connTimed 4096 [get, get] [m1, m2] = [a1.d, a2.d] := by decide

set_option maxRecDepth 16384 in
/-- Transport level: unsolicited bytes after `m1` cost a second dial; the second request is
answered from the second connection's bytes (`m2`, body `A`), never from the leftover. -/
example : transportRun 4096 [get, get] ⟨none, [⟨[m1 ++ m1, m1], false⟩, ⟨[m2], false⟩], 0⟩ =
    ([a1.d, a2.d], 2) := by decide
set_option maxRecDepth 16384 in
example : transportRun 4096 [get, get] ⟨none, [⟨[m1, m2], false⟩, ⟨[m1], false⟩], 0⟩ =
    ([a1.d, a2.d], 1) := by decide
end Ex

/-! ### Transport level -/

/-- Where a delivery can come from: an error, or ONE exchange on ONE segment of the idle
connection or of the next scripted connection. -/
def DeliveredFrom (B : Nat) (q : ConnReq) (st : TState) (d : Delivery) : Prop :=
  d = .fail ∨
  (∃ segs eof seg, st.cur = some (segs, eof) ∧ seg ∈ segs ∧ d = (exchange B q seg).1) ∨
  (∃ sc scs seg, st.scripts = sc :: scs ∧ seg ∈ sc.segs ∧ d = (exchange B q seg).1)

theorem serveOn_source {B : Nat} {q : ConnReq} {segs : List Bytes} {eof : Bool} {d : Delivery}
    {next : Option (List Bytes)} (h : serveOn B q segs eof = some (d, next)) :
    ∃ seg, seg ∈ segs ∧ d = (exchange B q seg).1 := by
  unfold serveOn at h
  cases segs with
  | nil => simp at h
  | cons seg rest =>
    simp only at h
    split at h
    · cases h
    · refine ⟨seg, by simp, ?_⟩
      split at h <;> simp_all

/-- **transport_attribution.** Whatever the Transport hands to the caller for a request is
either an error or the result of one exchange on one segment of one connection: a response is
never assembled from bytes of two connections or of two arrival segments. -/
theorem transport_attribution (B : Nat) (q : ConnReq) (st : TState) :
    DeliveredFrom B q st (transportStep B q st).1 := by
  have hdial : ∀ st' : TState, st'.scripts = st.scripts →
      (dialAndServe B q st').1 = .fail ∨
      (∃ sc scs seg, st.scripts = sc :: scs ∧ seg ∈ sc.segs ∧
        (dialAndServe B q st').1 = (exchange B q seg).1) := by
    intro st' hs
    unfold dialAndServe
    rw [hs]
    cases hsc : st.scripts with
    | nil => left; rfl
    | cons sc scs =>
      simp only
      cases hso : serveOn B q sc.segs sc.eof with
      | none => left; rfl
      | some p =>
        obtain ⟨d, next⟩ := p
        obtain ⟨seg, hm, hd⟩ := serveOn_source hso
        right; exact ⟨sc, scs, seg, rfl, hm, hd⟩
  unfold transportStep DeliveredFrom
  cases hc : st.cur with
  | none =>
    simp only
    rcases hdial st rfl with h | h
    · exact Or.inl h
    · exact Or.inr (Or.inr h)
  | some c =>
    obtain ⟨segs, eof⟩ := c
    simp only
    cases hso : serveOn B q segs eof with
    | some p =>
      obtain ⟨d, next⟩ := p
      obtain ⟨seg, hm, hd⟩ := serveOn_source hso
      right; left; exact ⟨segs, eof, seg, rfl, hm, hd⟩
    | none =>
      simp only
      cases eof with
      | false => left; rfl
      | true =>
        simp only [if_true]
        rcases hdial { st with cur := none } rfl with h | h
        · exact Or.inl h
        · exact Or.inr (Or.inr h)

/-- **transport_single_connection.** Through the Transport, on ONE scripted connection that the
peer keeps open, the requests get exactly what the connection-level read loop (`connTimed`)
delivers, and every request after the connection has ended fails (no other connection is
scripted): the Transport layer adds nothing to and takes nothing from a connection's
deliveries.  (This is what ties `connTimed`, and through `timed_agrees_with_sequence`
`connSequence`, to the lane that runs `transportRun` against the real Transports.) -/
theorem transport_single_connection (B : Nat) (reqs : List ConnReq) (segs : List Bytes) (n : Nat) :
    (transportRun B reqs ⟨some (segs, false), [], n⟩).1 =
      connTimed B reqs segs ++
        List.replicate (reqs.length - (connTimed B reqs segs).length) Delivery.fail := by
  have hdead : ∀ (reqs : List ConnReq) (n : Nat),
      (transportRun B reqs ⟨none, [], n⟩).1 = List.replicate reqs.length Delivery.fail := by
    intro reqs
    induction reqs with
    | nil => intro n; rfl
    | cons q qs ih =>
      intro n
      simp only [transportRun, transportStep, dialAndServe, List.length_cons, List.replicate_succ]
      rw [ih]
  induction reqs generalizing segs n with
  | nil => simp [transportRun, connTimed]
  | cons q qs ih =>
    cases segs with
    | nil =>
      simp only [transportRun, transportStep, serveOn, connTimed, Bool.false_eq_true, if_false,
        List.nil_append, List.length_nil, Nat.sub_zero, List.length_cons, List.replicate_succ]
      rw [hdead]
    | cons seg rest =>
      by_cases hempty : seg.isEmpty = true
      · have hnil : seg = [] := List.isEmpty_iff.mp hempty
        subst hnil
        have hx : exchange B q [] = (Delivery.fail, none) := by
          simp [exchange, parseFinalHead, parseHead, readLine]
        simp only [transportRun, transportStep, serveOn, List.isEmpty_nil, if_true,
          Bool.false_eq_true, if_false, connTimed, hx, List.length_cons, List.length_nil]
        rw [hdead]
        simp
      · have hne : seg.isEmpty = false := by simpa using hempty
        cases hx : exchange B q seg with
        | mk d o =>
          by_cases ho : o = some []
          · subst ho
            simp only [transportRun, transportStep, serveOn, hne, Bool.false_eq_true, if_false, hx,
              Bool.and_false, Option.map_some, connTimed, List.cons_append, List.length_cons,
              Nat.add_sub_add_right]
            rw [ih]
          · have hstop : connTimed B (q :: qs) (seg :: rest) = [d] := by
              rw [connTimed, hx]
              match o, ho with
              | none, _ => rfl
              | some (_ :: _), _ => rfl
              | some [], h => exact absurd rfl h
            have hserve : serveOn B q (seg :: rest) false = some (d, none) := by
              simp only [serveOn, hne, Bool.false_eq_true, if_false, hx]
            simp only [transportRun, transportStep, hserve, Option.map_none, hstop,
              List.length_cons, List.length_nil, List.cons_append, List.nil_append]
            rw [hdead]
            simp

/-- Every request gets exactly one delivery. -/
theorem transport_one_delivery_per_request (B : Nat) (reqs : List ConnReq) (st : TState) :
    (transportRun B reqs st).1.length = reqs.length := by
  induction reqs generalizing st with
  | nil => rfl
  | cons q qs ih => simp [transportRun, ih]

theorem transportStep_dials (B : Nat) (q : ConnReq) (st : TState) :
    st.dials ≤ (transportStep B q st).2.dials ∧ (transportStep B q st).2.dials ≤ st.dials + 1 ∧
    (transportStep B q st).2.dials + (transportStep B q st).2.scripts.length =
      st.dials + st.scripts.length := by
  have hdial : ∀ st' : TState,
      st'.dials ≤ (dialAndServe B q st').2.dials ∧ (dialAndServe B q st').2.dials ≤ st'.dials + 1 ∧
      (dialAndServe B q st').2.dials + (dialAndServe B q st').2.scripts.length =
        st'.dials + st'.scripts.length := by
    intro st'
    unfold dialAndServe
    cases hsc : st'.scripts with
    | nil => simp
    | cons sc scs =>
      simp only
      cases serveOn B q sc.segs sc.eof with
      | none => simp; omega
      | some p => obtain ⟨d, next⟩ := p; simp; omega
  unfold transportStep
  cases hc : st.cur with
  | none => exact hdial st
  | some c =>
    obtain ⟨segs, eof⟩ := c
    simp only
    cases serveOn B q segs eof with
    | some p => obtain ⟨d, next⟩ := p; simp
    | none =>
      simp only
      cases eof with
      | false => simp
      | true => simpa using hdial { st with cur := none }

/-- **transport_dials_le.** At most one dial per request, and never more dials than scripted
connections: dials + undialled scripts is invariant. -/
theorem transport_dials_le (B : Nat) (reqs : List ConnReq) (st : TState) :
    st.dials ≤ (transportRun B reqs st).2 ∧
    (transportRun B reqs st).2 ≤ st.dials + reqs.length ∧
    (transportRun B reqs st).2 ≤ st.dials + st.scripts.length := by
  induction reqs generalizing st with
  | nil => simp [transportRun]
  | cons q qs ih =>
    obtain ⟨h1, h2, h3⟩ := transportStep_dials B q st
    obtain ⟨i1, i2, i3⟩ := ih (transportStep B q st).2
    simp only [transportRun, List.length_cons]
    omega

end Req.Props.C04
