import Req.Pool.ProxyDispatch
import Req.Lemmas.Dispatch
import Req.Props.C12
/-!
# C12 — the dispatch theorems with a proxy configured

`routeP px` is `Transport.roundTrip` with `t.Proxy(req) = px` (HTTP proxy: absolute-form for
plain http, CONNECT for https; SOCKS5). Tied to the code by lane `c12proxy` (in-process
CONNECT proxy and SOCKS5 stub) and, for the TLS part inside the tunnel, lane `c12path`.
-/
namespace Req.Props.C12
open Req.Pool.Dispatch Req.Lemmas.Dispatch

/-- Without a proxy `routeP` is `route`. -/
theorem routeP_none (cfg : Cfg) (req : Req) (net : Net) : routeP none cfg req net = route cfg req net := by
  unfold routeP route dispatchP dispatch h1PathP
  rfl

theorem h1PathVia_ok {px : ProxyNet} {cfg : Cfg} {req : Req} {net : Net} {v : Ver}
    (h : h1PathVia px cfg req net = .ok v) :
    (req.scheme = .http ∧ v = .h1 ∧ px.up = true)
    ∨ (req.scheme = .https ∧ px.up = true ∧ px.tunnel = true
        ∧ ∃ st, dialTlsStateTunnel cfg (cfg.force = some .h1 || req.requiresH1) net = .ok st ∧ carry cfg st = .ok v) := by
  unfold h1PathVia at h
  split at h
  · cases h
  · left
    split at h
    · cases h
    · rename_i hs hup
      refine ⟨hs, ?_, by simpa using hup⟩
      split at h
      · cases h; rfl
      · split at h
        · cases h
        · exact (speak_ok h).1
  · right
    split at h
    · cases h
    · rename_i hs hup
      simp at hup
      split at h
      · cases h
      · exact ⟨hs, hup.1, hup.2, _, by assumption, h⟩

theorem h1PathVia_not_crash {px : ProxyNet} {cfg : Cfg} {req : Req} {net : Net} :
    h1PathVia px cfg req net ≠ .crash := by
  unfold h1PathVia
  split
  · simp
  · split
    · simp
    · split
      · simp
      · split
        · simp
        · exact speak_not_crash
  · split
    · simp
    · split
      · simp
      · exact carry_not_crash

/-- **No silent fallback, with a proxy.** Whatever proxy is configured and whatever it does:
with a forced version `v` a request that is carried at all is carried by `v`. -/
theorem forced_no_fallback_proxy (px : Option ProxyNet) (cfg : Cfg) (req : Req) (net : Net) (v w : Ver)
    (hf : cfg.force = some v) (h : routeP px cfg req net = .ok w) : w = v := by
  cases px with
  | none => rw [routeP_none] at h; exact forced_no_fallback cfg req net v w hf h
  | some p =>
    unfold routeP at h
    simp [hf] at h
    unfold dispatchP at h
    cases v with
    | h3 => simp [hf] at h; exact (t3_ok h).1
    | h2 => simp [hf] at h; exact (t2_ok h).1
    | h1 =>
      simp [hf, h1PathP] at h
      rcases h1PathVia_ok h with ⟨_, hv, _⟩ | ⟨_, _, _, st, _, hc⟩
      · exact hv
      · exact carry_forced_h1 hf hc

example : routeP (some ⟨.http, true, true⟩) ⟨some .h1, false, false, false, false, [.http11, .h2]⟩ ⟨.https, false⟩
    ⟨[.h2, .http11], true, false, false, false, .fail, false, false, false⟩ = .ok .h1 := by decide
example : routeP (some ⟨.socks5, true, true⟩) ⟨none, false, false, false, false, [.http11, .h2]⟩ ⟨.https, false⟩
    ⟨[.h2, .http11], true, false, false, false, .fail, false, false, false⟩ = .ok .h2 := by decide

/-- **A forced HTTP/2 or HTTP/3 ignores the proxy**: `http2.Transport` / `http3.RoundTripper`
dial the origin themselves — the outcome is that of the proxy-less client, whatever the
proxy is or does (it is never contacted: `viaProxy = false`). HTTP/3 cannot be tunnelled
through an HTTP proxy; the request neither fails nor falls back to another VERSION, it
leaves the proxy out. -/
theorem forced_h2_h3_ignore_proxy (px : Option ProxyNet) (cfg : Cfg) (req : Req) (net : Net)
    (hf : cfg.force = some .h2 ∨ cfg.force = some .h3) :
    routeP px cfg req net = route cfg req net ∧ viaProxy px cfg req net = false := by
  rcases hf with hf | hf <;> simp [routeP, route, dispatchP, dispatch, viaProxy, hf]

example : routeP (some ⟨.http, false, false⟩) ⟨some .h3, true, false, false, false, []⟩ ⟨.https, false⟩
    ⟨[.h2, .http11], true, true, true, false, .fail, false, false, false⟩ = .ok .h3 := by decide

/-- **A failing proxy is never bypassed on the HTTP/1.1 path.** Un-forced or forced HTTP/1.1,
no Alt-Svc entry, nothing cached: when the proxy is down or refuses the tunnel the request
FAILS — there is no silent direct connection. -/
theorem failing_proxy_is_an_error (p : ProxyNet) (cfg : Cfg) (req : Req) (net : Net)
    (hf : cfg.force = none ∨ cfg.force = some .h1) (hs : req.scheme = .https)
    (halt : net.alt = false) (hc2 : net.cachedH2 = false) (hc3 : net.cachedH3 = false)
    (hdown : p.up = false ∨ p.tunnel = false) :
    routeP (some p) cfg req net = .error .proxyFailed := by
  rcases hf with hf | hf <;> rcases hdown with hd | hd <;>
    simp [routeP, dispatchP, h1PathP, h1PathVia, hf, hs, halt, hc2, hc3, hd]

example : routeP (some ⟨.socks5, true, false⟩) ⟨none, false, false, false, false, [.http11, .h2]⟩ ⟨.https, false⟩
    ⟨[.h2, .http11], true, false, false, false, .fail, false, false, false⟩ = .error .proxyFailed := by decide

/-- **Inside the tunnel the CLIENT's TLS settings decide.** An https request carried over a new
connection through a proxy, with no handshake function set — even with a `SetDialTLS`
function, which is not consulted behind a proxy — went through the handshake acceptance of
the client's configuration. -/
theorem tunnel_connection_was_accepted (p : ProxyNet) (cfg : Cfg) (req : Req) (net : Net) (v : Ver)
    (hf : cfg.force = none ∨ cfg.force = some .h1) (hs : req.scheme = .https)
    (halt : net.alt = false) (hc2 : net.cachedH2 = false) (hc3 : net.cachedH3 = false)
    (hh : cfg.handshake = false) (h : routeP (some p) cfg req net = .ok v) :
    net.tcpAccept = true ∧ v ≠ .h3 ∧ p.up = true ∧ p.tunnel = true := by
  have hp : h1PathVia p cfg req net = .ok v := by
    rcases hf with hf | hf <;>
      simpa [routeP, dispatchP, h1PathP, hf, hs, halt, hc2, hc3] using h
  rcases h1PathVia_ok hp with ⟨hh', _⟩ | ⟨_, hup, htun, st, hst, hc⟩
  · rw [hs] at hh'; cases hh'
  · have hv : v ≠ .h3 := by
      rcases carry_ok hc with ⟨rfl, _⟩ | ⟨rfl, _⟩ <;> simp
    refine ⟨?_, hv, hup, htun⟩
    unfold dialTlsStateTunnel dialTlsState at hst
    simp [hh] at hst
    split at hst
    · cases hst
    · split at hst
      · cases hst
      · simp_all

/-- Plain http with a proxy: HTTP/1.1 (absolute-form to an HTTP proxy, origin-form through
SOCKS5), or HTTP/2 prior knowledge when h2c is enabled and HTTP/2 forced (direct). -/
theorem proxied_plain_http (px : Option ProxyNet) (cfg : Cfg) (req : Req) (net : Net) (v : Ver)
    (hs : req.scheme = .http) (h : routeP px cfg req net = .ok v) :
    v = .h1 ∨ (v = .h2 ∧ cfg.allowHTTP = true ∧ cfg.force = some .h2) := by
  cases px with
  | none => rw [routeP_none] at h; exact plain_http_h1_or_h2c cfg req net v hs h
  | some p =>
    unfold routeP at h
    simp [hs] at h
    unfold dispatchP at h
    split at h
    · unfold t3RoundTrip at h
      simp [hs] at h
      split at h <;> cases h
    · rename_i hf
      right
      obtain ⟨hv, hsch⟩ := t2_ok h
      refine ⟨hv, ?_, hf⟩
      rcases hsch with h1 | ⟨_, h2⟩
      · rw [hs] at h1; cases h1
      · exact h2
    · simp [hs, h1PathP] at h
      rcases h1PathVia_ok h with ⟨_, hv, _⟩ | ⟨hh, _⟩
      · left; exact hv
      · rw [hs] at hh; cases hh

/-- Through an HTTP proxy a plain request is HTTP/1.1 to the PROXY whatever the origin speaks. -/
theorem http_proxy_plain_is_h1 (p : ProxyNet) (cfg : Cfg) (req : Req) (net : Net)
    (hk : p.kind = .http) (hup : p.up = true) (hs : req.scheme = .http)
    (hf : cfg.force = none ∨ cfg.force = some .h1) :
    routeP (some p) cfg req net = .ok .h1 := by
  rcases hf with hf | hf <;> simp [routeP, dispatchP, h1PathP, h1PathVia, hf, hs, hk, hup]

/-- **Un-forced https through a proxy uses a version negotiated with the origin** (inside the
tunnel, or earlier for a cached connection). -/
theorem unforced_negotiated_proxy (px : Option ProxyNet) (cfg : Cfg) (req : Req) (net : Net) (v : Ver)
    (hf : cfg.force = none) (hs : req.scheme = .https) (h : routeP px cfg req net = .ok v) :
    Negotiated net v := by
  cases px with
  | none => rw [routeP_none] at h; exact unforced_negotiated cfg req net v hf hs h
  | some p =>
    have t3neg : ∀ {w}, t3RoundTrip cfg req net = .ok w → Negotiated net w := by
      intro w hw
      obtain ⟨rfl, hh⟩ := t3_ok hw
      exact hh
    have h1neg : h1PathVia p cfg req net = .ok v → Negotiated net v := by
      intro hp
      rcases h1PathVia_ok hp with ⟨hh, _⟩ | ⟨_, _, _, st, hst, hc⟩
      · rw [hs] at hh; cases hh
      · unfold dialTlsStateTunnel at hst
        rcases carry_ok hc with ⟨rfl, _, s, rfl, hp2⟩ | ⟨rfl, hpe⟩
        · rcases dialTlsState_ok hst with ⟨hn, _⟩ | ⟨s', hs', hcu⟩ | ⟨cl, p', hs', hn, _⟩
          · cases hn
          · cases hs'; right; left; exact ⟨s, hcu, hp2⟩
          · cases hs'; right; right; exact ⟨cl, by rw [hn]; simp at hp2; rw [hp2]⟩
        · rcases dialTlsState_ok hst with ⟨_, hcu⟩ | ⟨s', hs', hcu⟩ | ⟨cl, p', hs', hn, _⟩
          · right; left; exact hcu
          · left
            refine ⟨s', hcu, ?_⟩
            subst hs'
            intro hp2
            cases s' with
            | mk pr m => simp at hp2; subst hp2; simp [peerOf] at hpe
          · right; right
            refine ⟨cl, p', hn, ?_⟩
            subst hs'
            intro hp2
            subst hp2
            simp [peerOf] at hpe
    unfold routeP at h
    simp [hf, hs] at h
    split at h
    · exact t3neg h
    · unfold dispatchP at h
      simp [hf, hs, h1PathP] at h
      split at h
      · cases h; left; assumption
      · split at h
        · cases h; left; simp_all
        · exact h1neg h

/-- A proxied request never crashes the caller either (same premises as `forced_version_or_error`,
un-forced included). -/
theorem proxied_h1_path_no_crash (p : ProxyNet) (cfg : Cfg) (req : Req) (net : Net)
    (hf : cfg.force = none ∨ cfg.force = some .h1) (halt : net.alt = false) :
    routeP (some p) cfg req net ≠ .crash := by
  rcases hf with hf | hf
  · simp only [routeP, hf, halt, Bool.and_false, Bool.false_eq_true, if_false]
    unfold dispatchP
    simp only [hf]
    split
    · split
      · simp
      · split
        · simp
        · exact h1PathVia_not_crash
    · exact h1PathVia_not_crash
  · simp only [routeP, hf]
    simp
    unfold dispatchP
    simp [hf, h1PathP]
    exact h1PathVia_not_crash

end Req.Props.C12
