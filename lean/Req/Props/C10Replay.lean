import Req.Lemmas.C10Round5
import Req.Props.C10
import Req.Props.C10Dyn
/-!
C10, round 5 — what a retry re-reads.

* `replayability_rechecked_each_attempt`: in the loop with everything mutable — the caller's
  `OnBeforeRequest` middleware (part of `mw`), retry hooks (arbitrary functions of the request
  state) and the retry option edited in flight — the request that carried a body that cannot be
  sent again is the LAST request of the call, at whichever attempt the body became unreplayable.
  The "cannot be replayed" test is made after EVERY attempt, on the request as that attempt left it.
* `multipart_attempts_identical`: for every source of file content that keeps the
  `GetFileContent` contract — a fresh reader per call, a reopened file, the same seekable reader
  (through `SetFileReader` or through a caller-written `GetFileContent`) — every attempt's
  multipart body carries every upload COMPLETE, and attempt `k+1` = attempt `k`.
  `shared_unseekable_reader_uploads_nothing_on_retry`: the one source outside the contract.
-/
namespace Req.Props.C10Replay
open Req.Retry Req.RetryDyn Req.Lemmas.C10Loop Req.Lemmas.C10Dyn Req.Lemmas.C10Round5

section loop
variable {σ W : Type}

/-- **replayability_rechecked_each_attempt**.  `mark w` tells of a request on the wire whether the
attempt that sent it left the request unreplayable (`hmark`: it is the loop's own test `su` on the
state after that attempt's middleware).  Whatever the script, the policy, the in-flight edits,
the hooks and the middleware: nothing is sent after a marked request. -/
theorem replayability_rechecked_each_attempt (v : Variant) (p : Policy σ) (ed : Edits) (mw : Nat → σ → σ × W)
    (su : σ → Bool) (mark : W → Bool) (hmark : ∀ ra st, mark (mw ra st).2 = su (mw ra st).1)
    (script : List Outcome) (ra : Nat) (st : σ) (d : Dyn) (prev : Option Resp)
    (l1 l2 : List (Nat × W)) (ra' : Nat) (w : W)
    (hw : wires (dloop v p ed mw su script ra st d prev).1 = l1 ++ (ra', w) :: l2) (hm : mark w = true) :
    l2 = [] := by
  induction script generalizing ra st d prev l1 with
  | nil => simp [dloop, wires] at hw
  | cons o rest ih =>
    cases hout : (diteration v p ed mw su o ra st d prev).out with
    | inl f =>
      rw [dloop_cons_stop v p ed mw su o rest ra st d prev f hout] at hw
      simp only [wires_diteration] at hw
      split at hw
      · simp at hw
      · cases l1 with
        | nil => simp at hw; exact hw.2
        | cons a t => simp at hw
    | inr x =>
      obtain ⟨ho, -, -, -, -, -, hs⟩ := diteration_cont v p ed mw su o ra st d prev x hout
      rw [dloop_cons_cont v p ed mw su o rest ra st d prev x hout] at hw
      simp only [wires_append, wires_diteration, ho, ↓reduceIte, List.singleton_append] at hw
      cases l1 with
      | nil =>
        simp only [List.nil_append, List.cons.injEq, Prod.mk.injEq] at hw
        have : mark w = false := by rw [← hw.1.2, hmark, hs]
        rw [hm] at this; cases this
      | cons a t =>
        simp only [List.cons_append, List.cons.injEq] at hw
        exact ih _ _ _ _ t hw.2

/-- … in numbers: a pass whose middleware leaves the request unreplayable ends the call, so the
call makes exactly one attempt more than the passes before it. -/
theorem unreplayable_pass_is_last (v : Variant) (p : Policy σ) (ed : Edits) (mw : Nat → σ → σ × W)
    (su : σ → Bool) (o : Outcome) (rest : List Outcome) (ra : Nat) (st : σ) (d : Dyn) (prev : Option Resp)
    (h : su (mw ra st).1 = true) :
    iterations (dloop v p ed mw su (o :: rest) ra st d prev).1 = 1 := by
  obtain ⟨f, hf⟩ := Req.Props.C10Dyn.unreplayable_never_retried v p ed mw su o ra st d prev h
  rw [dloop_cons_stop v p ed mw su o rest ra st d prev f hf]
  exact (diteration_shape v p ed mw su o ra st d prev).2

/-! non-vacuity: the request state is "has an io.Reader body been installed"; the hook installs
one at retry 1 (`SetBody(io.Reader)` from a retry hook), the count is negative -/

def exP : Policy Bool := ⟨true, -1, [], [(0, fun o s => s || o.attempt == 1)], [], .fixed 0⟩
def exMw : Nat → Bool → Bool × Bool := fun _ s => (s, s)

/-- attempt 0 plain, attempt 1 carries the reader and is the last — although every outcome asks
for a retry and the count is unbounded; without the hook the loop runs the whole script -/
example : wires (dloop R exP Edits.nop exMw id (List.replicate 6 .transportErr) 0 false (dynOf exP) none).1 =
      [(0, false), (1, true)] ∧
    iterations (dloop R { exP with hooks := [] } Edits.nop exMw id (List.replicate 6 .transportErr) 0 false
      (dynOf exP) none).1 = 6 := by decide

/-- the caller's middleware installs it when it sees attempt 2 -/
example : wires (dloop R { exP with hooks := [] } Edits.nop (fun ra s => exMw ra (s || ra == 2)) id
      (List.replicate 6 .transportErr) 0 false (dynOf exP) none).1 = [(0, false), (1, false), (2, true)] := by decide

end loop

section multipart
open Req.Attempt Req.Lemmas.C10Attempt Req.Props.C10

/-- The file part an upload must produce: its complete content, typed explicitly or by sniffing
(the padded 512-byte buffer). -/
def completePart (c : ClientCfg) (f : FileUp) : FilePart :=
  ⟨f.param, f.name, if f.ctype = [] then c.detect (sniffBuf f.src.content) else f.ctype, f.src.content⟩

/-- **multipart_attempts_identical**: a multipart request (buffered or streamed: the same
`writeMultiPart` fills a buffer or a pipe) whose uploads keep the `GetFileContent` contract and
which `Do` does not refuse sends, in EVERY attempt `k`, every upload complete — whichever the
content source: fresh reader per call, reopened file, the same seekable reader rewound — and the
request of attempt `k+1` is the request of attempt `k`. -/
theorem multipart_attempts_identical (c : ClientCfg) (hx : c.isXML c.jsonCT = false) (st : ReqState)
    (hm : st.multipart = true) (hp : payloadForbid c st.method = false)
    (hr : unreplayable R st = false) (hct : st.contract = true) (k : Nat) :
    build R c st (k + 1) = build R c st k ∧
    ∃ fields, (build R c st k).body = .multipart fields (st.files.map (completePart c)) := by
  refine ⟨attempts_identical c hx st hr hct k, ?_⟩
  have h0 : build R c st k = build R c st 0 := by
    induction k with
    | zero => rfl
    | succ n ih => rw [attempts_identical c hx st hr hct n, ih]
  rw [h0]
  have hfiles := noStream_of_replayable st hr hct
  have hparts : fileParts R c st.files = st.files.map (completePart c) := by
    rw [fileParts_eq_map R c st.files hfiles]
    apply List.map_congr_left
    intro f hf
    simp [filePart, completePart, fileContent_complete f (hfiles f hf)]
  have hb : (build R c st 0).body = (parseBody R c 0 (pre c 0 st)).2 := by
    show (Attempt.mw R c 0 st).2.body = _
    rw [mw_eq]
  have hp' : payloadForbid c (pre c 0 st).method = false := hp
  have hm' : (pre c 0 st).multipart = true := hm
  have hf' : (pre c 0 st).files = st.files := rfl
  rw [hb]
  unfold parseBody
  simp only [hp', hm', hf', Bool.false_eq_true, ↓reduceIte]
  rw [hparts]
  exact ⟨_, rfl⟩

def exCfgM : ClientCfg :=
  { cookies := [], headers := [], form := [], query := [], allowGetPayload := false,
    detect := fun _ => [116], boundaryCT := [66], formCT := [70], jsonCT := [74], ctKey := [67],
    mGet := [71], mHead := [72], mOptions := [79], isXML := fun _ => false, pathParams := [], baseURL := [98],
    schemePrefix := [] }

/-- a multipart `POST` with one upload from source `src` -/
def exUp (src : FileSrc) : ReqState :=
  { method := [80], urlHead := .rel, path := [.lit [47]], rawQuery := [], pathParams := [], cookies := [],
    headers := [], form := [], ordered := [], query := [], multipart := true,
    files := [⟨[112], [110], [], src⟩], body := .none }

/-- every source inside the contract: the complete content `x` in attempts 0, 1 and 2 -/
example : ∀ src ∈ [FileSrc.bytes [120], .path [120], .seeker [120] false, .shared [120] true false],
    unreplayable R (exUp src) = false ∧ (exUp src).contract = true ∧
    (build R exCfgM (exUp src) 0).body = .multipart [] [⟨[112], [110], [116], [120]⟩] ∧
    (build R exCfgM (exUp src) 1).body = .multipart [] [⟨[112], [110], [116], [120]⟩] ∧
    (build R exCfgM (exUp src) 2).body = .multipart [] [⟨[112], [110], [116], [120]⟩] := by decide

/-- **shared_unseekable_reader_uploads_nothing_on_retry**: the source OUTSIDE the contract — a
caller-written `GetFileContent` that hands out the same reader, not seekable, on every call — is
not (cannot be) refused by `Do`, and every retry uploads an empty part: the hypothesis
`st.contract` of the identity theorems is necessary. -/
theorem shared_unseekable_reader_uploads_nothing_on_retry :
    unreplayable R (exUp (.shared [120] false false)) = false ∧
    (exUp (.shared [120] false false)).contract = false ∧
    (build R exCfgM (exUp (.shared [120] false false)) 0).body = .multipart [] [⟨[112], [110], [116], [120]⟩] ∧
    (build R exCfgM (exUp (.shared [120] false false)) 1).body = .multipart [] [⟨[112], [110], [116], []⟩] := by
  decide

end multipart

end Req.Props.C10Replay
