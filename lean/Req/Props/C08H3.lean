import Req.Lemmas.CancelH3Stuck
/-!
# C08 on HTTP/3 — theorems about the lifecycle model `Req/Pool/CancelH3.lean`

* `cancel_releases_h3` — the context ends at ANY reachable state at which the application is not yet
  done with the response (`reqDone` open): every run of internal steps has at most `K` (= 17) steps,
  and when no step is enabled the caller is back (with exactly the context's error, or with the
  response it already had), the watcher and the upload goroutine are gone, NEITHER direction of the
  stream is left open, and the request body was closed exactly once.
* `cancel_terminates_h3` — maximal internal runs exist (the ∀-run statements are not vacuous).
* `cancel_error_h3` — whatever `roundTrip` failed with, once the context is done the caller gets the
  context's error (the relabelling in `RoundTrip`), at each of the three return points.
* `blocked_upload_is_woken_h3` — the waiting point "stream write blocked on flow control": in a
  cancelled state with the application not done, a parked upload is never the end of a run.
* `h3_body_closed_at_most_once`, `h3_closes_exact` — ∀ reachable states `Close` ≤ 1; and = 1 exactly
  when the upload goroutine has run its deferred close or the caller closed the body itself.
* `h3_watcher_joined` — `roundTrip` never returns an error while its watcher goroutine is alive.
* `cancel_write_is_necessary_h3` — sharpness (= seed C08-r5-3): with the watcher's `CancelWrite`
  dropped, a reachable cancelled state ends with the upload parked and the body never closed.
* `upload_outlives_response_h3` — the limit of the hypothesis `reqDone = false`: once the application
  has closed the response body, the watcher is gone; a context that ends afterwards no longer reaches
  an upload that is still blocked (model witness; observation in notes/C08.md).
* `cancel_beats_write_error` (+ sharpness `reqerr_first_hides_cancel`) — `mapRoundTripError`: a
  recorded request-body write error never hides the cancellation cause (= seed C08-r5-2).
-/
namespace Req.Props.C08H3
open Req.Cancel (CtxErr)
open Req.CancelH3 Req.Lemmas.CancelH3

/-- the state right after the cancel event is `Good` and every error already returned is `e` -/
theorem cancel_point {s : St} (hr : Reach s) (e : CtxErr) (hc : s.ctx = none) (hd : s.reqDone = false) :
    Inv (evApply s (.cancel e)) ∧ Good (evApply s (.cancel e)) ∧ (evApply s (.cancel e)).ctx = some e ∧
    J e (evApply s (.cancel e)) := by
  have hI := reach_inv hr
  have hg : evGuard s (.cancel e) = true := by simp [evGuard, hc]
  refine ⟨inv_ev hI hg, ?_, rfl, ?_⟩
  · exact Or.inl (by simpa [evApply] using hd)
  · intro x hx
    have h1 := hI.re
    have hx' : s.cpc = .returned (.err x) := by simpa [evApply] using hx
    rw [hx'] at h1
    simp [retErr, hd, hc] at h1

theorem run_keeps {e : CtxErr} {s s' : St} {as : List Act} (r : Run s as s')
    (hI : Inv s) (hG : Good s) (hc : s.ctx = some e) (hJ : J e s) :
    Inv s' ∧ Good s' ∧ s'.ctx = some e ∧ J e s' := by
  induction r with
  | nil s => exact ⟨hI, hG, hc, hJ⟩
  | cons g _ ih =>
    exact ih (inv_act hI g) (good_act hI hG g) (by rw [ctx_act]; exact hc) (j_act hc hJ g)

/-- **cancel_releases_h3** -/
theorem cancel_releases_h3 {s : St} (hr : Reach s) (e : CtxErr) (hc : s.ctx = none)
    (hd : s.reqDone = false) {as : List Act} {s' : St} (run : Run (evApply s (.cancel e)) as s') :
    as.length ≤ K ∧
    (stuck s' = true →
      released s' = true ∧ (s'.cpc = .returned (.err (.ctx e)) ∨ s'.cpc = .returned .resp)) := by
  obtain ⟨hI, hG, hc', hJ⟩ := cancel_point hr e hc hd
  obtain ⟨hI', hG', hc'', hJ'⟩ := run_keeps run hI hG hc' hJ
  refine ⟨run_bound run, fun hs => ?_⟩
  have hrel := stuck_released hI' hG' (by simp [hc'']) hs
  refine ⟨hrel, ?_⟩
  have hret : isReturned s' = true := by
    simp only [released, Bool.and_eq_true] at hrel
    exact hrel.1.1.1.1.1
  unfold isReturned at hret
  split at hret
  · next r hcpc =>
    cases r with
    | resp => exact Or.inr hcpc
    | err x => left; rw [hcpc, hJ' x hcpc]
  · cases hret

example : Reach (evApply (init true) .hsDone) ∧ (evApply (init true) .hsDone).ctx = none ∧
    (evApply (init true) .hsDone).reqDone = false :=
  ⟨Reach.ev .hsDone (Reach.init true) rfl, rfl, rfl⟩

/-- **cancel_terminates_h3** -/
theorem cancel_terminates_h3 (s : St) : ∃ as s', Run s as s' ∧ stuck s' = true :=
  exists_maximal_run (mu s) s (Nat.le_refl _)

/-- **cancel_error_h3** — the three places where the call comes back with an error -/
theorem cancel_error_h3 (s : St) (a : Act) (e : CtxErr) (x : Err) (hc : s.ctx = some e)
    (g : guard s a = true) (hn : isReturned s = false) (hx : (apply s a).cpc = .returned (.err x)) :
    x = .ctx e := by
  have hJ : J e s := by
    intro y hy
    simp [isReturned, hy] at hn
  exact j_act hc hJ g x hx

example : guard { (init false) with ctx := some .deadline } .cHsCancel = true ∧
    (apply { (init false) with ctx := some .deadline } .cHsCancel).cpc = .returned (.err (.ctx .deadline)) := by
  decide

/-- **blocked_upload_is_woken_h3** — cancelled, application not done with the response, stream write
blocked on flow control (`upl = write`, send side open): some step is enabled — nobody is parked for good -/
theorem blocked_upload_is_woken_h3 {s : St} (hr : Reach s) (hc : s.ctx.isSome = true)
    (hd : s.reqDone = false) (hu : s.upl = .write) : stuck s = false := by
  cases hst : stuck s with
  | false => rfl
  | true =>
    have hrel := stuck_released (reach_inv hr) (Or.inl hd) hc hst
    simp [released, hu] at hrel

/-- **h3_closes_exact** -/
theorem h3_closes_exact {s : St} (hr : Reach s) :
    s.closes = (if s.upl = .fin ∨ s.upl = .done then 1 else 0) + (if s.callerClosed = true then 1 else 0) :=
  (reach_inv hr).cnt

/-- **h3_body_closed_at_most_once** -/
theorem h3_body_closed_at_most_once {s : St} (hr : Reach s) : s.closes ≤ 1 := by
  have hI := reach_inv hr
  have h1 := hI.cnt
  have h2 := hI.cc
  by_cases hcc : s.callerClosed = true
  · have := (h2 hcc).1
    rw [h1]; simp [this, hcc]
  · rw [h1]; simp [hcc]; split <;> omega

/-- **h3_no_close_without_body** -/
theorem h3_no_close_without_body {s : St} (hr : Reach s) (hb : s.hasBody = false) : s.closes = 0 := by
  have hI := reach_inv hr
  have h1 := hI.cnt
  have hu : s.upl = .none := by
    apply Classical.byContradiction
    intro hne
    have := hI.ub hne
    rw [hb] at this; cases this
  have hcc : s.callerClosed = false := by
    cases hx : s.callerClosed with
    | false => rfl
    | true => have := (hI.cc hx).2; rw [hb] at this; cases this
  rw [h1]; simp [hu, hcc]

/-- **h3_watcher_joined** — an error return of `roundTrip` on an existing stream has waited for the
watcher goroutine (`<-done`): it is never left behind waiting -/
theorem h3_watcher_joined {s : St} {a : Act} (g : guard s a = true) (hn : isReturned s = false)
    (hs : s.send ≠ .idle) (hr : Reach s) (x : Err) (hx : (apply s a).cpc = .returned (.err x)) :
    (apply s a).wat = .done := by
  have hI := reach_inv hr
  cases a <;> simp only [CancelH3.guard, Bool.and_eq_true, beq_iff_eq] at g
  case cHsCancel =>
    have := (hI.noStr (hI.pre (Or.inl g.1)).1).1
    exact absurd this hs
  case cOpenCancel =>
    have := (hI.noStr (hI.pre (Or.inr g.1)).1).1
    exact absurd this hs
  case cFailJoin =>
    simp only [CancelH3.apply]
    split <;> exact g.2
  case cSendHdr =>
    simp only [CancelH3.apply, closeBody] at hx
    (repeat' split at hx) <;> simp at hx
  case cFailSig =>
    simp only [CancelH3.apply] at hx
    split at hx
    · simp at hx
    · simp [isReturned, hx] at hn
  case cRespOk => simp [CancelH3.apply] at hx
  case cRespFail => simp [CancelH3.apply] at hx
  all_goals
    simp only [CancelH3.apply] at hx
    simp [isReturned, hx] at hn

/-! ## Sharpness -/

/-- upload running, response headers handed out (early response), the next stream write blocked on
flow control, the caller in a pending `Body.Read`; then the context is cancelled -/
def exEarlyBlocked : St :=
  let s := init true
  let s := evApply s .hsDone
  let s := evApply s .streamOpen
  let s := apply s .cSendHdr
  let s := apply s .uRead
  let s := evApply s .peerHeaders
  let s := apply s .cRespOk
  evApply s (.cancel .canceled)

example : Reach exEarlyBlocked :=
  Reach.ev (.cancel .canceled) (Reach.act .cRespOk (Reach.ev .peerHeaders (Reach.act .uRead
    (Reach.act .cSendHdr (Reach.ev .streamOpen (Reach.ev .hsDone (Reach.init true) rfl) rfl) rfl) rfl) rfl) rfl) rfl

example : exEarlyBlocked.upl = .write ∧ exEarlyBlocked.send = .open ∧
    exEarlyBlocked.cpc = .returned .resp ∧ exEarlyBlocked.reqDone = false := by decide

/-- in the model of the code as it is every maximal run from there ends released: upload goroutine
gone, body closed once, both directions cancelled, the pending read failed with the local cancel -/
example : (finals 20 exEarlyBlocked).all (fun t =>
    released t && t.closes == 1 && t.upl == .done && t.send == .cancelled && t.recv == .cancelled &&
    t.readRes == some .h3cancel) = true := by decide

/-- **cancel_write_is_necessary_h3** — with the watcher's `CancelWrite` dropped (seed C08-r5-3) the
same reachable state has a maximal run that ends with the upload goroutine parked in its stream
write and the request body never closed -/
theorem cancel_write_is_necessary_h3 :
    (finalsNoCW 20 exEarlyBlocked).any (fun t => t.upl == .write && t.closes == 0 && t.send == .open) = true := by
  decide

/-- the application closes the response body while the upload is still blocked; THEN the context ends -/
def exClosedFirst : St :=
  let s := init true
  let s := evApply s .hsDone
  let s := evApply s .streamOpen
  let s := apply s .cSendHdr
  let s := apply s .uRead
  let s := evApply s .peerHeaders
  let s := apply s .cRespOk
  let s := evApply s .callerClose
  let s := apply s .wExit
  evApply s (.cancel .canceled)

/-- **upload_outlives_response_h3** — the hypothesis `reqDone = false` of `cancel_releases_h3` cannot be
dropped: here the watcher left through `reqDone`, and the cancelled context reaches nobody — the
state is stuck with the upload parked on an open send side. -/
theorem upload_outlives_response_h3 :
    stuck exClosedFirst = true ∧ exClosedFirst.upl = .write ∧ exClosedFirst.send = .open ∧
    exClosedFirst.closes = 0 ∧ exClosedFirst.ctx = some .canceled := by decide

example : Reach exClosedFirst :=
  Reach.ev (.cancel .canceled) (Reach.act .wExit (Reach.ev .callerClose (Reach.act .cRespOk
    (Reach.ev .peerHeaders (Reach.act .uRead (Reach.act .cSendHdr (Reach.ev .streamOpen
    (Reach.ev .hsDone (Reach.init true) rfl) rfl) rfl) rfl) rfl) rfl) rfl) rfl) rfl

/-! ## `mapRoundTripError`: the cancellation cause beats a recorded write error -/

open Req.Cancel in
/-- **cancel_beats_write_error** — HTTP/1.1: the connection was cancelled (`pc.canceledErr` set) AND the
write loop recorded a request error (`transportRequest.err`: tearing the connection down made the
blocked body write fail): the round trip reports the cancellation cause, whatever the other inputs -/
theorem cancel_beats_write_error (i : MapIn) (e : CtxErr) (h0 : i.errNil = false)
    (hc : i.canceled = some e) (_hw : i.reqErr = true) : mapRoundTripError i = .canceled e := by
  simp [mapRoundTripError, h0, hc]

open Req.Cancel in
/-- the order of seed C08-r5-2: the recorded request error consulted first -/
def mapReqErrFirst (i : MapIn) : MapOut :=
  if i.errNil then .nil
  else if i.reqErr then .reqErr
  else mapRoundTripError i

open Req.Cancel in
/-- **reqerr_first_hides_cancel** — sharpness: with the two checks swapped the cancellation is hidden
exactly when both are set, and nowhere else -/
theorem reqerr_first_hides_cancel (i : MapIn) :
    mapReqErrFirst i ≠ mapRoundTripError i ↔ (i.errNil = false ∧ i.reqErr = true ∧ i.canceled.isSome = true) := by
  rcases i with ⟨errNil, canceled, reqErr, kind, nw, broken⟩
  cases errNil <;> cases reqErr <;> cases canceled <;> simp [mapReqErrFirst, mapRoundTripError]

open Req.Cancel in
example : mapRoundTripError ⟨false, some .canceled, true, .other, false, true⟩ = .canceled .canceled ∧
    mapReqErrFirst ⟨false, some .canceled, true, .other, false, true⟩ = .reqErr := by decide

end Req.Props.C08H3
