import Req.Lemmas.C14Zstd
import Req.Props.C14
/-!
C14 — `Content-Encoding: zstd`, concretely: RFC 8878 frames around RAW blocks as
`klauspost/compress/zstd`'s streaming decoder reads them (`Req.Client.CompressZstd`).

* `unzstd_frames` — any sequence of data frames (every header layout: single-segment or window
  descriptor, Frame_Content_Size absent / 1 / 2 / 4 / 8 bytes, Content_Checksum, a zero
  Dictionary_ID field; any split into raw blocks) and skippable frames, none included: exactly the
  contents, in order, and the end of the underlying body;
* `unzstd_truncated` — cut anywhere inside a frame: an error after a prefix of the content;
* `unzstd_bad_magic`, `unzstd_stray_bytes` — bytes where a frame must start that are not one:
  an error, never a clean end;
* `unzstd_bad_checksum` — Content_Checksum set and wrong: the content, then an error — for ANY
  check-sum function (seeded/C14-2 removed exactly this check);
* `unzstd_frame_boundary_needs_framing` — a multi-frame message that stops after a complete
  frame: only the framing layer can tell (the real library even forgets the framing layer's
  error there: permanent known finding `zstd-source-error-at-frame-boundary`);
* `zstdCodec` — the automaton as an instance of the `Codec` parameter.

Tie: lanes `containers`, `containers_e2e` (driver lanes `c14enc zframe`, `c14dec zstd`).
-/
namespace Req.Props.C14Zstd
open Req.Proto Req.Compress Req.Compress.Zstd Req.Compress.Auto

/-- what the decoder (and the format) accept in a frame the encoder is asked for -/
def Frame.OK : Frame → Prop
  | .data fhd wd f bs l => DataWF fhd wd f bs l
  | .skippable m0 p => m0 &&& 0xF0 = 0x50 ∧ p.length < 4294967296

def wireOf (S : ZSums) (fs : List Frame) : Bytes := (fs.map (·.bytes S)).flatten
def contentOf (fs : List Frame) : Bytes := (fs.map (·.content)).flatten

/-- what `zstd.NewReader(body)` delivers for a body that ends with `fin` -/
def unzstd (S : ZSums) (fin : Term) (wire : Bytes) : Bytes × Term := zmean S fin wire

variable (S : ZSums)

theorem frame_unit (hS : ∀ x, (S.sum x).length = 4) (f : Frame) (hf : Frame.OK f) : (zframe S).IsUnit (f.bytes S) f.content := by
  cases f with
  | data fhd wd fc bs l =>
    refine ⟨.done, ?_, rfl⟩
    have := run_zframe S hS fhd wd fc bs l hf []
    rw [List.append_nil] at this
    exact this
  | skippable m0 p =>
    refine ⟨.done, ?_, rfl⟩
    have := run_skippable S m0 p [] hf.1 hf.2
    rw [List.append_nil] at this
    exact this

theorem units_of (hS : ∀ x, (S.sum x).length = 4) (fs : List Frame) (hok : ∀ f ∈ fs, Frame.OK f) :
    ∀ u ∈ fs.map (fun f => (f.bytes S, f.content)), (zframe S).IsUnit u.1 u.2 := by
  intro u hu
  obtain ⟨f, hf, rfl⟩ := List.mem_map.mp hu
  exact frame_unit S hS f (hok f hf)

theorem wire_eq (fs : List Frame) :
    ((fs.map (fun f => (f.bytes S, f.content))).map (·.1)).flatten = wireOf S fs := by
  simp [wireOf, List.map_map, Function.comp_def]

theorem content_eq (fs : List Frame) :
    ((fs.map (fun f => (f.bytes S, f.content))).map (·.2)).flatten = contentOf fs := by
  simp [contentOf, List.map_map, Function.comp_def]

theorem held_of_boundary (s : ZSt) (h : (zframe S).Boundary s) : heldOf s = 0 := by
  rcases h with h | h
  · rw [h]; rfl
  · cases s <;> first | rfl | (simp [zframe, zphase] at h)

/-- **unzstd_frames** — any sequence of well-formed frames (data frames of every layout,
skippable frames; none at all: an empty body): exactly the contents, then the end of the
underlying body. -/
theorem unzstd_frames (hS : ∀ x, (S.sum x).length = 4) (fs : List Frame) (hok : ∀ f ∈ fs, Frame.OK f) (fin : Term) :
    unzstd S fin (wireOf S fs) = (contentOf fs, fin) := by
  have hinit : (zframe S).phase (zframe S).init = .working := rfl
  obtain ⟨s1, hb1, h1⟩ := many_units (zframe S) hinit _ (units_of S hS fs hok) (zframe S).init
    (Or.inl rfl) []
  rw [wire_eq, content_eq] at h1
  simp only [List.append_nil] at h1
  have e : (zframe S).many.run [] s1 = (s1, [], []) := rfl
  rw [e] at h1
  have hmean := mean_many_units (zframe S) (zframe_lawful S) rfl _ (units_of S hS fs hok) fin
  rw [wire_eq, content_eq] at hmean
  have hv : (zstd S).verdict fin s1 = fin := by
    have := congrArg Prod.snd hmean
    simp only [mean] at this
    rw [show (zframe S).many.run (wireOf S fs) (zframe S).init = _ from h1] at this
    exact this
  show ((((zstd S).run (wireOf S fs) (.magic [])).2.1).take _, (zstd S).verdict fin _) = _
  rw [show (zstd S).run (wireOf S fs) (.magic []) = _ from h1]
  simp only [held_of_boundary S s1 hb1, hv, Nat.sub_zero, List.take_length, List.append_nil]

theorem unzstd_empty_body (fin : Term) : unzstd S fin [] = ([], fin) := rfl

/-- **unzstd_truncated** — complete frames followed by a strict, non-empty prefix of one more:
what the caller receives is a prefix of the full content, and the stream ends in
`io.ErrUnexpectedEOF` (or the underlying body's own error) — never cleanly. -/
theorem unzstd_truncated (hS : ∀ x, (S.sum x).length = 4) (fs : List Frame) (hok : ∀ f ∈ fs, Frame.OK f) (f : Frame) (hf : Frame.OK f)
    (p q : Bytes) (hw : f.bytes S = p ++ q) (hp : p ≠ []) (hq : q ≠ []) (fin : Term) :
    (unzstd S fin (wireOf S fs ++ p)).2 = noEOF fin ∧
      ∃ z, contentOf fs ++ f.content = (unzstd S fin (wireOf S fs ++ p)).1 ++ z := by
  obtain ⟨y, z, hyz, h⟩ := mean_many_truncated (zframe S) (zframe_lawful S) rfl _
    (units_of S hS fs hok) (f.bytes S) f.content p q (frame_unit S hS f hf) hw hp hq fin
  rw [wire_eq, content_eq] at h
  have h1 : ((zstd S).run (wireOf S fs ++ p) (.magic [])).2.1 = contentOf fs ++ y :=
    congrArg Prod.fst h
  have h2 : (zstd S).verdict fin ((zstd S).run (wireOf S fs ++ p) (.magic [])).1 = noEOF fin :=
    congrArg Prod.snd h
  refine ⟨h2, ?_⟩
  show ∃ z, _ = (((zstd S).run (wireOf S fs ++ p) (.magic [])).2.1).take _ ++ z
  rw [h1, hyz]
  refine ⟨(contentOf fs ++ y).drop ((contentOf fs ++ y).length -
    heldOf ((zstd S).run (wireOf S fs ++ p) (.magic [])).1) ++ z, ?_⟩
  rw [← List.append_assoc (List.take _ _), List.take_append_drop]
  simp [List.append_assoc]

/-- **unzstd_frame_boundary_needs_framing** — a message of several frames that stops after a
complete one: a valid end for the decoder; the error can only come from the framing layer. -/
theorem unzstd_frame_boundary_needs_framing (hS : ∀ x, (S.sum x).length = 4) (fs : List Frame) (hok : ∀ f ∈ fs, Frame.OK f) :
    unzstd S (.err 1) (wireOf S fs) = (contentOf fs, .err 1) ∧
    unzstd S .eof (wireOf S fs) = (contentOf fs, .eof) :=
  ⟨unzstd_frames S hS fs hok _, unzstd_frames S hS fs hok _⟩

/-! ### damaged streams (after any complete frames) -/

theorem after_frames (hS : ∀ x, (S.sum x).length = 4) (fs : List Frame) (hok : ∀ f ∈ fs, Frame.OK f) (r : Bytes) (hr : r ≠ [])
    (sf : ZSt) (o rest : Bytes) (e : Term)
    (hrun : (zframe S).run r (.magic []) = (sf, o, rest)) (hfail : zphase sf = .failed e) (fin : Term) :
    unzstd S fin (wireOf S fs ++ r) = (contentOf fs ++ o, e) := by
  have hinit : (zframe S).phase (zframe S).init = .working := rfl
  obtain ⟨s1, hb1, h1⟩ := many_units (zframe S) hinit _ (units_of S hS fs hok) (zframe S).init
    (Or.inl rfl) r
  rw [wire_eq, content_eq] at h1
  have h0 : (zframe S).phase (zframe S).init ≠ .done := by intro hc; cases hc
  have hnd : (zframe S).phase ((zframe S).run r (zframe S).init).1 ≠ .done := by
    rw [show (zframe S).run r (zframe S).init = _ from hrun]
    show zphase sf ≠ _
    rw [hfail]; intro hc; cases hc
  have h2 : (zframe S).many.run r s1 = (sf, o, rest) := by
    rw [many_run_from_boundary (zframe S) r s1 hb1 hinit hr,
      many_run_no_done (zframe S) r _ h0 hnd]
    exact hrun
  rw [h2] at h1
  show ((((zstd S).run (wireOf S fs ++ r) (.magic [])).2.1).take _, (zstd S).verdict fin _) = _
  rw [show (zstd S).run (wireOf S fs ++ r) (.magic []) = _ from h1]
  have hh : heldOf sf = 0 := by cases sf <;> first | rfl | (simp [zphase] at hfail)
  have hv : (zstd S).verdict fin sf = e := by
    show (match (match zphase sf with | .done => Phase.working | p => p) with
      | .done => Term.eof | .failed e => e | .working => _) = e
    rw [hfail]
  simp only [hh, hv, Nat.sub_zero, List.take_length]

/-- **unzstd_bad_magic** — four or more bytes, where a frame must start, that are neither the
frame magic nor a skippable-frame magic: `ErrMagicMismatch`. -/
theorem unzstd_bad_magic (hS : ∀ x, (S.sum x).length = 4) (fs : List Frame) (hok : ∀ f ∈ fs, Frame.OK f) (b0 b1 b2 b3 : UInt8)
    (r : Bytes) (h1 : [b0, b1, b2, b3] ≠ [0x28, 0xB5, 0x2F, 0xFD])
    (h2 : ¬([b1, b2, b3] = [0x2A, 0x4D, 0x18] ∧ b0 &&& 0xF0 = 0x50)) (fin : Term) :
    unzstd S fin (wireOf S fs ++ b0 :: b1 :: b2 :: b3 :: r) = (contentOf fs, Zstd.errCorrupt) := by
  have := after_frames S hS fs hok (b0 :: b1 :: b2 :: b3 :: r) (by simp) _ _ _ Zstd.errCorrupt
    (run_bad_zmagic S b0 b1 b2 b3 r h1 h2) rfl fin
  simpa using this

/-- **unzstd_bad_checksum** — a frame with Content_Checksum whose four check-sum bytes are not
the check sum of its content: the content is delivered, then `ErrCRCMismatch`. -/
theorem unzstd_bad_checksum (hS : ∀ x, (S.sum x).length = 4) (fs : List Frame) (hok : ∀ f ∈ fs, Frame.OK f)
    (fhd wd : UInt8) (f : Bytes) (bs : List Bytes) (l : Bytes) (wf : DataWF fhd wd f bs l)
    (hsum : fhd &&& 4 ≠ 0) (t0 t1 t2 t3 : UInt8) (r : Bytes)
    (hbad : [t0, t1, t2, t3] ≠ S.sum (bs.flatten ++ l)) (fin : Term) :
    unzstd S fin (wireOf S fs ++ ([0x28, 0xB5, 0x2F, 0xFD, fhd] ++
        (if fhd &&& 32 ≠ 0 then [] else [wd]) ++ List.replicate (dictLen fhd) 0 ++ f ++
        ((bs.map (rawBlock false)).flatten ++ (rawBlock true l ++ (t0 :: t1 :: t2 :: t3 :: r))))) =
      (contentOf fs ++ (bs.flatten ++ l), Zstd.errCorrupt) :=
  after_frames S hS fs hok _ (by simp) _ _ _ Zstd.errCorrupt
    (run_zframe_bad_sum S fhd wd f bs l wf hsum t0 t1 t2 t3 r hbad) rfl fin

/-- **unzstd_stray_bytes** — one to three bytes where a frame must start: `io.ErrUnexpectedEOF`
(or the underlying body's error). -/
theorem unzstd_stray_bytes (hS : ∀ x, (S.sum x).length = 4) (fs : List Frame) (hok : ∀ f ∈ fs, Frame.OK f) (g : Bytes)
    (h0 : g ≠ []) (h3 : g.length ≤ 3) (fin : Term) :
    unzstd S fin (wireOf S fs ++ g) = (contentOf fs, noEOF fin) := by
  have hinit : (zframe S).phase (zframe S).init = .working := rfl
  obtain ⟨s1, hb1, h1⟩ := many_units (zframe S) hinit _ (units_of S hS fs hok) (zframe S).init
    (Or.inl rfl) g
  rw [wire_eq, content_eq] at h1
  have hrun := run_magic_partial S g [] (by simpa using h3)
  have h0' : (zframe S).phase (zframe S).init ≠ .done := by intro hc; cases hc
  have hnd : (zframe S).phase ((zframe S).run g (zframe S).init).1 ≠ .done := by
    rw [show (zframe S).run g (zframe S).init = _ from hrun]
    intro hc; cases hc
  have h2 : (zframe S).many.run g s1 = (.magic ([] ++ g), [], []) := by
    rw [many_run_from_boundary (zframe S) g s1 hb1 hinit h0,
      many_run_no_done (zframe S) g _ h0' hnd]
    exact hrun
  rw [h2] at h1
  show ((((zstd S).run (wireOf S fs ++ g) (.magic [])).2.1).take _, (zstd S).verdict fin _) = _
  rw [show (zstd S).run (wireOf S fs ++ g) (.magic []) = _ from h1]
  obtain ⟨b, g', rfl⟩ := List.exists_cons_of_ne_nil h0
  simp [heldOf, verdict, zstd, many, zframe, zphase, zfresh, isDone]

/-! ### the format is a `Codec` -/

def zstdCodec : Codec := (zstd S).codec

/-- for a complete stream the `Codec`'s meaning is what the real reader delivers -/
theorem zstdCodec_total (hS : ∀ x, (S.sum x).length = 4) (fs : List Frame) (hok : ∀ f ∈ fs, Frame.OK f) (fin : Term) :
    (zstdCodec S).total ⟨wireOf S fs, fin⟩ = (contentOf fs, fin) := by
  have hmean := mean_many_units (zframe S) (zframe_lawful S) rfl _ (units_of S hS fs hok) fin
  rw [wire_eq, content_eq] at hmean
  exact hmean

/-- **zstd_frames_any_schedule** — `compress.ZstdReader` over a body of zstd frames, on any
stack, read with ANY sequence of buffer sizes: exactly the contents, then `io.EOF`. -/
theorem zstd_frames_any_schedule (hS : ∀ x, (S.sum x).length = 4) (codecs : Alg → Codec) (hc : codecs .zstd = zstdCodec S)
    (site : Site) (fs : List Frame) (hok : ∀ f ∈ fs, Frame.OK f) (ns : List Nat) (t : Term)
    (h : (drain (C14.bodyReader codecs site ⟨wireOf S fs, .eof⟩ (.decode .zstd)).R
      (C14.bodyReader codecs site ⟨wireOf S fs, .eof⟩ (.decode .zstd)).s ns).2.2 = some t) :
    (drain (C14.bodyReader codecs site ⟨wireOf S fs, .eof⟩ (.decode .zstd)).R
      (C14.bodyReader codecs site ⟨wireOf S fs, .eof⟩ (.decode .zstd)).s ns).2.1 = contentOf fs ∧
      t = .eof := by
  have := C14.read_size_independent codecs site ⟨wireOf S fs, .eof⟩ (.decode .zstd) ns t h
  have hd : C14.delivered codecs ⟨wireOf S fs, .eof⟩ (.decode .zstd) = (contentOf fs, .eof) := by
    simp [C14.delivered, deliver, hc, zstdCodec_total S hS fs hok]
  rw [hd] at this
  exact ⟨congrArg Prod.fst this, congrArg Prod.snd this⟩

/-! ### non-vacuity: real bytes, the real XXH64 -/

theorem xxh_len (x : Bytes) : (xxh.sum x).length = 4 := rfl

/-- "hello" in a single-segment, check-summed frame of two raw blocks -/
def demoFrame : Frame := .data 0x24 0 [5] [[104, 101]] [108, 108, 111]

theorem demoFrame_ok : Frame.OK demoFrame := by
  refine ⟨by decide, by decide, by intro _; decide, by decide, ?_, by decide⟩
  intro b hb
  simp at hb; subst hb; decide

example : unzstd xxh .eof (wireOf xxh [demoFrame, .skippable 0x53 [1, 2, 3], demoFrame]) =
    ([104, 101, 108, 108, 111, 104, 101, 108, 108, 111], .eof) :=
  unzstd_frames xxh xxh_len _ (by
    intro f hf
    simp at hf
    rcases hf with rfl | rfl | rfl
    · exact demoFrame_ok
    · exact ⟨by decide, by decide⟩
    · exact demoFrame_ok) .eof

end Req.Props.C14Zstd
