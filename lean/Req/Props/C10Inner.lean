import Req.Client.Exchange
/-!
C10, round 4 — every EXCHANGE of every attempt carries the complete body.

One attempt of `Request.do` can put the request on the wire several times (HTTP/2 GOAWAY /
REFUSED_STREAM replay, HTTP/1.1 replay on a closed keep-alive connection, 307/308 redirect,
digest re-send): `Req.Exchange`.  With an honest `GetBody` (fixes/C10-7; for every body that is
not a one-shot reader the code as found is honest already) the theorems hold for every peer
script, protocol, retry count and body kind; for the code as found and a one-shot reader the
counter-examples are `decide`d at the end and replayed by lane `inner`.
-/
namespace Req.Props.C10Inner
open Req.Exchange

/-- A one-shot reader is only ever offered while it is untouched. -/
def Inv (cfg : Cfg) (st : St) : Prop := (cfg.body = .once ∨ cfg.body = .pipe) → st.first = true

theorem inv_again (cfg : Cfg) (h : cfg.honestGetBody = true) (a : Act) (reused : Bool) (st st' : St)
    (hs : step cfg a reused st = .again st') : Inv cfg st' := by
  intro hb
  unfold step at hs
  have hcr : canReplay cfg = false := by
    rcases hb with hb | hb <;> simp [canReplay, hb, h]
  have hcs : canResend cfg st = false := by simp [canResend, hcr]
  split at hs
  · cases hs
  · cases a with
    | answer c => cases hs
    | redirect c =>
      simp only [hcr] at hs
      split at hs <;> cases hs
    | challenge =>
      simp only at hs
      split at hs
      · cases hs
      · rcases hb with hb | hb
        · simp [hb] at hs
        · simp only [hb, Step.again.injEq] at hs
          rw [← hs]
    | goAway c => simp [hcs] at hs
    | refused c => simp [hcs] at hs
    | hangUp c => simp [hcs] at hs

/-- What an exchange carries when the one-shot invariant holds: the complete body, unless the
peer itself cut the exchange short. -/
theorem sentOf_inv (cfg : Cfg) (a : Act) (st : St) (hi : Inv cfg st) :
    sentOf cfg a st = (if cfg.body = .none then .none else if a.cut = .full then .full else .part) := by
  unfold sentOf
  cases hb : cfg.body with
  | none => simp
  | fresh => simp
  | once => simp [hi (Or.inl hb)]
  | pipe => simp [hi (Or.inr hb)]

theorem go_exchanges (cfg : Cfg) (h : cfg.honestGetBody = true) (sc : List (Act × Bool)) (st : St)
    (hi : Inv cfg st) :
    ∀ (i : Nat) (ex : Ex), (go cfg sc st).1[i]? = some ex →
      ∃ (a : Act) (r : Bool), sc[i]? = some (a, r) ∧
        ex.sent = (if cfg.body = .none then .none else if a.cut = .full then .full else .part) := by
  induction sc generalizing st with
  | nil => intro i ex hex; simp [go] at hex
  | cons e rest ih =>
    obtain ⟨a, reused⟩ := e
    intro i ex hex
    unfold go at hex
    simp only at hex
    have hnew : Inv cfg ⟨st.ra + 1, 0, false, true, false⟩ := fun _ => rfl
    cases hs : step cfg a reused st with
    | again st' =>
      simp only [hs] at hex
      cases i with
      | zero =>
        simp only [List.getElem?_cons_zero, Option.some.injEq] at hex
        exact ⟨a, reused, by simp, by rw [← hex]; exact sentOf_inv cfg a st hi⟩
      | succ j =>
        simp only [List.getElem?_cons_succ] at hex
        obtain ⟨a', r', h1, h2⟩ := ih st' (inv_again cfg h a reused st st' hs) j ex hex
        exact ⟨a', r', by simpa using h1, h2⟩
    | over res =>
      simp only [hs] at hex
      split at hex
      · cases i with
        | zero =>
          simp only [List.getElem?_cons_zero, Option.some.injEq] at hex
          exact ⟨a, reused, by simp, by rw [← hex]; exact sentOf_inv cfg a st hi⟩
        | succ j =>
          simp only [List.getElem?_cons_succ] at hex
          obtain ⟨a', r', h1, h2⟩ := ih _ hnew j ex hex
          exact ⟨a', r', by simpa using h1, h2⟩
      · cases i with
        | zero =>
          simp only [List.getElem?_cons_zero, Option.some.injEq] at hex
          exact ⟨a, reused, by simp, by rw [← hex]; exact sentOf_inv cfg a st hi⟩
        | succ j => simp at hex

theorem run_cases (cfg : Cfg) (sc : List (Act × Bool)) :
    run cfg sc = ([], .refused) ∨ run cfg sc = go cfg sc ⟨0, 0, false, true, false⟩ := by
  unfold run
  cases cfg.retries <;> cases cfg.body <;> simp
  rename_i n
  by_cases h : n = 0 <;> simp [h]

/-- **exchanges_carry_complete_body**: with an honest `GetBody`, the i-th exchange of a call —
whichever attempt it belongs to, first send or transparent replay, redirect follow-up or digest
re-send — is the peer's i-th scripted exchange and carries the COMPLETE body of the request
(nothing, when the request has no body), unless the peer itself stopped reading before the end.
For every protocol, retry count, body kind, peer script and connection-reuse pattern. -/
theorem exchanges_carry_complete_body (cfg : Cfg) (h : cfg.honestGetBody = true)
    (sc : List (Act × Bool)) :
    ∀ (i : Nat) (ex : Ex), (run cfg sc).1[i]? = some ex →
      ∃ (a : Act) (r : Bool), sc[i]? = some (a, r) ∧
        ex.sent = (if cfg.body = .none then .none else if a.cut = .full then .full else .part) := by
  have hi : Inv cfg ⟨0, 0, false, true, false⟩ := fun _ => rfl
  rcases run_cases cfg sc with hr | hr <;> rw [hr]
  · intro i ex hex; simp at hex
  · exact go_exchanges cfg h sc _ hi

/-- … in particular no exchange ever offers a drained one-shot reader. -/
theorem never_drained (cfg : Cfg) (h : cfg.honestGetBody = true) (sc : List (Act × Bool)) :
    ∀ ex ∈ (run cfg sc).1, ex.sent ≠ .drained := by
  intro ex hex
  obtain ⟨i, hi⟩ := List.getElem?_of_mem hex
  obtain ⟨a, r, -, hs⟩ := exchanges_carry_complete_body cfg h sc i ex hi
  rw [hs]
  split
  · simp
  · split <;> simp

/-- A body that is not a one-shot reader is honest in the code as found already: `honestGetBody`
does not matter. -/
theorem fresh_indifferent (cfg : Cfg) (hb : cfg.body = .none ∨ cfg.body = .fresh) (b : Bool)
    (sc : List (Act × Bool)) :
    run { cfg with honestGetBody := b } sc = run { cfg with honestGetBody := true } sc := by
  have hcr : ∀ b, canReplay { cfg with honestGetBody := b } = true := by
    intro b; rcases hb with hb | hb <;> simp [canReplay, hb]
  have hgo : ∀ (sc : List (Act × Bool)) (st : St),
      go { cfg with honestGetBody := b } sc st = go { cfg with honestGetBody := true } sc st := by
    intro sc
    induction sc with
    | nil => intro st; rfl
    | cons e rest ih =>
      intro st
      obtain ⟨a, reused⟩ := e
      have hstep : step { cfg with honestGetBody := b } a reused st
          = step { cfg with honestGetBody := true } a reused st := by
        unfold step canResend
        simp only [hcr]
      have hsent : sentOf { cfg with honestGetBody := b } a st
          = sentOf { cfg with honestGetBody := true } a st := rfl
      unfold go
      simp only [hstep, hsent, ih]
      rfl
  unfold run
  simp only [hgo]

/-- **oneshot_sent_once**: a `SetBody(io.Reader)` body goes on the wire at most once in the whole
call: `Do` refuses it when a retry can follow, and nothing below `Do` sends it a second time. -/
theorem oneshot_sent_once (cfg : Cfg) (h : cfg.honestGetBody = true) (hb : cfg.body = .once)
    (sc : List (Act × Bool)) : (run cfg sc).1.length ≤ 1 := by
  have hcr : canReplay cfg = false := by simp [canReplay, hb, h]
  have hstep : ∀ a reused st, ∃ r, step cfg a reused st = .over r := by
    intro a reused st
    unfold step
    have hcs : canResend cfg st = false := by simp [canResend, hcr]
    split
    · exact ⟨_, rfl⟩
    · cases a with
      | answer c => exact ⟨_, rfl⟩
      | redirect c => simp only [hcr]; split <;> exact ⟨_, rfl⟩
      | challenge => simp only [hb]; split <;> exact ⟨_, rfl⟩
      | goAway c => simp [hcs]
      | refused c => simp [hcs]
      | hangUp c => simp [hcs]
  have hone : ∀ (st : St), (∀ r, wantsRetry cfg st.ra r = false) → (go cfg sc st).1.length ≤ 1 := by
    intro st hw
    cases sc with
    | nil => simp [go]
    | cons e rest =>
      obtain ⟨a, reused⟩ := e
      obtain ⟨r, hr⟩ := hstep a reused st
      unfold go
      simp [hr, hw r]
  unfold run
  cases hr : cfg.retries with
  | none =>
    simp only [hb]
    exact hone _ (fun r => by simp [wantsRetry, hr])
  | some n =>
    simp only [hb]
    split
    · simp
    · rename_i hn
      have hn0 : n = 0 := by simpa using hn
      exact hone _ (fun r => by simp [wantsRetry, hr, hn0])

theorem go_attempts_le (cfg : Cfg) (N : Int) (hN : cfg.retries = some N) (h0 : 0 ≤ N)
    (sc : List (Act × Bool)) (st : St) (hst : (st.ra : Int) ≤ N) :
    ∀ ex ∈ (go cfg sc st).1, (ex.attempt : Int) ≤ N := by
  induction sc generalizing st with
  | nil => intro ex hex; simp [go] at hex
  | cons e rest ih =>
    obtain ⟨a, reused⟩ := e
    intro ex hex
    unfold go at hex
    simp only at hex
    cases hs : step cfg a reused st with
    | again st' =>
      simp only [hs, List.mem_cons] at hex
      have hra : st'.ra = st.ra := by
        unfold step at hs
        split at hs
        · cases hs
        · cases a <;> simp only at hs <;> (repeat' split at hs) <;>
            first | (simp only [Step.again.injEq] at hs; subst hs; rfl) | cases hs
      rcases hex with rfl | hex
      · exact hst
      · exact ih st' (by rw [hra]; exact hst) ex hex
    | over res =>
      simp only [hs] at hex
      split at hex
      · rename_i hw
        simp only [List.mem_cons] at hex
        rcases hex with rfl | hex
        · exact hst
        · refine ih _ ?_ ex hex
          simp only [wantsRetry, hN, Bool.and_eq_true, Bool.or_eq_true, decide_eq_true_eq] at hw
          have := hw.1
          simp only
          omega
      · simp only [List.mem_singleton] at hex
        rw [hex]; exact hst

/-- **attempts stay bounded** also when attempts consist of several exchanges: with a retry count
`N ≥ 0` every exchange belongs to an attempt numbered `≤ N`. -/
theorem exchanges_attempt_le (cfg : Cfg) (N : Int) (hN : cfg.retries = some N) (h0 : 0 ≤ N)
    (sc : List (Act × Bool)) : ∀ ex ∈ (run cfg sc).1, (ex.attempt : Int) ≤ N := by
  rcases run_cases cfg sc with hr | hr <;> rw [hr]
  · intro ex hex; simp at hex
  · exact go_attempts_le cfg N hN h0 sc _ (by simpa using h0)

/-! ## the code as found, and non-vacuity -/

def exCfg (b : BodyKind) (honest : Bool) (n : Option Int) : Cfg := ⟨.h2, n, false, false, b, honest⟩

/-- as found: after a graceful GOAWAY the HTTP/2 transport replays `SetBody(io.Reader)` with the
drained reader, and the call succeeds with status 200 … -/
theorem asFound_oneshot_replayed_h2 :
    run (exCfg .once false none) [(.goAway .full, false), (.answer 200, false)] =
      ([⟨0, .full, false⟩, ⟨0, .drained, false⟩], .status 200 0) := by decide
/-- … as does `http.Client` on a 308 (also over HTTP/1.1) … -/
theorem asFound_oneshot_replayed_redirect :
    run { exCfg .once false (some 0) with proto := .h1 } [(.redirect 308, false), (.answer 200, true)] =
      ([⟨0, .full, false⟩, ⟨0, .drained, false⟩], .status 200 0) := by decide
/-- … and the HTTP/1.1 transport for an idempotent request on a closed keep-alive connection. -/
theorem asFound_oneshot_replayed_h1 :
    (run { exCfg .once false none with proto := .h1, idempotent := true }
      [(.hangUp .full, true), (.answer 200, false)]).1.map (·.sent) = [.full, .drained] := by decide
/-- repaired: the same scripts; the transport reports the error / the 308 is handed to the caller -/
example : run (exCfg .once true none) [(.goAway .full, false), (.answer 200, false)] =
    ([⟨0, .full, false⟩], .err 0) := by decide
example : run { exCfg .once true (some 0) with proto := .h1 } [(.redirect 308, false), (.answer 200, true)] =
    ([⟨0, .full, false⟩], .status 308 0) := by decide
/-- a replayable body: attempt 0 answered 503, attempt 1 is GOAWAY'd after the whole body was read
and replayed on another connection — three exchanges, all complete (the scenario of seed C10-r3-1) -/
example : run (exCfg .fresh true (some 2)) [(.answer 503, false), (.goAway .full, true), (.answer 200, false)] =
    ([⟨0, .full, false⟩, ⟨1, .full, false⟩, ⟨1, .full, false⟩], .status 200 1) := by decide
/-- a streamed multipart body: the transport does not replay it, the retry condition gets the
error and the NEXT attempt writes the body afresh -/
example : run (exCfg .pipe true (some 2)) [(.refused .headers, false), (.answer 200, true)] =
    ([⟨0, .part, false⟩, ⟨1, .full, false⟩], .status 200 1) := by decide
/-- digest: challenge, re-send with credentials, whose 307 answer is final -/
example : run { exCfg .fresh true none with proto := .h1, digest := true }
    [(.challenge, false), (.redirect 307, true), (.answer 200, true)] =
    ([⟨0, .full, false⟩, ⟨0, .full, true⟩], .status 307 0) := by decide
/-- the follow-up of a redirect carries the body but no `GetBody`: a REFUSED_STREAM then fails the attempt -/
example : run (exCfg .fresh true (some 1)) [(.redirect 308, false), (.refused .full, true), (.answer 200, true)] =
    ([⟨0, .full, false⟩, ⟨0, .full, false⟩, ⟨1, .full, false⟩], .status 200 1) := by decide

end Req.Props.C10Inner
