import Req.Lemmas.C05H3Settings
import Req.Props.C05
/-!
C05 round 6 — the HTTP/3 SETTINGS WRITER (`settingsFrame.Append`) with `Other` (the caller's
`AdditionalSettings`) allowed to COLLIDE with the dedicated flags 0x33 H3_DATAGRAM / 0x8
ENABLE_CONNECT_PROTOCOL, for every flag combination and every pair of map iteration orders.

`Req.H3.SettingsWrite.appendGo` follows the Go function statement by statement: the length is
computed by a loop of its own (`quicvarint.Len`), the pairs are written by a second loop
(`quicvarint.Append`); the two can disagree — that is the class of seed C05-r6-2 — and the theorems
say they never do.

* `h3settings_length_exact`      — ∀ settings: declared length = length of the payload written
* `h3settings_append_two_loops`  — the statement-by-statement writer = `appendSettings`
* `h3settings_frame_aligned`     — the peer reads type 4, a length, and exactly that many payload
                                    bytes; what follows the frame follows the payload
* `h3settings_written_verdict`   — what `Append` wrote is accepted ⇔ `SettingsOK (writtenPairs s)`
* `h3settings_wire_verdict`      — `ParseNext` on the frame ++ anything: the payload's verdict, rest
                                    untouched — also when the frame is refused
* `h3settings_collision_refused` — `Other` repeating a set flag's identifier ⇒ refused by the parser
* `h3settings_roundtrip_iff`     — `Append` then parse gives back the same settings ⇔ `WfSettings`
-/
namespace Req.Props.C05
open Req.Proto Req.H3.Varint Req.H3.Frame Req.H3.Stream Req.H3.SettingsWrite
open Req.Lemmas.C05.H3Settings

/-- **h3settings_length_exact**: for EVERY `settingsFrame` — any flags, any `Other`, colliding with
0x33 / 0x8 or not —, whatever order the length loop (`ord1`) and the write loop (`s.other`) iterate
the map in: the value `Append` announces in the length varint is the number of payload bytes it
writes; `Len` panics exactly when `Append` would. -/
theorem h3settings_length_exact (ord1 : List (Nat × Nat)) (s : Settings) (hp : ord1.Perm s.other) :
    declaredLen ord1 s = (settingsPayload s).map List.length :=
  declaredLen_eq ord1 s hp

example : declaredLen [(7, 100), (51, 1)] ⟨true, false, [(51, 1), (7, 100)]⟩ = some 7 := by decide
example : settingsPayload ⟨true, false, [(51, 1), (7, 100)]⟩ = some [51, 1, 51, 1, 7, 0x40, 100] := by
  decide

/-- **h3settings_append_two_loops**: the Go function (length loop, flag `if`s, write loop) is the
writer `appendSettings` the round-1 theorems are about — with no side condition on `Other`. -/
theorem h3settings_append_two_loops (ord1 : List (Nat × Nat)) (s : Settings)
    (hp : ord1.Perm s.other) : appendGo ord1 s = appendSettings s :=
  appendGo_eq ord1 s hp

/-- quic-go v0.48.2 writes a colliding `Other` entry as it is: 04 04 33 01 33 01 (seed C05-r6-2
announced 4 and wrote 2). -/
example : appendGo [(51, 1)] ⟨true, false, [(51, 1)]⟩ = some [4, 4, 0x33, 1, 0x33, 1] := by decide

/-- **h3settings_frame_aligned**: what the peer's reader sees: type 4, then a length `l`, then
exactly `l` bytes that are the written payload; the bytes of the NEXT control-stream frame start
right behind them. -/
theorem h3settings_frame_aligned (ord1 : List (Nat × Nat)) (s : Settings) (hp : ord1.Perm s.other)
    (out rest : Bytes) (h : appendGo ord1 s = some out) :
    ∃ p r1, settingsPayload s = some p ∧ read (out ++ rest) = .ok (4, r1) ∧
      read r1 = .ok (p.length, p ++ rest) := by
  obtain ⟨x, y, p, hx, hy, hpl, rfl⟩ := appendGo_frame ord1 s hp out h
  refine ⟨p, y ++ p ++ rest, hpl, ?_, ?_⟩
  · rw [List.append_assoc]
    exact Req.Lemmas.C05.Varint.read_append 4 x _ hx
  · rw [List.append_assoc]
    exact Req.Lemmas.C05.Varint.read_append p.length y _ hy

/-- **h3settings_written_verdict**: the payload `Append` wrote, for ANY settings value, is accepted
by `parseSettingsFrame` ⇔ the written pairs satisfy RFC 9114 §7.2.4 (`SettingsOK`: identifiers
pairwise distinct — incl. `Other` against the dedicated flags —, 0x8 / 0x33 carry 0 or 1), and then
the result is what the pairs stand for. -/
theorem h3settings_written_verdict (s : Settings) (p : Bytes) (hp : settingsPayload s = some p)
    (s' : Settings) :
    parseSettingsPayload p = .ok s' ↔
      (SettingsOK (writtenPairs s) ∧ s' = settingsOf (writtenPairs s)) :=
  parse_written_iff (writtenPairs s) p hp s'

/-- `Other` carrying ENABLE_CONNECT_PROTOCOL = 1 with the flag clear is a legal frame that reads
back with the FLAG set (not the same struct, the same meaning). -/
example : parseSettingsPayload [51, 1, 8, 1] = .ok ⟨true, true, []⟩ := by decide
example : settingsPayload ⟨true, false, [(8, 1)]⟩ = some [51, 1, 8, 1] := by decide

/-- **h3settings_wire_verdict**: `ParseNext` on the written frame followed by anything, for every
settings value whose frame fits the 8 KiB cap: the verdict is the payload's (`frameVerdict`), and
— accepted or refused — exactly the bytes behind the frame are left. -/
theorem h3settings_wire_verdict (ord1 : List (Nat × Nat)) (s : Settings) (hp : ord1.Perm s.other)
    (out rest : Bytes) (fuel : Nat) (h : appendGo ord1 s = some out) (hsz : out.length ≤ 8192) :
    ∃ p, settingsPayload s = some p ∧
      parseNext (fuel + 1) (out ++ rest) = truncated (frameVerdict p rest) :=
  appendGo_parseNext ord1 s hp out rest fuel h hsz

example : parseNext 3 ([4, 4, 0x33, 1, 0x33, 1] ++ [7, 1, 0]) =
    (.error (.duplicateSetting 51), [7, 1, 0]) := by decide

/-- **h3settings_collision_refused**: an entry of `Other` that repeats the identifier of a SET
dedicated flag makes the written frame one the parser refuses (as quic-go's does: duplicate
setting), whatever else the frame carries. -/
theorem h3settings_collision_refused (s : Settings) (p : Bytes) (hp : settingsPayload s = some p)
    (hc : Collides s) : ∃ e, parseSettingsPayload p = .error e :=
  Req.Lemmas.C05.H3.h3settings_dup_rejected (writtenPairs s) p hp (collides_not_nodup s hc)

example : Collides ⟨true, false, [(7, 0), (51, 0)]⟩ := by decide
example : ¬ Collides ⟨false, true, [(51, 1)]⟩ := by decide

/-- **h3settings_roundtrip_iff**: `Append` followed by the parser gives back the SAME settings
exactly when `Other` is a map that avoids the two dedicated identifiers — the side condition of
`h3settings_roundtrip` is necessary, not only sufficient. -/
theorem h3settings_roundtrip_iff (s : Settings) (p : Bytes) (hp : settingsPayload s = some p) :
    parseSettingsPayload p = .ok s ↔ Req.H3.Frame.WfSettings s :=
  ⟨roundtrip_wf s p hp, fun h => Req.Lemmas.C05.H3.h3settings_payload_roundtrip s p h hp⟩

end Req.Props.C05
