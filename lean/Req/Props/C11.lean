/-! C11 — property theorems (none yet). -/
