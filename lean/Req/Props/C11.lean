import Req.Client.Redirect
import Req.Client.Authority
import Req.Lemmas.C11
import Req.Lemmas.C11Host
import Req.Lemmas.C11Chain
import Req.Lemmas.C11Hdr
import Req.Lemmas.C11Life
/-!
C11 — Redirect policies are enforced exactly.

Model: `Req.Redirect` (redirect.go + the `SetRedirectPolicy` closure of client.go + the part of
net/http's redirect loop that decides whether the next hop is requested).
Spec:  `Req.Authority` (RFC 3986 authority, `specHost`, `specDomain`), written independently.

Sections
1. host identity: `getHostname`/`getDomain` on the rendering of ANY well-formed authority
   equal the spec (`hostname_spec`, `domain_spec`), hence the four `_iff` theorems; every
   RFC 3986 authority is well-formed (`rfc_wf`); the pre-fix code violates all four
   (`legacy_*` counter-examples, replayed on the real code by lane `legacy`).
2. hop limit, disabled redirects, composition (`max_redirect`, `no_redirect`, `compose_all`,
   `compose_first_refusal`).
3. chains: `no_request_without_permission`, `stops_only_on_refusal`, `sent_hosts_prefix`,
   `chain_bound`, `chain_max_exact`, `no_redirect_never`.
4. headers: `always_copy_exact`, `sensitive_arrives_only_if`.
-/
namespace Req.Props.C11
open Req.Proto Req.Ascii Req.Redirect Req.Authority Req.Lemmas.C11

/-! ## 1. Host identity -/

/-- `getHostname` of the text `url.URL.Host` carries = the URL's hostname, lower-cased: for
every well-formed authority (name in any case, trailing dot, IPv4, bracketed IPv6 with or
without zone; no port, empty port, numeric port). -/
theorem hostname_spec (a : Authority) (h : WfAuthority a) : getHostname a.render = specHost a :=
  getHostname_render a h

/-- `getDomain` = IP literals whole, names without trailing dot minus the first label when
there are at least three. -/
theorem domain_spec (a : Authority) (h : WfAuthority a) : getDomain a.render = specDomain a :=
  getDomain_render a h

/-- A via list whose first (original) request went to authority `b`. -/
def viaOf (b : Authority) (hdr : Headers := []) (rest : List Hop := []) : Via :=
  { first := ⟨b.render, hdr⟩, rest := rest }

/-- **same_host_iff**: SameHostRedirectPolicy follows a redirect to `a` exactly when `a` and the
original request's authority `b` have the same hostname (case-insensitive, port ignored, IP
literals whole) — whatever else is in `via`. -/
theorem same_host_iff (a b : Authority) (ha : WfAuthority a) (hb : WfAuthority b)
    (hdr : Headers) (rest : List Hop) :
    sameHostRedirectPolicy.check a.render (viaOf b hdr rest) = .allow ↔ specHost a = specHost b := by
  simp only [sameHostRedirectPolicy, viaOf, hostname_spec a ha, hostname_spec b hb]
  by_cases h : specHost a = specHost b <;> simp [h]

/-- **same_domain_iff** -/
theorem same_domain_iff (a b : Authority) (ha : WfAuthority a) (hb : WfAuthority b)
    (hdr : Headers) (rest : List Hop) :
    sameDomainRedirectPolicy.check a.render (viaOf b hdr rest) = .allow ↔ specDomain a = specDomain b := by
  simp only [sameDomainRedirectPolicy, viaOf, domain_spec a ha, domain_spec b hb]
  by_cases h : specDomain a = specDomain b <;> simp [h]

theorem specHost_lower (a : Authority) : lower (specHost a) = specHost a := lower_idem _

theorem specDomain_lower (a : Authority) : lower (specDomain a) = specDomain a := by
  cases a with
  | mk host port =>
    cases host <;> simp only [specDomain] <;> first | exact lower_idem _ | exact specHost_lower _

/-- **allowed_host_iff**: AllowedHostRedirectPolicy(hosts…) follows a redirect to `a` exactly
when one of the configured hosts — written in ANY spelling (case, port, brackets) — has the
same hostname. An empty list allows nothing. -/
theorem allowed_host_iff (hosts : List Authority) (a : Authority)
    (hh : ∀ x ∈ hosts, WfAuthority x) (ha : WfAuthority a) (via : Via) :
    (allowedHostRedirectPolicy (hosts.map (·.render))).check a.render via = .allow ↔
      ∃ x ∈ hosts, specHost x = specHost a := by
  simp only [allowedHostRedirectPolicy, hostname_spec a ha, List.map_map]
  have hm : (hosts.map ((fun h => lower (getHostname h)) ∘ fun x => x.render)) = hosts.map specHost := by
    apply List.map_congr_left
    intro x hx
    simp [hostname_spec x (hh x hx), specHost_lower]
  rw [hm]
  by_cases h : (hosts.map specHost).contains (specHost a) = true
  · simp only [h, if_true, true_iff]
    obtain ⟨x, hx, he⟩ := List.mem_map.mp (List.contains_iff_mem.mp h)
    exact ⟨x, hx, he⟩
  · simp only [h, Bool.false_eq_true, if_false, false_iff, reduceCtorEq]
    rintro ⟨x, hx, he⟩
    exact h (List.contains_iff_mem.mpr (List.mem_map.mpr ⟨x, hx, he⟩))

/-- **allowed_domain_iff** -/
theorem allowed_domain_iff (hosts : List Authority) (a : Authority)
    (hh : ∀ x ∈ hosts, WfAuthority x) (ha : WfAuthority a) (via : Via) :
    (allowedDomainRedirectPolicy (hosts.map (·.render))).check a.render via = .allow ↔
      ∃ x ∈ hosts, specDomain x = specDomain a := by
  simp only [allowedDomainRedirectPolicy, domain_spec a ha, List.map_map]
  have hm : (hosts.map ((fun h => lower (getDomain h)) ∘ fun x => x.render)) = hosts.map specDomain := by
    apply List.map_congr_left
    intro x hx
    simp [domain_spec x (hh x hx), specDomain_lower]
  rw [hm]
  by_cases h : (hosts.map specDomain).contains (specDomain a) = true
  · simp only [h, if_true, true_iff]
    obtain ⟨x, hx, he⟩ := List.mem_map.mp (List.contains_iff_mem.mp h)
    exact ⟨x, hx, he⟩
  · simp only [h, Bool.false_eq_true, if_false, false_iff, reduceCtorEq]
    rintro ⟨x, hx, he⟩
    exact h (List.contains_iff_mem.mpr (List.mem_map.mpr ⟨x, hx, he⟩))

/-! Non-vacuity: concrete authorities of each kind are well-formed, and the policies separate
what the pre-fix code confused. -/

/-- `[::1]`, `[::2]`, `[::1]:80` -/
def ex_v6_1 : Authority := ⟨.ip6 [58, 58, 49] none, none⟩
def ex_v6_2 : Authority := ⟨.ip6 [58, 58, 50] none, none⟩
def ex_v6_1p : Authority := ⟨.ip6 [58, 58, 49] none, some [56, 48]⟩
/-- `10.2.3.4`, `99.2.3.4` -/
def ex_v4_a : Authority := ⟨.ip4 [49, 48] [50] [51] [52], none⟩
def ex_v4_b : Authority := ⟨.ip4 [57, 57] [50] [51] [52], none⟩
/-- `example.com.`, `evil.com.`, `WWW.Example.com:` -/
def ex_n_a : Authority := ⟨.name [[101, 120, 97, 109, 112, 108, 101], [99, 111, 109]] true, none⟩
def ex_n_b : Authority := ⟨.name [[101, 118, 105, 108], [99, 111, 109]] true, none⟩
def ex_n_c : Authority :=
  ⟨.name [[87, 87, 87], [69, 120, 97, 109, 112, 108, 101], [99, 111, 109]] false, some []⟩

example : sameHostRedirectPolicy.check ex_v6_1p.render (viaOf ex_v6_1) = .allow := by decide
example : sameHostRedirectPolicy.check ex_v6_2.render (viaOf ex_v6_1) = .deny := by decide
example : sameDomainRedirectPolicy.check ex_v4_b.render (viaOf ex_v4_a) = .deny := by decide
example : sameDomainRedirectPolicy.check ex_n_b.render (viaOf ex_n_a) = .deny := by decide
example : sameDomainRedirectPolicy.check ex_n_c.render (viaOf ex_n_a) = .allow := by decide
example : (allowedHostRedirectPolicy [ex_v6_1p.render]).check ex_v6_1.render (viaOf ex_n_a) = .allow := by decide
example : (allowedHostRedirectPolicy [ex_v6_1p.render]).check ex_v6_2.render (viaOf ex_n_a) = .deny := by decide

/-! ### The pre-fix code violates every one of the four equivalences

Stated on `Legacy.*`, the byte-exact model of the code before fixes/C11-1 (tied to the real
`net.SplitHostPort` by lanes `split` and `legacy`); these are the input classes lane `host`
reports as class `hostident-legacy` while the patch is not applied. -/

/-- `[::1]` and `[::2]` (no port): both hostnames were "" — any two port-less IPv6 literals
were "the same host". -/
theorem legacy_same_host_ipv6 :
    Legacy.getHostname ex_v6_1.render = Legacy.getHostname ex_v6_2.render ∧
    specHost ex_v6_1 ≠ specHost ex_v6_2 := by decide

/-- `10.2.3.4` and `99.2.3.4` were "the same domain" (`2.3.4`). -/
theorem legacy_same_domain_ipv4 :
    Legacy.getDomain ex_v4_a.render = Legacy.getDomain ex_v4_b.render ∧
    specDomain ex_v4_a ≠ specDomain ex_v4_b := by decide

/-- `example.com.` and `evil.com.` were "the same domain" (`com.`). -/
theorem legacy_same_domain_trailing_dot :
    Legacy.getDomain ex_n_a.render = Legacy.getDomain ex_n_b.render ∧
    specDomain ex_n_a ≠ specDomain ex_n_b := by decide

/-- …and `[::1]:80` was NOT the same host as `[::1]`. -/
theorem legacy_port_ipv6_differs :
    Legacy.getHostname ex_v6_1p.render ≠ Legacy.getHostname ex_v6_1.render ∧
    specHost ex_v6_1p = specHost ex_v6_1 := by decide

/-! ### Every RFC 3986 authority is well-formed -/

set_option maxRecDepth 100000 in
theorem regNameByte_ok : ∀ c : UInt8, isRegNameByte c = true → labelByteOk c = true := by
  apply forall_uint8; decide

theorem splitDoubleColon_mem (s : Bytes) (l r : Bytes) (h : splitDoubleColon s = some (l, r)) :
    (58 : UInt8) ∈ s := by
  induction s generalizing l r with
  | nil => simp [splitDoubleColon] at h
  | cons a t ih =>
    cases t with
    | nil => simp [splitDoubleColon] at h
    | cons b rest =>
      unfold splitDoubleColon at h
      split at h
      · rename_i hab; simp [hab.1]
      · cases hr : splitDoubleColon (b :: rest) with
        | none => rw [hr] at h; simp at h
        | some lr => exact List.mem_cons_of_mem _ (ih lr.1 lr.2 hr)

theorem ipv6_has_colon (s : Bytes) (h : isIPv6address s = true) : (58 : UInt8) ∈ s := by
  unfold isIPv6address at h
  split at h
  · -- no "::": eight groups, hence at least one ":"
    rename_i hnone
    apply Classical.byContradiction
    intro hno
    have hp : pieces 58 s = [s] := by rw [pieces_eq_splitOn]; exact splitOn_no_sep hno
    simp only [groupCount, hp] at h
    by_cases hs : s.isEmpty = true
    · simp [hs] at h
    · simp only [hs, Bool.false_eq_true, if_false, List.getLast?_singleton, List.dropLast_singleton,
        List.all_nil, if_true, List.length_singleton] at h
      split at h
      · simp at h
      · split at h <;> simp at h
  · rename_i l r hsome
    exact splitDoubleColon_mem s l r hsome

/-- **rfc_wf**: the full RFC 3986 grammar (reg-name with non-empty labels | IPv4address |
`[` IPv6address (`%` zone)? `]`, optional `:` *DIGIT) is inside `WfAuthority`, so all theorems
of this file hold for every RFC 3986 authority. -/
theorem rfc_wf (a : Authority) (h : isRfc3986 a = true) : WfAuthority a := by
  obtain ⟨host, port⟩ := a
  simp only [isRfc3986, Bool.and_eq_true] at h
  obtain ⟨hh, hp⟩ := h
  refine ⟨?_, ?_⟩
  · cases host with
    | name ls dot =>
      simp only [isRfcHost, Bool.and_eq_true, List.all_eq_true,
        Bool.not_eq_eq_eq_not, Bool.not_true] at hh
      obtain ⟨⟨hne, hall⟩, hv4⟩ := hh
      refine ⟨?_, ?_, ?_, ?_⟩
      · intro h; subst h; simp at hne
      · intro l hl
        apply List.all_eq_true.mpr
        intro c hc
        exact regNameByte_ok c ((hall l hl).2 c hc)
      · intro hlast
        have hm : ([] : Bytes) ∈ ls := List.mem_of_getLast? hlast
        have := (hall [] hm).1
        simp at this
      · rintro ⟨hlen, hoct⟩
        have : (ls.length == 4 && ls.all isDecOctet) = true := by
          simp [hlen, List.all_eq_true]; exact hoct
        rw [this] at hv4
        exact absurd hv4 (by simp)
    | ip4 a b c d =>
      simp only [isRfcHost, Bool.and_eq_true] at hh
      exact ⟨hh.1.1.1, hh.1.1.2, hh.1.2, hh.2⟩
    | ip6 addr z =>
      simp only [isRfcHost, Bool.and_eq_true] at hh
      exact ipv6_has_colon addr hh.1
  · cases port with
    | none => trivial
    | some p => exact hp

example : WfAuthority ex_v6_1 := rfc_wf _ (by decide)
example : WfAuthority ex_v6_1p := rfc_wf _ (by decide)
example : WfAuthority ex_v4_a := rfc_wf _ (by decide)
example : WfAuthority ex_n_a := rfc_wf _ (by decide)
example : WfAuthority ex_n_c := rfc_wf _ (by decide)

/-- `[2001:db8::8:800:200c:417a%eth0]:8080` is an RFC 3986 authority. -/
example : isRfc3986 ⟨.ip6 [50,48,48,49,58,100,98,56,58,58,56,58,56,48,48,58,50,48,48,99,58,52,49,55,97]
    (some [101,116,104,48]), some [56,48,56,48]⟩ = true := by decide
example : isRfc3986 ex_n_c = true := by decide
example : isRfc3986 ex_v4_a = true := by decide
/-- `::ffff:1.2.3.4` is an IPv6address, `1::2::3` and `1:2:3:4:5:6:7:8:9` are not. -/
example : isIPv6address [58,58,102,102,102,102,58,49,46,50,46,51,46,52] = true := by decide
example : isIPv6address [49,58,58,50,58,58,51] = false := by decide
example : isIPv6address [49,58,50,58,51,58,52,58,53,58,54,58,55,58,56,58,57] = false := by decide

/-! ## 2. Hop limit, disabled redirects, composition -/

/-- **max_redirect**: MaxRedirectPolicy(n) lets the next hop through iff fewer than `n` requests
have been made so far (`len(via) < n`; `via` includes the original request, so — like net/http's
own default — `n` bounds the number of REQUESTS, i.e. at most `n - 1` redirects are followed). -/
theorem max_redirect (n : Int) (req : Bytes) (via : Via) :
    (maxRedirectPolicy n).check req via = .allow ↔ (via.length : Int) < n :=
  max_check_iff n req via

example : (maxRedirectPolicy 3).check [] ⟨⟨[], []⟩, [⟨[], []⟩]⟩ = .allow := by decide
example : (maxRedirectPolicy 3).check [] ⟨⟨[], []⟩, [⟨[], []⟩, ⟨[], []⟩]⟩ = .deny := by decide
example : (maxRedirectPolicy 0).check [] ⟨⟨[], []⟩, []⟩ = .deny := by decide

/-- **no_redirect**: NoRedirectPolicy never allows, and what it returns is the
"use the last response" sentinel, for every request and history. -/
theorem no_redirect (req : Bytes) (via : Via) : noRedirectPolicy.check req via = .useLast := rfl

/-- **compose_all**: the closure installed by SetRedirectPolicy allows a hop iff EVERY non-nil
policy allows it (the header state the policies see is irrelevant to the decision). -/
theorem compose_all (ps : List (Option Policy)) (req : Bytes) (h : Headers) (via : Via) :
    (compose ps req h via).1 = .allow ↔ ∀ p, some p ∈ ps → p.check req via = .allow :=
  compose_allow_iff ps req h via

/-- **compose_first_refusal**: when the closure refuses, its error is the error of the first
policy that refuses (everything before it allowed; nil entries are skipped). -/
theorem compose_first_refusal (ps : List (Option Policy)) (req : Bytes) (h : Headers) (via : Via)
    (d : Decision) (hd : d ≠ .allow) (hr : (compose ps req h via).1 = d) :
    ∃ pre p post, ps = pre ++ some p :: post ∧ (∀ q, some q ∈ pre → q.check req via = .allow) ∧
      p.check req via = d :=
  compose_refusal ps req h via d hd hr

example : (compose [none, some (maxRedirectPolicy 5), some sameHostRedirectPolicy] ex_v6_1p.render []
    (viaOf ex_v6_1)).1 = .allow := by decide
example : (compose [some noRedirectPolicy, some (maxRedirectPolicy 0)] [] [] (viaOf ex_v6_1)).1 = .useLast := by
  decide
example : (compose [some (maxRedirectPolicy 0), some noRedirectPolicy] [] [] (viaOf ex_v6_1)).1 = .deny := by
  decide

/-! ## 3. Chains -/

/-- **no_request_without_permission** (the credential clause): in every redirect chain, every
request after the first was permitted by EVERY configured policy, evaluated on the target's
authority and on exactly the requests sent before it. Contrapositive: an origin any policy
refuses receives no request at all — hence no header, no credential. -/
theorem no_request_without_permission (ps : List (Option Policy)) (h0 : Hop) (targets : List Bytes)
    (k : Nat) (hk : k + 1 < (runChain ps h0 targets).1.length) :
    ∀ p, some p ∈ ps →
      p.check ((runChain ps h0 targets).1[k + 1]).host
        ⟨h0, ((runChain ps h0 targets).1.drop 1).take k⟩ = .allow := by
  obtain ⟨later, hs⟩ := follow_spec ps h0.hdr targets { via := { first := h0 } }
  have hsent : (runChain ps h0 targets).1 = h0 :: later := by
    simpa [runChain, Via.toList] using hs.sent
  intro p hp
  have hk' : k < later.length := by rw [hsent] at hk; simpa using hk
  have := allPermitted_get ps h0 [] later hs.permitted k hk' p hp
  simpa [hsent] using this

/-- **sent_hosts_prefix**: requests go to the chain's origins in order, nowhere else. -/
theorem sent_hosts_prefix (ps : List (Option Policy)) (h0 : Hop) (targets : List Bytes) :
    (runChain ps h0 targets).1.map (·.host) =
      (h0.host :: targets).take (runChain ps h0 targets).1.length := by
  obtain ⟨later, hs⟩ := follow_spec ps h0.hdr targets { via := { first := h0 } }
  have hsent : (runChain ps h0 targets).1 = h0 :: later := by
    simpa [runChain, Via.toList] using hs.sent
  rw [hsent]
  simp [hs.hosts]

/-- **stops_only_on_refusal** (the converse: policies are enforced *exactly*): if the chain was
not followed to its end, some configured policy refused the very next target given what had
been sent; and the outcome is `final` iff every target was requested. -/
theorem stops_only_on_refusal (ps : List (Option Policy)) (h0 : Hop) (targets : List Bytes) :
    let sent := (runChain ps h0 targets).1
    ((runChain ps h0 targets).2 = .final ↔ sent.length = targets.length + 1) ∧
    (sent.length < targets.length + 1 →
      ∃ t, targets[sent.length - 1]? = some t ∧
        ∃ p, some p ∈ ps ∧ p.check t ⟨h0, sent.drop 1⟩ ≠ .allow) := by
  obtain ⟨later, hs⟩ := follow_spec ps h0.hdr targets { via := { first := h0 } }
  have hsent : (runChain ps h0 targets).1 = h0 :: later := by
    simpa [runChain, Via.toList] using hs.sent
  simp only [hsent]
  refine ⟨?_, ?_⟩
  · have := hs.final
    simp only [runChain] at this ⊢
    rw [this]; simp
  · intro hlt
    have hlt' : later.length < targets.length := by simpa using hlt
    obtain ⟨t, ht, p, hp, hne⟩ := hs.stop hlt'
    exact ⟨t, by simpa using ht, p, hp, by simpa using hne⟩

/-- **chain_bound**: with MaxRedirectPolicy(n) anywhere in the composition, no chain — however
long, whatever the other policies — gets more than `max 1 n` requests (the original one plus at
most `n - 1` redirects). -/
theorem chain_bound (ps : List (Option Policy)) (n : Int) (hn : some (maxRedirectPolicy n) ∈ ps)
    (h0 : Hop) (targets : List Bytes) :
    ((runChain ps h0 targets).1.length : Int) ≤ max 1 n := by
  obtain ⟨later, hs⟩ := follow_spec ps h0.hdr targets { via := { first := h0 } }
  have hsent : (runChain ps h0 targets).1 = h0 :: later := by
    simpa [runChain, Via.toList] using hs.sent
  have := allPermitted_bound ps n hn h0 [] later hs.permitted
  rw [hsent]
  simp only [List.length_nil, List.length_cons] at this ⊢
  omega

/-- **chain_max_exact**: with MaxRedirectPolicy(n) alone the limit is met exactly: the number of
requests is `min (chain length) (max 1 n)` — never fewer than allowed, never more. -/
theorem chain_max_exact (n : Int) (h0 : Hop) (targets : List Bytes) :
    ((runChain [some (maxRedirectPolicy n)] h0 targets).1.length : Int) =
      min ((targets.length : Int) + 1) (max 1 n) := by
  have hb := chain_bound [some (maxRedirectPolicy n)] n (by simp) h0 targets
  obtain ⟨later, hs⟩ := follow_spec [some (maxRedirectPolicy n)] h0.hdr targets { via := { first := h0 } }
  have hsent : (runChain [some (maxRedirectPolicy n)] h0 targets).1 = h0 :: later := by
    simpa [runChain, Via.toList] using hs.sent
  rw [hsent] at hb ⊢
  have hlen := hs.len
  simp only [List.length_cons] at hb ⊢
  by_cases hlt : later.length < targets.length
  · obtain ⟨t, _, p, hp, hne⟩ := hs.stop hlt
    have hp' : p = maxRedirectPolicy n := by simpa using hp
    subst hp'
    have := mt (max_redirect n t _).mpr hne
    simp only [Via.length, List.nil_append] at this
    omega
  · omega

/-- **no_redirect_never**: with NoRedirectPolicy anywhere in the composition only the original
request is ever sent, and a chain that wanted to redirect does not end `final`. -/
theorem no_redirect_never (ps : List (Option Policy)) (hn : some noRedirectPolicy ∈ ps)
    (h0 : Hop) (targets : List Bytes) :
    (runChain ps h0 targets).1 = [h0] ∧
      (targets ≠ [] → (runChain ps h0 targets).2 ≠ .final) := by
  obtain ⟨later, hs⟩ := follow_spec ps h0.hdr targets { via := { first := h0 } }
  have hsent : (runChain ps h0 targets).1 = h0 :: later := by
    simpa [runChain, Via.toList] using hs.sent
  have hl : later = [] := allPermitted_no ps hn h0 [] later hs.permitted
  subst hl
  refine ⟨hsent, ?_⟩
  intro hne hfin
  have := hs.final.mp (by simpa [runChain] using hfin)
  cases targets with
  | nil => exact hne rfl
  | cons t ts => simp at this

/-- Non-vacuity / exactness of the bound: with MaxRedirectPolicy(3) alone a chain of five
origins gets exactly three requests and the caller gets the refusal at hop 3. -/
example :
    (runChain [some (maxRedirectPolicy 3)] ⟨[97], []⟩ [[98], [99], [100], [101]]).1.map (·.host)
      = [[97], [98], [99]] ∧
    (runChain [some (maxRedirectPolicy 3)] ⟨[97], []⟩ [[98], [99], [100], [101]]).2 = .refused 3 := by
  decide

/-- SameHost + Max(5): `[::1]` → `[::1]:80` → `[::2]`: the third origin receives nothing. -/
example :
    (runChain [some sameHostRedirectPolicy, some (maxRedirectPolicy 5)] ⟨ex_v6_1.render, []⟩
      [ex_v6_1p.render, ex_v6_2.render]).1.map (·.host) = [ex_v6_1.render, ex_v6_1p.render] := by
  decide

/-! ## 4. Headers -/

/-- **always_copy_exact**: after AlwaysCopyHeaderRedirectPolicy(hs…) has run, for every header
name `k`: if `k` is listed (names compared in canonical MIME form) and the new request had no
value for it, it now has exactly the ORIGINAL request's (`via[0]`) values; in every other case
the new request's values are unchanged. Nothing is copied from intermediate hops, nothing
unlisted is added. -/
theorem always_copy_exact (hs : List Bytes) (req : Headers) (via : Via) (k : Bytes) :
    ((alwaysCopyHeaderRedirectPolicy hs).xform req via).values k =
      if (∃ h ∈ hs, canonicalMIMEHeaderKey h = canonicalMIMEHeaderKey k) ∧ req.values k = []
      then via.first.hdr.values k else req.values k :=
  alwaysCopy_values hs req via.first.hdr k

/-- …and it never refuses. -/
theorem always_copy_allows (hs : List Bytes) (req : Bytes) (via : Via) :
    (alwaysCopyHeaderRedirectPolicy hs).check req via = .allow := rfl

/-- "authorization" listed in lower case; the redirected request lost `Authorization`
(stripped by net/http), kept `X-A`: it gets the original token back, `X-A` is untouched. -/
example :
    let via : Via := ⟨⟨[], [(hAuthorization, [[116]]), ([88, 45, 65], [[49]])]⟩, []⟩
    let out := (alwaysCopyHeaderRedirectPolicy [[97,117,116,104,111,114,105,122,97,116,105,111,110]]).xform
      [([88, 45, 65], [[50]])] via
    out.values hAuthorization = [[116]] ∧ out.values [88, 45, 65] = [[50]] := by decide

/-- **header_flow_exact**: along any chain, under any composition of redirect.go's policies,
the values of ANY header `k` on the (j+1)-th redirected request are exactly:
nothing, if `k` is sensitive (Authorization, Www-Authenticate, Cookie, Cookie2), some hop so far
left the original host's domain (Go's cross-origin rule, sticky) and no AlwaysCopy policy lists
`k`; the original request's values otherwise. -/
theorem header_flow_exact (ds : List PolicyDesc) (h0 : Hop) (targets : List Bytes) (k : Bytes)
    (j : Nat) (hj : j + 1 < (runChain (ds.map PolicyDesc.denote) h0 targets).1.length) :
    ((runChain (ds.map PolicyDesc.denote) h0 targets).1[j + 1]).hdr.values k =
      if crossed h0.host (targets.take (j + 1)) = true ∧ isSensitive k = true ∧ copyListed ds k = false
      then [] else h0.hdr.values k := by
  obtain ⟨later, hs, hh⟩ := follow_headers ds h0.hdr k targets { via := { first := h0 } } rfl
  have hsent : (runChain (ds.map PolicyDesc.denote) h0 targets).1 = h0 :: later := by
    simpa [runChain, Via.toList] using hs
  have hj' : j < later.length := by rw [hsent] at hj; simpa using hj
  have := hh j hj'
  simp only [Bool.false_or] at this
  simpa [hsent] using this

/-- **sensitive_arrives_only_if** (credentials): a redirected request carries a sensitive header
only if every hop so far stayed within the original host or its subdomains, or the caller
explicitly listed that header in an AlwaysCopyHeaderRedirectPolicy — and by
`no_request_without_permission` only hosts every policy accepts get a request in the first
place. -/
theorem sensitive_arrives_only_if (ds : List PolicyDesc) (h0 : Hop) (targets : List Bytes) (k : Bytes)
    (hk : isSensitive k = true)
    (j : Nat) (hj : j + 1 < (runChain (ds.map PolicyDesc.denote) h0 targets).1.length)
    (harr : ((runChain (ds.map PolicyDesc.denote) h0 targets).1[j + 1]).hdr.values k ≠ []) :
    crossed h0.host (targets.take (j + 1)) = false ∨ copyListed ds k = true := by
  rw [header_flow_exact ds h0 targets k j hj] at harr
  cases hc : crossed h0.host (targets.take (j + 1)) with
  | false => exact Or.inl rfl
  | true =>
    cases hl : copyListed ds k with
    | true => exact Or.inr rfl
    | false => simp [hc, hk, hl] at harr

/-- a.com → b.com → a.com with `Authorization: t`, SameDomain not configured, Max(5):
b.com does not get the token, and neither does a.com afterwards (sticky); with
AlwaysCopy("authorization") both do. -/
example :
    let a : Bytes := [97, 46, 99, 111, 109]
    let b : Bytes := [98, 46, 99, 111, 109]
    let h0 : Hop := ⟨a, [(hAuthorization, [[116]])]⟩
    ((runChain ([PolicyDesc.max 5].map PolicyDesc.denote) h0 [b, a]).1.map
        fun h => h.hdr.values hAuthorization) = [[[116]], [], []] ∧
    ((runChain ([PolicyDesc.max 5, .alwaysCopy [[97,117,116,104,111,114,105,122,97,116,105,111,110]]].map
        PolicyDesc.denote) h0 [b, a]).1.map
        fun h => h.hdr.values hAuthorization) = [[[116]], [[116]], [[116]]] := by decide

/-! ## 5. Lifetime of the policy across `Client.Clone` -/
section Lifetime
open Req.Redirect.Lifetime

/-- **policy_lifetime**: after ANY sequence of `SetRedirectPolicy` / `Clone` calls on a family
of clients, client `j` enforces exactly: the last non-empty `SetRedirectPolicy` made on `j`
itself; else, if `j` was created by `Clone` of `i`, what `i` enforced at that moment; else the
default. (`run` is the forward state machine of client.go, `resolve` the look-back spec.) -/
theorem policy_lifetime {α : Type} (dflt : α) (h : List (Op α)) (j : Nat) :
    (run dflt h)[j]? = resolve dflt h j ∧ (run dflt h).length = nClients h :=
  ⟨(run_spec dflt h).2 j, (run_spec dflt h).1⟩

/-- **clone_carries_policy**: the clone enforces the composed policy of its parent, and cloning
changes no existing client. -/
theorem clone_carries_policy {α : Type} (dflt : α) (h : List (Op α)) (i : Nat) (hi : i < nClients h) :
    (run dflt (.clone i :: h))[nClients h]? = (run dflt h)[i]? ∧
    ∀ j, j < nClients h → (run dflt (.clone i :: h))[j]? = (run dflt h)[j]? := by
  refine ⟨?_, ?_⟩
  · rw [(run_spec dflt _).2, (run_spec dflt h).2]
    simp [resolve, hi]
  · intro j hj
    rw [(run_spec dflt _).2, (run_spec dflt h).2]
    have : j ≠ nClients h := by omega
    simp [resolve, this]

/-- **set_isolated**: `SetRedirectPolicy` on one client (original or clone) never changes what
any other client enforces; with no argument it changes nothing at all. -/
theorem set_isolated {α : Type} (dflt : α) (h : List (Op α)) (i : Nat) (ps : α) (empty : Bool) :
    (∀ j, j ≠ i → (run dflt (.set i ps empty :: h))[j]? = (run dflt h)[j]?) ∧
    (empty = true → run dflt (.set i ps empty :: h) = run dflt h) ∧
    (empty = false → i < nClients h → (run dflt (.set i ps empty :: h))[i]? = some ps) := by
  refine ⟨?_, ?_, ?_⟩
  · intro j hj
    rw [(run_spec dflt _).2, (run_spec dflt h).2]
    have : ¬ i = j := fun e => hj e.symm
    simp [resolve, this]
  · intro he; simp [run, step, he]
  · intro he hi
    rw [(run_spec dflt _).2]
    simp [resolve, he, hi]

/-- **clone_decides_like_parent**: for every redirect, the clone's `CheckRedirect` returns what
the parent's closure returned at clone time — whatever either side is configured to later. -/
theorem clone_decides_like_parent (dflt : List (Option Policy)) (h : List (Op (List (Option Policy))))
    (i : Nat) (hi : i < nClients h) (req : Bytes) (hdr : Headers) (via : Via) :
    ((run dflt (.clone i :: h))[nClients h]?).map (fun ps => compose ps req hdr via) =
      ((run dflt h)[i]?).map (fun ps => compose ps req hdr via) := by
  rw [(clone_carries_policy dflt h i hi).1]

/-- C(); Set(0,7); Clone(0); Set(0,8); Clone(1); Set(2,9); Set(1) with no argument:
client 0 enforces 8, client 1 (cloned when 0 had 7) still 7, client 2 (clone of the clone) 9. -/
example : run (α := Nat) 10
    [.set 1 0 true, .set 2 9 false, .clone 1, .set 0 8 false, .clone 0, .set 0 7 false] = [8, 7, 9] := by
  decide

end Lifetime

end Req.Props.C11
