import Req.Pool.AltSvcClient
/-!
# C12 — a clone starts with NO Alt-Svc state, whatever the original had learned

`Transport.Clone` gives the copy its own (empty) Alt-Svc jar and pending map (through
`EnableHTTP3`): a pending entry carries the ORIGINAL's HTTP/3 round tripper
(`pendingAltSvc.Transport`), so sharing it would send the clone's requests through the
original's transport and TLS settings (seed C12-r5-3). Model: `Req.Pool.AltSvc.cstep` with the
setter `clone` (`altAfter`). Tied to the code by lane `c12altsm` (Clone at any point of an
Alt-Svc event sequence: nothing learned, pending, confirmed).
-/
namespace Req.Props.C12
open Req.Pool.AltSvc Req.Pool.Dispatch

/-- **`clone_altsvc_separate`.** Whatever the original's Alt-Svc state (nothing, a pending
advertisement — ready or not —, a confirmed entry) and settings: the first request the clone
makes for ANY origin is dispatched normally — over the clone's own stacks with the clone's
TLS settings — never through an alternative the original learned; and its state stays empty. -/
theorem clone_altsvc_separate (sup : Bool) (c : Client) (o : Origin) (now : Nat) (ok : Bool) :
    let cl := (cstep sup c (.setting .clone)).1
    (cstep sup cl (.alt (.request o now ok))).2 = some .normal
    ∧ ∀ o' now', usable (cstep sup cl (.alt (.request o now ok))).1.alt o' now' = false := by
  simp only [cstep, altAfter]
  by_cases hc : consults (applySetting sup c.cfg .clone) o
  · simp [hc, step, viaJar, jarPurge, jarExpired, State.empty, usable, jarLive]
  · simp [hc, usable, State.empty, jarLive]

/-- The clone learns for itself: after its OWN header and dial it has its own pending entry. -/
example : (usable (crun true Client.init
    [.setting .enableH3, .setting .clone, .setting .enableH3,
     .alt (.header ⟨.https, 1, 443⟩ 0 [none]), .alt (.dialed ⟨.https, 1, 443⟩ [true])]).alt ⟨.https, 1, 443⟩ 1) = true := by
  decide

/-- The original had a ready pending entry; its clone has none. -/
example :
    let orig := crun true Client.init
      [.setting .enableH3, .alt (.header ⟨.https, 1, 443⟩ 0 [none]), .alt (.dialed ⟨.https, 1, 443⟩ [true])]
    usable orig.alt ⟨.https, 1, 443⟩ 1 = true
    ∧ usable (cstep true orig (.setting .clone)).1.alt ⟨.https, 1, 443⟩ 1 = false := by
  decide

end Req.Props.C12
