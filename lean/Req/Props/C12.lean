import Req.Pool.Dispatch
import Req.Pool.Tls
import Req.Lemmas.Dispatch
/-!
# C12 — protocol selection and TLS configuration are honoured uniformly

Theorems about `Req.Pool.Dispatch.route` (the decision of `Transport.roundTrip`) and
`Req.Pool.TLS` (which configuration each stack reads for a new connection).
Partial by design (DESIGN.md §6): X.509 verification, the TLS/QUIC handshakes and ALPN
negotiation inside the libraries are parameters (`accepts`, `Net`, `negotiate`).
-/
namespace Req.Props.C12
open Req.Pool.Dispatch Req.Pool.TLS Req.Lemmas.Dispatch

/-! ## dispatch -/

/-- **No silent fallback.** With a forced version `v`, whatever the server offers, whatever
is cached, whatever Alt-Svc entry exists and whatever the TLS outcome: if the request is
carried at all, it is carried by `v`. -/
theorem forced_no_fallback (cfg : Cfg) (req : Req) (net : Net) (v w : Ver)
    (hf : cfg.force = some v) (h : route cfg req net = .ok w) : w = v := by
  unfold route at h
  simp [hf] at h
  unfold dispatch at h
  cases v with
  | h3 => simp [hf] at h; exact (t3_ok h).1
  | h2 => simp [hf] at h; exact (t2_ok h).1
  | h1 =>
    simp [hf] at h
    rcases h1Path_ok h with ⟨_, hv⟩ | ⟨_, st, _, hc⟩
    · exact hv
    · exact carry_forced_h1 hf hc

example : route ⟨some .h1, true, false, false, false, [.h2, .http11]⟩ ⟨.https, false⟩
    ⟨[.h2, .http11], true, true, true, false, .fail, true, true, true⟩ = .ok .h1 := by decide
example : route ⟨some .h2, false, false, false, false, [.http11, .h2]⟩ ⟨.https, false⟩
    ⟨[.http11], true, false, false, false, .fail, false, false, false⟩ = .error .h2NotNegotiated := by decide
example : route ⟨some .h3, true, false, false, false, []⟩ ⟨.https, false⟩
    ⟨[.h2, .http11], true, false, false, false, .fail, true, false, false⟩ = .error .h3Unreachable := by decide

/-- A forced request either is carried by the forced version or fails with an error — it does
not crash — as long as a forced h3 still has its round tripper (`EnableForceHTTP3` guarantees
it; `DisableHTTP3` afterwards breaks it) and a custom handshake function returns a TLS conn. -/
theorem forced_version_or_error (cfg : Cfg) (req : Req) (net : Net) (v : Ver)
    (hf : cfg.force = some v) (h3 : v = .h3 → cfg.h3 = true)
    (hc : cfg.handshake = true → net.custom ≠ .plain) :
    route cfg req net = .ok v ∨ ∃ e, route cfg req net = .error e := by
  cases hr : route cfg req net with
  | ok w => left; rw [forced_no_fallback cfg req net v w hf hr]
  | error e => right; exact ⟨e, rfl⟩
  | crash =>
    exfalso
    unfold route at hr
    simp [hf] at hr
    unfold dispatch at hr
    cases v with
    | h3 => simp [hf] at hr; exact t3_not_crash (h3 rfl) hr
    | h2 =>
      simp [hf] at hr
      unfold t2RoundTrip at hr
      split at hr; · cases hr
      split at hr; · cases hr
      exact t2Dial_not_crash hc hr
    | h1 => simp [hf] at hr; exact h1Path_not_crash hr

/-- The excluded point is real: `EnableForceHTTP3()` then `DisableHTTP3()` leaves
`forceHttpVersion = h3` with `t3 = nil`; `roundTrip` dereferences it. -/
theorem forced_h3_without_roundtripper_crashes :
    route ⟨some .h3, false, false, false, false, []⟩ ⟨.https, false⟩
      ⟨[], true, true, true, false, .fail, false, false, false⟩ = .crash := by decide

/-- Every setter keeps "a forced HTTP/3 has its round tripper". -/
theorem setting_preserves_wf (supported : Bool) (c : Cfg) (s : Setting) (h : c.WF) :
    (applySetting supported c s).WF := by
  unfold Cfg.WF at *
  cases s <;> simp [applySetting, enableH3] <;> try (intro hf; simp_all)
  all_goals (repeat' split) <;> simp_all

theorem settings_preserve_wf (supported : Bool) (ss : List Setting) (c : Cfg) (h : c.WF) :
    (ss.foldl (applySetting supported) c).WF := by
  induction ss generalizing c with
  | nil => exact h
  | cons s ss ih => exact ih _ (setting_preserves_wf supported c s h)

/-- For every configuration reachable from `T()` through the protocol setters (any order, any
number, clones included): a forced request is carried by the forced version or fails with an
error — it never crashes. -/
theorem forced_version_or_error_reachable (supported : Bool) (ss : List Setting) (req : Req) (net : Net)
    (v : Ver) (hf : (ss.foldl (applySetting supported) initialProto).force = some v)
    (hc : (ss.foldl (applySetting supported) initialProto).handshake = true → net.custom ≠ .plain) :
    route (ss.foldl (applySetting supported) initialProto) req net = .ok v
    ∨ ∃ e, route (ss.foldl (applySetting supported) initialProto) req net = .error e := by
  have wf : (ss.foldl (applySetting supported) initialProto).WF :=
    settings_preserve_wf supported ss initialProto (by intro h; cases h)
  exact forced_version_or_error _ req net v hf (fun hv => wf (hv ▸ hf)) hc

/-- The un-patched `DisableHTTP3` breaks the invariant (class `forced-h3-after-disable-panics`). -/
theorem unpatched_disable_breaks_wf :
    route ([Setting.forceH3, .disableH3].foldl (applySettingUnpatched true) initialProto) ⟨.https, false⟩
      ⟨[.h2, .http11], true, true, true, false, .fail, false, false, false⟩ = .crash := by decide

example : ([Setting.forceH3, .disableH3].foldl (applySetting true) initialProto).force = none := by decide
example : ([Setting.enableH3, .forceH1, .clone, .forceH3].foldl (applySetting true) initialProto).force = some .h3 := by
  decide

/-- **Un-forced https uses a negotiated version.** -/
theorem unforced_negotiated (cfg : Cfg) (req : Req) (net : Net) (v : Ver)
    (hf : cfg.force = none) (hs : req.scheme = .https) (h : route cfg req net = .ok v) :
    Negotiated net v := by
  have t3neg : ∀ {w}, t3RoundTrip cfg req net = .ok w → Negotiated net w := by
    intro w hw
    obtain ⟨rfl, hh⟩ := t3_ok hw
    exact hh
  have h1neg : h1Path cfg req net = .ok v → Negotiated net v := by
    intro hp
    rcases h1Path_ok hp with ⟨hh, _⟩ | ⟨_, st, hst, hc⟩
    · rw [hs] at hh; cases hh
    · rcases carry_ok hc with ⟨rfl, _, s, rfl, hp2⟩ | ⟨rfl, hpe⟩
      · -- h2
        rcases dialTlsState_ok hst with ⟨hn, _⟩ | ⟨s', hs', hcu⟩ | ⟨cl, p, hs', hn, _⟩
        · cases hn
        · cases hs'; right; left; exact ⟨s, hcu, hp2⟩
        · cases hs'; right; right; exact ⟨cl, by rw [hn]; simp at hp2; rw [hp2]⟩
      · rcases dialTlsState_ok hst with ⟨_, hcu⟩ | ⟨s', hs', hcu⟩ | ⟨cl, p, hs', hn, _⟩
        · right; left; exact hcu
        · left
          refine ⟨s', hcu, ?_⟩
          subst hs'
          intro hp2
          cases s' with
          | mk pr m => simp at hp2; subst hp2; simp [peerOf] at hpe
        · right; right
          refine ⟨cl, p, hn, ?_⟩
          subst hs'
          intro hp2
          subst hp2
          simp [peerOf] at hpe
  unfold route at h
  simp [hf, hs] at h
  split at h
  · exact t3neg h
  · unfold dispatch at h
    simp [hf, hs] at h
    split at h
    · cases h; left; assumption
    · split at h
      · cases h; left; simp_all
      · exact h1neg h

example : route ⟨none, false, false, false, false, [.http11, .h2]⟩ ⟨.https, false⟩
    ⟨[.h2, .http11], true, false, false, false, .fail, false, false, false⟩ = .ok .h2 := by decide
example : route ⟨none, false, false, false, false, [.http11, .h2]⟩ ⟨.https, false⟩
    ⟨[.http11], true, false, false, false, .fail, false, false, false⟩ = .ok .h1 := by decide
example : route ⟨none, true, false, false, false, [.http11, .h2]⟩ ⟨.https, false⟩
    ⟨[.h2, .http11], true, true, true, false, .fail, false, false, true⟩ = .ok .h3 := by decide

/-- **No connection without verification.** A request carried over a NEW connection (nothing
cached, no user-supplied dial/handshake function) went through a handshake that the
configuration in force accepted: QUIC's for HTTP/3, the TCP one otherwise. -/
theorem new_connection_was_accepted (cfg : Cfg) (req : Req) (net : Net) (v : Ver)
    (hs : req.scheme = .https) (hc2 : net.cachedH2 = false) (hc3 : net.cachedH3 = false)
    (hd : cfg.dialTLS = false) (hh : cfg.handshake = false)
    (h : route cfg req net = .ok v) :
    (v = .h3 → net.quicAccept = true) ∧ (v ≠ .h3 → net.tcpAccept = true) := by
  have t3c : ∀ {w}, t3RoundTrip cfg req net = .ok w → w = .h3 ∧ net.quicAccept = true := by
    intro w hw
    obtain ⟨rfl, hq⟩ := t3_ok hw
    rcases hq with hq | hq
    · rw [hc3] at hq; cases hq
    · exact ⟨rfl, hq.2⟩
  have h1c : h1Path cfg req net = .ok v → v ≠ .h3 ∧ net.tcpAccept = true := by
    intro hp
    rcases h1Path_ok hp with ⟨hh', _⟩ | ⟨_, st, hst, hc⟩
    · rw [hs] at hh'; cases hh'
    · have hv : v ≠ .h3 := by
        rcases carry_ok hc with ⟨rfl, _⟩ | ⟨rfl, _⟩ <;> simp
      refine ⟨hv, ?_⟩
      unfold dialTlsState at hst
      simp [hd, hh] at hst
      split at hst
      · cases hst
      · split at hst
        · cases hst
        · simp_all
  unfold route at h
  split at h
  · obtain ⟨rfl, hq⟩ := t3c h
    exact ⟨fun _ => hq, fun hne => absurd rfl hne⟩
  · unfold dispatch at h
    split at h
    · obtain ⟨rfl, hq⟩ := t3c h
      exact ⟨fun _ => hq, fun hne => absurd rfl hne⟩
    · have hv2 := (t2_ok h).1
      subst hv2
      refine ⟨fun hv => (by cases hv), fun _ => ?_⟩
      unfold t2RoundTrip at h
      split at h
      · cases h
      · simp [hc2] at h
        exact t2Dial_ok_accept hd hh h
    · simp [hs, hc2, hc3] at h
      obtain ⟨hv, ha⟩ := h1c h
      exact ⟨fun h3 => absurd h3 hv, fun _ => ha⟩

example : route ⟨none, false, false, false, false, [.http11, .h2]⟩ ⟨.https, false⟩
    ⟨[.h2, .http11], false, false, false, false, .fail, false, false, false⟩ = .error .tlsReject := by decide

/-- **Plain HTTP** is carried by HTTP/1.1, or by HTTP/2 prior knowledge when h2c is enabled
(and HTTP/2 is forced) — never by HTTP/3, whatever Alt-Svc entry exists. -/
theorem plain_http_h1_or_h2c (cfg : Cfg) (req : Req) (net : Net) (v : Ver)
    (hs : req.scheme = .http) (h : route cfg req net = .ok v) :
    v = .h1 ∨ (v = .h2 ∧ cfg.allowHTTP = true ∧ cfg.force = some .h2) := by
  unfold route at h
  simp [hs] at h
  unfold dispatch at h
  split at h
  · -- forced h3
    unfold t3RoundTrip at h
    simp [hs] at h
    split at h <;> cases h
  · rename_i hf
    right
    obtain ⟨hv, hsch⟩ := t2_ok h
    refine ⟨hv, ?_, hf⟩
    rcases hsch with h1 | ⟨_, h2⟩
    · rw [hs] at h1; cases h1
    · exact h2
  · simp [hs] at h
    unfold h1Path at h
    simp [hs] at h
    left; exact (speak_ok h).1

example : route ⟨none, true, true, true, false, []⟩ ⟨.http, false⟩
    ⟨[], true, true, true, false, .plain, false, false, true⟩ = .ok .h1 := by decide
example : route ⟨some .h2, false, true, true, false, []⟩ ⟨.http, false⟩
    ⟨[], true, false, false, true, .plain, false, false, false⟩ = .ok .h2 := by decide

/-- An un-forced plain request never fails because of an Alt-Svc entry: with an HTTP/1.1
listener it is carried by HTTP/1.1. -/
theorem plain_http_unforced (cfg : Cfg) (req : Req) (net : Net)
    (hs : req.scheme = .http) (hf : cfg.force = none) (hp : net.plainH2 = false) :
    route cfg req net = .ok .h1 := by
  unfold route dispatch h1Path speak plainPeer
  simp [hs, hf, hp]

/-- The client learns an Alt-Svc entry only from an un-forced https exchange. -/
theorem learns_alt_only_unforced_https (cfg : Cfg) (req : Req) (v : Ver) (adv : Bool)
    (h : learnsAlt cfg req v adv = true) : cfg.force = none ∧ req.scheme = .https ∧ cfg.h3 = true := by
  unfold learnsAlt at h
  simp at h
  exact ⟨h.1.1.2, h.1.2, h.1.1.1.2⟩

/-- Alt-Svc entries are per origin: what is learned for origin `a` is found for `b` only if `b`
is `a` (same scheme, host AND port) or `b` had an entry of its own. -/
theorem alt_entry_is_per_origin (j : AltState) (a b : Origin) (h : altHas (altLearn j a) b = true) :
    b = a ∨ altHas j b = true := by
  unfold altHas altLearn at *
  simp at h
  rcases h with h | h
  · left; exact h
  · right; simpa using h

/-- Hence an un-forced https request for an origin that never advertised anything is routed as
if no Alt-Svc existed at all, whatever was learned for other ports of the same host. -/
theorem other_origin_unaffected (cfg : Cfg) (req : Req) (net : Net) (a b : Origin) (hne : b ≠ a)
    (hb : net.alt = altHas (altLearn [] a) b) : route cfg req net = dispatch cfg req net := by
  have : net.alt = false := by
    rw [hb]
    cases h : altHas (altLearn [] a) b with
    | false => rfl
    | true =>
      rcases alt_entry_is_per_origin [] a b h with h1 | h1
      · exact absurd h1 hne
      · simp [altHas] at h1
  unfold route
  simp [this]

example : altHas (altLearn [] ⟨.https, 1, 8443⟩) ⟨.https, 1, 8444⟩ = false := by decide

/-! ### the un-patched order (Alt-Svc shortcut first): where the property fails -/

/-- Witness replayed by the e2e lane (class `altsvc-overrides-forced-version`): HTTP/1.1 forced,
HTTP/3 enabled, a ready Alt-Svc entry ⇒ the request is carried by HTTP/3. -/
theorem unpatched_forced_h1_uses_h3 :
    routeUnpatched ⟨some .h1, true, false, false, false, [.http11, .h2]⟩ ⟨.https, false⟩
      ⟨[.h2, .http11], true, true, true, false, .fail, false, true, true⟩ = .ok .h3 := by decide

theorem unpatched_forced_h2_uses_h3 :
    routeUnpatched ⟨some .h2, true, false, false, false, [.http11, .h2]⟩ ⟨.https, false⟩
      ⟨[.h2, .http11], true, true, true, false, .fail, true, true, true⟩ = .ok .h3 := by decide

/-- Witness (class `altsvc-breaks-plain-http`): a plain request with an Alt-Svc entry for its
authority fails ("http3: unsupported protocol scheme") instead of using HTTP/1.1. -/
theorem unpatched_plain_http_fails :
    routeUnpatched ⟨none, true, false, false, false, [.http11, .h2]⟩ ⟨.http, false⟩
      ⟨[], true, true, true, false, .fail, false, false, true⟩ = .error .unsupportedScheme := by decide

/-- Away from Alt-Svc entries the two orders agree. -/
theorem unpatched_agrees_without_alt (cfg : Cfg) (req : Req) (net : Net) (h : net.alt = false) :
    routeUnpatched cfg req net = route cfg req net := by
  unfold routeUnpatched route
  simp [h]

/-! ## TLS configuration source -/

/-- What verification looks at in the configuration a stack builds. -/
def verifyPart (c : TlsCfg) : VerifyCfg := c.toVerifyCfg

theorem effective_verify (s : Stack) (o : Bool) (host : Nat) (r : Option TlsCfg) :
    verifyPart (effective s o host r) = verifyPart (effective .h1 false host r) := by
  cases r <;> cases s <;> simp [effective, verifyPart]

/-- **TLS settings govern every stack identically.** If every stack's `TLSClientConfig` read
sites resolve to the shared options (premise discharged over the regenerated table in
`Bridge/C12.lean`), then for every verifier, every server certificate, every client
configuration, whatever the stacks' own fields hold: the three stacks decide alike. -/
theorem tls_uniform (sites : List Site) (h : ∀ s, source sites s = .clientOptions)
    (accepts : VerifyCfg → ServerCert → Bool) (client : Option TlsCfg) (own : Stack → Option TlsCfg)
    (host : Nat) (o1 o2 o3 : Bool) (cert : ServerCert) :
    accepts (verifyPart (effective .h1 o1 host (cfgRead sites client own .h1))) cert
      = accepts (verifyPart (effective .h2 o2 host (cfgRead sites client own .h2))) cert
    ∧ accepts (verifyPart (effective .h2 o2 host (cfgRead sites client own .h2))) cert
      = accepts (verifyPart (effective .h3 o3 host (cfgRead sites client own .h3))) cert := by
  simp only [cfgRead, h]
  rw [effective_verify .h1, effective_verify .h2, effective_verify .h3]
  exact ⟨rfl, rfl⟩

/-- The configuration in force is the client's: what each stack verifies with is what the
setters produced, with `ServerName` defaulting to the dialled host. -/
theorem tls_governed_by_client (sites : List Site) (h : ∀ s, source sites s = .clientOptions)
    (client : Option TlsCfg) (own : Stack → Option TlsCfg) (host : Nat) (o : Bool) (s : Stack) (c : TlsCfg)
    (hc : client = some c) :
    verifyPart (effective s o host (cfgRead sites client own s))
      = { c.toVerifyCfg with serverName := if c.serverName = 0 then host else c.serverName } := by
  simp only [cfgRead, h, hc]
  cases s <;> simp [effective, verifyPart]

/-- Non-vacuity / necessity: with a stack-local source (the un-patched HTTP/3 dial site) the
stacks do disagree — `EnableInsecureSkipVerify` is honoured by HTTP/1.1 and ignored by HTTP/3. -/
theorem shadowed_source_disagrees :
    let sites : List Site := [⟨.root, .tlsClientConfig, .sharedOptions, false⟩,
      ⟨.http2, .tlsClientConfig, .sharedOptions, false⟩, ⟨.http3, .tlsClientConfig, .stackLocal, false⟩]
    let client : Option TlsCfg := some { initialCfg with insecure := true }
    let cert : ServerCert := ⟨7, [1]⟩
    acceptsStd (verifyPart (effective .h1 false 1 (cfgRead sites client (fun _ => none) .h1))) cert = true
    ∧ acceptsStd (verifyPart (effective .h3 false 1 (cfgRead sites client (fun _ => none) .h3))) cert = false := by
  decide

example : ∀ s, source [⟨.root, .tlsClientConfig, .sharedOptions, false⟩,
    ⟨.http2, .tlsClientConfig, .sharedOptions, false⟩, ⟨.http3, .tlsClientConfig, .sharedOptions, false⟩] s
    = .clientOptions := by intro s; cases s <;> decide

/-- The premise of `tls_uniform` as a decidable check over a table. -/
theorem uniformSource_iff (sites : List Site) :
    uniformSource sites = true ↔ ∀ s, source sites s = .clientOptions := by
  unfold uniformSource
  constructor
  · intro h s
    simp at h
    cases s
    · exact h.1
    · exact h.2.1
    · exact h.2.2
  · intro h
    simp [h]

/-- A later setter is what the next new connection of every stack reads: requests made in
between (`use`) do not matter. -/
theorem set_after_use (c : Option TlsCfg) (ops : List Op) :
    run c ops = run c (ops.filter (· ≠ .use)) := by
  induction ops generalizing c with
  | nil => rfl
  | cons o os ih =>
    by_cases h : o = .use
    · subst h; simp [run, List.foldl, step] at *; exact ih c
    · simp [run, List.filter, h, List.foldl] at *; exact ih (step c o)

example : run (some initialCfg) [.addRoot 1, .use, .insecure true, .use, .setServerName 2]
    = some { initialCfg with roots := some [1], insecure := true, serverName := 2 } := by decide

/-- `Clone` copies the values (the clone starts from the same settings). -/
theorem clone_same_settings (c : Option TlsCfg) : step c .clone = c := rfl

/-- **Clone keeps the source.** When the construction sites in `Transport.Clone` and
`EnableHTTP3` hand each rebuilt stack the address of the clone's own options (regenerated
wiring facts), every stack of the clone reads the clone's options object — so a setter on
the clone governs all its stacks and none of the original's. -/
theorem clone_keeps_source (facts : List WireSite)
    (h2 : wireOK facts .clone .h2 = true)
    (h3 : (wireOK facts .clone .h3 && wireOK facts .enableHTTP3 .h3) = true)
    (w : Wiring) (fresh : Nat) :
    (cloneWiring facts w fresh).wired
    ∧ ∀ s o, (cloneWiring facts w fresh).optsOf s = some o → o = fresh := by
  unfold cloneWiring Wiring.wired
  simp [h2, h3]
  refine ⟨?_, ?_⟩
  · cases w.t3 <;> simp
  · intro s o
    cases s <;> simp [Wiring.optsOf]
    · intro h; exact h.symm
    · intro h; exact h.symm
    · cases w.t3 <;> simp
      intro h; exact h.symm

theorem clone_isolated_from_original (facts : List WireSite)
    (h2 : wireOK facts .clone .h2 = true)
    (h3 : (wireOK facts .clone .h3 && wireOK facts .enableHTTP3 .h3) = true)
    (w : Wiring) (hw : w.wired) (fresh : Nat) (hfresh : fresh ≠ w.own) (s s' : Stack) (o o' : Nat)
    (ho : (cloneWiring facts w fresh).optsOf s = some o) (ho' : w.optsOf s' = some o') : o ≠ o' := by
  have hc := (clone_keeps_source facts h2 h3 w fresh).2 s o ho
  have : o' = w.own := by
    cases s' <;> simp [Wiring.optsOf] at ho'
    · exact ho'.symm
    · rw [← ho']; exact hw.1
    · rcases hw.2 with h | h <;> simp [h] at ho'; exact ho'.symm
  subst hc this
  exact hfresh

/-- Necessity: a `Clone` that takes the address of the ORIGINAL's options (`&t.Options` for
`&tt.Options`) leaves the clone's HTTP/2 stack reading the original's settings. -/
theorem miswired_clone_reads_original :
    (cloneWiring [⟨.clone, .h2, false⟩, ⟨.clone, .h3, true⟩, ⟨.enableHTTP3, .h3, true⟩] ⟨10, 10, some 10⟩ 20).optsOf .h2 = some 10 := by
  decide

end Req.Props.C12
