/-! C12 — property theorems (none yet). -/
