import Req.Client.DigestAuth
import Req.Client.Rfc7616
import Req.Lemmas.C20Quote
import Req.Lemmas.C20Select
import Req.Lemmas.C20Meaning
import Req.Lemmas.C20MeaningErr
/-!
C20 — digest authentication, property theorems about the REPAIRED code (`Req.DigestAuth`,
fixes/C20-5): part 1, from a parsed challenge to the verdict of the verifier, and the middleware.
-/
namespace Req.Props.C20
open Req.Proto Req.DigestAuth Req.Rfc7616 Req.Ascii
open Req.Digest hiding authorize handle exchange parseChallenge Resp

/-- The server's record of a challenge that the client read as `c`: the same realm, nonce,
opaque, algorithm token, the qop OPTIONS it listed, the userhash flag. -/
def issuedOfC (c : Challenge) : Issued :=
  { realm := c.realm, nonce := c.nonce,
    opaq := if c.opaq.isEmpty then none else some c.opaq,
    algorithm := if c.algorithm.isEmpty then none else some c.algorithm,
    qops := qopOptions c.qop,
    userhash := c.userhash == b!"true" }

/-- Everything the header carries inside a quoted-string can be carried by a field value at all
(no control byte except HTAB). Quotes and backslashes are fine. -/
structure Sendable (c : Challenge) (user uri : Bytes) : Prop where
  user : c.userhash = b!"true" ∨ user.all isText = true
  realm : c.realm.all isText = true
  nonce : c.nonce.all isText = true
  uri : uri.all isText = true
  opaq : c.opaq.all isText = true

theorem colons_eq_colonJoinR : ∀ l : List Bytes, colons l = colonJoin l
  | [] => rfl
  | [_] => rfl
  | x :: y :: r => by
    have := colons_eq_colonJoinR (y :: r)
    simp only [colons, colonJoin, this, List.append_assoc, List.singleton_append]

theorem isText_of_isQd {c : UInt8} (h : isQd c = true) : isText c = true := (qd_text h).1

theorem all_text_of_qd {s : Bytes} (h : s.all isQd = true) : s.all isText = true := by
  rw [List.all_eq_true] at h ⊢
  intro x hx
  exact isText_of_isQd (h x hx)

/-- **digest_accepted**: for EVERY hash function, challenge as the client read it, account,
method, request target and entropy: what `authorize` produces is accepted by the independent
RFC 7616 verifier that holds the same challenge — quotes, backslashes, commas, spaces and
non-ASCII bytes in the user name, realm, nonce, target and opaque included; a qop LIST is
answered with `auth`. The only hypothesis on the strings is that a header field can carry them
at all (`Sendable`: no control bytes; otherwise the transport refuses the request, see
`unsendable_refused`). -/
theorem digest_accepted (H : Alg → Bytes → Bytes) (hH : ∀ a x, (H a x).all isText = true)
    (c : Challenge) (user pass method uri body : Bytes) (rnd : Option Bytes) (hdr : Bytes)
    (hx : Sendable c user uri)
    (ha : authorize H algOf c { user, pass, method, uri } rnd = .ok hdr) :
    verify H specAlg { issued := issuedOfC c, method, uri, user, pass, body } hdr = true := by
  unfold authorize at ha
  split at ha
  · cases ha
  · rename_i qop hsel
    obtain ⟨⟨alg0, halg0⟩, hq⟩ := selectQop_ok hsel
    split at ha
    · cases ha
    · cases ha
    · rename_i alg r halg
      simp only [Except.ok.injEq] at ha
      subst ha
      have hspec := algOf_spec halg
      have halg' : c.algorithm = [] ∨ (c.algorithm ≠ [] ∧ c.algorithm.all isTokenByte = true) := by
        rcases hspec with ⟨e, _, _⟩ | ⟨e1, e2, _⟩
        · exact Or.inl e
        · exact Or.inr ⟨e1, e2⟩
      have hcn : ((hex r).take 32).all isText = true := all_text_of_qd (all_take 32 (hex_all_qd r))
      have hnc1 : hex8 (0 + 1) = b!"00000001" := hex8_one
      have hncok : hex8 (0 + 1) ≠ [] ∧ (hex8 (0 + 1)).all isTokenByte = true := by
        rw [hnc1]; decide
      have hqop' : qop = [] ∨ qop = b!"auth" := by
        rcases hq with ⟨e, _, _⟩ | ⟨e, _, _⟩
        · exact Or.inl e
        · exact Or.inr e
      have hok := params_okT (H alg) { c with qop := qop } { user, pass, method, uri } (hex8 (0 + 1))
        ((hex r).take 32) (hH alg) hx.user hx.realm hx.nonce hx.uri hx.opaq halg' hqop' hncok hcn
      have hpc := parseCredentials_renderParams _ (params_ne_nil (H alg) { c with qop := qop }
        { user, pass, method, uri } (hex8 (0 + 1)) ((hex r).take 32)) hok
      unfold verify
      simp only [hpc]
      have hpairs : (List.map (fun p => (p.name, p.value))
          (params (H alg) { c with qop := qop } { user, pass, method, uri } (hex8 (0 + 1)) ((hex r).take 32))) =
          pairs (params (H alg) { c with qop := qop } { user, pass, method, uri } (hex8 (0 + 1)) ((hex r).take 32)) := rfl
      rw [hpairs]
      simp only [names_distinct, get_username, get_realm, get_nonce, get_uri, get_response,
        get_opaque, get_algorithm, get_userhash, get_qop, get_nc, get_cnonce, Bool.true_and]
      have hsa : specAlg (effAlg (issuedOfC c).algorithm) = some (alg, isSess c.algorithm) := by
        rcases hspec with ⟨e, ea, es⟩ | ⟨e1, _, e3⟩
        · simp only [issuedOfC, e, ea, List.isEmpty_nil, if_true, effAlg]; rfl
        · have hne : c.algorithm.isEmpty = false := by
            cases hc : c.algorithm with
            | nil => exact absurd hc e1
            | cons _ _ => rfl
          simp only [issuedOfC, hne, Bool.false_eq_true, if_false, e3, effAlg]
      simp only [hsa, beq_self_eq_true, colons_eq_colonJoinR]
      rcases hq with ⟨hq1, hq2, hs⟩ | ⟨hq1, hq2, hcont⟩
      · subst hq1
        have hqo : qopOptions c.qop = [] := by rw [hq2]; rfl
        by_cases huh : (c.userhash == b!"true") = true <;>
          simp [hs, huh, response, issuedOf, issuedOfC, hqo]
      · subst hq1
        have hmem : (b!"auth" : Bytes) ∈ qopOptions c.qop := by simpa using hcont
        by_cases huh : (c.userhash == b!"true") = true <;>
          cases hs : isSess c.algorithm <;>
          simp [hs, huh, response, issuedOf, issuedOfC, hnc1, hmem]

/-- … and such a header IS a legal field value (the transport will not refuse it). -/
theorem sendable_header_text (H : Alg → Bytes → Bytes) (hH : ∀ a x, (H a x).all isText = true)
    (c : Challenge) (user pass method uri : Bytes) (rnd : Option Bytes) (hdr : Bytes)
    (hx : Sendable c user uri)
    (ha : authorize H algOf c { user, pass, method, uri } rnd = .ok hdr) : hdr.all isText = true := by
  unfold authorize at ha
  split at ha
  · cases ha
  · rename_i qop hsel
    obtain ⟨_, hq⟩ := selectQop_ok hsel
    split at ha
    · cases ha
    · cases ha
    · rename_i alg r halg
      simp only [Except.ok.injEq] at ha
      subst ha
      have hspec := algOf_spec halg
      have halg' : c.algorithm = [] ∨ (c.algorithm ≠ [] ∧ c.algorithm.all isTokenByte = true) := by
        rcases hspec with ⟨e, _, _⟩ | ⟨e1, e2, _⟩
        · exact Or.inl e
        · exact Or.inr ⟨e1, e2⟩
      have hcn : ((hex r).take 32).all isText = true := all_text_of_qd (all_take 32 (hex_all_qd r))
      have hnc1 : hex8 (0 + 1) = b!"00000001" := hex8_one
      have hncok : hex8 (0 + 1) ≠ [] ∧ (hex8 (0 + 1)).all isTokenByte = true := by
        rw [hnc1]; decide
      have hqop' : qop = [] ∨ qop = b!"auth" := by
        rcases hq with ⟨e, _, _⟩ | ⟨e, _, _⟩
        · exact Or.inl e
        · exact Or.inr e
      exact header_text _ (params_okT (H alg) { c with qop := qop } { user, pass, method, uri } (hex8 (0 + 1))
        ((hex r).take 32) (hH alg) hx.user hx.realm hx.nonce hx.uri hx.opaq halg' hqop' hncok hcn)

/-- **answer_shape**: whatever the challenge offers, the answer is written from the parameter
list `params` with the qop option `auth` or none at all — never `auth-int`, never a list (so no
hash of a body is ever claimed) — and with the nonce count of a FIRST use. -/
theorem answer_shape (H : Alg → Bytes → Bytes) (c : Challenge) (cr : Cred) (rnd : Option Bytes) (hdr : Bytes)
    (ha : authorize H algOf c cr rnd = .ok hdr) :
    ∃ alg qop r, algOf c.algorithm = some alg ∧ rnd = some r ∧ (qop = [] ∨ qop = b!"auth") ∧
      hdr = digestPrefix ++ commaJoin ((params (H alg) { c with qop := qop } cr (hex8 (cr.nc + 1))
        ((hex r).take 32)).map renderParam) := by
  unfold authorize at ha
  split at ha
  · cases ha
  · rename_i qop hsel
    obtain ⟨_, hq⟩ := selectQop_ok hsel
    split at ha
    · cases ha
    · cases ha
    · rename_i alg r halg
      simp only [Except.ok.injEq] at ha
      refine ⟨alg, qop, r, halg, rfl, ?_, ha.symm⟩
      rcases hq with ⟨e, _, _⟩ | ⟨e, _, _⟩
      · exact Or.inl e
      · exact Or.inr e

/-- **nonce_count_is_one**: the middleware keeps no nonce: every answer it ever sends carries
`nc=00000001` (when it carries one). A server nonce is never used twice by the client itself;
each new request costs a 401 round (the statelessness is what lane `seq` exercises). -/
theorem nonce_count_is_one (H : Alg → Bytes → Bytes) (lines : List Bytes) (user pass method uri : Bytes)
    (rnd : Option Bytes) (hdr : Bytes)
    (ha : createDigestAuth H algOf lines { user, pass, method, uri } rnd = .ok hdr) :
    ∃ (alg : Alg) (c : Challenge) (qop r : Bytes), (qop = [] ∨ qop = b!"auth") ∧
      hdr = digestPrefix ++ commaJoin ((params (H alg) { c with qop := qop } { user, pass, method, uri }
        b!"00000001" ((hex r).take 32)).map renderParam) := by
  unfold createDigestAuth at ha
  simp only at ha
  split at ha
  · cases ha
  · split at ha
    · cases ha
    · rename_i c _
      obtain ⟨alg, qop, r, _, _, hq, hh⟩ := answer_shape H c _ rnd hdr ha
      have h1 : hex8 (0 + 1) = b!"00000001" := hex8_one
      have h2 : ({ user := user, pass := pass, method := method, uri := uri } : Cred).nc = 0 := rfl
      exact ⟨alg, c, qop, r, hq, by rw [hh, h2, h1]⟩

/-! ### unsupported challenges, entropy, qop selection -/

/-- A challenge the client can answer: registered algorithm, no qop or a qop list offering
`auth`, and not the unanswerable combination "-sess without qop". -/
def Supported (c : Challenge) : Prop :=
  (algOf c.algorithm).isSome = true ∧
  (c.qop = [] ∨ (qopOptions c.qop).contains b!"auth" = true) ∧
  ¬(isSess c.algorithm = true ∧ c.qop = [])

theorem supported_iff_answerable (c : Challenge) : Supported c ↔ answerable algOf c = true := by
  rw [answerable_iff, selectQop_eq]
  constructor
  · rintro ⟨h1, h2, h3⟩
    cases ha : algOf c.algorithm with
    | none => simp [ha] at h1
    | some a =>
      simp only
      by_cases hc : (qopOptions c.qop).contains b!"auth" = true
      · exact ⟨_, by rw [if_pos hc]⟩
      · have hq : c.qop = [] := by
          rcases h2 with h2 | h2
          · exact h2
          · exact absurd h2 hc
        have hs : ¬ isSess c.algorithm = true := fun hh => h3 ⟨hh, hq⟩
        exact ⟨_, by rw [if_neg hc, if_pos hq, if_neg hs]⟩
  · rintro ⟨q, hq⟩
    cases ha : algOf c.algorithm with
    | none => rw [ha] at hq; cases hq
    | some a =>
      rw [ha] at hq
      simp only at hq
      refine ⟨by simp [ha], ?_, ?_⟩
      · by_cases hc : (qopOptions c.qop).contains b!"auth" = true
        · exact Or.inr hc
        · rw [if_neg hc] at hq
          by_cases he : c.qop = []
          · exact Or.inl he
          · rw [if_neg he] at hq; cases hq
      · rintro ⟨h1, h2⟩
        have hc : ¬ (qopOptions c.qop).contains b!"auth" = true := by rw [h2]; decide
        rw [if_neg hc, if_pos h2, if_pos h1] at hq
        cases hq

/-- **bad_challenge_errors**: an unsupported challenge (unknown algorithm, qop options without
`auth` — `auth-int` alone included —, `-sess` without qop) yields an ERROR for every hash,
account, method, URI and entropy — never a header. -/
theorem bad_challenge_errors (H : Alg → Bytes → Bytes) (c : Challenge) (cr : Cred) (rnd : Option Bytes)
    (h : ¬Supported c) : ∃ e, authorize H algOf c cr rnd = .error e := by
  rw [supported_iff_answerable, answerable_iff] at h
  unfold authorize
  cases hs : selectQop algOf c.algorithm c.qop with
  | ok q => exact absurd ⟨q, hs⟩ h
  | error e => exact ⟨e, rfl⟩

/-- … and which error. -/
theorem bad_challenge_kinds (H : Alg → Bytes → Bytes) (c : Challenge) (cr : Cred) (rnd : Option Bytes) :
    (algOf c.algorithm = none → authorize H algOf c cr rnd = .error .algNotSupported) ∧
    (∀ e, selectQop algOf c.algorithm c.qop = .error e → authorize H algOf c cr rnd = .error e ∧
      (e = .algNotSupported ∨ e = .qopNotSupported)) := by
  refine ⟨?_, ?_⟩
  · intro h
    have := (selectQop_error_kinds algOf c.algorithm c.qop).1 h
    simp [authorize, this]
  · intro e he
    exact ⟨by simp [authorize, he], (selectQop_error_kinds algOf c.algorithm c.qop).2 e he⟩

/-- `auth-int` alone is refused (it is not implemented): no body hash is ever computed, so the
client cannot "hash one thing and send another". -/
theorem auth_int_only_refused (H : Alg → Bytes → Bytes) (c : Challenge) (cr : Cred) (rnd : Option Bytes)
    (ha : (algOf c.algorithm).isSome = true) (hq : c.qop = b!"auth-int") :
    authorize H algOf c cr rnd = .error .qopNotSupported := by
  cases halg : algOf c.algorithm with
  | none => simp [halg] at ha
  | some a =>
    have : selectQop algOf c.algorithm c.qop = .error .qopNotSupported := by
      rw [selectQop_eq, halg, hq]
      rfl
    simp [authorize, this]

/-- Conversely a supported challenge IS answered whenever entropy is available. -/
theorem supported_answered (H : Alg → Bytes → Bytes) (c : Challenge) (cr : Cred) (r : Bytes)
    (h : Supported c) : ∃ hdr, authorize H algOf c cr (some r) = .ok hdr := by
  obtain ⟨q, hq⟩ := (answerable_iff algOf c).mp ((supported_iff_answerable c).mp h)
  obtain ⟨⟨alg, halg⟩, _⟩ := selectQop_ok hq
  refine ⟨digestPrefix ++ commaJoin ((params (H alg) { c with qop := q } cr (hex8 (cr.nc + 1))
    ((hex r).take 32)).map renderParam), ?_⟩
  simp only [authorize, hq, halg]

/-- The entropy source failing is an error as well. -/
theorem no_entropy_errors (H : Alg → Bytes → Bytes) (c : Challenge) (cr : Cred) :
    ∃ e, authorize H algOf c cr none = .error e := by
  unfold authorize
  cases hs : selectQop algOf c.algorithm c.qop with
  | error e => exact ⟨e, rfl⟩
  | ok q =>
    cases halg : algOf c.algorithm with
    | none => exact ⟨_, rfl⟩
    | some a => exact ⟨_, rfl⟩

/-- `domain` and `stale` are read and not used: `stale=true` is answered like any other
challenge (with the new nonce, without asking anybody), exactly once. -/
theorem stale_domain_ignored (H : Alg → Bytes → Bytes) (c : Challenge) (cr : Cred) (rnd : Option Bytes)
    (d s : Bytes) :
    authorize H algOf { c with domain := d, stale := s } cr rnd = authorize H algOf c cr rnd := by
  unfold authorize
  simp only
  cases selectQop algOf c.algorithm c.qop with
  | error e => rfl
  | ok q => rfl

/-! ### the middleware -/

/-- **non401_untouched**: any response that is not a 401 (or carries a transport error) is
left exactly as it is: no challenge is parsed, nothing is sent. -/
theorem non401_untouched (H : Alg → Bytes → Bytes) (user pass method uri : Bytes) (body : Body)
    (rnd : Option Bytes) (resp : DigestAuth.Resp) (h : resp.err = true ∨ resp.status ≠ 401) :
    handle H algOf user pass method uri body rnd resp = .untouched := by
  unfold handle
  rcases h with h | h
  · simp [h]
  · simp [h]

/-- in particular a 407 with `Proxy-Authenticate` (and even a `WWW-Authenticate` next to it) is
never answered with an `Authorization` header -/
theorem proxy_407_untouched (H : Alg → Bytes → Bytes) (user pass method uri : Bytes) (body : Body)
    (rnd : Option Bytes) (www : List Bytes) :
    handle H algOf user pass method uri body rnd { err := false, status := 407, wwwAuth := www } = .untouched :=
  non401_untouched H user pass method uri body rnd _ (Or.inr (by simp))

theorem non401_one_request (H : Alg → Bytes → Bytes) (server : Wire → DigestAuth.Resp) (user pass method uri : Bytes)
    (body : Body) (rnd : Option Bytes)
    (h : (server { method, uri, authorization := none, body := bodyBytes body }).status ≠ 401) :
    exchange H algOf server user pass method uri body rnd =
      ([{ method, uri, authorization := none, body := bodyBytes body }], .untouched) := by
  simp only [exchange, non401_untouched H user pass method uri body rnd _ (Or.inr h)]

/-- A malformed or unanswerable challenge header (whatever `createDigestAuth` rejects, including
no header at all) is an error, not a request. -/
theorem malformed_challenge_errors (H : Alg → Bytes → Bytes) (user pass method uri : Bytes) (body : Body)
    (rnd : Option Bytes) (resp : DigestAuth.Resp) (e : Err) (h401 : resp.err = false ∧ resp.status = 401)
    (h : createDigestAuth H algOf resp.wwwAuth { user, pass, method, uri } rnd = .error e) :
    handle H algOf user pass method uri body rnd resp = .failed e := by
  unfold handle
  simp only [h401.1, h401.2, bne_self_eq_false, Bool.or_self, Bool.false_eq_true, if_false, h]

theorem no_header_errors (H : Alg → Bytes → Bytes) (cr : Cred) (rnd : Option Bytes) :
    createDigestAuth H algOf [] cr rnd = .error .badChallenge := rfl

/-- **answered_once**: whatever the origin answers (any function `server`), a call puts at most
two requests on the wire; the second exists exactly when the middleware decided to re-send, it
is the first request plus the Authorization header — same method, same request target — and
the response to it is not examined again. -/
theorem answered_once (H : Alg → Bytes → Bytes) (server : Wire → DigestAuth.Resp) (user pass method uri : Bytes)
    (body : Body) (rnd : Option Bytes) :
    let x := exchange H algOf server user pass method uri body rnd
    let first : Wire := { method, uri, authorization := none, body := bodyBytes body }
    (x.1 = [first] ∧ ∀ hdr b, x.2 ≠ .resend hdr b) ∨
    (∃ hdr b, x.2 = .resend hdr b ∧
      x.1 = [first, { method, uri, authorization := some hdr, body := b }]) := by
  simp only [exchange]
  cases ho : handle H algOf user pass method uri body rnd
      (server { method, uri, authorization := none, body := bodyBytes body }) with
  | untouched => left; exact ⟨rfl, by intro _ _ h; cases h⟩
  | failed e => left; exact ⟨rfl, by intro _ _ h; cases h⟩
  | resend hdr b => right; exact ⟨hdr, b, rfl, rfl⟩

theorem at_most_two_requests (H : Alg → Bytes → Bytes) (server : Wire → DigestAuth.Resp) (user pass method uri : Bytes)
    (body : Body) (rnd : Option Bytes) :
    (exchange H algOf server user pass method uri body rnd).1.length ≤ 2 := by
  rcases answered_once H server user pass method uri body rnd with ⟨h, _⟩ | ⟨_, _, _, h⟩ <;>
    rw [h] <;> simp

/-- **body_resent_intact**: when the request is sent again its body is the original body —
byte for byte, and a request without body stays without —, the Authorization value is the
one `createDigestAuth` computed from the field lines of the 401 and it is a legal field value. A
body that cannot be produced again (io.Reader) is never re-sent. -/
theorem body_resent_intact (H : Alg → Bytes → Bytes) (user pass method uri : Bytes) (body : Body)
    (rnd : Option Bytes) (resp : DigestAuth.Resp) (hdr : Bytes) (b : Option Bytes)
    (h : handle H algOf user pass method uri body rnd resp = .resend hdr b) :
    b = bodyBytes body ∧ (∀ s, body ≠ .stream s) ∧ resp.status = 401 ∧ resp.err = false ∧
    createDigestAuth H algOf resp.wwwAuth { user, pass, method, uri } rnd = .ok hdr ∧
    hdr.all isText = true := by
  unfold handle at h
  split at h
  · cases h
  · rename_i h401
    have h401' : resp.err = false ∧ resp.status = 401 := by
      simp only [Bool.or_eq_true, bne_iff_ne, ne_eq, not_or, Bool.not_eq_true, Decidable.not_not] at h401
      exact h401
    split at h
    · cases h
    · rename_i hdr' hc
      cases body with
      | none =>
        simp only at h
        split at h
        · rename_i hall
          simp only [Outcome.resend.injEq] at h
          exact ⟨h.2.symm, (by intro s e; cases e), h401'.2, h401'.1, h.1 ▸ hc, h.1 ▸ hall⟩
        · cases h
      | replayable bb =>
        simp only at h
        split at h
        · rename_i hall
          simp only [Outcome.resend.injEq] at h
          exact ⟨h.2.symm, (by intro s e; cases e), h401'.2, h401'.1, h.1 ▸ hc, h.1 ▸ hall⟩
        · cases h
      | stream _ => cases h
      | setupFails => cases h

/-- A value no header field can carry (a control byte — CR, LF, NUL … — in the user name when it
is not hashed, or in the realm, nonce, target, opaque) makes the call FAIL: the transport refuses
the request, nothing is sent, in particular nothing is injected. -/
theorem unsendable_refused (H : Alg → Bytes → Bytes) (user pass method uri : Bytes) (b : Option Bytes)
    (rnd : Option Bytes) (resp : DigestAuth.Resp) (hdr : Bytes) (h401 : resp.err = false ∧ resp.status = 401)
    (hc : createDigestAuth H algOf resp.wwwAuth { user, pass, method, uri } rnd = .ok hdr)
    (hbad : hdr.all isText = false) :
    handle H algOf user pass method uri (match b with | none => .none | some x => .replayable x) rnd resp =
      .failed .invalidHeader := by
  unfold handle
  simp only [h401.1, h401.2, bne_self_eq_false, Bool.or_self, Bool.false_eq_true, if_false, hc]
  have hb : hdr.all isFieldByte = false := hbad
  cases b <;> simp [hb]

/-! ### the challenge as written by the server: parse_faithful and the end-to-end form -/

/-- **parse_faithful**: `parseChallenge` reads EVERY `WWW-Authenticate` value that is written
according to RFC 7235 section 4.1 — any number of challenges of any schemes, each `scheme`,
`scheme 1*SP token68` or `scheme 1*SP auth-param *( OWS "," OWS auth-param )`, parameters as
`token BWS "=" BWS ( token / quoted-string )` with any quoted-pairs, commas and `=` inside
quoted-strings, any SP/HTAB around the commas, empty list elements, scheme and parameter names in
any case (`Elem`, `ElemW`, `ParamW`, `ValW` in `lean/Req/Lemmas/C20Tok.lean`) — as what it MEANS
(`meaning`: the list of challenges with their parameters; a parameter name occurs once per
challenge, a Digest challenge has no token68 and no charset other than UTF-8): the answer is the
first Digest challenge of the meaning that can be answered (RFC 7616 section 3.7), else the error
`pick` assigns. -/
theorem parse_faithful (xs : List Elem) (hne : xs ≠ []) (hok : ∀ x ∈ xs, x.OK) (chs : List SChal)
    (hm : meaning (xs.map (·.e)) = some chs) :
    parseChallenge algOf (commaCat (xs.map Elem.render)) = pick algOf (chs.filterMap digestOf) := by
  rw [parseChallenge_render algOf xs hne hok]
  obtain ⟨st, hs, hr⟩ := absElems_meaning _ chs hm
  simp only [hs, hr]

/-- … and the same for a response with SEVERAL `WWW-Authenticate` field lines (joined with
`", "` by `createDigestAuth`): the meaning is that of all elements of all lines in order. -/
theorem parse_faithful_lines (ls : List (List Elem)) (hne : ls ≠ []) (hl : ∀ l ∈ ls, l ≠ [])
    (hok : ∀ l ∈ ls, ∀ x ∈ l, x.OK) (chs : List SChal)
    (hm : meaning (ls.flatten.map (·.e)) = some chs) :
    parseChallenge algOf (commaJoin (ls.map lineRender)) = pick algOf (chs.filterMap digestOf) := by
  rw [commaJoin_lines ls hne hl]
  apply parse_faithful _ (joinLines_ne_nil ls hne hl) (joinLines_ok ls hok)
  rw [joinLines_e]
  exact hm

/-- The parameter list of a Digest challenge says what the server means: realm and nonce are
there, opaque and algorithm are there iff issued (and not empty), `qop` lists the offered
options (comma separated, optional white space), userhash is `true` iff the server supports it.
Every other parameter (domain, stale, charset, extensions) is free. -/
structure Describes (ps : List (Bytes × Bytes)) (sc : Issued) : Prop where
  realm : lastVal ps b!"realm" = some sc.realm
  nonce : lastVal ps b!"nonce" = some sc.nonce
  opaq : lastVal ps b!"opaque" = sc.opaq
  opaqNe : sc.opaq ≠ some []
  algorithm : lastVal ps b!"algorithm" = sc.algorithm
  algorithmNe : sc.algorithm ≠ some []
  qop : sc.qops = match lastVal ps b!"qop" with
        | none => []
        | some q => qopOptions q
  userhash : sc.userhash = (lastVal ps b!"userhash" == some b!"true")

theorem issuedOfC_challengeOfParams (ps : List (Bytes × Bytes)) (sc : Issued) (h : Describes ps sc) :
    issuedOfC (challengeOfParams ps) = sc := by
  have fr := field_foldl_pairs b!"realm" (by decide) ps {}
  have fn := field_foldl_pairs b!"nonce" (by decide) ps {}
  have fo := field_foldl_pairs b!"opaque" (by decide) ps {}
  have fa := field_foldl_pairs b!"algorithm" (by decide) ps {}
  have fq := field_foldl_pairs b!"qop" (by decide) ps {}
  have fu := field_foldl_pairs b!"userhash" (by decide) ps {}
  have er : (challengeOfParams ps).realm = sc.realm := by
    have : (challengeOfParams ps).realm = field b!"realm" (challengeOfParams ps) := rfl
    rw [this]; unfold challengeOfParams; rw [fr, h.realm]
  have en : (challengeOfParams ps).nonce = sc.nonce := by
    have : (challengeOfParams ps).nonce = field b!"nonce" (challengeOfParams ps) := rfl
    rw [this]; unfold challengeOfParams; rw [fn, h.nonce]
  have eo : (if (challengeOfParams ps).opaq.isEmpty then none else some (challengeOfParams ps).opaq) = sc.opaq := by
    have : (challengeOfParams ps).opaq = field b!"opaque" (challengeOfParams ps) := rfl
    rw [this]; unfold challengeOfParams; rw [fo, h.opaq]
    cases ho : sc.opaq with
    | none => rfl
    | some v =>
      have : v ≠ [] := fun e => h.opaqNe (by rw [ho, e])
      cases v with
      | nil => exact absurd rfl this
      | cons _ _ => rfl
  have ea : (if (challengeOfParams ps).algorithm.isEmpty then none else some (challengeOfParams ps).algorithm) =
      sc.algorithm := by
    have : (challengeOfParams ps).algorithm = field b!"algorithm" (challengeOfParams ps) := rfl
    rw [this]; unfold challengeOfParams; rw [fa, h.algorithm]
    cases ho : sc.algorithm with
    | none => rfl
    | some v =>
      have : v ≠ [] := fun e => h.algorithmNe (by rw [ho, e])
      cases v with
      | nil => exact absurd rfl this
      | cons _ _ => rfl
  have eq : qopOptions (challengeOfParams ps).qop = sc.qops := by
    have : (challengeOfParams ps).qop = field b!"qop" (challengeOfParams ps) := rfl
    rw [this]; unfold challengeOfParams; rw [fq, h.qop]
    cases hl : lastVal ps b!"qop" with
    | none => rfl
    | some q => rfl
  have eu : ((challengeOfParams ps).userhash == b!"true") = sc.userhash := by
    have : (challengeOfParams ps).userhash = field b!"userhash" (challengeOfParams ps) := rfl
    rw [this]; unfold challengeOfParams; rw [fu, h.userhash]
    cases hl : lastVal ps b!"userhash" with
    | none => rfl
    | some v => simp
  unfold issuedOfC
  rw [er, en, eo, ea, eq, eu]

/-- a header that is a legal field value was made from values a field can carry -/
theorem sendable_of_header (H : Alg → Bytes → Bytes) (c : Challenge) (user pass method uri : Bytes)
    (rnd : Option Bytes) (hdr : Bytes)
    (ha : authorize H algOf c { user, pass, method, uri } rnd = .ok hdr) (hall : hdr.all isText = true) :
    Sendable c user uri := by
  unfold authorize at ha
  split at ha
  · cases ha
  · rename_i qop hsel
    split at ha
    · cases ha
    · cases ha
    · rename_i alg r halg
      simp only [Except.ok.injEq] at ha
      subst ha
      have hq := quoted_values_of_header _ hall
      refine ⟨?_, ?_, ?_, ?_, ?_⟩
      · by_cases huh : (c.userhash == b!"true") = true
        · exact Or.inl (eq_of_beq huh)
        · right
          have := hq ⟨b!"username", user, true⟩ (by simp [params, huh]) rfl
          exact this
      · exact hq ⟨b!"realm", c.realm, true⟩ (by simp [params]) rfl
      · exact hq ⟨b!"nonce", c.nonce, true⟩ (by simp [params]) rfl
      · exact hq ⟨b!"uri", uri, true⟩ (by simp [params]) rfl
      · cases ho : c.opaq with
        | nil => rfl
        | cons o os =>
          have := hq ⟨b!"opaque", c.opaq, true⟩ (by simp [params, ho]) rfl
          rw [ho] at this
          exact this

/-- **digest_accepted_wire** — the END-TO-END form, with no exclusions. The verifier holds what
the SERVER issued: for every hash function, every response with any number of
`WWW-Authenticate` lines written in any way RFC 7235 allows (`Elem.OK`), every meaning of them
(`meaning`), account, method, target and entropy: IF the middleware re-sends at all, then the
challenge it answered is the FIRST Digest challenge of the response that can be answered, and the
Authorization value is accepted by the RFC 7616 verifier holding what the parameters of THAT
challenge describe (`Describes`). -/
theorem digest_accepted_wire (H : Alg → Bytes → Bytes) (hH : ∀ a x, (H a x).all isText = true)
    (ls : List (List Elem)) (hne : ls ≠ []) (hl : ∀ l ∈ ls, l ≠ []) (hok : ∀ l ∈ ls, ∀ x ∈ l, x.OK)
    (chs : List SChal) (hm : meaning (ls.flatten.map (·.e)) = some chs)
    (user pass method uri body : Bytes) (rnd : Option Bytes) (hdr : Bytes)
    (ha : handle H algOf user pass method uri .none rnd
      { err := false, status := 401, wwwAuth := ls.map lineRender } = .resend hdr none) :
    ∃ ch ∈ chs, isDigest ch.scheme = true ∧
      (chs.filterMap digestOf).find? (answerable algOf) = some (challengeOfParams ch.params) ∧
      ∀ sc, Describes ch.params sc →
        verify H specAlg { issued := sc, method, uri, user, pass, body } hdr = true := by
  obtain ⟨_, _, _, _, hc, hall⟩ := body_resent_intact H user pass method uri .none rnd _ hdr none ha
  unfold createDigestAuth at hc
  simp only at hc
  split at hc
  · cases hc
  · rw [parse_faithful_lines ls hne hl hok chs hm] at hc
    cases hp : pick algOf (chs.filterMap digestOf) with
    | error e => rw [hp] at hc; cases hc
    | ok c =>
      rw [hp] at hc
      simp only at hc
      have hfind := pick_ok hp
      have hmem : c ∈ chs.filterMap digestOf := List.mem_of_find?_eq_some hfind
      simp only [List.mem_filterMap] at hmem
      obtain ⟨ch, hch, hd⟩ := hmem
      unfold digestOf at hd
      split at hd
      · rename_i hdig
        simp only [Option.some.injEq] at hd
        subst hd
        refine ⟨ch, hch, hdig, hfind, ?_⟩
        intro sc hdesc
        have hs := sendable_of_header H _ user pass method uri rnd hdr hc hall
        have := digest_accepted H hH _ user pass method uri body rnd hdr hs hc
        rw [issuedOfC_challengeOfParams ch.params sc hdesc] at this
        exact this
      · cases hd

/-- A response whose Digest challenges cannot be answered (or that has none) is never answered:
the outcome is an error. -/
theorem unanswerable_errors (H : Alg → Bytes → Bytes)
    (ls : List (List Elem)) (hne : ls ≠ []) (hl : ∀ l ∈ ls, l ≠ []) (hok : ∀ l ∈ ls, ∀ x ∈ l, x.OK)
    (chs : List SChal) (hm : meaning (ls.flatten.map (·.e)) = some chs)
    (hnone : (chs.filterMap digestOf).find? (answerable algOf) = none)
    (user pass method uri : Bytes) (body : Body) (rnd : Option Bytes) :
    ∃ e, handle H algOf user pass method uri body rnd
      { err := false, status := 401, wwwAuth := ls.map lineRender } = .failed e := by
  obtain ⟨e, he⟩ := pick_none (algOf' := algOf) hnone
  have : ∃ e', createDigestAuth H algOf (ls.map lineRender) { user, pass, method, uri } rnd = .error e' := by
    unfold createDigestAuth
    simp only
    split
    · exact ⟨_, rfl⟩
    · rw [parse_faithful_lines ls hne hl hok chs hm, he]
      exact ⟨_, rfl⟩
  obtain ⟨e', he'⟩ := this
  exact ⟨e', malformed_challenge_errors H user pass method uri body rnd _ e' ⟨rfl, rfl⟩ he'⟩

/-- **meaningless_refused**: a response whose field lines are well written element by element but
have NO meaning as a list of challenges — a parameter before any scheme, a parameter name for the
second time in one challenge (RFC 7235 section 2.1), a token68 on a Digest challenge, a charset
other than UTF-8 on a Digest challenge — is an ERROR: a malformed challenge is never answered,
whatever else the response contains. -/
theorem meaningless_refused (H : Alg → Bytes → Bytes)
    (ls : List (List Elem)) (hne : ls ≠ []) (hl : ∀ l ∈ ls, l ≠ []) (hok : ∀ l ∈ ls, ∀ x ∈ l, x.OK)
    (hm : meaning (ls.flatten.map (·.e)) = none)
    (user pass method uri : Bytes) (body : Body) (rnd : Option Bytes) :
    ∃ e, handle H algOf user pass method uri body rnd
      { err := false, status := 401, wwwAuth := ls.map lineRender } = .failed e := by
  have : ∃ e', createDigestAuth H algOf (ls.map lineRender) { user, pass, method, uri } rnd = .error e' := by
    unfold createDigestAuth
    simp only
    split
    · exact ⟨_, rfl⟩
    · rw [commaJoin_lines ls hne hl,
        parseChallenge_render algOf _ (joinLines_ne_nil ls hne hl) (joinLines_ok ls hok), joinLines_e]
      obtain ⟨e, he⟩ := absElems_meaning_none _ hm
      rw [he]
      exact ⟨_, rfl⟩
  obtain ⟨e', he'⟩ := this
  exact ⟨e', malformed_challenge_errors H user pass method uri body rnd _ e' ⟨rfl, rfl⟩ he'⟩

/-- e.g. `Digest realm="a", nonce="n", Realm="b"` and `realm="a", Digest nonce="n"` -/
example : meaning [.schemeParam b!"Digest" b!" " ⟨b!"realm", [], [], plainQ b!"a"⟩,
      .param ⟨b!"nonce", [], [], plainQ b!"n"⟩, .param ⟨b!"Realm", [], [], plainQ b!"b"⟩] = none ∧
    meaning [.param ⟨b!"realm", [], [], plainQ b!"a"⟩,
      .schemeParam b!"Digest" b!" " ⟨b!"nonce", [], [], plainQ b!"n"⟩] = none := by
  constructor <;> rfl

/-- Conversely, when the first answerable Digest challenge exists, entropy is available and the
values can be carried by a header field, the request IS sent again (request without body). -/
theorem supported_resent (H : Alg → Bytes → Bytes)
    (ls : List (List Elem)) (hne : ls ≠ []) (hl : ∀ l ∈ ls, l ≠ []) (hok : ∀ l ∈ ls, ∀ x ∈ l, x.OK)
    (chs : List SChal) (hm : meaning (ls.flatten.map (·.e)) = some chs) (c : Challenge)
    (hfind : (chs.filterMap digestOf).find? (answerable algOf) = some c)
    (user pass method uri r : Bytes) :
    ∃ hdr, createDigestAuth H algOf (ls.map lineRender) { user, pass, method, uri } (some r) = .ok hdr ∧
      (hdr.all isText = true →
        handle H algOf user pass method uri .none (some r)
          { err := false, status := 401, wwwAuth := ls.map lineRender } = .resend hdr none) := by
  have hsup : Supported c := (supported_iff_answerable c).mpr (by
    have := List.find?_some hfind
    exact this)
  obtain ⟨hdr, hauth⟩ := supported_answered H c { user, pass, method, uri } r hsup
  have hparse := parse_faithful_lines ls hne hl hok chs hm
  rw [pick_of_find hfind] at hparse
  have hnonempty : (commaJoin (ls.map lineRender)).isEmpty = false := by
    cases hj : commaJoin (ls.map lineRender) with
    | cons _ _ => rfl
    | nil =>
      rw [hj] at hparse
      have : parseChallenge algOf [] = .error .badChallenge := rfl
      rw [this] at hparse
      cases hparse
  have hcreate : createDigestAuth H algOf (ls.map lineRender) { user, pass, method, uri } (some r) = .ok hdr := by
    unfold createDigestAuth
    simp only [hnonempty, Bool.false_eq_true, if_false, hparse, hauth]
  refine ⟨hdr, hcreate, ?_⟩
  intro hall
  have hb : hdr.all isFieldByte = true := hall
  unfold handle
  simp [hcreate, hb]

/-! ### non-vacuity: a response the as-found code could not read -/

deriving instance DecidableEq for Except

/-- a concrete hash for the examples: hex of the pre-image -/
def exH : Alg → Bytes → Bytes := fun _ x => hex x

theorem exH_text : ∀ a x, (exH a x).all isText = true := fun _ x => all_text_of_qd (hex_all_qd x)

/-- first field line: `Basic realm="x, y",Negotiate abc==` -/
def exLine1 : List Elem := [
  ⟨[], .schemeParam b!"Basic" b!" " ⟨b!"realm", [], [], plainQ b!"x, y"⟩, []⟩,
  ⟨[], .scheme68 b!"Negotiate" b!" " b!"abc==", []⟩]

/-- second field line: a Digest challenge that cannot be answered (SHA-1), an empty element, then
`digest  REALM = "a\"b, \c"` (quoted-pairs, one of them gratuitous, a comma inside),
`nonce`, a qop LIST, `-sess` algorithm, userhash, opaque, stale, an unknown parameter -/
def exLine2 : List Elem := [
  ⟨[], .schemeParam b!"Digest" b!" " ⟨b!"realm", [], [], plainQ b!"old"⟩, []⟩,
  ⟨b!" ", .param ⟨b!"nonce", [], [], plainQ b!"n0"⟩, []⟩,
  ⟨b!" ", .param ⟨b!"algorithm", [], [], .tok b!"SHA-1"⟩, b!" "⟩,
  ⟨b!" ", .empty, []⟩,
  ⟨b!"\t", .schemeParam b!"digest" b!"  " ⟨b!"REALM", b!" ", b!" ",
      .quo [(97, false), (34, true), (98, false), (44, false), (32, false), (99, true)]⟩, b!" "⟩,
  ⟨[], .param ⟨b!"Nonce", [], [], plainQ b!"n=1"⟩, []⟩,
  ⟨b!" ", .param ⟨b!"qop", [], [], plainQ b!"auth-int, auth"⟩, []⟩,
  ⟨b!" ", .param ⟨b!"algorithm", [], b!"\t", .tok b!"SHA-256-sess"⟩, []⟩,
  ⟨b!" ", .param ⟨b!"userhash", [], [], .tok b!"true"⟩, []⟩,
  ⟨b!" ", .param ⟨b!"opaque", [], [], plainQ b!"o\\"⟩, []⟩,
  ⟨b!" ", .param ⟨b!"stale", [], [], .tok b!"true"⟩, []⟩,
  ⟨b!" ", .param ⟨b!"x-ext", [], [], plainQ b!"\"q\""⟩, []⟩]

example : lineRender exLine1 = b!"Basic realm=\"x, y\",Negotiate abc==" := by decide

set_option maxRecDepth 100000 in
example : lineRender exLine2 =
    b!"Digest realm=\"old\", nonce=\"n0\", algorithm=SHA-1 , ,\tdigest  REALM = \"a\\\"b, \\c\" ,Nonce=\"n=1\", qop=\"auth-int, auth\", algorithm=\tSHA-256-sess, userhash=true, opaque=\"o\\\\\", stale=true, x-ext=\"\\\"q\\\"\"" := by
  decide

theorem exOK : ∀ l ∈ [exLine1, exLine2], ∀ x ∈ l, x.OK := by decide

def exChals : List SChal := [
  { scheme := b!"Basic", params := [(b!"realm", b!"x, y")] },
  { scheme := b!"Negotiate", t68 := some b!"abc==" },
  { scheme := b!"Digest", params := [(b!"realm", b!"old"), (b!"nonce", b!"n0"), (b!"algorithm", b!"SHA-1")] },
  { scheme := b!"digest", params := [(b!"realm", b!"a\"b, c"), (b!"nonce", b!"n=1"), (b!"qop", b!"auth-int, auth"),
      (b!"algorithm", b!"SHA-256-sess"), (b!"userhash", b!"true"), (b!"opaque", b!"o\\"), (b!"stale", b!"true"),
      (b!"x-ext", b!"\"q\"")] }]

deriving instance DecidableEq for SChal

set_option maxRecDepth 100000 in
theorem exMeaning : meaning ([exLine1, exLine2].flatten.map (·.e)) = some exChals := by decide

def exIssued : Issued :=
  { realm := b!"a\"b, c", nonce := b!"n=1", opaq := some b!"o\\", algorithm := some b!"SHA-256-sess",
    qops := [b!"auth-int", b!"auth"], userhash := true }

theorem exDescribes : Describes
    [(b!"realm", b!"a\"b, c"), (b!"nonce", b!"n=1"), (b!"qop", b!"auth-int, auth"),
      (b!"algorithm", b!"SHA-256-sess"), (b!"userhash", b!"true"), (b!"opaque", b!"o\\"), (b!"stale", b!"true"),
      (b!"x-ext", b!"\"q\"")] exIssued where
  realm := by decide
  nonce := by decide
  opaq := by decide
  opaqNe := by decide
  algorithm := by decide
  algorithmNe := by decide
  qop := by decide
  userhash := by decide

def exChal : Challenge :=
  { realm := b!"a\"b, c", nonce := b!"n=1", qop := b!"auth-int, auth", algorithm := b!"SHA-256-sess",
    userhash := b!"true", opaq := b!"o\\", stale := b!"true" }

set_option maxRecDepth 100000 in
theorem exFind : (exChals.filterMap digestOf).find? (answerable algOf) = some exChal := by decide

def exRnd : Bytes := [0, 1, 2, 3, 4, 5, 6, 7, 8, 9, 10, 11, 12, 13, 14, 15]

/-- `digest_accepted_wire` is not vacuous: the response above (two field lines; Basic with a quoted
comma, a token68 challenge, an unanswerable Digest challenge, then one with quoted-pairs, a
comma in the realm, BWS, a qop list, mixed-case names, an empty element and an unknown parameter)
IS answered for the account `Mufasa` / a password and a target that contain quotes and
backslashes, and the answer is accepted by the verifier holding what the server issued. -/
example : ∃ hdr, handle exH algOf b!"Mu\"fasa\\" b!"Circle \"of\" Life" b!"GET" b!"/dir/index.html?a=\"b\"" .none (some exRnd)
      { err := false, status := 401, wwwAuth := [exLine1, exLine2].map lineRender } = .resend hdr none ∧
    verify exH specAlg
      { issued := exIssued, method := b!"GET", uri := b!"/dir/index.html?a=\"b\"", user := b!"Mu\"fasa\\",
        pass := b!"Circle \"of\" Life" } hdr = true := by
  obtain ⟨hdr, hcreate, hres⟩ := supported_resent exH [exLine1, exLine2] (by decide) (by decide) exOK exChals
    exMeaning exChal exFind b!"Mu\"fasa\\" b!"Circle \"of\" Life" b!"GET" b!"/dir/index.html?a=\"b\"" exRnd
  have hauth : authorize exH algOf exChal
      { user := b!"Mu\"fasa\\", pass := b!"Circle \"of\" Life", method := b!"GET", uri := b!"/dir/index.html?a=\"b\"" }
      (some exRnd) = .ok hdr := by
    unfold createDigestAuth at hcreate
    simp only at hcreate
    split at hcreate
    · cases hcreate
    · rw [parse_faithful_lines [exLine1, exLine2] (by decide) (by decide) exOK exChals exMeaning,
        pick_of_find exFind] at hcreate
      exact hcreate
  have htext := sendable_header_text exH exH_text exChal _ _ _ _ _ hdr
    ⟨Or.inl rfl, by decide, by decide, by decide, by decide⟩ hauth
  have hr := hres htext
  obtain ⟨ch, hch, _, hfind, hv⟩ := digest_accepted_wire exH exH_text [exLine1, exLine2] (by decide) (by decide) exOK
    exChals exMeaning _ _ _ _ [] _ hdr hr
  refine ⟨hdr, hr, ?_⟩
  rw [exFind] at hfind
  -- the challenge answered is the fourth one
  have hps : ch.params = [(b!"realm", b!"a\"b, c"), (b!"nonce", b!"n=1"), (b!"qop", b!"auth-int, auth"),
      (b!"algorithm", b!"SHA-256-sess"), (b!"userhash", b!"true"), (b!"opaque", b!"o\\"), (b!"stale", b!"true"),
      (b!"x-ext", b!"\"q\"")] := by
    simp only [exChals, List.mem_cons, List.not_mem_nil, or_false] at hch
    rcases hch with rfl | rfl | rfl | rfl
    · revert hfind; decide
    · revert hfind; decide
    · revert hfind; decide
    · rfl
  exact hv exIssued (hps ▸ exDescribes)

end Req.Props.C20
