import Req.Lemmas.C05H3Stream
import Req.Props.C05
/-!
C05 — the full HTTP/3 receive automaton of `frameParser.ParseNext` against a declarative
description of the wire, and iff-characterisations for HTTP/3 frames and SETTINGS.

* `h3_parse_stream`        — any sequence of complete frames (any number of skipped frames
                              anywhere, any — also non-minimal — varint encodings, payloads of any
                              length) is seen by the consumer as exactly its visible frames, in
                              order, with exactly their payloads; then the loop continues on what
                              follows
* `h3_stream_end_*`        — how a stream can end (repaired fork, /repo 690148e): clean EOF exactly at
                              a frame boundary; `unexpectedEOF` for a truncated varint at ANY byte of
                              the type or length and for a skipped frame whose declared length exceeds
                              what remains (ANY length); a DATA/HEADERS payload cut short; a reserved
                              type
* `h3_eof_iff_boundary`    — `ParseNext` reports `io.EOF` ⇔ nothing is left, or the next frame is a
                              COMPLETE skipped frame after which it reports `io.EOF` again: never
                              inside a frame; `h3_settings_truncated_unexpected`
* `h3_parse_fuel_irrelevant` — the loop bound of the model never matters
* `h3_frame_verdict`       — one frame header: returned / parsed / rejected / skipped ⇔ its type
* `h3_settings_accept_iff`, `h3_settings_eof_iff`, `h3_settings_frame_classes`
* `h3_varint_any_encoding` — every `AppendWithLen` encoding is covered by the above
-/
namespace Req.Props.C05
open Req.Proto Req.H3.Varint Req.H3.Frame Req.H3.Stream Req.Lemmas.C05.H3Stream

/-- **h3_parse_stream**: for every list `ws` of complete wire frames — each with ANY valid encoding
of its type and of its declared length, the declared number of payload bytes present, a type that is
not reserved, SETTINGS frames within the cap and acceptable — followed by ANY bytes `tail`, the
receive loop reports exactly the visible frames of `ws` (DATA and HEADERS with exactly their
payload bytes, SETTINGS parsed), in order, nothing for CANCEL_PUSH / PUSH_PROMISE / GOAWAY /
MAX_PUSH_ID / greased / unknown frames wherever they stand, and then behaves on `tail` as on a fresh
stream. -/
theorem h3_parse_stream (ws : List WFrame) (hw : ∀ w ∈ ws, w.Wf) (k : Nat) (tail : Bytes) :
    parseStream (k + 1 + (ws.filterMap WFrame.event).length) (wireBytes ws ++ tail) =
      ws.filterMap WFrame.event ++ parseStream (k + 1) tail :=
  parseStream_frames ws hw k tail

/-- GOAWAY(7) len 1, HEADERS len 2 (length encoded in 2 bytes, non-minimal), greased 0x21 len 0,
DATA len 64 would need 64 bytes; here DATA len 1: the consumer sees HEADERS [9,9], DATA [5], EOF. -/
example : parseStream 5 [7, 1, 0,   1, 0x40, 2, 9, 9,   0x21, 0,   0, 1, 5] =
    [.headers [9, 9], .data [5], .eof] := by decide

/-- how a stream ends: nothing left. -/
theorem h3_stream_end_clean (k : Nat) : parseStream (k + 1) [] = [.eof] := by
  simp [parseStream, parseNext, Req.H3.Varint.read, parse]

/-- … inside the type varint, at any byte (every proper prefix of an encoding fails to read): a
truncated frame, not a clean end. -/
theorem h3_stream_end_in_type (k : Nat) (tail : Bytes) (e : PErr) (hne : tail ≠ [])
    (h : Req.H3.Varint.read tail = .error e) : parseStream (k + 1) tail = [.err .unexpectedEOF] := by
  rw [parseStream, trunc_type _ tail e h]
  have : tail.isEmpty = false := by cases tail <;> simp_all
  simp [this]

/-- … inside the length varint, at any byte, whatever the type (also DATA, HEADERS, reserved). -/
theorem h3_stream_end_in_length (k : Nat) (te tail : Bytes) (t : Nat) (ht : IsVarint te t) (e : PErr)
    (h : Req.H3.Varint.read tail = .error e) :
    parseStream (k + 1) (te ++ tail) = [.err .unexpectedEOF] := by
  rw [parseStream, trunc_len _ te tail t ht e h]

/-- … inside a skipped frame: a declared length of ANY size that exceeds what remains is a
truncated frame (the parser does not allocate or wait for it). -/
theorem h3_stream_end_in_skipped (k : Nat) (te le part : Bytes) (t l : Nat) (ht : IsVarint te t)
    (hl : IsVarint le l) (hs : isSkipped t = true) (hp : part.length < l) :
    parseStream (k + 1) (te ++ (le ++ part)) = [.err .unexpectedEOF] := by
  rw [parseStream, step_short_skip ht hl _ part hs hp]

/-- … inside the payload of a DATA frame: the frame header is reported with the declared length,
the consumer finds fewer bytes. -/
theorem h3_stream_end_in_data (k : Nat) (te le part : Bytes) (l : Nat) (ht : IsVarint te 0)
    (hl : IsVarint le l) (hp : part.length < l) :
    parseStream (k + 1) (te ++ (le ++ part)) = [.truncatedPayload l part] := by
  rw [parseStream, step_header ht hl]
  simp [hp]

/-- … with a frame type RFC 9114 §7.2.8 reserves: an error, whatever follows. -/
theorem h3_stream_end_reserved (k : Nat) (te le rest : Bytes) (t l : Nat) (ht : IsVarint te t)
    (hl : IsVarint le l) (hr : isReservedType t = true) :
    parseStream (k + 1) (te ++ (le ++ rest)) = [.err (.reserved t)] := by
  rw [parseStream, step_header ht hl]
  have h0 : t ≠ 0 := by intro h; subst h; simp [isReservedType] at hr
  have h1 : t ≠ 1 := by intro h; subst h; simp [isReservedType] at hr
  have h4 : t ≠ 4 := by intro h; subst h; simp [isReservedType] at hr
  simp [h0, h1, h4, hr]

example : parseStream 3 [0x40, 0x00, 5, 1, 2] = [.truncatedPayload 5 [1, 2]] := by decide
example : parseStream 3 [0x21, 0xc0, 0xff, 0xff, 0xff, 0xff, 0xff, 0xff, 0xff, 1, 2, 3] =
    [.err .unexpectedEOF] := by decide
example : parseStream 3 [0x80, 0, 0] = [.err .unexpectedEOF] := by decide
/-- a complete skipped frame and then nothing: clean end. -/
example : parseStream 3 [0x21, 2, 7, 7] = [.eof] := by decide
example : parseStream 3 [8, 0] = [.err (.reserved 8)] := by decide

/-- **h3_parse_fuel_irrelevant**: any two loop bounds above the input length give the same
`ParseNext` result (the driver uses `length + 1`). -/
theorem h3_parse_fuel_irrelevant (f1 f2 : Nat) (input : Bytes) (h1 : input.length < f1)
    (h2 : input.length < f2) : parseNext f1 input = parseNext f2 input :=
  parseNext_fuel f1 f2 input h1 h2

/-- **h3_frame_verdict**: one frame header `(t, l)` — any encodings — in front of any bytes:
returned as DATA ⇔ `t = 0`, as HEADERS ⇔ `t = 1` (with the declared length, positioned right after
the header), handed to the SETTINGS parser ⇔ `t = 4` (its `io.EOF` for a short payload becoming
`unexpectedEOF`), rejected as reserved ⇔ `t ∈ {2, 6, 8, 9}`, skipped with its `l` payload bytes
otherwise (`unexpectedEOF` when fewer remain). -/
theorem h3_frame_verdict (te le rest : Bytes) (t l fuel : Nat) (ht : IsVarint te t) (hl : IsVarint le l) :
    (t = 0 → parseNext (fuel + 1) (te ++ (le ++ rest)) = (.ok (.data l), rest)) ∧
    (t = 1 → parseNext (fuel + 1) (te ++ (le ++ rest)) = (.ok (.headers l), rest)) ∧
    (t = 4 → parseNext (fuel + 1) (te ++ (le ++ rest)) = truncated (parseSettingsFrame l rest)) ∧
    ((t = 2 ∨ t = 6 ∨ t = 8 ∨ t = 9) →
      parseNext (fuel + 1) (te ++ (le ++ rest)) = (.error (.reserved t), rest)) ∧
    (isSkipped t = true → rest.length < l →
      parseNext (fuel + 1) (te ++ (le ++ rest)) = (.error .unexpectedEOF, [])) ∧
    (isSkipped t = true → l ≤ rest.length →
      parseNext (fuel + 1) (te ++ (le ++ rest)) = parseNext fuel (rest.drop l)) ∧
    ((∃ f, (parseNext (fuel + 1) (te ++ (le ++ rest))).1 = .ok f ∧ (f = .data l ∨ f = .headers l)) →
      t = 0 ∨ t = 1 ∨ isSkipped t = true) ∧
    (∀ t', (parseNext (fuel + 1) (te ++ (le ++ rest))).1 = .error (.reserved t') →
      t = 4 ∨ isSkipped t = true ∨ (t' = t ∧ isReservedType t = true)) := by
  have hstep := step_header ht hl fuel rest
  refine ⟨?_, ?_, ?_, ?_, ?_, ?_, ?_, ?_⟩
  · intro h; rw [hstep]; simp [h]
  · intro h; rw [hstep]; simp [h]
  · intro h; rw [hstep]; simp [h]
  · intro h; rw [hstep]; rcases h with h | h | h | h <;> subst h <;> simp [isReservedType]
  · intro hs hlt
    simp only [isSkipped, Bool.and_eq_true, bne_iff_ne, ne_eq, Bool.not_eq_true'] at hs
    obtain ⟨⟨⟨h0, h1⟩, h4⟩, hr⟩ := hs
    rw [hstep]; simp [h0, h1, h4, hr, hlt]
  · intro hs hle
    simp only [isSkipped, Bool.and_eq_true, bne_iff_ne, ne_eq, Bool.not_eq_true'] at hs
    obtain ⟨⟨⟨h0, h1⟩, h4⟩, hr⟩ := hs
    rw [hstep]; simp [h0, h1, h4, hr]; omega
  · rintro ⟨f, hf, _⟩
    by_cases h0 : t = 0; · exact .inl h0
    by_cases h1 : t = 1; · exact .inr (.inl h1)
    right; right
    by_cases h4 : t = 4
    · exfalso
      rw [hstep] at hf
      simp only [h4, show (4 : Nat) ≠ 0 by decide, show (4 : Nat) ≠ 1 by decide, ↓reduceIte] at hf
      unfold parseSettingsFrame truncated at hf
      rename_i hd
      repeat' split at hf
      all_goals (simp at hf; try (rcases hd with rfl | rfl <;> simp_all))
    · by_cases hr : isReservedType t = true
      · exfalso; rw [hstep] at hf; simp [h0, h1, h4, hr] at hf
      · simp [isSkipped, h0, h1, h4, hr]
  · intro t' hf
    by_cases h4 : t = 4; · exact .inl h4
    by_cases hs : isSkipped t = true; · exact .inr (.inl hs)
    right; right
    by_cases h0 : t = 0
    · rw [hstep] at hf; simp [h0] at hf
    by_cases h1 : t = 1
    · rw [hstep] at hf; simp [h1] at hf
    have hr : isReservedType t = true := by
      cases hrr : isReservedType t
      · exact absurd (by simp [isSkipped, h0, h1, h4, hrr]) hs
      · rfl
    rw [hstep] at hf
    simp [h0, h1, h4, hr] at hf
    exact ⟨hf.symm, hr⟩

/-- **h3_eof_iff_boundary**: `ParseNext` reports `io.EOF` (clean end of the stream) ⇔ the input is
empty, or it starts with a COMPLETE frame of a skipped type — type and length readable, all `l`
declared payload bytes present — after which `ParseNext` reports `io.EOF` again. By induction: only
at a frame boundary after complete skipped frames, never inside a frame header, a SETTINGS frame or
a skipped payload (RFC 9114 §7.1). -/
theorem h3_eof_iff_boundary (fuel : Nat) (input : Bytes) :
    (parseNext (fuel + 1) input).1 = .error .eof ↔
      (input = [] ∨ ∃ t r1 l r2, Req.H3.Varint.read input = .ok (t, r1) ∧
        Req.H3.Varint.read r1 = .ok (l, r2) ∧ isSkipped t = true ∧ l ≤ r2.length ∧
        (parseNext fuel (r2.drop l)).1 = .error .eof) := by
  rw [parseNext]
  constructor
  · intro h
    cases h1 : Req.H3.Varint.read input with
    | error e =>
      rw [h1] at h
      left
      cases input with
      | nil => rfl
      | cons b bs => simp at h
    | ok p1 =>
      obtain ⟨t, r1⟩ := p1
      rw [h1] at h
      simp only at h
      cases h2 : Req.H3.Varint.read r1 with
      | error e => rw [h2] at h; simp at h
      | ok p2 =>
        obtain ⟨l, r2⟩ := p2
        rw [h2] at h
        simp only at h
        exact .inr ⟨t, r1, l, r2, rfl, h2, (branch_eof t l r2 fuel).mp h⟩
  · rintro (rfl | ⟨t, r1, l, r2, h1, h2, hrest⟩)
    · simp [Req.H3.Varint.read, parse]
    · rw [h1]
      simp only
      rw [h2]
      simp only
      exact (branch_eof t l r2 fuel).mpr hrest

/-- a stream that ends inside a SETTINGS frame (fewer than the declared bytes, or a payload that
ends inside a pair) is a truncated frame for `ParseNext`, whatever `parseSettingsFrame` alone says. -/
theorem h3_settings_truncated_unexpected (te le rest : Bytes) (l fuel : Nat) (ht : IsVarint te 4)
    (hl : IsVarint le l) (h : (parseSettingsFrame l rest).1 = .error .eof) :
    (parseNext (fuel + 1) (te ++ (le ++ rest))).1 = .error .unexpectedEOF := by
  rw [step_header ht hl]
  simp only [show (4 : Nat) ≠ 0 by decide, show (4 : Nat) ≠ 1 by decide, ↓reduceIte]
  cases hr : parseSettingsFrame l rest with
  | mk a b =>
    rw [hr] at h
    simp only at h
    subst h
    rfl

example : (parseNext 3 [4, 3, 6, 1]).1 = .error .unexpectedEOF ∧
    (parseNext 3 [4, 3, 6, 1, 7]).1 = .error .unexpectedEOF := by decide

/-- **h3_settings_accept_iff** (RFC 9114 §7.2.4, RFC 9220, RFC 9297): a SETTINGS payload is accepted
with settings `s` ⇔ it is a sequence of complete (identifier, value) varint pairs — any encodings —
with pairwise distinct identifiers in which 0x8 and 0x33 carry 0 or 1, and `s` is what those pairs
stand for (the two booleans; every other pair, in wire order). -/
theorem h3_settings_accept_iff (bs : Bytes) (s : Settings) :
    parseSettingsPayload bs = .ok s ↔
      ((decodePairs (bs.length + 1) bs).2 = false ∧ SettingsOK (decodePairs (bs.length + 1) bs).1 ∧
        s = settingsOf (decodePairs (bs.length + 1) bs).1) :=
  settings_accept_iff bs s

example : decodePairs 8 [0x33, 1, 0x40, 8, 0, 6, 0x80, 0, 0x40, 0] = ([(51, 1), (8, 0), (6, 16384)], false) := by
  decide
example : parseSettingsPayload [0x33, 1, 0x40, 8, 0, 6, 0x80, 0, 0x40, 0] =
    .ok ⟨true, false, [(6, 16384)]⟩ := by decide

/-- **h3_settings_eof_iff**: the SETTINGS parser reports `io.EOF` ⇔ the payload ends inside a pair
and every complete pair before is acceptable (an earlier duplicate or invalid value is reported
instead). -/
theorem h3_settings_eof_iff (bs : Bytes) :
    parseSettingsPayload bs = .error .eof ↔
      ((decodePairs (bs.length + 1) bs).2 = true ∧ SettingsOK (decodePairs (bs.length + 1) bs).1) :=
  settings_eof_iff bs

example : parseSettingsPayload [6, 1, 7] = .error .eof := by decide
example : parseSettingsPayload [6, 1, 6, 2, 7] = .error (.duplicateSetting 6) := by decide

/-- **h3_settings_frame_classes**: `parseSettingsFrame(r, l)`: "unexpected size" ⇔ `l > 8192`;
otherwise EOF when fewer than `l` bytes remain; otherwise the verdict of the payload parser on
exactly the next `l` bytes, leaving exactly what follows them. -/
theorem h3_settings_frame_classes (l : Nat) (input : Bytes) :
    ((parseSettingsFrame l input).1 = .error .settingsTooLarge ↔ l > 8192) ∧
    (l ≤ 8192 → input.length < l → parseSettingsFrame l input = (.error .eof, [])) ∧
    (l ≤ 8192 → l ≤ input.length →
      parseSettingsFrame l input =
        (match parseSettingsPayload (input.take l) with
          | .error e => .error e
          | .ok s => .ok (.settings s), input.drop l)) := by
  refine ⟨?_, ?_, ?_⟩
  · unfold parseSettingsFrame
    by_cases h : l > 8192
    · simp [h]
    · simp only [h, ↓reduceIte, iff_false]
      split
      · simp
      · cases hp : parseSettingsPayload (input.take l) with
        | error e =>
          simp only [Except.error.injEq]
          intro he
          subst he
          unfold parseSettingsPayload at hp
          rw [settingsLoop_decode] at hp
          generalize (decodePairs ((List.take l input).length + 1) (List.take l input)).1 = ps at hp
          generalize (decodePairs ((List.take l input).length + 1) (List.take l input)).2 = tr at hp
          generalize ({} : SettingsAcc) = a at hp
          induction ps generalizing a with
          | nil => cases tr <;> simp [foldT] at hp
          | cons p ps ih =>
            obtain ⟨id, v⟩ := p
            simp only [foldT] at hp
            cases hst : settingsStep a id v with
            | error e =>
              rw [hst] at hp
              simp only [Except.error.injEq] at hp
              subst hp
              unfold settingsStep at hst
              repeat' split at hst
              all_goals cases hst
            | ok a' => rw [hst] at hp; exact ih a' hp
        | ok s => simp
  · intro h1 h2
    unfold parseSettingsFrame
    rw [if_neg (by omega), if_pos h2]
  · intro h1 h2
    unfold parseSettingsFrame
    rw [if_neg (by omega), if_neg (by omega)]
    cases parseSettingsPayload (input.take l) <;> rfl

/-- **h3_varint_any_encoding**: every encoding `AppendWithLen` produces — minimal or padded to 2, 4
or 8 bytes — is an encoding in the sense the theorems above quantify over. -/
theorem h3_varint_any_encoding (n l : Nat) (bs : Bytes)
    (hl : l = 1 ∨ l = 2 ∨ l = 4 ∨ l = 8) (hn : n < capacity l) (h : appendWithLen n l = some bs) :
    IsVarint bs n :=
  isVarint_appendWithLen n l bs hl hn h

/-- the boundary values in both directions, minimal and non-minimal. -/
example : appendWithLen 64 2 = some [0x40, 0x40] ∧ appendWithLen 64 8 = some [0xc0, 0, 0, 0, 0, 0, 0, 0x40]
    ∧ appendWithLen 16384 4 = some [0x80, 0, 0x40, 0] ∧ appendWithLen 1073741824 8 = some [0xc0, 0, 0, 0, 0x40, 0, 0, 0]
    ∧ appendWithLen 4611686018427387903 8 = some [0xff, 0xff, 0xff, 0xff, 0xff, 0xff, 0xff, 0xff] := by decide
example : parseStream 3 ([0xc0, 0, 0, 0, 0, 0, 0, 0] ++ [0xc0, 0, 0, 0, 0, 0, 0, 1] ++ [7]) =
    [.data [7], .eof] := by decide

end Req.Props.C05
