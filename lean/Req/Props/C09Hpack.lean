import Req.Pool.H2Hpack
/-!
# C09, round 5: the HPACK tables of an HTTP/2 connection stay in sync; every request is decoded as itself

Model `Req/Pool/H2Hpack.lean`.  For every static table, table size, and every list of operations
on the connection's encoder that the code can perform (`send` = encode + write under `wmu`,
`quitBefore` = cancelled / refused before the encoder is touched):

* `hpack_tables_in_sync` — the peer's decoder table equals the client's encoder table, the peer
  never hits a decoding error, and the header lists it decoded are, block by block, the header
  lists of the requests that were written (`rcvd = sent`): no request is decoded with another
  request's fields;
* `field_roundtrip`, `block_roundtrip` — the per-field / per-block facts behind it;
* `abandon_breaks_sync` — with the forbidden third outcome (encode, then leave without writing;
  seed C09-r5-2) the statement is false: the next request dies with an invalid index, or is
  decoded as somebody else's header.
-/
namespace Req.Props.C09Hpack
open Req.Pool.H2Hpack Req.Proto

theorem findFirst_sound (p : Ent → Bool) : ∀ (l : List Ent) (n : Nat), findFirst p l = n + 1 →
    ∃ e, l[n]? = some e ∧ p e = true := by
  intro l
  induction l with
  | nil => intro n h; simp [findFirst] at h
  | cons a r ih =>
    intro n h
    simp only [findFirst] at h
    by_cases hp : p a = true
    · simp [hp] at h; subst h; exact ⟨a, by simp, hp⟩
    · simp [hp] at h
      cases hr : findFirst p r with
      | zero => rw [hr] at h; simp at h
      | succ m =>
        rw [hr] at h
        have : n = m + 1 := by simpa using h.symm
        subst this
        obtain ⟨e, he, hpe⟩ := ih m hr
        exact ⟨e, by simpa using he, hpe⟩

theorem findLast_sound (p : Ent → Bool) : ∀ (l : List Ent) (n : Nat), findLast p l = n + 1 →
    ∃ e, l[n]? = some e ∧ p e = true := by
  intro l
  induction l with
  | nil => intro n h; simp [findLast] at h
  | cons a r ih =>
    intro n h
    simp only [findLast] at h
    cases hr : findLast p r with
    | zero =>
      rw [hr] at h
      by_cases hp : p a = true
      · simp [hp] at h; subst h; exact ⟨a, by simp, hp⟩
      · simp [hp] at h
    | succ m =>
      rw [hr] at h
      have : n = m + 1 := by simpa using h.symm
      subst this
      obtain ⟨e, he, hpe⟩ := ih m hr
      exact ⟨e, by simpa using he, hpe⟩

/-- What an index found by a table search means. -/
def Hit (l : List Ent) (f : HF) (r : Nat × Bool) : Prop :=
  (r.2 = true → r.1 ≠ 0 ∧ l[r.1 - 1]? = some (f.name, f.value) ∧ f.sensitive = false) ∧
  (r.2 = false → r.1 = 0 ∨ ∃ e, l[r.1 - 1]? = some e ∧ e.1 = f.name)

theorem searchIn_sound (nf : (Ent → Bool) → List Ent → Nat)
    (hnf : ∀ p l n, nf p l = n + 1 → ∃ e, l[n]? = some e ∧ p e = true)
    (l : List Ent) (f : HF) : Hit l f (searchIn nf l f) := by
  unfold searchIn
  cases hs : f.sensitive with
  | true =>
    simp only [if_true, ne_eq, not_true_eq_false, if_false]
    refine ⟨fun h => (Bool.false_ne_true h).elim, fun _ => ?_⟩
    cases hn : nf (fun e => e.1 == f.name) l with
    | zero => left; rfl
    | succ m =>
      right
      obtain ⟨e, he, hpe⟩ := hnf _ _ _ hn
      exact ⟨e, by simpa using he, by simpa using hpe⟩
  | false =>
    simp only [Bool.false_eq_true, if_false]
    cases hfu : findFirst (fun e => e.1 == f.name && e.2 == f.value) l with
    | zero =>
      simp only [ne_eq, not_true_eq_false, if_false]
      refine ⟨fun h => (Bool.false_ne_true h).elim, fun _ => ?_⟩
      cases hn : nf (fun e => e.1 == f.name) l with
      | zero => left; rfl
      | succ m =>
        right
        obtain ⟨e, he, hpe⟩ := hnf _ _ _ hn
        exact ⟨e, by simpa using he, by simpa using hpe⟩
    | succ m =>
      simp only [ne_eq, Nat.succ_ne_zero, not_false_eq_true, if_true]
      refine ⟨fun _ => ⟨by omega, ?_, hs⟩, fun h => (Bool.false_ne_true h.symm).elim⟩
      obtain ⟨e, he, hpe⟩ := findFirst_sound _ _ _ hfu
      have h1 : e.1 = f.name ∧ e.2 = f.value := by simpa using hpe
      have : e = (f.name, f.value) := by
        cases e; simp at h1; simp [h1.1, h1.2]
      simpa [this] using he

theorem lookup_static (cfg : Cfg) (dyn : List Ent) (i : Nat) (e : Ent) (hi : i ≠ 0)
    (h : cfg.static[i - 1]? = some e) : lookup cfg dyn i = some e := by
  have hlt : i - 1 < cfg.static.length := by
    have := List.getElem?_eq_some_iff.1 h
    exact this.1
  simp only [lookup, hi, if_false]
  have : i ≤ cfg.static.length := by omega
  simp [this, h]

theorem lookup_dyn (cfg : Cfg) (dyn : List Ent) (j : Nat) (hj : j ≠ 0) :
    lookup cfg dyn (j + cfg.static.length) = dyn[j - 1]? := by
  have h1 : j + cfg.static.length ≠ 0 := by omega
  have h2 : ¬ j + cfg.static.length ≤ cfg.static.length := by omega
  simp only [lookup, h1, h2, if_false]
  congr 1; omega

/-- `searchTable` returns an index whose entry is the field (full match) or carries its name. -/
theorem searchTable_sound (cfg : Cfg) (dyn : List Ent) (f : HF) :
    ((searchTable cfg dyn f).2 = true →
      lookup cfg dyn (searchTable cfg dyn f).1 = some (f.name, f.value) ∧ f.sensitive = false) ∧
    ((searchTable cfg dyn f).2 = false →
      (searchTable cfg dyn f).1 = 0 ∨ ∃ e, lookup cfg dyn (searchTable cfg dyn f).1 = some e ∧ e.1 = f.name) := by
  have hs := searchIn_sound findLast findLast_sound cfg.static f
  have hd := searchIn_sound findFirst findFirst_sound dyn f
  unfold searchTable
  generalize searchIn findLast cfg.static f = s at hs
  generalize searchIn findFirst dyn f = d at hd
  obtain ⟨si, sm⟩ := s
  obtain ⟨di, dm⟩ := d
  simp only [Hit] at hs hd
  cases sm with
  | true =>
    simp only [if_true]
    obtain ⟨h0, hl, hsens⟩ := hs.1 rfl
    exact ⟨fun _ => ⟨lookup_static cfg dyn si _ h0 hl, hsens⟩, fun h => (Bool.false_ne_true h.symm).elim⟩
  | false =>
    simp only [Bool.false_eq_true, if_false]
    cases dm with
    | true =>
      simp only [Bool.true_or, if_true]
      obtain ⟨h0, hl, hsens⟩ := hd.1 rfl
      exact ⟨fun _ => ⟨by rw [lookup_dyn cfg dyn di h0]; exact hl, hsens⟩, fun h => (Bool.false_ne_true h.symm).elim⟩
    | false =>
      simp only [Bool.false_or]
      split
      · rename_i hc
        have hc' : si = 0 ∧ di ≠ 0 := by simpa using hc
        refine ⟨fun h => (Bool.false_ne_true h).elim, fun _ => ?_⟩
        rcases hd.2 rfl with h | ⟨e, he, hn⟩
        · exact absurd h hc'.2
        · right; exact ⟨e, by rw [lookup_dyn cfg dyn di hc'.2]; exact he, hn⟩
      · refine ⟨fun h => (Bool.false_ne_true h).elim, fun _ => ?_⟩
        rcases hs.2 rfl with h | ⟨e, he, hn⟩
        · left; exact h
        · by_cases h0 : si = 0
          · left; exact h0
          · right; exact ⟨e, lookup_static cfg dyn si _ h0 he, hn⟩

/-- **Per field**: decoding what the encoder wrote, against the same table, yields the field
itself and the same table afterwards. -/
theorem field_roundtrip (cfg : Cfg) (dyn : List Ent) (f : HF) :
    decodeRep cfg dyn (encodeField cfg dyn f).1 = .ok (f, (encodeField cfg dyn f).2) := by
  have hs := searchTable_sound cfg dyn f
  unfold encodeField
  generalize searchTable cfg dyn f = r at hs
  obtain ⟨i, m⟩ := r
  cases m with
  | true =>
    obtain ⟨hl, hsens⟩ := hs.1 rfl
    simp only [if_true, decodeRep, hl]
    cases f; simp_all
  | false =>
    simp only [Bool.false_eq_true, if_false, decodeRep]
    by_cases h0 : i = 0
    · subst h0; simp
    · rcases hs.2 rfl with h | ⟨e, he, hn⟩
      · exact absurd h h0
      · simp only [h0, if_false, he, hn]

/-- **Per block.** -/
theorem block_roundtrip (cfg : Cfg) : ∀ (hs : List HF) (dyn : List Ent),
    decodeBlock cfg dyn (encodeBlock cfg dyn hs).1 = .ok (hs, (encodeBlock cfg dyn hs).2)
  | [], _ => rfl
  | f :: fs, dyn => by
    simp only [encodeBlock, decodeBlock, field_roundtrip, block_roundtrip cfg fs]

def Sync (c : Conn) : Prop := c.enc = c.dec ∧ c.dead = false ∧ c.rcvd = c.sent

theorem Sync_step (cfg : Cfg) (c : Conn) (op : Op) (hl : op.legal = true) (h : Sync c) : Sync (step cfg c op) := by
  obtain ⟨he, hd, hr⟩ := h
  cases op with
  | send hs =>
    simp only [step, hd, Bool.false_eq_true, if_false]
    rw [← he, block_roundtrip]
    dsimp only
    exact ⟨rfl, rfl, by simp [hr]⟩
  | quitBefore hs => exact ⟨he, hd, hr⟩
  | abandon hs => cases hl

theorem Sync_run (cfg : Cfg) : ∀ (ops : List Op) (c : Conn), (∀ op ∈ ops, op.legal = true) → Sync c → Sync (run cfg c ops)
  | [], _, _, h => h
  | op :: ops, c, hl, h =>
    Sync_run cfg ops _ (fun o ho => hl o (by simp [ho])) (Sync_step cfg c op (hl op (by simp)) h)

/-- **The peer's decoder table is the encoder's table; every block is decoded as the request that
was written** — for every static table, table size and every sequence of sends and of requests
that quit before the encoder is touched (cancelled while waiting for `wmu`, header list refused). -/
theorem hpack_tables_in_sync (cfg : Cfg) (ops : List Op) (hl : ∀ op ∈ ops, op.legal = true) :
    (run cfg {} ops).dec = (run cfg {} ops).enc ∧ (run cfg {} ops).dead = false ∧
    (run cfg {} ops).rcvd = (run cfg {} ops).sent := by
  obtain ⟨h1, h2, h3⟩ := Sync_run cfg ops {} hl ⟨rfl, rfl, rfl⟩
  exact ⟨h1.symm, h2, h3⟩

/-! ### non-vacuity, and why `abandon` is forbidden -/

def tinyCfg : Cfg := ⟨[([1], []), ([2], [7])], 100⟩
def hA : HF := ⟨[9], [1], false⟩      -- caller A's tag
def hB : HF := ⟨[9], [2], false⟩      -- caller B's tag

/-- a repeated header is sent as an index into the dynamic table, and decoded as itself -/
example : (run tinyCfg {} [.send [hA], .quitBefore [hB], .send [hA, hB]]).rcvd = [[hA], [hA, hB]] ∧
    (encodeBlock tinyCfg [([9], [1])] [hA]).1 = [.indexed 3] := by decide

/-- B encodes and gives up without writing; A's next request refers to an entry the peer never
saw: the peer decodes B's tag where A sent its own (or, with an empty peer table, dies with
COMPRESSION_ERROR). -/
theorem abandon_breaks_sync :
    (run tinyCfg {} [.send [hB], .abandon [hA], .send [hA]]).rcvd = [[hB], [hB]] ∧
    (run tinyCfg {} [.abandon [hA], .send [hA]]).dead = true := by decide

end Req.Props.C09Hpack
