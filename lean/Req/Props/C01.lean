/-! C01 — property theorems (none yet). -/
