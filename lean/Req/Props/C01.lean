import Req.Lemmas.Pct
import Req.Lemmas.Query
import Req.Lemmas.H1Fidelity
import Req.Lemmas.Trim
import Req.Client.Url
import Req.Client.Merge
/-!
C01 — request fidelity: property theorems about the models of the request-building pipeline.

* `escape_roundtrip`, `pathEscape_no_structure`, `queryEscape_no_structure`: Go's percent-encoding
  is injective (decodable) and its output contains no byte that has a structural meaning in a
  path, a query, a request line or a header block.
* `path_param_segments`: substituting path parameters (request-level and client-level maps, any
  iteration order, any template, any values) never adds a `/`, `?`, `#`, space, CR, LF, NUL …:
  a value cannot add a path segment, a query, a fragment or a line.
* `query_merge_spec`: an origin parsing the final raw query reads the pairs of the caller's raw
  query followed by exactly the merged parameter maps (request keys override client keys), sorted
  by key — nothing dropped, duplicated or altered.
-/
namespace Req.Props.C01
open Req.Proto Req.Pct Req.Url Req.BStr Req.Query

/-! ### percent-encoding -/

/-- **escape_roundtrip**: for every mode Go decodes its own escapes back to the input (host and
zone excluded: there Go itself rejects `%XX` of an ASCII byte). -/
theorem escape_roundtrip (m : Mode) (hm1 : m ≠ .host) (hm2 : m ≠ .zone) (s : Bytes) :
    unescape m (escape m s) = some s :=
  unescape_escape m hm1 hm2 s

example : unescape .pathSegment (pathEscape [97, 47, 98, 32, 195, 188, 13, 10]) =
    some [97, 47, 98, 32, 195, 188, 13, 10] := by decide

/-- escaping is injective: two values can never be confused on the wire. -/
theorem escape_injective (m : Mode) (hm1 : m ≠ .host) (hm2 : m ≠ .zone) (s t : Bytes)
    (h : escape m s = escape m t) : s = t := by
  have hs := escape_roundtrip m hm1 hm2 s
  have ht := escape_roundtrip m hm1 hm2 t
  rw [h, ht] at hs
  exact (Option.some.inj hs).symm

/-- bytes with a structural meaning in a URL path, a request line or a header block:
`/ ? # { } ; ,`, space, control bytes (CR, LF, NUL, …), DEL, and everything non-ASCII. -/
def pathStructural (b : UInt8) : Bool :=
  b == 47 || b == 63 || b == 35 || b == 123 || b == 125 || b == 59 || b == 44 || b ≤ 32 || b ≥ 127

def pathSafe (b : UInt8) : Bool :=
  b == 37 || isUpperHexDigit b || !shouldEscape b .pathSegment

set_option maxRecDepth 100000 in
theorem pathSafe_not_structural (b : UInt8) : (!pathSafe b || !pathStructural b) = true :=
  Req.U8.all (fun b => !pathSafe b || !pathStructural b) (by decide) b

/-- **pathEscape_no_structure**: `url.PathEscape` never outputs `/ ? # { } ; ,`, a space, a
control byte (CR, LF, NUL …), DEL or a non-ASCII byte. -/
theorem pathEscape_no_structure (s : Bytes) : ∀ b ∈ pathEscape s, pathStructural b = false := by
  intro b hb
  have hsafe : pathSafe b = true := by
    unfold pathEscape at hb
    unfold pathSafe
    rcases mem_escape hb with h | h | h | h
    · simp [h]
    · simp [h]
    · exact absurd h.2 (by decide)
    · simp [h.2]
  have h2 := pathSafe_not_structural b
  rw [hsafe] at h2
  simpa using h2

example : pathEscape [46, 46, 47, 13, 10, 123, 105, 100, 125] =
    [46, 46, 37, 50, 70, 37, 48, 68, 37, 48, 65, 37, 55, 66, 105, 100, 37, 55, 68] := by decide

/-- **queryEscape_no_structure**: `url.QueryEscape` never outputs `& = # ? /`, a space, a control
byte, DEL or a non-ASCII byte (`+` stands for a space). -/
theorem queryEscape_no_structure (s : Bytes) : ∀ b ∈ queryEscape s, queryStructural b = false :=
  queryEscape_not_structural s

example : queryEscape [97, 38, 98, 61, 99, 32, 35] = [97, 37, 50, 54, 98, 37, 51, 68, 99, 43, 37, 50, 51] := by
  decide

/-! ### path parameters -/

theorem count_append (c : UInt8) (a b : Bytes) : count c (a ++ b) = count c a + count c b := by
  simp [count, List.countP_append]

theorem count_cons (c x : UInt8) (a : Bytes) :
    count c (x :: a) = count c a + (if x == c then 1 else 0) := by
  simp [count, List.countP_cons]

theorem count_eq_zero_of_not_mem (c : UInt8) (s : Bytes) (h : ∀ b ∈ s, b ≠ c) : count c s = 0 := by
  unfold count
  rw [List.countP_eq_zero]
  intro b hb
  simpa using h b hb

theorem replaceAux_count (c : UInt8) (old new : Bytes) (hnew : count c new = 0) :
    ∀ (s : Bytes) (skip : Nat), count c (replaceAux old new skip s) ≤ count c s := by
  intro s
  induction s with
  | nil => intro skip; cases skip <;> simp [replaceAux]
  | cons x t ih =>
    intro skip
    cases skip with
    | succ k =>
      simp only [replaceAux]
      have := ih k
      rw [count_cons]
      omega
    | zero =>
      simp only [replaceAux]
      split
      · rw [count_append, hnew, count_cons]
        have := ih (old.length - 1)
        omega
      · rw [count_cons, count_cons]
        have := ih 0
        omega

theorem substOne_count (c : UInt8) (hc : pathStructural c = true) (tmpl : Bytes)
    (pv : Bytes × Bytes) : count c (substOne tmpl pv) ≤ count c tmpl := by
  unfold substOne replaceAll
  split
  · exact Nat.le_refl _
  · apply replaceAux_count
    apply count_eq_zero_of_not_mem
    intro b hb heq
    have := pathEscape_no_structure pv.2 b hb
    rw [heq, hc] at this
    exact Bool.noConfusion this

theorem foldl_substOne_count (c : UInt8) (hc : pathStructural c = true) (ps : PMap) :
    ∀ tmpl : Bytes, count c (ps.foldl substOne tmpl) ≤ count c tmpl := by
  induction ps with
  | nil => intro tmpl; exact Nat.le_refl _
  | cons p ps ih =>
    intro tmpl
    simp only [List.foldl_cons]
    exact Nat.le_trans (ih _) (substOne_count c hc tmpl p)

/-- **path_param_segments**: for EVERY template, every request-level and client-level parameter
map in any iteration order and every value, substitution never increases the number of `/`
(path segments), `?` (queries), `#` (fragments), spaces, CR, LF, NUL or any other structural
byte: a path-parameter value cannot add a segment, a query, a fragment, a header line or a second
request. (It can lower a count only when a KEY — part of the template — contains such a byte.) -/
theorem path_param_segments (tmpl : Bytes) (rp cp : PMap) (c : UInt8)
    (hc : pathStructural c = true) : count c (substParams tmpl rp cp) ≤ count c tmpl := by
  unfold substParams
  exact Nat.le_trans (foldl_substOne_count c hc cp _) (foldl_substOne_count c hc rp tmpl)

/-- number of path segments = number of `/` + 1 -/
theorem path_param_no_new_segment (tmpl : Bytes) (rp cp : PMap) :
    count 47 (substParams tmpl rp cp) ≤ count 47 tmpl :=
  path_param_segments tmpl rp cp 47 (by decide)

/-- non-vacuity: `/u/{id}/x` with id = `a/b?c#d` + CR LF keeps its three slashes. -/
example : substParams [47, 117, 47, 123, 105, 100, 125, 47, 120]
    [([105, 100], [97, 47, 98, 63, 99, 35, 100, 13, 10])] [] =
    [47, 117, 47, 97, 37, 50, 70, 98, 37, 51, 70, 99, 37, 50, 51, 100, 37, 48, 68, 37, 48, 65, 47, 120] := by
  decide

/-! ### query merge -/

/-- the pairs the caller described through the client-level and request-level maps: request keys
override client keys, keys sorted bytewise, values in the order given. -/
def specPairs (cq rq : QMap) : List (Bytes × Bytes) :=
  (isortBy (fun a b => le a.1 b.1) (mergedQuery cq rq)).flatMap fun kv => kv.2.map fun v => (kv.1, v)

theorem encodeValues_eq (m : QMap) :
    encodeValues m = join [38]
      (((isortBy (fun a b => le a.1 b.1) m).flatMap fun kv => kv.2.map fun v => (kv.1, v)).map
        fun p => encodePair p.1 p.2) := by
  unfold encodeValues
  congr 1
  simp [List.map_flatMap, List.map_map, Function.comp_def]

/-- **query_merge_spec**: an origin that parses the final raw query reads the pairs of the raw
query of the URL, followed by exactly `specPairs` — every key/value of the merged maps once, each
decoded to the caller's bytes, request-level keys replacing client-level keys. (`none` on both
sides when the caller's own raw query has a malformed escape. Odd corner of the code, kept: a raw
query made of white space only counts as absent — `util.IsStringEmpty` — and is replaced.) -/
theorem query_merge_spec (raw : Bytes) (cq rq : QMap) :
    parseQuery (mergeRawQuery raw cq rq) =
      if !(mergedQuery cq rq).isEmpty && allSpace raw then some (specPairs cq rq)
      else (parseQuery raw).map (· ++ specPairs cq rq) := by
  unfold mergeRawQuery
  simp only
  split
  next hq =>
    have : specPairs cq rq = [] := by
      unfold specPairs
      have : mergedQuery cq rq = [] := by simpa using hq
      rw [this]; simp [isortBy]
    rw [this]
    simp only [hq, Bool.not_true, Bool.false_and, Bool.false_eq_true, if_false]
    cases parseQuery raw <;> simp
  next hq =>
    have hq' : (mergedQuery cq rq).isEmpty = false := by simpa using hq
    split
    next hraw =>
      simp only [hq', hraw, Bool.not_false, Bool.and_self, if_true]
      rw [encodeValues_eq, parseQuery_join]
      rfl
    next hraw =>
      have hraw' : allSpace raw = false := by simpa using hraw
      simp only [hq', hraw', Bool.not_false, Bool.and_false, Bool.false_eq_true, if_false]
      rw [List.append_assoc, List.singleton_append, parseQuery_append, encodeValues_eq,
        parseQuery_join]
      cases parseQuery raw <;> rfl

/-- non-vacuity: raw `x=1`, client {a:[1], b:[2]}, request {a:[z, ' &']} . -/
example : mergeRawQuery [120, 61, 49] [([97], [[49]]), ([98], [[50]])] [([97], [[122], [32, 38]])] =
    [120, 61, 49, 38, 97, 61, 122, 38, 97, 61, 43, 37, 50, 54, 38, 98, 61, 50] := by decide

/-! ### client defaults never override request values -/

section MergeSec
open Req.Merge Req.H1 Req.HeaderSort

/-- a request-level header with at least one value survives the merge untouched. -/
theorem merge_request_wins (ch : Option Hdr) (rh : Hdr) (kv : KV) (hkv : kv ∈ rh)
    (hne : kv.values.isEmpty = false) : kv ∈ mergeHeaders ch rh := by
  unfold mergeHeaders
  cases ch with
  | none => exact hkv
  | some ch =>
    apply List.mem_append.mpr
    left
    apply List.mem_map.mpr
    exact ⟨kv, hkv, by simp [hne]⟩

/-- a client-level header is added when the request has no entry under exactly that key. -/
theorem merge_client_fills (ch rh : Hdr) (kv : KV) (hkv : kv ∈ ch)
    (habs : ∀ x ∈ rh, (x.key == kv.key) = false) : kv ∈ mergeHeaders (some ch) rh := by
  unfold mergeHeaders
  apply List.mem_append.mpr
  right
  apply List.mem_filter.mpr
  refine ⟨hkv, ?_⟩
  simp only [Bool.not_eq_true', List.any_eq_false]
  intro x hx
  simpa using habs x hx

/-- nothing else appears: every merged entry is a request entry, a client entry, or a request key
that had no value filled with the client's values for that key. -/
theorem merge_nothing_else (ch rh : Hdr) (kv : KV) (h : kv ∈ mergeHeaders (some ch) rh) :
    kv ∈ rh ∨ kv ∈ ch ∨ ∃ r ∈ rh, r.values.isEmpty = true ∧ kv.key = r.key ∧ hdrGet? ch r.key = some kv.values := by
  unfold mergeHeaders at h
  rcases List.mem_append.mp h with h | h
  · obtain ⟨r, hr, rfl⟩ := List.mem_map.mp h
    split
    next he =>
      cases hg : hdrGet? ch r.key with
      | none => exact Or.inl hr
      | some vs => exact Or.inr (Or.inr ⟨r, hr, he, rfl, hg⟩)
    next => exact Or.inl hr
  · exact Or.inr (Or.inl (List.mem_filter.mp h).1)

end MergeSec

/-! ### HTTP/1.1 fidelity -/

section H1
open Req.H1 Req.H1.Origin Req.Validate Req.HeaderSort

/-- facts about the framing triple `newTransferWriter` computes. -/
theorem framing_inv (r : WReq) (f : Framing) (h : framing r = .ok f) :
    (f.sendBody = false → f.chunked = false ∧ f.cl = 0) ∧ (f.chunked = true → f.cl = -1) ∧
    (f.sendBody = true → f.chunked = false → 0 ≤ f.cl → 0 < f.cl) := by
  unfold framing at h
  by_cases h1 : (r.contentLength != 0 && !r.hasBody) = true
  · simp [h1] at h
  · simp only [h1, Bool.false_eq_true, if_false] at h
    generalize hc : (if (!r.hasBody) = true then (0:Int) else if (r.contentLength != 0) = true then r.contentLength else -1) = cl0 at h
    by_cases h2 : cl0 < 0
    · simp only [h2, if_true] at h
      by_cases h3 : (methodOrGet r.method == sCONNECT) = true
      · simp only [h3, if_true, Except.ok.injEq] at h
        subst h
        refine ⟨by simp, by simp, ?_⟩
        intro _ _ h0; simp only at h0; omega
      · simp only [h3, Bool.false_eq_true, if_false] at h
        by_cases h4 : methodUsuallyLacksBody (methodOrGet r.method) = true
        · simp only [h4, if_true] at h
          by_cases h5 : r.body.isEmpty = true
          · simp only [h5, if_true, Except.ok.injEq] at h; subst h; simp
          · simp only [h5, Bool.false_eq_true, if_false, Except.ok.injEq] at h; subst h; simp
        · simp only [h4, Bool.false_eq_true, if_false, Except.ok.injEq] at h; subst h; simp
    · simp only [h2, if_false, Except.ok.injEq] at h
      subst h
      simp only
      refine ⟨?_, by simp, ?_⟩
      · intro hb
        simp [hb] at hc
        exact ⟨trivial, hc.symm⟩
      · intro hb _ _
        simp [hb] at hc
        split at hc <;> omega

/-- what an origin observes of a request, as determined by the request itself: the method, the
request target, every header line in wire order (value without surrounding white space) and the
body bytes. -/
def view (r : WReq) (host : Bytes) (f : Framing) : View :=
  { method := methodOrGet r.method, target := requestTarget r host,
    fields := (linesOf (h1Fields r host f)).map trimmed,
    body := if f.sendBody then r.body else [] }

theorem methodOrGet_ne_nil (m : Bytes) : methodOrGet m ≠ [] := by
  unfold methodOrGet
  split
  · decide
  next h => simpa using h

/-- **h1_fidelity**: for every request whose unvalidated parts are sane (`Valid`), the independent
origin reads from `serializeH1 r ++ rest` EXACTLY ONE request — the method, the target, every
header line the writer emitted with its exact value (white space trimmed as HTTP defines), the
exact body bytes, for Content-Length framing, chunked framing (any read split) and no body — and
leaves `rest` untouched, whatever `rest` is: nothing the caller supplied can end the header
block early, add a line or start a second request. -/
theorem h1_fidelity (r : WReq) (wire host : Bytes) (f : Framing)
    (hh : wireHost r = .ok host) (hf : framing r = .ok f) (hs : serializeH1 r = .ok wire)
    (hv : Valid r host f) (rest : Bytes) :
    parseRequestH1 (wire ++ rest) = some (view r host f, rest) := by
  -- shape of the serialisation
  unfold serializeH1 at hs
  simp only [hh, hf, bind, Except.bind] at hs
  split at hs
  · simp [throw, throwThe, MonadExceptOf.throw] at hs
  cases hb : bodyBytes r f with
  | error e => simp [hb] at hs
  | ok bw =>
    simp only [hb, pure, Except.pure, Except.ok.injEq] at hs
    subst hs
    have hline : ∀ b ∈ methodOrGet r.method ++ [32] ++ requestTarget r host ++ [32] ++ sHTTP11, b ≠ 13 := by
      intro b hb'
      simp only [List.mem_append, List.mem_singleton] at hb'
      rcases hb' with (((hb' | hb') | hb') | hb') | hb'
      · exact (hv.method_ok b hb').2
      · rw [hb']; decide
      · exact (hv.target_ok.2 b hb').2
      · rw [hb']; decide
      · revert b; decide
    have e : requestLine r (requestTarget r host) ++ renderFields (h1Fields r host f) ++ crlf ++ bw ++ rest =
        (methodOrGet r.method ++ [32] ++ requestTarget r host ++ [32] ++ sHTTP11) ++ 13 :: 10 ::
          (renderLines (linesOf (h1Fields r host f)) ++ crlf ++ (bw ++ rest)) := by
      simp [requestLine, renderFields_eq, crlf, List.append_assoc]
    unfold parseRequestH1
    rw [e, readLine_append _ _ [] hline]
    simp only [List.reverse_nil, List.nil_append]
    rw [parseRequestLine_render _ _ (methodOrGet_ne_nil _) hv.target_ok.1
      (fun b hb' => (hv.method_ok b hb').1) (fun b hb' => (hv.target_ok.2 b hb').1)]
    simp only
    rw [parseHeaders_render _ _ [] (h1Fields_lineok r host f (wireHost_no_cr r host hh) hv.ua_ok)]
    simp only [List.reverse_nil, List.nil_append]
    rw [framingOf_h1Fields r host f hv]
    obtain ⟨i1, i2, i3⟩ := framing_inv r f hf
    -- body
    unfold bodyBytes at hb
    by_cases hsb : f.sendBody = true
    · simp only [hsb, Bool.not_true, Bool.false_eq_true, if_false] at hb
      by_cases hch : f.chunked = true
      · simp only [hch, if_true, Except.ok.injEq] at hb
        subst hb
        have hcl := i2 hch
        have hsc : shouldSendContentLength (methodOrGet r.method) f = false := by
          unfold shouldSendContentLength; simp [hch]
        simp only [hsc, Bool.false_eq_true, if_false, hch, if_true]
        rw [decodeBody_chunked]
        simp [view, hsb]
      · have hch' : f.chunked = false := by simpa using hch
        simp only [hch', Bool.false_eq_true, if_false] at hb
        have hge : 0 ≤ f.cl := by
          rcases hv.framed hsb with h | h
          · rw [hch'] at h; exact absurd h (by simp)
          · exact h
        have hne1 : (f.cl == -1) = false := by
          simp only [beq_eq_false_iff_ne, ne_eq]; omega
        simp only [hne1, Bool.false_eq_true, if_false] at hb
        split at hb
        · exact absurd hb (by simp)
        next hlen =>
          simp only [Except.ok.injEq] at hb
          subst hb
          have hlen' : f.cl = (r.body.length : Int) := by simpa using hlen
          have hpos := i3 hsb hch' hge
          have hsc : shouldSendContentLength (methodOrGet r.method) f = true := by
            unfold shouldSendContentLength
            simp [hch', hpos]
          simp only [hsc, if_true]
          have : f.cl.toNat = r.body.length := by omega
          rw [this, decodeBody_length]
          simp [view, hsb]
    · have hsb' : f.sendBody = false := by simpa using hsb
      simp only [hsb', Bool.not_false, if_true, Except.ok.injEq] at hb
      subst hb
      obtain ⟨hc0, hcl0⟩ := i1 hsb'
      simp only [hc0, Bool.false_eq_true, if_false, List.nil_append]
      by_cases hsc : shouldSendContentLength (methodOrGet r.method) f = true
      · simp only [hsc, if_true, hcl0]
        simp [decodeBody, view, hsb']
      · have hsc' : shouldSendContentLength (methodOrGet r.method) f = false := by simpa using hsc
        simp only [hsc', Bool.false_eq_true, if_false]
        simp [decodeBody, view, hsb']

/-- non-vacuity: a POST with a chunked body (reads 2+3), a header value with surrounding spaces,
a pipelined tail. -/
example :
    let r : WReq := { method := [80, 79, 83, 84],
                      url := { scheme := [104], host := [104], path := [47, 97] },
                      header := [⟨[88, 45, 65], [[32, 118, 32]]⟩], hasBody := true,
                      body := [1, 2, 3, 4, 5], reads := [2] }
    (serializeH1 r).toOption.bind (fun w => parseRequestH1 (w ++ [71, 69, 84])) =
      some (view r [104] ⟨true, true, -1⟩, [71, 69, 84]) := by decide

/-- **no CR / LF injection through header values**: whatever bytes a caller (or the transport's
extra headers) supplies as a header value, the value written to the wire contains neither CR nor
LF — it cannot end the line it is on. -/
theorem header_value_no_crlf (v : Bytes) : ∀ b ∈ sanitizeValue v, b ≠ 13 ∧ b ≠ 10 :=
  sanitizeValue_no_crlf v

/-- **smuggling corollary**: a `Valid` request followed by ANY bytes is read as that one request
followed by exactly those bytes; in particular the serialisation itself (`rest = []`) is consumed
entirely — it contains no second request. -/
theorem h1_exactly_one_request (r : WReq) (wire host : Bytes) (f : Framing)
    (hh : wireHost r = .ok host) (hf : framing r = .ok f) (hs : serializeH1 r = .ok wire)
    (hv : Valid r host f) :
    parseRequestH1 wire = some (view r host f, []) := by
  have := h1_fidelity r wire host f hh hf hs hv []
  simpa using this

/-- **chunked body framing round trip** (any body, any sequence of read sizes, any tail). -/
theorem body_framing_chunked (body : Bytes) (reads : List Nat) (rest : Bytes) :
    decodeBody .chunked (chunkedBody body reads ++ rest) = some (body, rest) :=
  decodeBody_chunked body reads rest

/-- the chunks are exactly a split of the body: concatenated they give it back. -/
theorem body_framing_total (body : Bytes) (reads : List Nat) :
    (splitReads body reads).flatten = body ∧ ∀ p ∈ splitReads body reads, p ≠ [] :=
  splitReads_spec reads body

end H1

/-! ### the three protocols agree -/

section Cross
open Req.H1 Req.H2 Req.H1.Origin Req.Validate Req.HeaderSort Req.Ascii Req.Props.C16

/-- a caller header none of the three writers treats specially: valid field name, not in either
exclusion table (connection-specific / framing / bookkeeping names), not User-Agent, not Cookie. -/
def ordinaryKey (k : Bytes) : Bool :=
  validHeaderFieldName k && !reqWriteExcludeHeader.contains k && !isExcluded k &&
    !equalFold k sUserAgentL && !equalFold k sCookieL

theorem mem_wireOf {kvs : List KV} {kv : KV} {v : Bytes} (h : kv ∈ kvs) (hv : v ∈ kv.values) :
    (lower kv.key, v) ∈ wireOf kvs := by
  unfold wireOf
  exact List.mem_flatMap.mpr ⟨kv, h, List.mem_map.mpr ⟨v, hv, rfl⟩⟩

/-- **cross_protocol (header values)**: for the same `http.Request`, every value of every ordinary
caller header that passes `validateHeaders` is on the HTTP/1.1 wire (name in the caller's
spelling) AND in the HTTP/2 / HTTP/3 field list (name lower-cased, value verbatim), and an origin
that removes surrounding white space — as HTTP defines field values — reads the SAME value from
both. -/
theorem cross_protocol (fl : Flavor) (w : WReq) (q : FReq) (host1 : Bytes) (f : Framing)
    (fs : List (Bytes × Bytes)) (hq : q.header = w.header) (hfs : fields fl q = .ok fs)
    (kv : KV) (hkv : kv ∈ w.header) (hk : ordinaryKey kv.key = true)
    (v : Bytes) (hv : v ∈ kv.values) (hval : validHeaderFieldValue v = true) :
    (kv.key, sanitizeValue v) ∈ linesOf (h1Fields w host1 f) ∧ (lower kv.key, v) ∈ fs ∧
      trimOWS (sanitizeValue v) = trimOWS v := by
  unfold ordinaryKey at hk
  simp only [Bool.and_eq_true, Bool.not_eq_true'] at hk
  obtain ⟨⟨⟨⟨hname, hex1⟩, hex2⟩, hua⟩, hck⟩ := hk
  refine ⟨h1_noncanonical_spelling w host1 f kv hkv hex1 hname v hv, ?_, ?_⟩
  · obtain ⟨host, path, _, _, hperm⟩ := wire_set_h2 fl q fs hfs
    apply hperm.mem_iff.mpr
    apply List.mem_append.mpr
    right
    unfold baseRegular
    have e : ∀ a b : List KV, wireOf (a ++ b) = wireOf a ++ wireOf b := by
      intro a b; simp [wireOf]
    rw [e, e, e]
    simp only [List.mem_append]
    left; left; left
    rw [hq]
    unfold headerGroups wireOf
    apply List.mem_flatMap.mpr
    cases fl with
    | h2 =>
      refine ⟨kv, ?_, List.mem_map.mpr ⟨v, hv, rfl⟩⟩
      apply List.mem_flatMap.mpr
      refine ⟨kv, hkv, ?_⟩
      simp [hex2, hua, hck]
    | h3 =>
      refine ⟨⟨kv.key, [v]⟩, ?_, by simp⟩
      apply List.mem_flatMap.mpr
      refine ⟨kv, hkv, ?_⟩
      simp only [hex2, hua, Bool.false_eq_true, if_false]
      have : (Flavor.h3 == Flavor.h2) = false := by decide
      simp only [this, Bool.false_and, Bool.false_eq_true, if_false]
      simp only [beq_self_eq_true, if_true]
      exact List.mem_map.mpr ⟨v, hv, rfl⟩
  · rw [sanitizeValue_of_valid v hval, trimOWS_idem]

/-- non-vacuity: `X-A` is ordinary, `Connection` / `content-length` / `User-Agent` are not; an
HTTP/2 field list for a request carrying `X-A: " v "` exists. -/
example : ordinaryKey [88, 45, 65] = true ∧ ordinaryKey sConnection = false ∧
    ordinaryKey sContentLengthL = false ∧ ordinaryKey sUserAgent = false := by decide

example :
    let q : FReq := { method := [71, 69, 84],
                      url := { scheme := [104], host := [104], path := [47] },
                      header := [⟨[88, 45, 65], [[32, 118, 32]]⟩] }
    (fields .h2 q).toOption.map (·.length) = some 6 := by decide

theorem lower_pseudo : lower sPath = sPath ∧ lower sMethod = sMethod ∧ lower sAuthority = sAuthority := by
  decide

/-- **cross_protocol (request line)**: for the same `http.Request` (no proxy, not CONNECT, target
in origin form) the `:method` / `:path` pseudo fields of HTTP/2 and HTTP/3 carry exactly the
method and the request target of the HTTP/1.1 request line. (HTTP/3 sends the method as given; it
only differs from the other two for the empty method, which they read as GET.) -/
theorem cross_protocol_request_line (fl : Flavor) (w : WReq) (q : FReq) (host1 : Bytes)
    (fs : List (Bytes × Bytes)) (hm : q.method = w.method) (hu : q.url = w.url)
    (hnc : (w.method == sCONNECT) = false) (hnp : w.usingProxy = false)
    (hvp : validPseudoPath (requestURI w.url) = true) (hfs : fields fl q = .ok fs) :
    (sPath, requestTarget w host1) ∈ fs ∧
      (sMethod, if fl = .h2 then methodOrGet w.method else w.method) ∈ fs := by
  obtain ⟨host, path, _, hpath, hperm⟩ := wire_set_h2 fl q fs hfs
  have hp : path = requestURI w.url := by
    unfold fieldPath at hpath
    simp only [hm, hnc, Bool.false_eq_true, if_false, hu, hvp, if_true, Except.ok.injEq] at hpath
    exact hpath.symm
  have ht : requestTarget w host1 = requestURI w.url := by
    unfold requestTarget
    simp [hnp, hnc]
  obtain ⟨l1, l2, _⟩ := lower_pseudo
  constructor
  · apply hperm.mem_iff.mpr
    apply List.mem_append.mpr
    left
    rw [ht, ← hp, ← l1]
    apply mem_wireOf (kv := ⟨sPath, [path]⟩) _ (by simp)
    unfold basePseudo
    simp [hm, hnc]
  · apply hperm.mem_iff.mpr
    apply List.mem_append.mpr
    left
    rw [← l2]
    apply mem_wireOf (kv := ⟨sMethod, [if fl = .h2 then methodOrGet w.method else w.method]⟩) _ (by simp)
    unfold basePseudo
    cases fl <;> simp [hm]

end Cross

end Req.Props.C01
