import Req.C02.HpackTable
/-!
C02 round 7 — an origin that uses the HPACK table size the client announced is understood
(seed C02-r7-2).  Model: `Req/C02/HpackTable.lean`.  Tie: lane `h2recv`, class "SETTINGS this
end announces x what the origin's encoder makes of them" (the real `ClientConn` + `hpack.Decoder`
against a peer whose encoder adopts the announced size / a smaller one and emits the size
update; the response must equal the frame-script model's, which does not know the setting).
-/
namespace Req.C02.HpackTable

theorem total_keep_le (max : Nat) (l : List Nat) : total (keep max l) ≤ max := by
  induction l generalizing max with
  | nil => simp [keep, total]
  | cons e r ih =>
    unfold keep
    by_cases h : e ≤ max
    · simp only [h, if_true, total]
      have := ih (max - e)
      omega
    · simp [h, total]

/-- The Go loop (left fold) and the origin's in-order reading of the frame agree, from any
starting value. -/
theorem foldl_eq_peerLimit (cur : Nat) (settings : List (Nat × Nat)) :
    settings.foldl (fun acc s => if s.1 = idHeaderTableSize then s.2 else acc) cur
      = peerLimit cur settings := by
  induction settings generalizing cur with
  | nil => rfl
  | cons s r ih => simp only [List.foldl, peerLimit]; exact ih _

/-- What the decoder allows is exactly what the origin was told. -/
theorem allowed_eq_announced (settings : List (Nat × Nat)) :
    (clientDecoder settings).allowedMax = peerLimit defaultTableSize settings := by
  simp [clientDecoder, newDecoder, announcedTableSize, foldl_eq_peerLimit]

/-- Table invariant: the entries fit the current limit, which is within the allowed one. -/
def Inv (limit : Nat) (d : DynTab) : Prop :=
  d.allowedMax = limit ∧ d.maxSize ≤ limit ∧ total d.entries ≤ d.maxSize

theorem inv_clientDecoder (settings : List (Nat × Nat)) :
    Inv (peerLimit defaultTableSize settings) (clientDecoder settings) := by
  refine ⟨allowed_eq_announced settings, ?_, ?_⟩
  · simp [clientDecoder, newDecoder, announcedTableSize, foldl_eq_peerLimit]
  · simp [clientDecoder, newDecoder, total]

theorem step_inv {limit : Nat} {d : DynTab} (hd : Inv limit d) (o : Op)
    (ho : compliant limit [o]) : ∃ d', step d o = some d' ∧ Inv limit d' := by
  obtain ⟨ha, hm, ht⟩ := hd
  cases o with
  | update sz =>
    have hsz : sz ≤ limit := ho.1
    refine ⟨d.setMaxSize sz, ?_, ?_⟩
    · simp only [step, DynTab.sizeUpdate, Bool.not_true, Bool.false_and]
      have : ¬ sz > d.allowedMax := by omega
      simp [this]
    · exact ⟨ha, hsz, total_keep_le _ _⟩
  | insert e =>
    exact ⟨d.insert e, rfl, ha, hm, total_keep_le _ _⟩

/-- MAIN (unbounded): on a connection whose client announced ANY settings list, EVERY sequence of
table operations of an origin that stays within the announced HEADER_TABLE_SIZE (size updates at
block starts to any value up to it — in particular the announced value itself, as nginx / h2o /
envoy do —, insertions of any size, in any order and number) is accepted by the decoder
`newClientConn` built: no COMPRESSION_ERROR, and the table invariant holds at the end. -/
theorem compliant_origin_accepted (settings : List (Nat × Nat)) (ops : List Op)
    (h : compliant (peerLimit defaultTableSize settings) ops) :
    ∃ d, run (clientDecoder settings) ops = some d ∧ Inv (peerLimit defaultTableSize settings) d := by
  suffices H : ∀ (limit : Nat) (ops : List Op) (d0 : DynTab), Inv limit d0 → compliant limit ops →
      ∃ d, run d0 ops = some d ∧ Inv limit d from
    H _ ops _ (inv_clientDecoder settings) h
  intro limit ops
  induction ops with
  | nil => intro d0 h0 _; exact ⟨d0, rfl, h0⟩
  | cons o r ih =>
    intro d0 h0 hc
    have ho : compliant limit [o] := by
      cases o with
      | update sz => exact ⟨hc.1, trivial⟩
      | insert e => trivial
    have hr : compliant limit r := by
      cases o with
      | update sz => exact hc.2
      | insert e => exact hc
    obtain ⟨d1, hs, h1⟩ := step_inv h0 o ho
    obtain ⟨d, hrun, hd⟩ := ih d1 h1 hr
    exact ⟨d, by simp [run, hs, hrun], hd⟩

/-- Why the allowed maximum is part of the model: the seeded construction (default decoder,
then `SetMaxDynamicTableSize`) announces 65536 and refuses the origin's very first size update
to it. -/
theorem resizeOnly_refuses_announced :
    run (clientDecoderResizeOnly [(idHeaderTableSize, 65536)]) [.update 65536] = none := by
  decide

end Req.C02.HpackTable
