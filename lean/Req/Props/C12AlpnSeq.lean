import Req.Pool.AlpnSeq
/-!
# C12 — offering is a function of (mode, configured NextProtos) and never mutates configuration

Over every sequence of setters, mode switches, clones and requests (`Req.Pool.Alpn.arun`, at
the level of slice headers and shared backing arrays). Tied to the code by lane `c12alpnseq`
(one family of real clients through such a sequence; every request dials; ClientHello ALPN
list captured at the origin, version judged by what was negotiated).
-/
namespace Req.Props.C12
open Req.Pool.Alpn Req.Pool.Dispatch

/-- One connection: the arrays are what they were, the list offered is `Dispatch.offered` of
the member's mode and configured list. -/
theorem connect_pure (arrays : List (List Alpn)) (m : Member) (h1 : Bool) :
    connect .assignNil arrays m h1 = (arrays, offered (cfgOf arrays m) ⟨.https, h1⟩) := by
  unfold connect offered cfgOf
  cases hf : m.force with
  | none => cases h1 <;> simp [restrictH1]
  | some v => cases v <;> cases h1 <;> simp [restrictH1]

/-- **`alpn_offer_pure`.** For every sequence of `SetTLSClientConfig`, force / un-force,
`EnableHTTP3`, `Clone`, switching between the clients of the family and requests (plain or
HTTP/1.1-only): the final configuration of EVERY member and all backing arrays are exactly what
the setters alone produce — requests do not count — and every request offers
`Dispatch.offered (mode at that moment, NextProtos configured at that moment)`. -/
theorem alpn_offer_pure (ops : List AOp) (w : World) :
    arun .assignNil w ops = specRun w ops := by
  induction ops generalizing w with
  | nil => rfl
  | cons op rest ih =>
    cases op with
    | request h1 =>
      simp only [arun, specRun, astep]
      cases hm : w.members[w.cur]? with
      | none => simp [ih]
      | some m =>
        simp only [connect_pure]
        simp [ih]
    | setProtos l => cases l <;> simp [arun, specRun, astep, ih]
    | force f => simp [arun, specRun, astep, ih]
    | enableH3 => simp [arun, specRun, astep, ih]
    | fork =>
      have : (astep .assignNil w .fork).2 = none := by
        simp only [astep]; cases w.members[w.cur]? <;> rfl
      simp [arun, specRun, ih, this]
    | switch k =>
      have : (astep .assignNil w (.switch k)).2 = none := rfl
      simp [arun, specRun, ih, this]

/-- Requests can be deleted from a sequence without changing where the family ends up. -/
theorem requests_leave_configuration (ops : List AOp) (w : World) :
    (arun .assignNil w ops).1 = (arun .assignNil w (ops.filter (!isRequest ·))).1 := by
  induction ops generalizing w with
  | nil => rfl
  | cons op rest ih =>
    cases op with
    | request h1 =>
      have hstep : (astep .assignNil w (.request h1)).1 = w := by
        simp only [astep]
        cases hm : w.members[w.cur]? with
        | none => rfl
        | some m => simp [connect_pure]
      have hf : (AOp.request h1 :: rest).filter (!isRequest ·) = rest.filter (!isRequest ·) := by
        simp [isRequest]
      rw [hf]; simp only [arun]; rw [hstep]; exact ih w
    | setProtos l =>
      have hf : (AOp.setProtos l :: rest).filter (!isRequest ·) = .setProtos l :: rest.filter (!isRequest ·) := by
        simp [isRequest]
      rw [hf]; simp only [arun]; exact ih _
    | force f =>
      have hf : (AOp.force f :: rest).filter (!isRequest ·) = .force f :: rest.filter (!isRequest ·) := by
        simp [isRequest]
      rw [hf]; simp only [arun]; exact ih _
    | enableH3 =>
      have hf : (AOp.enableH3 :: rest).filter (!isRequest ·) = .enableH3 :: rest.filter (!isRequest ·) := by
        simp [isRequest]
      rw [hf]; simp only [arun]; exact ih _
    | fork =>
      have hf : (AOp.fork :: rest).filter (!isRequest ·) = .fork :: rest.filter (!isRequest ·) := by
        simp [isRequest]
      rw [hf]; simp only [arun]; exact ih _
    | switch k =>
      have hf : (AOp.switch k :: rest).filter (!isRequest ·) = .switch k :: rest.filter (!isRequest ·) := by
        simp [isRequest]
      rw [hf]; simp only [arun]; exact ih _

/-- **Mode switch judged by what is offered.** Force HTTP/1.1, request, un-force, request:
the second request offers the configured list again, `h2` included. -/
theorem unforce_offers_configured_list (l : List Alpn) (w : World) (m : Member)
    (hm : w.members[w.cur]? = some m) :
    (arun .assignNil w [.setProtos (some l), .force (some .h1), .request false, .force none, .request false]).2
      = [[], l] := by
  rw [alpn_offer_pure]
  have hlt : w.cur < w.members.length := by
    rcases Nat.lt_or_ge w.cur w.members.length with h | h
    · exact h
    · rw [List.getElem?_eq_none h] at hm; cases hm
  simp [specRun, astep, setCur, hlt, offered, cfgOf, readSlice]

example : (arun .assignNil World.init
    [.setProtos (some [.h2, .http11]), .fork, .switch 1, .force (some .h1), .request false, .switch 0, .request false]).2
    = [[], [.h2, .http11]] := by decide

/-- **Necessity.** Removing `h2` in place through the shared array: after one forced-HTTP/1.1
connection the same client, un-forced, no longer offers `h2` — and neither does the ORIGINAL
of a clone that was forced (seed C12-r5-1). -/
theorem in_place_filter_corrupts_offer :
    (arun .filterInPlace World.init
      [.setProtos (some [.h2, .http11]), .force (some .h1), .request false, .force none, .request false]).2
      = [[.http11], [.http11, .http11]]
    ∧ (arun .filterInPlace World.init
      [.setProtos (some [.h2, .http11]), .fork, .switch 1, .force (some .h1), .request false, .switch 0, .request false]).2
      = [[.http11], [.http11, .http11]] := by
  decide

end Req.Props.C12
