import Req.H2.HeaderBlock
/-!
C16 on HTTP/2, the last step before the wire: the encoded header block (the header SET of the
request) is cut into HEADERS + CONTINUATION frames by `ClientConn.writeHeaders`. The set reaches
the peer only if the frames reassemble to the block and the LAST one — and only the last one —
carries END_HEADERS; otherwise the peer waits for a CONTINUATION forever and every header of the
request is lost. Stated for every block, every peer frame size above the 5 priority octets,
with and without a HEADERS priority — in particular for blocks of exactly k × MAX_FRAME_SIZE
(− 5) bytes.
-/
namespace Req.Props.C16Frames
open Req.Proto Req.H2.HeaderBlock

theorem splitFrom_nil (fuel : Nat) (first es prio : Bool) (m : Nat) :
    splitFrom fuel first es prio m [] = [] := by
  cases fuel <;> simp [splitFrom]

theorem limit_pos (first prio : Bool) {m : Nat} (hm : 5 < m) : 0 < limit first prio m := by
  unfold limit; split <;> omega

theorem limit_le (first prio : Bool) (m : Nat) : limit first prio m ≤ m := by
  unfold limit; split <;> omega

/-- the fragments, concatenated in frame order, are the block: nothing added, dropped, duplicated
or reordered. -/
theorem splitFrom_reassemble (es prio : Bool) {m : Nat} (hm : 5 < m) :
    ∀ (fuel : Nat) (first : Bool) (b : Bytes), b.length ≤ fuel →
      (splitFrom fuel first es prio m b).flatMap (·.frag) = b := by
  intro fuel
  induction fuel with
  | zero =>
    intro first b hb
    have : b = [] := List.length_eq_zero_iff.mp (Nat.le_zero.mp hb)
    subst this; simp [splitFrom]
  | succ fuel ih =>
    intro first b hb
    unfold splitFrom
    by_cases he : b.isEmpty
    · have : b = [] := List.isEmpty_iff.mp he
      subst this; simp
    · simp only [he, Bool.false_eq_true, if_false]
      have hpos := limit_pos first prio hm
      have hne : b ≠ [] := fun h => he (List.isEmpty_iff.mpr h)
      have hlen : 0 < b.length := List.length_pos_iff.mpr hne
      have hrest : (b.drop (limit first prio m)).length ≤ fuel := by
        rw [List.length_drop]; omega
      rw [List.flatMap_cons, ih false _ hrest]
      cases first <;> simp [List.take_append_drop]

theorem frames_reassemble (es prio : Bool) {m : Nat} (hm : 5 < m) (b : Bytes) :
    (writeHeaders es prio m b).flatMap (·.frag) = b :=
  splitFrom_reassemble es prio hm b.length true b (Nat.le_refl _)

example : (writeHeaders true true 8 [1, 2, 3, 4, 5, 6, 7, 8, 9, 10, 11]).map (·.frag) =
    [[1, 2, 3], [4, 5, 6, 7, 8, 9, 10, 11]] := by decide

/-- CONTINUATION frames finish an open block: whatever the peer has accumulated, after the
remaining frames it has been handed `acc ++ b`. -/
theorem receive_cont (es es' prio : Bool) {m : Nat} (hm : 0 < m) :
    ∀ (fuel : Nat) (b acc : Bytes), b.length ≤ fuel → b ≠ [] →
      (splitFrom fuel false es' prio m b).foldl (recvStep m) (.waiting acc es) =
        .delivered (acc ++ b) es := by
  intro fuel
  induction fuel with
  | zero =>
    intro b acc hb hne
    exact absurd (List.length_eq_zero_iff.mp (Nat.le_zero.mp hb)) hne
  | succ fuel ih =>
    intro b acc hb hne
    have he : b.isEmpty = false := by
      cases b with
      | nil => exact absurd rfl hne
      | cons _ _ => rfl
    have hlen : 0 < b.length := List.length_pos_iff.mpr hne
    unfold splitFrom
    simp only [he, Bool.false_eq_true, if_false]
    have hlim : limit false prio m = m := by simp [limit]
    rw [hlim, List.foldl_cons]
    have hfit : ¬ (List.take m b).length > m := by
      rw [List.length_take]; omega
    by_cases hr : (b.drop m).isEmpty
    · have hr' : b.drop m = [] := List.isEmpty_iff.mp hr
      have htake : b.take m = b := by
        have := List.take_append_drop m b
        rw [hr', List.append_nil] at this; exact this
      simp [recvStep, payloadLen, hr', splitFrom_nil, htake]
      rw [htake] at hfit; omega
    · have hr' : b.drop m ≠ [] := fun h => hr (List.isEmpty_iff.mpr h)
      have hrest : (b.drop m).length ≤ fuel := by rw [List.length_drop]; omega
      have hstep : recvStep m (.waiting acc es) ⟨true, (b.drop m).isEmpty, false, false, b.take m⟩ =
          .waiting (acc ++ b.take m) es := by
        simp [recvStep, payloadLen, hr]
        omega
      rw [hstep, ih (b.drop m) (acc ++ b.take m) hrest hr', List.append_assoc,
        List.take_append_drop]

/-- **The header block is delivered.** For every non-empty block, every peer frame size and with
or without a HEADERS priority, a peer that enforces its frame size limit and the CONTINUATION
discipline ends up with exactly the block (and the END_STREAM flag) — it is never left waiting
for a CONTINUATION and never sees a frame that is too large or out of place. -/
theorem block_delivered (es prio : Bool) {m : Nat} (hm : 5 < m) (b : Bytes) (hne : b ≠ []) :
    receive m (writeHeaders es prio m b) = .delivered b es := by
  unfold receive writeHeaders
  have he : b.isEmpty = false := by
    cases b with
    | nil => exact absurd rfl hne
    | cons _ _ => rfl
  have hlen : 0 < b.length := List.length_pos_iff.mpr hne
  obtain ⟨n, hn⟩ : ∃ n, b.length = n + 1 := ⟨b.length - 1, by omega⟩
  rw [hn]
  unfold splitFrom
  simp only [he, Bool.false_eq_true, if_false, if_true]
  rw [List.foldl_cons]
  have hpos := limit_pos true prio hm
  have hle := limit_le true prio m
  generalize hl : limit true prio m = lim at hpos hle
  have hpay : ¬ (b.take lim).length + (if prio then 5 else 0) > m := by
    rw [List.length_take]
    cases prio
    · simp; omega
    · simp [limit] at hl; simp; omega
  by_cases hr : (b.drop lim).isEmpty
  · have hr' : b.drop lim = [] := List.isEmpty_iff.mp hr
    have htake : b.take lim = b := by
      have := List.take_append_drop lim b
      rw [hr', List.append_nil] at this; exact this
    rw [htake] at hpay
    simp [recvStep, payloadLen, hr', splitFrom_nil, htake, hpay]
  · have hr' : b.drop lim ≠ [] := fun h => hr (List.isEmpty_iff.mpr h)
    have hrest : (b.drop lim).length ≤ n := by rw [List.length_drop]; omega
    have hstep : recvStep m .idle ⟨false, (b.drop lim).isEmpty, es, prio, b.take lim⟩ =
        .waiting (b.take lim) es := by
      simp only [recvStep, payloadLen, Bool.false_or, decide_eq_true_eq, hpay, if_false, hr,
        Bool.false_eq_true]
    rw [hstep, receive_cont es es prio (by omega) n (b.drop lim) (b.take lim) hrest hr',
      List.take_append_drop]

/-- the block fills the frame(s) EXACTLY (16 = 2 × 8 bytes, and 3 + 8 with a priority): delivered. -/
example : receive 8 (writeHeaders false false 8 (List.replicate 16 7)) =
    .delivered (List.replicate 16 7) false := by decide
example : receive 8 (writeHeaders true true 8 (List.replicate 11 7)) =
    .delivered (List.replicate 11 7) true := by decide
/-- a writer that left END_HEADERS off the last frame would leave the peer waiting: the
statement is not vacuous. -/
example : receive 8 [⟨false, false, false, false, [1, 2, 3, 4, 5, 6, 7, 8]⟩] =
    .waiting [1, 2, 3, 4, 5, 6, 7, 8] false := by decide

/-- END_HEADERS sits on the last frame and on no other; every frame is non-empty and fits the
peer's frame size; the first frame is the HEADERS frame (with the END_STREAM flag and priority
as asked), all others are CONTINUATION frames without them. -/
def WellFormed (m : Nat) (es prio : Bool) : Bool → List HFrame → Prop
  | _, [] => True
  | first, f :: rest =>
    f.frag ≠ [] ∧ payloadLen f ≤ m ∧ f.cont = !first ∧
    f.endStream = (first && es) ∧ f.prio = (first && prio) ∧
    (f.endHeaders = true ↔ rest = []) ∧ WellFormed m es prio false rest

theorem splitFrom_wellFormed (es prio : Bool) {m : Nat} (hm : 5 < m) :
    ∀ (fuel : Nat) (first : Bool) (b : Bytes), b.length ≤ fuel →
      WellFormed m es prio first (splitFrom fuel first es prio m b) := by
  intro fuel
  induction fuel with
  | zero => intro first b _; simp [splitFrom, WellFormed]
  | succ fuel ih =>
    intro first b hb
    unfold splitFrom
    by_cases he : b.isEmpty
    · simp [he, WellFormed]
    · simp only [he, Bool.false_eq_true, if_false]
      have hne : b ≠ [] := fun h => he (List.isEmpty_iff.mpr h)
      have hlen : 0 < b.length := List.length_pos_iff.mpr hne
      have hpos := limit_pos first prio hm
      have hle := limit_le first prio m
      have hrest : (b.drop (limit first prio m)).length ≤ fuel := by
        rw [List.length_drop]; omega
      have ihr := ih false _ hrest
      have htl : splitFrom fuel false es prio m (b.drop (limit first prio m)) = [] ↔
          (b.drop (limit first prio m)).isEmpty = true := by
        constructor
        · intro h
          by_cases hr : (b.drop (limit first prio m)).isEmpty
          · exact hr
          · exfalso
            have hr' : b.drop (limit first prio m) ≠ [] := fun h => hr (List.isEmpty_iff.mpr h)
            have hl2 : 0 < (b.drop (limit first prio m)).length := List.length_pos_iff.mpr hr'
            obtain ⟨k, hk⟩ : ∃ k, fuel = k + 1 := ⟨fuel - 1, by omega⟩
            rw [hk] at h
            unfold splitFrom at h
            simp [hr] at h
        · intro h
          rw [List.isEmpty_iff.mp h]; exact splitFrom_nil ..
      have htake : b.take (limit first prio m) ≠ [] := by
        intro h
        have h2 : (b.take (limit first prio m)).length = 0 := by rw [h]; rfl
        rw [List.length_take] at h2
        omega
      cases first
      · refine ⟨htake, ?_, rfl, by simp, by simp, ?_, ihr⟩
        · simp [payloadLen, List.length_take]; omega
        · simpa using htl.symm
      · refine ⟨htake, ?_, rfl, by simp, by simp, ?_, ihr⟩
        · simp only [payloadLen]
          cases prio
          · simp; omega
          · simp [limit] at hle hpos ⊢; omega
        · simpa using htl.symm

theorem frames_wellFormed (es prio : Bool) {m : Nat} (hm : 5 < m) (b : Bytes) :
    WellFormed m es prio true (writeHeaders es prio m b) :=
  splitFrom_wellFormed es prio hm b.length true b (Nat.le_refl _)

example : (writeHeaders true true 8 (List.replicate 19 0)).map
      (fun f => (f.cont, f.endHeaders, f.endStream, f.prio, f.frag.length)) =
    [(false, false, true, true, 3), (true, false, false, false, 8), (true, true, false, false, 8)] := by
  decide

/-- number of CONTINUATION-style pieces of `b`: ⌈|b| / m⌉. -/
theorem splitFrom_cont_count (es prio : Bool) {m : Nat} (hm : 0 < m) :
    ∀ (fuel : Nat) (b : Bytes), b.length ≤ fuel →
      (splitFrom fuel false es prio m b).length = (b.length + m - 1) / m := by
  intro fuel
  induction fuel with
  | zero =>
    intro b hb
    have : b = [] := List.length_eq_zero_iff.mp (Nat.le_zero.mp hb)
    subst this
    simp [splitFrom]
    exact (Nat.div_eq_of_lt (by omega)).symm
  | succ fuel ih =>
    intro b hb
    unfold splitFrom
    by_cases he : b.isEmpty
    · have : b = [] := List.isEmpty_iff.mp he
      subst this
      simp
      exact (Nat.div_eq_of_lt (by omega)).symm
    · simp only [he, Bool.false_eq_true, if_false]
      have hne : b ≠ [] := fun h => he (List.isEmpty_iff.mpr h)
      have hlen : 0 < b.length := List.length_pos_iff.mpr hne
      have hlim : limit false prio m = m := by simp [limit]
      rw [hlim]
      have hrest : (b.drop m).length ≤ fuel := by rw [List.length_drop]; omega
      rw [List.length_cons, ih _ hrest, List.length_drop]
      by_cases hle : b.length ≤ m
      · have h1 : b.length - m = 0 := by omega
        rw [h1, Nat.zero_add, Nat.div_eq_of_lt (by omega)]
        have h2 : b.length + m - 1 = (b.length - 1) + m := by omega
        rw [h2, Nat.add_div_right _ hm, Nat.div_eq_of_lt (by omega)]
      · have h2 : b.length + m - 1 = (b.length - m + m - 1) + m := by omega
        rw [h2, Nat.add_div_right _ hm]

theorem count_arith (n m p : Nat) (hp : p < m) (hn : 0 < n) :
    (n - (m - p) + m - 1) / m + 1 = (n + p + m - 1) / m := by
  have hm : 0 < m := by omega
  have h2 : n + p + m - 1 = (n + p - 1) + m := by omega
  rw [h2, Nat.add_div_right _ hm]
  by_cases hle : n ≤ m - p
  · have h1 : n - (m - p) + m - 1 = m - 1 := by omega
    rw [h1, Nat.div_eq_of_lt (by omega), Nat.div_eq_of_lt (by omega)]
  · have h1 : n - (m - p) + m - 1 = n + p - 1 := by omega
    rw [h1]

/-- **Frame count**: a (non-empty) block of `n` bytes goes out in ⌈(n + p) / m⌉ frames, `p` = 5
with a HEADERS priority and 0 without: one frame up to `m − p` bytes, two up to `2m − p`, … —
the boundaries `k·m − p` are where the last frame is exactly full. -/
theorem frames_count (es prio : Bool) {m : Nat} (hm : 5 < m) (b : Bytes) (hne : b ≠ []) :
    (writeHeaders es prio m b).length = (b.length + (if prio then 5 else 0) + m - 1) / m := by
  unfold writeHeaders
  have hlen : 0 < b.length := List.length_pos_iff.mpr hne
  obtain ⟨n, hn⟩ : ∃ n, b.length = n + 1 := ⟨b.length - 1, by omega⟩
  have he : b.isEmpty = false := by
    cases b with
    | nil => exact absurd rfl hne
    | cons _ _ => rfl
  rw [hn]
  unfold splitFrom
  simp only [he, Bool.false_eq_true, if_false, if_true]
  have hpos := limit_pos true prio hm
  have hrest : (b.drop (limit true prio m)).length ≤ n := by
    rw [List.length_drop]; omega
  rw [List.length_cons, splitFrom_cont_count es prio (by omega) _ _ hrest, List.length_drop, hn]
  cases prio
  · have := count_arith (n + 1) m 0 (by omega) (by omega)
    simpa [limit] using this
  · have := count_arith (n + 1) m 5 (by omega) (by omega)
    simpa [limit] using this

example : (writeHeaders false false 8 (List.replicate 16 0)).length = 2 := by decide
example : (writeHeaders false false 8 (List.replicate 17 0)).length = 3 := by decide
example : (writeHeaders false true 8 (List.replicate 11 0)).length = 2 := by decide
example : (writeHeaders false true 8 (List.replicate 12 0)).length = 3 := by decide

/-- an empty block writes nothing (the Go loop body never runs); `encodeHeaders` never produces
one (the pseudo fields are always there). -/
theorem empty_block (es prio : Bool) (m : Nat) : writeHeaders es prio m [] = [] := rfl

end Req.Props.C16Frames
