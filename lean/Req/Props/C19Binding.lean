import Req.Client.Scope
import Req.Lemmas.C19Scope
import Req.Lemmas.C19Binding
import Req.Props.C19
/-!
# C19 — "client-level settings apply to every later request": later = EXECUTED later

What the code does, per family of settings (round-4 direction (c)):

* merged at EXECUTION time (the middleware `parseRequestHeader` / `Cookie` / `URL` / `Body`, the
  middleware and wrapper chains, dump, every scalar transport / client setting): headers, cookies,
  path / query / form parameters, before / after middleware, round-trip wrappers, dump options, base
  URL, timeouts, … — a client-level setter reaches every request EXECUTED afterwards, whether the
  request was created (`c.R()`) before or after the setter;
* copied at `R()` time: the retry option (`retryOption: c.retryOption.Clone()` in `Client.R`) — a
  client-level retry setter reaches only requests CREATED afterwards.

Theorems on the value model (`Scope`):

* `created_before_or_after_alike` — for EVERY client-level setter outside the retry family:
  `R()` then the setter, or the setter then `R()`, end in the same request record and the same
  client record; `late_binding_observation`: hence every execution is observed identically.
  (Generalises `client_scope` from `SetCommonHeader` to the whole API.)
* `retry_bound_at_R` — no client-level setter whatsoever changes the retry options an EXISTING
  request runs with; `retry_count_needs_a_new_request` — and `SetCommonRetryCount n` shows the
  divergence: the request created before keeps the old count, the one created after has `n`.

The divergence between the families is what the code does (and what lane `prog` checks on real
clients: its programs set client-level settings between `R()` and the execution); it is recorded
in notes/C19.md as an observation, not a finding.
-/
namespace Req.Props.C19Binding
open Req.Scope

/-- the request record `R()` makes from client record `w` of client `c` -/
def requestOf (c : Nat) (w : VOwner) : VOwner :=
  [Prim.set 0 F.dumpReqH 0 [1], .set 0 F.dumpReqB 0 [1], .set 0 F.dumpRespH 0 [1], .set 0 F.dumpRespB 0 [1]].foldl
    stepOwner ⟨some c, deriveVal idealReq w⟩

/-- state after `R()` on client `c` -/
theorem newReq_spec (s : VState) (c : Nat) (hc : c < s.count) :
    (stepOp idealClone idealReq s (.newReq c)).count = s.count + 1 ∧
    (stepOp idealClone idealReq s (.newReq c)).owner s.count = requestOf c (s.owner c) ∧
    (∀ b, b < s.count → (stepOp idealClone idealReq s (.newReq c)).owner b = s.owner b) := by
  have hobs : observe s (.newReq c) ≠ .err := by simp [observe]
  have hrun : stepOp idealClone idealReq s (.newReq c) =
      runV (stepV s (.derive c idealReq true))
        [.set s.count F.dumpReqH 0 [1], .set s.count F.dumpReqB 0 [1], .set s.count F.dumpRespH 0 [1],
         .set s.count F.dumpRespB 0 [1]] := by
    simp [stepOp, hobs, compile, hc, runV]
  obtain ⟨hc1, ho1⟩ := derive_new s c hc idealReq true
  have hloc := runV_local s.count
    [.set s.count F.dumpReqH 0 [1], .set s.count F.dumpReqB 0 [1], .set s.count F.dumpRespH 0 [1],
     .set s.count F.dumpRespB 0 [1]] (stepV s (.derive c idealReq true)) (by omega)
    (by intro p hp; simp at hp; rcases hp with rfl | rfl | rfl | rfl <;> rfl)
  refine ⟨by rw [hrun, hloc.2, hc1], ?_, ?_⟩
  · rw [hrun, hloc.1, ho1]
    rfl
  · intro b hb
    rw [hrun]
    have h1 : (stepV s (.derive c idealReq true)).owner b = s.owner b :=
      stepV_frame s _ b hb (by simp [primTarget])
    rw [← h1]
    apply runV_frame b _ _ (by omega)
    intro p hp
    simp at hp
    rcases hp with rfl | rfl | rfl | rfl <;> simp [isJarStore, staticTarget, Nat.ne_of_gt hb]

/-- state after a setter on client `c` -/
theorem set_spec (s : VState) (c : Nat) (hc : c < s.count) (st : Setter) :
    (stepOp idealClone idealReq s (.set c st)).count = s.count ∧
    (stepOp idealClone idealReq s (.set c st)).owner c = (st.prims c).foldl stepOwner (s.owner c) ∧
    (∀ b, b < s.count → b ≠ c → (stepOp idealClone idealReq s (.set c st)).owner b = s.owner b) := by
  have hobs : observe s (.set c st) ≠ .err := by simp [observe]
  have hrun : stepOp idealClone idealReq s (.set c st) = runV s (st.prims c) := by
    simp [stepOp, hobs, compile]
  have htg : ∀ p ∈ st.prims c, staticTarget p = some c := by
    intro p hp
    have := setter_targets c st
    rw [List.all_eq_true] at this
    have := this p hp
    simp only [Bool.and_eq_true, Bool.not_eq_true', beq_iff_eq] at this
    exact this.2
  obtain ⟨h1, h2⟩ := runV_local c (st.prims c) s hc htg
  refine ⟨by rw [hrun, h2], by rw [hrun, h1], ?_⟩
  intro b hb hne
  exact Req.Props.C19.request_scope_setter idealClone idealReq s c st b hb hne

/-- **Created before or after the setter — no difference.** For every client-level setter outside
the retry family: `R()` then the setter, and the setter then `R()`, end with the same number of
records, the same client record and the same request record. -/
theorem created_before_or_after_alike (s : VState) (c : Nat) (hc : c < s.count) (st : Setter)
    (hst : st.retryFamily = false) :
    let sA := stepOp idealClone idealReq (stepOp idealClone idealReq s (.newReq c)) (.set c st)
    let sB := stepOp idealClone idealReq (stepOp idealClone idealReq s (.set c st)) (.newReq c)
    sA.count = sB.count ∧ sA.owner c = sB.owner c ∧ sA.owner s.count = sB.owner s.count := by
  intro sA sB
  obtain ⟨hn1, hn2, hn3⟩ := newReq_spec s c hc
  obtain ⟨hs1, hs2, hs3⟩ := set_spec (stepOp idealClone idealReq s (.newReq c)) c (by omega) st
  obtain ⟨ht1, ht2, _⟩ := set_spec s c hc st
  obtain ⟨hm1, hm2, hm3⟩ := newReq_spec (stepOp idealClone idealReq s (.set c st)) c (by omega)
  refine ⟨?_, ?_, ?_⟩
  · show (stepOp _ _ (stepOp _ _ s (.newReq c)) (.set c st)).count = (stepOp _ _ (stepOp _ _ s (.set c st)) (.newReq c)).count
    rw [hs1, hn1, hm1, ht1]
  · show (stepOp _ _ (stepOp _ _ s (.newReq c)) (.set c st)).owner c = (stepOp _ _ (stepOp _ _ s (.set c st)) (.newReq c)).owner c
    rw [hs2, hn3 c hc, hm3 c (by omega), ht2]
  · show (stepOp _ _ (stepOp _ _ s (.newReq c)) (.set c st)).owner s.count =
      (stepOp _ _ (stepOp _ _ s (.set c st)) (.newReq c)).owner s.count
    rw [hs3 s.count (by omega) (by omega), hn2]
    have : (stepOp idealClone idealReq s (.set c st)).count = s.count := ht1
    rw [← this, hm2, ht2]
    -- the request made from the updated client record = the request made from the old one
    unfold requestOf
    congr 1
    have hval : ∀ f, deriveVal idealReq ((st.prims c).foldl stepOwner (s.owner c)) f = deriveVal idealReq (s.owner c) f := by
      intro f
      unfold deriveVal
      by_cases hr : isRetryField f = true
      · have hnot : ∀ p ∈ st.prims c, f ∉ p.fields := by
          intro p hp hf
          have := nonRetry_fields c st hst p hp f hf
          rw [hr] at this; exact absurd this (by simp)
        rw [foldl_stepOwner_val_other f _ _ hnot]
      · have : idealReq f = .absent := by
          simp only [isRetryField, Bool.or_eq_true, beq_iff_eq, not_or] at hr
          simp [idealReq, hr.1.1.1, hr.1.1.2, hr.1.2, hr.2]
        simp [this]
    have : deriveVal idealReq ((st.prims c).foldl stepOwner (s.owner c)) = deriveVal idealReq (s.owner c) := funext hval
    rw [this]

/-- … hence every execution of that request is observed identically (what the origin receives,
attempts, middleware / wrapper / retry log, dump routing). -/
theorem late_binding_observation (s : VState) (c : Nat) (hc : c < s.count) (st : Setter)
    (hst : st.retryFamily = false) (m md : Nat) (path : List Seg) (sc : Nat) :
    observe (stepOp idealClone idealReq (stepOp idealClone idealReq s (.newReq c)) (.set c st)) (.exec s.count m md path sc) =
    observe (stepOp idealClone idealReq (stepOp idealClone idealReq s (.set c st)) (.newReq c)) (.exec s.count m md path sc) := by
  obtain ⟨h1, h2, h3⟩ := created_before_or_after_alike s c hc st hst
  have hpar : ((stepOp idealClone idealReq (stepOp idealClone idealReq s (.set c st)) (.newReq c)).owner s.count).parent = some c := by
    obtain ⟨ht1, _, _⟩ := set_spec s c hc st
    obtain ⟨_, hm2, _⟩ := newReq_spec (stepOp idealClone idealReq s (.set c st)) c (by omega)
    rw [← ht1, hm2]
    rfl
  simp only [observe, h1, h3, hpar, h2]

/-- **The retry option is bound at `R()`.** Whatever client-level setter is called afterwards, an
existing request runs with the retry conditions, hooks, interval and count it had. -/
theorem retry_bound_at_R (tc tr : Table) (s : VState) (c r : Nat) (hr : r < s.count) (hne : r ≠ c) (st : Setter) (cl : VOwner) :
    let x' := execCtx cl ((stepOp tc tr s (.set c st)).owner r)
    let x := execCtx cl (s.owner r)
    x'.conds = x.conds ∧ x'.hooks = x.hooks ∧ x'.interval = x.interval ∧ x'.maxRetries = x.maxRetries ∧ x'.rafter = x.rafter := by
  intro x' x
  have : (stepOp tc tr s (.set c st)).owner r = s.owner r :=
    Req.Props.C19.request_scope_setter tc tr s c st r hr hne
  simp [x', x, this]

/-- The divergence, on `SetCommonRetryCount n`: the request created BEFORE the setter keeps the
client's old count, the request created AFTER it has `n`. -/
theorem retry_count_needs_a_new_request (s : VState) (c : Nat) (hc : c < s.count) (n : Nat) :
    ((stepOp idealClone idealReq (stepOp idealClone idealReq s (.newReq c)) (.set c (.retryCount n))).owner s.count).val F.retryCount
      = (s.owner c).val F.retryCount ∧
    (((stepOp idealClone idealReq (stepOp idealClone idealReq s (.set c (.retryCount n))) (.newReq c)).owner s.count).val F.retryCount).get 0
      = [n] := by
  obtain ⟨hn1, hn2, _⟩ := newReq_spec s c hc
  obtain ⟨_, _, hs3⟩ := set_spec (stepOp idealClone idealReq s (.newReq c)) c (by omega) (.retryCount n)
  obtain ⟨ht1, ht2, _⟩ := set_spec s c hc (.retryCount n)
  obtain ⟨_, hm2, _⟩ := newReq_spec (stepOp idealClone idealReq s (.set c (.retryCount n))) c (by omega)
  constructor
  · rw [hs3 s.count (by omega) (by omega), hn2]
    unfold requestOf
    rw [foldl_stepOwner_val_other F.retryCount _ _ (by
      intro p hp; simp at hp; rcases hp with rfl | rfl | rfl | rfl <;> simp [Prim.fields] <;> decide)]
    simp [deriveVal, idealReq]
  · rw [← ht1, hm2, ht2]
    unfold requestOf
    rw [foldl_stepOwner_val_other F.retryCount _ _ (by
      intro p hp; simp at hp; rcases hp with rfl | rfl | rfl | rfl <;> simp [Prim.fields] <;> decide)]
    have hk : kind F.retryCount = .box := by decide
    simp only [deriveVal, idealReq, Setter.prims, List.foldl_cons, List.foldl_nil, stepOwner, hk, if_true]
    simp [VOwner.setVal, get_set_same]

/-! ## Non-vacuity -/

/-- client 0 with a header; `R()` before / after `SetCommonHeader 2 7`: both requests are sent with it -/
example :
    let s := (runScope [.newClient, .set 0 (.hdrSet 1 5)]).1
    observe (stepOp idealClone idealReq (stepOp idealClone idealReq s (.newReq 0)) (.set 0 (.hdrSet 2 7))) (.exec 1 0 0 [] 0) =
    observe (stepOp idealClone idealReq (stepOp idealClone idealReq s (.set 0 (.hdrSet 2 7))) (.newReq 0)) (.exec 1 0 0 [] 0) := by
  decide

def headersOf : Obs → List (Nat × List Nat)
  | .exec _ ro _ _ _ => ro.headers
  | _ => []

/-- … and it does carry header 2 -/
example :
    let s := (runScope [.newClient, .set 0 (.hdrSet 1 5)]).1
    headersOf (observe (stepOp idealClone idealReq (stepOp idealClone idealReq s (.newReq 0)) (.set 0 (.hdrSet 2 7))) (.exec 1 0 0 [] 0))
      = [(1, [5]), (2, [7]), (hUserAgent, [vDefaultUA])] := by
  decide

/-- the retry family really is excluded: `SetCommonRetryCount` after `R()` does not reach the request -/
example :
    let s := (runScope [.newClient, .set 0 (.retryCondAdd 2)]).1
    observe (stepOp idealClone idealReq (stepOp idealClone idealReq s (.newReq 0)) (.set 0 (.retryCount 2))) (.exec 1 0 0 [] 0) ≠
    observe (stepOp idealClone idealReq (stepOp idealClone idealReq s (.set 0 (.retryCount 2))) (.newReq 0)) (.exec 1 0 0 [] 0) := by
  decide

end Req.Props.C19Binding
