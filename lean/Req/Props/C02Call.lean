import Req.C02.Call
import Req.Lemmas.C02Call
import Req.Props.C02
/-!
C02 — response fidelity over MULTI-EXCHANGE calls (digest re-send, retries, redirects).

A `Request.Do` may consist of several exchanges. The theorems say: whatever the option
combination (auto-read on/off at client or request level × SetOutput / SetOutputFile × success
target × error target × digest off / client level / request level × retry count × retry rule)
and whatever the transport answers (any script of transport errors, statuses, redirects, bodies
in any segmentation ending in EOF or in a failure), everything the caller can observe on the
final `Response` — status, the header's exchange, `Err`, the cache (`Bytes/String/ToBytes`), the
restored or live `Body`, the bytes bound to the success / error target, what the download wrote
— is exactly what a call consisting of the FINAL exchange alone yields. Nothing of an earlier
exchange (the 401 challenge, a retried 503 …) survives in any observation path.
-/
namespace Req.Props.C02
open Req.Proto Req.C02

/-- **call_final_exchange.** For EVERY option combination and EVERY script: the caller-visible
state of the `Response` a call returns equals the state after a single-exchange call that
received only the exchange the final `resp.Response` came from (`src`). The digest
middleware's own copy of "auto-read → bind → download" and `Client.roundTrip`'s agree, the 401
leaves nothing behind, and so does no earlier attempt. -/
theorem call_final_exchange (cfg : CCfg) (script : List Exch) :
    (call cfg script).1.v = (single cfg (call cfg script).1.src).v :=
  callLoop_view cfg cfg.maxRetries none script

/-- Consequently EVERY sequence of observation ops (`ToBytes/ToString/Bytes/String/Body.Read(n)/
io.ReadAll(Body)/Body.Close`) on the returned `Response` shows exactly what it shows after the
single-exchange call on the final exchange. -/
theorem call_ops_final (cfg : CCfg) (script : List Exch) (ops : List Op) :
    (call cfg script).1.v.r.run ops = (single cfg (call cfg script).1.src).v.r.run ops := by
  rw [call_final_exchange]

/-- **call_no_stale_bytes.** Whatever ends up in the cache (`resp.body`: what `Bytes`, `String`,
`ToBytes`, `ToString`, `Unmarshal*` return) or is bound to the success / error target is the
WHOLE body of the final exchange — never the 401's, never an earlier attempt's —, a target is
bound only by the status class it is for, and never both. (Any script, any options, also when
bodies fail.) -/
theorem call_no_stale_bytes (cfg : CCfg) (script : List Exch) :
    let c := (call cfg script).1
    (c.src = .terr → c.v.hasResp = false ∧ c.v.r.cache = none ∧ c.v.result = none ∧ c.v.error = none ∧
      c.v.r.err = some .transport) ∧
    (∀ tag st rd cks fin, c.src = .resp tag st rd cks fin →
      c.v.hasResp = true ∧ c.v.r.status = st ∧ c.v.tag = tag ∧
      (∀ b, c.v.r.cache = some b → b = cks.flatten) ∧
      (∀ b, c.v.result = some b → b = cks.flatten ∧ cfg.base.result = true ∧ successState st = true ∧ st ≠ 204) ∧
      (∀ b, c.v.error = some b → b = cks.flatten ∧ cfg.base.errResult = true ∧ 399 < st) ∧
      (c.v.result = none ∨ c.v.error = none)) := by
  intro c
  have hv : c.v = (single cfg c.src).v := call_final_exchange cfg script
  refine ⟨fun h => ?_, fun tag st rd cks fin h => ?_⟩
  · rw [hv, h, single_terr]
    exact ⟨rfl, rfl, rfl, rfl, rfl⟩
  · rw [hv, h]
    obtain ⟨h1, h2, h3, _, h5⟩ := single_slots cfg tag st rd cks fin
    obtain ⟨ht, hh⟩ := single_tag cfg tag st rd cks fin
    exact ⟨hh, single_status cfg tag st rd cks fin, ht, h5, h1, h2, h3⟩

/-- **call_views_final.** The call ended on a response whose body ends with EOF (status `st`,
body segments `cks`). Then, for every option combination and whatever happened before
(challenge, retried attempts, followed redirects):

* status and header are that exchange's;
* the applicable target — success target for 2xx except 204, error target for ≥ 400 — is bound
  to exactly its body;
* auto-read configuration, `st > 199`: no error, and EVERY interleaving of observation ops shows
  exactly that body in every cache op and streams a prefix of it from the restored `Body`;
* `SetOutput` / `SetOutputFile`: no error and the download wrote exactly that body;
* otherwise (auto-read off, no applicable target): nothing cached, `Body` is that exchange's
  live stream, untouched (so `stream_exact` applies to it). -/
theorem call_views_final (cfg : CCfg) (script : List Exch) (tag st : Nat) (rd : Bool) (cks : List Bytes)
    (hsrc : (call cfg script).1.src = .resp tag st rd cks .eof) :
    let v := (call cfg script).1.v
    v.r.status = st ∧ v.tag = tag ∧ v.hasResp = true ∧
    (wantsBind cfg.base st = true →
      (successState st = true → v.result = some cks.flatten ∧ v.error = none) ∧
      (successState st = false → v.error = some cks.flatten ∧ v.result = none)) ∧
    (AutoCfg cfg.base → 199 < st →
      v.r.err = none ∧ ∀ ops : List Op,
        (∀ x ∈ (v.r.run ops).1, okAuto cks.flatten x) ∧ ∃ t, cks.flatten = streamedOf (v.r.run ops).1 ++ t) ∧
    (cfg.base.save = true → v.r.err = none ∧ v.r.out = some cks.flatten) ∧
    (StreamCfg cfg.base st →
      v.r.err = none ∧ v.r.cache = none ∧ v.r.body = some (Body.transport cks .eof)) := by
  intro v
  have hv : v = (single cfg (.resp tag st rd cks .eof)).v := by
    rw [← hsrc]; exact call_final_exchange cfg script
  obtain ⟨hh, hst, htag, _, _, _, hnb⟩ := (call_no_stale_bytes cfg script).2 tag st rd cks .eof hsrc
  obtain ⟨_, _, _, hfill, _⟩ := single_slots cfg tag st rd cks .eof
  have hr : v.r = afterRoundTrip cfg.base st (Body.transport cks .eof) := by
    rw [hv, single_r]
  refine ⟨hst, htag, hh, ?_, ?_, ?_, ?_⟩
  · intro hw
    obtain ⟨hs, he⟩ := hfill rfl hw
    rw [← hv] at hs he
    refine ⟨fun h => ⟨hs h, ?_⟩, fun h => ⟨he h, ?_⟩⟩
    · rcases hnb with h' | h'
      · rw [hs h] at h'; cases h'
      · exact h'
    · rcases hnb with h' | h'
      · exact h'
      · rw [he h] at h'; cases h'
  · intro hauto hgt
    rw [hr]
    have := auto_read_views cfg.base hauto st hgt cks
    exact ⟨(this []).1, fun ops => ⟨(this ops).2.2.1, (this ops).2.2.2⟩⟩
  · intro hs
    rw [hr]
    have := save_output_exact cfg.base hs st cks
    exact ⟨this.2, this.1⟩
  · intro hstream
    rw [hr]
    have := stream_exact cfg.base st hstream cks []
    exact ⟨this.2.1, this.1, this.2.2.1⟩

/-- **call_output_final.** What the output (the `SetOutputFile` file / the `SetOutput` writer)
holds after the call, whenever the final response was saved (`r.out = some d`: by
`call_views_final` that is the final body):

* a file holds EXACTLY `d` — every download re-creates it;
* a writer holds `pre ++ d`: what earlier ATTEMPTS wrote, then `d` (finding
  `retry-output-writer-accumulates`); without retries `pre` is empty — within one attempt
  there is at most one download, the digest challenge is not saved (fixes/C02-2). -/
theorem call_output_final (cfg : CCfg) (script : List Exch) (d : Bytes)
    (h : (call cfg script).1.v.r.out = some d) :
    (cfg.file = true → (call cfg script).2.1 = some d) ∧
    (cfg.file = false → ∃ pre, (call cfg script).2.1 = some (pre ++ d) ∧ (cfg.maxRetries = 0 → pre = [])) := by
  obtain ⟨pre, hpre, h0⟩ := callLoop_out cfg cfg.maxRetries none script d h
  refine ⟨fun hf => ?_, fun hf => ⟨pre, ?_, fun hz => by simpa [accBytes] using h0 hz⟩⟩
  · simpa [call, hf] using hpre
  · simpa [call, hf] using hpre

/-! Non-vacuity. The situation of seed C02-r3-3: client-level digest, automatic read disabled,
an error target. The 401's body "AA" is read and bound; after the re-send nothing of it is
left: status 200 of exchange 1, nothing cached, `ToBytes` reads "BBC" from the live stream. -/
example :
    let cfg : CCfg := { base := { clientDisable := false, reqDisable := true, save := false, result := false,
                                   errResult := true },
                        file := false, digest := .client, maxRetries := 0, cond := .dflt }
    let c := (call cfg [.resp 0 401 false [[65, 65]] .eof, .resp 1 200 false [[66, 66], [67]] .eof]).1
    c.src = .resp 1 200 false [[66, 66], [67]] .eof ∧ c.v.r.status = 200 ∧ c.v.tag = 1 ∧
    c.v.r.cache = none ∧ c.v.error = none ∧
    (c.v.r.run [.bytes, .toBytes]).1 = [(.bytes, .cached none), (.toBytes, .data [66, 66, 67] .ok)] := by
  decide

/-! Retry on 503 (status rule), then a digest challenge, request-level middleware, success
target, output file: three exchanges are used, the file holds the 200's body only, the target
is bound to it. With a writer instead, the 503's body precedes it. -/
example :
    let base : Cfg := { clientDisable := false, reqDisable := false, save := true, result := true, errResult := true }
    let script := [.resp 0 503 false [[1]] .eof, .resp 1 401 false [[2]] .eof, .resp 2 200 false [[3], [4]] .eof,
                   Exch.terr]
    let f := call { base := base, file := true, digest := .request, maxRetries := 2, cond := .status } script
    let w := call { base := base, file := false, digest := .request, maxRetries := 2, cond := .status } script
    f.1.v.tag = 2 ∧ f.1.v.result = some [3, 4] ∧ f.1.v.error = none ∧ f.2.1 = some [3, 4] ∧ f.2.2 = [Exch.terr] ∧
    w.2.1 = some [1, 3, 4] := by
  decide

/-! A followed redirect, then a transport error that the default rule retries, then the answer. -/
example :
    let cfg : CCfg := { base := { clientDisable := false, reqDisable := false, save := false, result := false },
                        file := false, digest := .off, maxRetries := 1, cond := .dflt }
    let c := (call cfg [.resp 0 302 true [[9]] .eof, .terr, .resp 2 200 false [[7, 7]] .eof]).1
    c.v.tag = 2 ∧ c.v.r.cache = some [7, 7] ∧ c.v.r.err = none := by
  decide

end Req.Props.C02
