import Req.Props.C20Multi
/-!
C20 — multi-scheme challenge lists, part 2: challenges of other schemes on field lines OF THEIR
OWN (a response with several `WWW-Authenticate` lines, in any order), and the same statement for the
whole middleware: the outcome of the call — error, or the exact second request — does not depend on
them.
-/
namespace Req.Props.C20
open Req.Proto Req.DigestAuth Req.Ascii
open Req.Digest hiding authorize handle exchange parseChallenge Resp

/-- the meaning with other-scheme challenges inserted at a challenge boundary: the Digest
challenges are the same, in the same order -/
theorem meaning_insert_others (X Z Y : List ElemW) (hys : startsChallenge Y = true)
    (chs : List SChal) (hm : meaning (X ++ Y) = some chs)
    (others : List SChal) (hzm : meaning Z = some others) (hnd : ∀ o ∈ others, isDigest o.scheme = false) :
    ∃ chs', meaning (X ++ (Z ++ Y)) = some chs' ∧ chs'.filterMap digestOf = chs.filterMap digestOf := by
  have hzs : startsChallenge Z = true := by
    unfold meaning at hzm
    cases hz' : meanElems Z [] with
    | none => rw [hz'] at hzm; cases hzm
    | some acc => exact starts_of_meaning _ acc hz'
  rw [meaning_append _ _ hys] at hm
  cases hxa : meaning X with
  | none => rw [hxa] at hm; cases hm
  | some ca =>
    rw [hxa] at hm
    simp only [Option.bind_some] at hm
    cases hyb : meaning Y with
    | none => rw [hyb] at hm; cases hm
    | some cb =>
      rw [hyb] at hm
      simp only [Option.map_some, Option.some.injEq] at hm
      subst hm
      refine ⟨ca ++ (others ++ cb), ?_, ?_⟩
      · rw [meaning_append _ _ (starts_append _ _ hzs hys), hxa, meaning_append _ _ hys, hzm, hyb]
        rfl
      · simp only [List.filterMap_append, filterMap_digestOf_others others hnd, List.nil_append]

/-- **other_scheme_lines_do_not_interfere**: a response whose `WWW-Authenticate` field lines are
`l1 ++ l2` (any number of lines, any challenges, `l2` beginning with a challenge) — and the same
response with one more field line `z` between them (in front, at the end, in the middle) that
carries challenges of other schemes only: `parseChallenge` (on the lines joined as
`createDigestAuth` joins them) answers the same. -/
theorem other_scheme_lines_do_not_interfere (l1 l2 : List (List Elem)) (z : List Elem)
    (hne : l1 ++ l2 ≠ []) (hl : ∀ l ∈ l1 ++ z :: l2, l ≠ []) (hok : ∀ l ∈ l1 ++ z :: l2, ∀ x ∈ l, x.OK)
    (hys : startsChallenge (l2.flatten.map (·.e)) = true)
    (chs : List SChal) (hm : meaning ((l1 ++ l2).flatten.map (·.e)) = some chs)
    (others : List SChal) (hzm : meaning (z.map (·.e)) = some others)
    (hnd : ∀ o ∈ others, isDigest o.scheme = false) :
    DigestAuth.parseChallenge algOf (commaJoin ((l1 ++ z :: l2).map lineRender)) =
      DigestAuth.parseChallenge algOf (commaJoin ((l1 ++ l2).map lineRender)) := by
  have hsub : ∀ l ∈ l1 ++ l2, l ∈ l1 ++ z :: l2 := by
    intro l hl'
    rcases List.mem_append.mp hl' with h | h
    · exact List.mem_append_left _ h
    · exact List.mem_append_right _ (List.mem_cons_of_mem _ h)
  rw [List.flatten_append, List.map_append] at hm
  obtain ⟨chs', hm', hf⟩ := meaning_insert_others _ (z.map (·.e)) _ hys chs hm others hzm hnd
  have hm2 : meaning ((l1 ++ z :: l2).flatten.map (·.e)) = some chs' := by
    rw [List.flatten_append, List.flatten_cons, List.map_append, List.map_append]
    exact hm'
  rw [parse_faithful_lines _ (by simp) hl hok chs' hm2,
    parse_faithful_lines _ hne (fun l h => hl l (hsub l h)) (fun l h => hok l (hsub l h)) chs
      (by rw [List.flatten_append, List.map_append]; exact hm), hf]

/-- `createDigestAuth` looks at the field lines only through `parseChallenge` of the joined text -/
theorem createDigestAuth_eq (H : Alg → Bytes → Bytes) (lines : List Bytes) (cr : Cred) (rnd : Option Bytes) :
    createDigestAuth H algOf lines cr rnd =
      match DigestAuth.parseChallenge algOf (commaJoin lines) with
      | .error e => .error e
      | .ok c => DigestAuth.authorize H algOf c cr rnd := by
  unfold createDigestAuth
  by_cases hemp : (commaJoin lines).isEmpty = true
  · have h0 : commaJoin lines = [] := by simpa using hemp
    have he : DigestAuth.parseChallenge algOf [] = .error .badChallenge := by decide
    simp only [h0, he, List.isEmpty_nil, if_true]
  · simp only [hemp, Bool.false_eq_true, if_false]
    cases DigestAuth.parseChallenge algOf (commaJoin lines) <;> rfl

/-- **other_schemes_same_outcome**: … and therefore the whole middleware does the same — the same
error, or the same second request byte for byte — whether or not the origin also offers Basic,
Bearer, Negotiate … next to Digest, and wherever it lists them. -/
theorem other_schemes_same_outcome (H : Alg → Bytes → Bytes) (user pass method uri : Bytes) (body : Body)
    (rnd : Option Bytes) (err : Bool) (status : Nat)
    (l1 l2 : List (List Elem)) (z : List Elem)
    (hne : l1 ++ l2 ≠ []) (hl : ∀ l ∈ l1 ++ z :: l2, l ≠ []) (hok : ∀ l ∈ l1 ++ z :: l2, ∀ x ∈ l, x.OK)
    (hys : startsChallenge (l2.flatten.map (·.e)) = true)
    (chs : List SChal) (hm : meaning ((l1 ++ l2).flatten.map (·.e)) = some chs)
    (others : List SChal) (hzm : meaning (z.map (·.e)) = some others)
    (hnd : ∀ o ∈ others, isDigest o.scheme = false) :
    DigestAuth.handle H algOf user pass method uri body rnd
        { err, status, wwwAuth := (l1 ++ z :: l2).map lineRender } =
      DigestAuth.handle H algOf user pass method uri body rnd
        { err, status, wwwAuth := (l1 ++ l2).map lineRender } := by
  unfold DigestAuth.handle
  simp only [createDigestAuth_eq,
    other_scheme_lines_do_not_interfere l1 l2 z hne hl hok hys chs hm others hzm hnd]

/-! non-vacuity: `Digest …` on the first line, `Basic realm="r", Negotiate …, Newauth …` on a
second line (`mxDigest`, `mxOthers` of C20Multi) -/
example : (∀ l ∈ [mxDigest] ++ mxOthers :: [], l ≠ []) ∧ (∀ l ∈ [mxDigest] ++ mxOthers :: [], ∀ x ∈ l, x.OK) ∧
    startsChallenge (([] : List (List Elem)).flatten.map (·.e)) = true := by decide

example : DigestAuth.parseChallenge algOf (commaJoin (([mxDigest] ++ mxOthers :: []).map lineRender)) =
    .ok { realm := b!"r", nonce := b!"n" } := by decide

end Req.Props.C20
