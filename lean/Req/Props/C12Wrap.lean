import Req.Pool.WrapChain
import Req.Props.C12Proxy
/-!
# C12 — a clone with middleware is dispatched by ITS OWN transport

`Transport.Clone` / `Client.Clone` rebuild the middleware chains (`WrapRoundTrip`,
`SetCommonHeaderOrder`, `Impersonate*`; `Client.WrapRoundTrip`) for the copy. Theorems about
`Req.Pool.Wrap.wrun`: for EVERY sequence of settings, middleware installations on either
layer, `Clone`s and switches between the members of the family, the innermost closure of
every chain refers to the member that holds the chain — so a request issued on a member is
dispatched under that member's forced version, TLS trust and proxy, exactly as if no
middleware had ever been installed. With the chain rebuilt over the receiver of `Clone`
(seed C12-r6-3) the clone's requests are governed by the ORIGINAL's settings. Tied to the
code by lane `c12wrap`.
-/
namespace Req.Props.C12
open Req.Pool.Wrap Req.Pool.Dispatch

theorem wrap_setCur_cur (f : Fam) (g : Member → Member) : (setCur f g).cur = f.cur := by
  unfold setCur; cases f.members[f.cur]? <;> rfl

theorem wrap_setCur_length (f : Fam) (g : Member → Member) :
    (setCur f g).members.length = f.members.length := by
  unfold setCur; cases f.members[f.cur]? <;> simp

/-- A member of `setCur f g` is `g` of the old current member, or an untouched old member. -/
theorem wrap_setCur_get (f : Fam) (g : Member → Member) (i : Nat) (m' : Member)
    (h : (setCur f g).members[i]? = some m') :
    (i = f.cur ∧ ∃ m, f.members[i]? = some m ∧ m' = g m) ∨ f.members[i]? = some m' := by
  unfold setCur at h
  cases hm : f.members[f.cur]? with
  | none => rw [hm] at h; exact .inr h
  | some m =>
    rw [hm] at h
    by_cases he : f.cur = i
    · subst he
      have hlt : f.cur < f.members.length := by
        rcases Nat.lt_or_ge f.cur f.members.length with h' | h'
        · exact h'
        · rw [List.getElem?_eq_none h'] at hm; cases hm
      simp [hlt] at h
      exact .inl ⟨rfl, m, hm, h.symm⟩
    · simp [List.getElem?_set_ne he] at h
      exact .inr h

/-- Installing a wrapper on the object at `self` keeps / makes the chain refer to `self`. -/
theorem addWrapper_target (self w : Nat) (oc : Option Chain) (c : Chain)
    (hold : ∀ c0, oc = some c0 → c0.target = self) (h : addWrapper self w oc = some c) :
    c.target = self := by
  cases oc with
  | none => simp [addWrapper] at h; rw [← h]
  | some c0 => simp [addWrapper] at h; rw [← h]; exact hold c0 rfl

theorem rebuild_onCopy_target (orig copy : Nat) (oc : Option Chain) (c : Chain)
    (h : rebuild .onCopy orig copy oc = some c) : c.target = copy := by
  cases oc with
  | none => simp [rebuild] at h
  | some c0 =>
    simp only [rebuild] at h
    split at h
    · cases h
    · cases h; rfl

/-- One step of the code keeps every chain referring to its holder. -/
theorem wstep_wf (f : Fam) (op : WOp) (h : WF f) : WF (wstep .onCopy f op) := by
  cases op with
  | set o =>
    intro i m' hm'
    rcases wrap_setCur_get f _ i m' hm' with ⟨_, m, hm, rfl⟩ | hm
    · exact h i m hm
    · exact h i m' hm
  | twrap w =>
    intro i m' hm'
    rcases wrap_setCur_get f _ i m' hm' with ⟨hi, m, hm, rfl⟩ | hm
    · refine ⟨fun c hc => ?_, (h i m hm).2⟩
      have := addWrapper_target f.cur w m.tchain c (fun c0 h0 => by rw [(h i m hm).1 c0 h0, hi]) hc
      rw [this, hi]
    · exact h i m' hm
  | cwrap w =>
    intro i m' hm'
    rcases wrap_setCur_get f _ i m' hm' with ⟨hi, m, hm, rfl⟩ | hm
    · refine ⟨(h i m hm).1, fun c hc => ?_⟩
      have := addWrapper_target f.cur w m.cchain c (fun c0 h0 => by rw [(h i m hm).2 c0 h0, hi]) hc
      rw [this, hi]
    · exact h i m' hm
  | fork =>
    simp only [wstep]
    cases hm : f.members[f.cur]? with
    | none => exact h
    | some m =>
      intro i m' hm'
      simp only at hm'
      rcases Nat.lt_or_ge i f.members.length with hi | hi
      · rw [List.getElem?_append_left hi] at hm'
        exact h i m' hm'
      · rw [List.getElem?_append_right hi] at hm'
        have h0 : i - f.members.length = 0 := by
          rcases Nat.eq_zero_or_pos (i - f.members.length) with h0 | h0
          · exact h0
          · rw [List.getElem?_eq_none (by simp; omega)] at hm'; cases hm'
        rw [h0] at hm'
        simp at hm'
        have hi' : i = f.members.length := by omega
        subst hm'
        exact ⟨fun c hc => by rw [rebuild_onCopy_target f.cur f.members.length m.tchain c hc, hi'],
               fun c hc => by rw [rebuild_onCopy_target f.cur f.members.length m.cchain c hc, hi']⟩
  | switch k =>
    simp only [wstep]
    split
    · exact h
    · exact h
  | request => exact h

theorem wrun_wf (ops : List WOp) (f : Fam) (h : WF f) : WF (wrun .onCopy f ops) := by
  induction ops generalizing f with
  | nil => exact h
  | cons op rest ih => exact ih (wstep .onCopy f op) (wstep_wf f op h)

theorem wf_init : WF Fam.init := by
  intro i m hm
  cases i with
  | zero => simp [Fam.init] at hm; subst hm; simp
  | succ n => simp [Fam.init] at hm

/-- **`clone_chain_targets_clone`.** After ANY sequence of settings, middleware installations
(transport level and client level), `Clone`s and switches from `C()`: the innermost closure of
every chain of every member — the original, its clones, clones of clones — refers to the
member that holds the chain. -/
theorem clone_chain_targets_clone (ops : List WOp) : WF (wrun .onCopy Fam.init ops) :=
  wrun_wf ops Fam.init wf_init

/-- With every chain referring to its holder, member `i`'s request is dispatched by member
`i`'s own `Transport.roundTrip`. -/
theorem served_by_self (f : Fam) (h : WF f) (i : Nat) (m : Member) (hm : f.members[i]? = some m) :
    servedBy f i = some i := by
  have hc : chainTarget i m.cchain = i := by
    cases hcc : m.cchain with
    | none => rfl
    | some c => exact (h i m hm).2 c hcc
  have ht : chainTarget i m.tchain = i := by
    cases htc : m.tchain with
    | none => rfl
    | some c => exact (h i m hm).1 c htc
  simp [servedBy, hm, hc, ht]

/-- **A clone's request is governed by the clone's settings.** Whatever the history (middleware
installed before or after any `Clone`, on either layer; settings changed on either side of a
`Clone` in any interleaving): the forced version, HTTP/3 switch, TLS trust and proxy a request
issued on member `i` is dispatched under are member `i`'s. -/
theorem request_governed_by_own_settings (ops : List WOp) (i : Nat) (m : Member)
    (hm : (wrun .onCopy Fam.init ops).members[i]? = some m) :
    governing (wrun .onCopy Fam.init ops) i = some m.sett := by
  simp [governing, served_by_self _ (clone_chain_targets_clone ops) i m hm, hm]

/-- … and it passes exactly the member's own wrappers: its client chain, then its transport
chain, each outermost (installed last) first. -/
theorem request_passes_own_wrappers (ops : List WOp) (i : Nat) (m : Member)
    (hm : (wrun .onCopy Fam.init ops).members[i]? = some m) :
    trace (wrun .onCopy Fam.init ops) i = chainTrace m.cchain ++ chainTrace m.tchain := by
  have h := clone_chain_targets_clone ops
  have hc : chainTarget i m.cchain = i := by
    cases hcc : m.cchain with
    | none => rfl
    | some c => exact (h i m hm).2 c hcc
  simp [trace, hm, hc]

/-! ## Middleware is transparent for the settings -/

/-- The settings of all members, in order. -/
def settsOf (f : Fam) : List Sett := f.members.map (·.sett)

theorem settsOf_length (f : Fam) : (settsOf f).length = f.members.length := by simp [settsOf]

theorem settsOf_setCur (f : Fam) (g : Member → Member) (k : Sett → Sett)
    (hg : ∀ m, (g m).sett = k m.sett) :
    settsOf (setCur f g) =
      (match (settsOf f)[f.cur]? with
       | some s => (settsOf f).set f.cur (k s)
       | none => settsOf f) := by
  unfold setCur settsOf
  cases hm : f.members[f.cur]? with
  | none => simp [hm]
  | some m => simp [hm, List.map_set, hg]

theorem settsOf_setCur_id (f : Fam) (g : Member → Member) (hg : ∀ m, (g m).sett = m.sett) :
    settsOf (setCur f g) = settsOf f := by
  rw [settsOf_setCur f g id hg]
  cases hh : (settsOf f)[f.cur]? with
  | none => rfl
  | some s =>
    have hlt : f.cur < (settsOf f).length := by
      rcases Nat.lt_or_ge f.cur (settsOf f).length with h' | h'
      · exact h'
      · rw [List.getElem?_eq_none h'] at hh; cases hh
    rw [List.getElem?_eq_getElem hlt] at hh
    cases hh
    exact List.set_getElem_self hlt

theorem settsOf_fork (r : Rebuild) (f : Fam) :
    settsOf (wstep r f .fork) =
      (match (settsOf f)[f.cur]? with
       | some s => settsOf f ++ [s]
       | none => settsOf f) := by
  unfold settsOf
  simp only [wstep]
  cases hm : f.members[f.cur]? with
  | none => simp [hm]
  | some m => simp [hm]

/-- The settings part of a step depends on the settings part only — neither on the chains nor
on how `Clone` rebuilds them. -/
theorem wstep_setts (r r' : Rebuild) (f g : Fam) (op : WOp)
    (hc : f.cur = g.cur) (hs : settsOf f = settsOf g) :
    (wstep r f op).cur = (wstep r' g op).cur ∧ settsOf (wstep r f op) = settsOf (wstep r' g op) := by
  cases op with
  | set o =>
    refine ⟨by simp [wstep, wrap_setCur_cur, hc], ?_⟩
    simp only [wstep]
    rw [settsOf_setCur f (fun m => { m with sett := applyS m.sett o }) (applyS · o) (fun _ => rfl),
      settsOf_setCur g (fun m => { m with sett := applyS m.sett o }) (applyS · o) (fun _ => rfl), hc, hs]
  | twrap w =>
    refine ⟨by simp [wstep, wrap_setCur_cur, hc], ?_⟩
    simp only [wstep]
    rw [settsOf_setCur_id f (fun m => { m with tchain := addWrapper f.cur w m.tchain }) (fun _ => rfl),
      settsOf_setCur_id g (fun m => { m with tchain := addWrapper g.cur w m.tchain }) (fun _ => rfl), hs]
  | cwrap w =>
    refine ⟨by simp [wstep, wrap_setCur_cur, hc], ?_⟩
    simp only [wstep]
    rw [settsOf_setCur_id f (fun m => { m with cchain := addWrapper f.cur w m.cchain }) (fun _ => rfl),
      settsOf_setCur_id g (fun m => { m with cchain := addWrapper g.cur w m.cchain }) (fun _ => rfl), hs]
  | fork =>
    refine ⟨?_, by rw [settsOf_fork, settsOf_fork, hc, hs]⟩
    simp only [wstep]
    cases f.members[f.cur]? <;> cases g.members[g.cur]? <;> exact hc
  | switch k =>
    have hl : f.members.length = g.members.length := by
      rw [← settsOf_length f, ← settsOf_length g, hs]
    simp only [wstep, hl]
    split
    · exact ⟨rfl, hs⟩
    · exact ⟨hc, hs⟩
  | request => exact ⟨hc, hs⟩

/-- Installing a wrapper changes nobody's settings. -/
theorem wrap_keeps_setts (r : Rebuild) (f : Fam) (op : WOp)
    (hop : (match op with | .twrap _ => true | .cwrap _ => true | _ => false) = true) :
    (wstep r f op).cur = f.cur ∧ settsOf (wstep r f op) = settsOf f := by
  cases op with
  | twrap w =>
    refine ⟨by simp [wstep, wrap_setCur_cur], ?_⟩
    simp only [wstep]
    exact settsOf_setCur_id f (fun m => { m with tchain := addWrapper f.cur w m.tchain }) (fun _ => rfl)
  | cwrap w =>
    refine ⟨by simp [wstep, wrap_setCur_cur], ?_⟩
    simp only [wstep]
    exact settsOf_setCur_id f (fun m => { m with cchain := addWrapper f.cur w m.cchain }) (fun _ => rfl)
  | _ => simp at hop

theorem wrun_setts (r r' : Rebuild) (ops : List WOp) (f g : Fam)
    (hc : f.cur = g.cur) (hs : settsOf f = settsOf g) :
    (wrun r f ops).cur = (wrun r' g (noWraps ops)).cur
    ∧ settsOf (wrun r f ops) = settsOf (wrun r' g (noWraps ops)) := by
  induction ops generalizing f g with
  | nil => exact ⟨hc, hs⟩
  | cons op rest ih =>
    cases op with
    | twrap w =>
      have := wrap_keeps_setts r f (.twrap w) rfl
      simpa [wrun, noWraps] using ih (wstep r f (.twrap w)) g (this.1.trans hc) (this.2.trans hs)
    | cwrap w =>
      have := wrap_keeps_setts r f (.cwrap w) rfl
      simpa [wrun, noWraps] using ih (wstep r f (.cwrap w)) g (this.1.trans hc) (this.2.trans hs)
    | set o =>
      have := wstep_setts r r' f g (.set o) hc hs
      simpa [wrun, noWraps] using ih _ _ this.1 this.2
    | fork =>
      have := wstep_setts r r' f g .fork hc hs
      simpa [wrun, noWraps] using ih _ _ this.1 this.2
    | switch k =>
      have := wstep_setts r r' f g (.switch k) hc hs
      simpa [wrun, noWraps] using ih _ _ this.1 this.2
    | request =>
      have := wstep_setts r r' f g .request hc hs
      simpa [wrun, noWraps] using ih _ _ this.1 this.2

/-- **`middleware_transparent`.** For every sequence from `C()` and every member: the settings
governing a request are those governing the same member's request in the sequence WITHOUT any
of its middleware installations — wrappers (header order, impersonation, user middleware)
never change which forced version, trust roots or proxy a client's or a clone's requests are
dispatched under; so neither does the outcome (`outcome`: `routeP` / `viaProxy` of them). -/
theorem middleware_transparent (ops : List WOp) (i : Nat) :
    governing (wrun .onCopy Fam.init ops) i = governing (wrun .onCopy Fam.init (noWraps ops)) i
    ∧ ∀ alpn h3Up ca, outcome (wrun .onCopy Fam.init ops) i alpn h3Up ca
        = outcome (wrun .onCopy Fam.init (noWraps ops)) i alpn h3Up ca := by
  have key : governing (wrun .onCopy Fam.init ops) i = governing (wrun .onCopy Fam.init (noWraps ops)) i := by
    have hs := (wrun_setts .onCopy .onCopy ops Fam.init Fam.init rfl rfl).2
    have hget : ∀ f : Fam, (f.members[i]?).map (·.sett) = (settsOf f)[i]? := by
      intro f; simp [settsOf]
    cases h1 : (wrun .onCopy Fam.init ops).members[i]? with
    | none =>
      cases h2 : (wrun .onCopy Fam.init (noWraps ops)).members[i]? with
      | none => simp [governing, servedBy, h1, h2]
      | some m2 =>
        have a := hget (wrun .onCopy Fam.init ops)
        have b := hget (wrun .onCopy Fam.init (noWraps ops))
        rw [h1] at a; rw [h2] at b; rw [hs] at a; rw [← a] at b; cases b
    | some m1 =>
      cases h2 : (wrun .onCopy Fam.init (noWraps ops)).members[i]? with
      | none =>
        have a := hget (wrun .onCopy Fam.init ops)
        have b := hget (wrun .onCopy Fam.init (noWraps ops))
        rw [h1] at a; rw [h2] at b; rw [hs] at a; rw [← a] at b; cases b
      | some m2 =>
        rw [request_governed_by_own_settings ops i m1 h1,
            request_governed_by_own_settings (noWraps ops) i m2 h2]
        have a := hget (wrun .onCopy Fam.init ops)
        have b := hget (wrun .onCopy Fam.init (noWraps ops))
        rw [h1] at a; rw [h2] at b; rw [hs] at a; rw [← a] at b
        simpa using b.symm
  exact ⟨key, fun alpn h3Up ca => by simp [outcome, key]⟩

/-- **The forced version of a clone with middleware is honoured.** Wrapper installed, `Clone`,
then `EnableForceHTTP1/2/3` on the clone (any further wrappers / settings `pre` before): if the
clone's request is carried at all, it is carried by the version forced ON THE CLONE. -/
theorem clone_with_middleware_forced_no_fallback (pre : List WOp) (v : Ver) (i : Nat)
    (alpn : List Alpn) (h3Up : Bool) (ca : Nat) (m : Member) (u : Ver) (via : Bool)
    (hm : (wrun .onCopy Fam.init pre).members[i]? = some m)
    (hf : m.sett.force = some v)
    (ho : outcome (wrun .onCopy Fam.init pre) i alpn h3Up ca = some (.ok u, via)) : u = v := by
  simp only [outcome, request_governed_by_own_settings pre i m hm, Option.map_some, Option.some.injEq,
    Prod.mk.injEq] at ho
  have hcf : (cfgOf m.sett).force = some v := hf
  exact forced_no_fallback_proxy (proxyOf m.sett) (cfgOf m.sett) ⟨.https, false⟩ _ v u hcf ho.1

/-! ## Non-vacuity and necessity -/

/-- The demo of seed C12-r6-3 in the model: header-order middleware on the original, `Clone`,
force HTTP/1.1 and another trust root on the clone. -/
def demoOps : List WOp := [.twrap 1, .fork, .switch 1, .set (.force (some .h1)), .set (.trust 2)]

/-- The code: the clone's request is served by the clone (member 1), under forced HTTP/1.1 and
trust root 2; it passes the wrapper; against an origin certified by CA 0 it is refused. -/
example : servedBy (wrun .onCopy Fam.init demoOps) 1 = some 1
    ∧ governing (wrun .onCopy Fam.init demoOps) 1 = some ⟨some .h1, false, 2, false⟩
    ∧ trace (wrun .onCopy Fam.init demoOps) 1 = [1]
    ∧ outcome (wrun .onCopy Fam.init demoOps) 1 [.h2, .http11] true 0 = some (.error .tlsReject, false)
    ∧ outcome (wrun .onCopy Fam.init demoOps) 1 [.h2, .http11] true 2 = some (.ok .h1, false) := by
  decide

/-- **Necessity (`chain_over_original_reads_original`).** With the chain rebuilt over the
receiver of `Clone` the same clone is served by the ORIGINAL: nothing forced, trust root 0 —
it speaks HTTP/2 although HTTP/1.1 is forced on it and accepts a certificate of CA 0 it does
not trust. -/
theorem chain_over_original_reads_original :
    servedBy (wrun .onOriginal Fam.init demoOps) 1 = some 0
    ∧ governing (wrun .onOriginal Fam.init demoOps) 1 = some ⟨none, false, 0, false⟩
    ∧ outcome (wrun .onOriginal Fam.init demoOps) 1 [.h2, .http11] true 0 = some (.ok .h2, false)
    ∧ ¬ WF (wrun .onOriginal Fam.init demoOps) := by
  refine ⟨by decide, by decide, by decide, fun h => ?_⟩
  have := (h 1 ⟨⟨some .h1, false, 2, false⟩, some ⟨[1], 0⟩, none⟩ (by decide)).1 ⟨[1], 0⟩ rfl
  exact absurd this (by decide)

/-- Without middleware at `Clone` time the two variants coincide (why only clients WITH
middleware show the defect): no chain, nothing to rebuild. -/
theorem no_middleware_no_difference (f : Fam) (m : Member) (hm : f.members[f.cur]? = some m)
    (ht : m.tchain = none) (hc : m.cchain = none) :
    wstep .onOriginal f .fork = wstep .onCopy f .fork := by
  simp [wstep, hm, ht, hc, rebuild]

example : (wrun .onCopy Fam.init [.set (.force (some .h3)), .fork, .cwrap 4, .twrap 5, .fork]).members.length = 3 := by
  decide

/-- Client-level and transport-level wrappers of a clone of a clone, outermost first. -/
example : trace (wrun .onCopy Fam.init [.twrap 1, .cwrap 2, .fork, .switch 1, .twrap 3, .fork, .switch 2, .cwrap 4]) 2
    = [4, 2, 3, 1] := by decide

example : noWraps demoOps = [.fork, .switch 1, .set (.force (some .h1)), .set (.trust 2)] := by decide

end Req.Props.C12
