import Req.Lemmas.C07H1
import Req.Lemmas.C07H3
import Req.H2.Frame
import Req.Client.DigestAuth
/-!
C07 — property theorems, part 4: every server-reachable hand-rolled loop modelled anywhere in this
framework TERMINATES (the models run on fuel; the theorems show that any fuel above the input length
gives the same answer — an explicit strictly-decreasing measure, the remaining input), makes
PROGRESS (what is returned as "rest" is a proper suffix), never AMPLIFIES (delivers no more bytes
than it received), and its outcome is CLASSIFIED (a value or one of the named errors).

| loop in /repo | model | theorems |
|---|---|---|
| `chunkedReader.Read` / `beginChunk` (internal/chunked.go) | `H1.chunkLoop` | `chunked_terminates`, `chunked_no_amplification`, `chunked_end_progress` |
| `readContinuedLineSlice` `for r.skipSpace() > 0` (textproto_reader.go:124) | `H1.readCont` | `continuation_terminates` |
| `readMIMEHeader` `for {}` (textproto_reader.go:231) | `H1.mimeLoop` | `mime_terminates`, `mime_progress` |
| `persistConn.readResponse` `for {}` (transport.go:2895) | `H1.parseFinalHead` | `h1_head_progress`, `h1_final_progress`, `h1_final_total_classified` |
| `Framer.ReadFrame` called in `clientConnReadLoop.run` `for {}` | `H2.Frame.readFrame/readAll` | `h2_readFrame_progress`, `h2_readAll_terminates`, `h2_readFrame_total_classified` |
| `frameParser.ParseNext` `for {}` (internal/http3/frames.go:29) | `H3.Frame.parseNext` | `h3_parseNext_progress` (+ `h3_parseNext_terminates` in C07Budget) |
| `parseSettingsFrame` `for b.Len() > 0` | `H3.Frame.settingsLoop` | `h3_settings_terminates` |
| `parseChallenge` (digest.go, the RFC 7235 challenge-list reader) | `DigestAuth.parseChallenge` | `digest_total_classified` |
-/
namespace Req.Props.C07
namespace total
open Req.Proto Req.H1 Req.Lemmas.C07.H1

/-! ### HTTP/1.1 -/

/-- **chunked_terminates**: the chunked reader's loop needs at most one iteration per input byte;
more fuel never changes what it returns — it cannot spin on any body (zero-length chunks, empty
lines, huge sizes included). -/
theorem chunked_terminates (fuel B : Nat) (s : Bytes) (h : s.length < fuel) :
    chunkLoop fuel B 0 s = decodeChunked B s :=
  chunkLoop_fuel_stable fuel (s.length + 1) B 0 s h (Nat.lt_succ_self _)

/-- **chunked_no_amplification**: the bytes handed to the caller never exceed the bytes received. -/
theorem chunked_no_amplification (B : Nat) (s : Bytes) : (decodeChunked B s).1.length ≤ s.length :=
  chunkLoop_data_le _ B 0 s

/-- **chunked_end_progress**: when the reader reports the end of the body, at least the last-chunk
line was consumed. -/
theorem chunked_end_progress (B : Nat) (s d r : Bytes) (h : decodeChunked B s = (d, some r)) :
    r.length < s.length :=
  chunkLoop_rest_lt _ B 0 s d r h

/-- **continuation_terminates**: the obs-fold loop consumes a line per iteration. -/
theorem continuation_terminates (fuel : Nat) (acc s : Bytes) (h : s.length < fuel) :
    readCont fuel acc s = readCont (s.length + 1) acc s :=
  readCont_fuel_stable fuel (s.length + 1) acc s h (Nat.lt_succ_self _)

/-- **mime_terminates**: the header-block loop consumes at least a line per iteration. -/
theorem mime_terminates (fuel : Nat) (m : HeaderMap) (s : Bytes) (h : s.length < fuel) :
    mimeLoop fuel m s = mimeLoop (s.length + 1) m s :=
  mimeLoop_fuel_stable fuel (s.length + 1) m s h (Nat.lt_succ_self _)

/-- **mime_progress**: an accepted header block consumed at least its terminating blank line. -/
theorem mime_progress (s r : Bytes) (res : HeaderMap) (h : readMIMEHeader s = some (res, r)) :
    r.length < s.length :=
  readMIMEHeader_rest_lt s r res h

/-- **h1_head_progress**: every accepted response head consumes input — the measure of the interim
loop. -/
theorem h1_head_progress (isHead : Bool) (s r : Bytes) (m : Msg)
    (h : parseHead isHead s = some (m, r)) : r.length < s.length :=
  parseHead_rest_lt isHead s r m h

theorem h1_final_progress (fuel : Nat) (isHead : Bool) (s r : Bytes) (m : Msg)
    (h : parseFinalHead fuel isHead s = some (m, r)) : r.length < s.length := by
  induction fuel generalizing s with
  | zero => simp [parseFinalHead] at h
  | succ n ih =>
    unfold parseFinalHead at h
    split at h
    · cases h
    · next m1 r1 hp =>
      have h1 := parseHead_rest_lt isHead s r1 m1 hp
      split at h
      · have := ih r1 h; omega
      · simp only [Option.some.injEq, Prod.mk.injEq] at h
        obtain ⟨_, rfl⟩ := h
        exact h1

theorem readBody_data_le (B : Nat) (m : Msg) (s : Bytes) : (readBody B m s).data.length ≤ s.length := by
  unfold readBody
  simp only
  split
  · simp
  · split
    · simp only [List.length_take]; omega
    · simp
  · simp
  · split
    · next d hd =>
      have := chunked_no_amplification B s
      rw [hd] at this
      exact this
    · next d r hd =>
      have := chunked_no_amplification B s
      rw [hd] at this
      split <;> exact this

/-- **h1_final_total_classified**: for EVERY byte stream the response reader (interim heads
skipped) ends in one of two classes — the call fails, or a response whose body ends in EOF or in a
read error — and the body it delivers is shorter than the stream. -/
theorem h1_final_total_classified (isHead : Bool) (B : Nat) (s : Bytes) :
    parseFinal isHead B s = .reject ∨
    ∃ m b, parseFinal isHead B s = .resp m b ∧ b.data.length < s.length := by
  unfold parseFinal
  split
  · exact Or.inl rfl
  · next m r hp =>
    refine Or.inr ⟨m, _, rfl, ?_⟩
    have h1 := h1_final_progress 6 isHead s r m hp
    have h2 := readBody_data_le B m r
    omega

/-! ### HTTP/2 -/
open Req.H2.Frame

/-- **h2_readFrame_progress**: `ReadFrame` never un-reads, and unless it fails with a terminal
error it consumed the nine header bytes (the measure of the connection read loop). -/
theorem h2_readFrame_progress (r : Reader) (input : Bytes) :
    (readFrame r input).2.2.length ≤ input.length ∧
    ((∀ e, (readFrame r input).1 = .error e → e.terminal = false) →
      (readFrame r input).2.2.length + 9 ≤ input.length) := by
  unfold readFrame
  split
  · next hp =>
    refine ⟨by simp, ?_⟩
    intro h
    have := h _ rfl
    split at this <;> simp [RErr.terminal] at this
  · next fh rest hp =>
    have hlen : rest.length + 9 = input.length := by
      unfold parseHeader at hp
      split at hp
      · simp only [Option.some.injEq, Prod.mk.injEq] at hp
        obtain ⟨_, rfl⟩ := hp
        simp
      · cases hp
    split
    · exact ⟨by simp; omega, fun _ => by simp; omega⟩
    · split
      · exact ⟨by simp, fun _ => by simp; omega⟩
      · have : (afterPayload r fh (rest.take fh.length) (rest.drop fh.length)).2.2 = rest.drop fh.length := by
          unfold afterPayload
          split
          · rfl
          · split <;> rfl
        rw [this]
        simp only [List.length_drop]
        exact ⟨by omega, fun _ => by omega⟩

theorem readFrame_rest_lt (r : Reader) (input : Bytes)
    (h : ∀ e, (readFrame r input).1 = .error e → e.terminal = false) :
    (readFrame r input).2.2.length < input.length := by
  have := (h2_readFrame_progress r input).2 h
  omega

/-- **h2_readAll_terminates**: reading frames until a terminal error needs at most one call per
input byte: more fuel never changes the result. -/
theorem h2_readAll_terminates (f1 f2 : Nat) (r : Reader) (input : Bytes)
    (h1 : input.length < f1) (h2 : input.length < f2) : readAll f1 r input = readAll f2 r input := by
  induction f1 generalizing f2 r input with
  | zero => omega
  | succ n ih =>
    cases f2 with
    | zero => omega
    | succ m =>
      unfold readAll
      split
      · next e r' rest hr =>
        split
        · rfl
        · next hnt =>
          have hlt : rest.length < input.length := by
            have := readFrame_rest_lt r input (by
              intro e' he'
              rw [hr] at he'
              simp only [Except.error.injEq] at he'
              subst he'
              simpa using hnt)
            rw [hr] at this
            exact this
          rw [ih m r' rest (by omega) (by omega)]
      · next f r' rest hr =>
        have hlt : rest.length < input.length := by
          have := readFrame_rest_lt r input (by
            intro e' he'
            rw [hr] at he'
            cases he')
          rw [hr] at this
          exact this
        rw [ih m r' rest (by omega) (by omega)]

/-- **h2_readFrame_total_classified**: for every reader state and every input `ReadFrame` yields a
frame, a stream error (the loop goes on), or one of the terminal classes. -/
theorem h2_readFrame_total_classified (r : Reader) (input : Bytes) :
    (∃ f, (readFrame r input).1 = .ok f) ∨
    (∃ sid code, (readFrame r input).1 = .error (.stream sid code)) ∨
    (∃ e, (readFrame r input).1 = .error e ∧ e.terminal = true) := by
  cases h : (readFrame r input).1 with
  | ok f => exact Or.inl ⟨f, rfl⟩
  | error e =>
    cases e with
    | stream sid code => exact Or.inr (Or.inl ⟨sid, code, rfl⟩)
    | conn c => exact Or.inr (Or.inr ⟨_, rfl, rfl⟩)
    | unexpectedEOF => exact Or.inr (Or.inr ⟨_, rfl, rfl⟩)
    | eof => exact Or.inr (Or.inr ⟨_, rfl, rfl⟩)
    | tooLarge => exact Or.inr (Or.inr ⟨_, rfl, rfl⟩)

/-! ### HTTP/3 -/
open Req.H3.Frame

/-- **h3_parseNext_progress**: `ParseNext` never un-reads; a returned frame header cost at least
two bytes. -/
theorem h3_parseNext_progress (fuel : Nat) (input : Bytes) :
    (parseNext fuel input).2.length ≤ input.length :=
  Req.Lemmas.C07.H3.parseNext_rest_le fuel input

/-- **h3_settings_terminates**: the SETTINGS payload loop consumes two varints per iteration. -/
theorem h3_settings_terminates (f1 f2 : Nat) (a : SettingsAcc) (b : Bytes)
    (h1 : b.length < f1) (h2 : b.length < f2) : settingsLoop f1 a b = settingsLoop f2 a b := by
  induction f1 generalizing f2 a b with
  | zero => omega
  | succ n ih =>
    cases f2 with
    | zero => omega
    | succ m =>
      unfold settingsLoop
      split
      · rfl
      · split
        · rfl
        · next id b1 hb1 =>
          have l1 := Req.Lemmas.C07.H3.read_lt b id b1 hb1
          split
          · rfl
          · next v b2 hb2 =>
            have l2 := Req.Lemmas.C07.H3.read_lt b1 v b2 hb2
            split
            · rfl
            · exact ih m _ b2 (by omega) (by omega)

/-! ### digest challenge (the repaired RFC 7235 reader, `Req.DigestAuth` of C20) -/
open Req.Digest Req.DigestAuth

theorem setParam_err (c : Challenge) (n v : Bytes) (e : Req.Digest.Err)
    (h : setParam c n v = .error e) : e = .charset := by
  unfold setParam at h
  repeat' split at h
  all_goals first | (cases h; done) | (cases h; rfl)

theorem addParam_err (st : PState) (n r : Bytes) (e : Req.Digest.Err)
    (h : addParam st n r = .error e) : e = .badChallenge ∨ e = .charset := by
  unfold addParam at h
  simp only at h
  split at h
  · split at h
    · cases h; exact Or.inl rfl
    · split at h
      · cases h
      · split at h
        · split at h
          · cases h
          · next e' he => cases h; exact Or.inr (setParam_err _ _ _ _ he)
        · cases h
  · cases h; exact Or.inl rfl

theorem stepElem_err (st : PState) (e0 : Bytes) (e : Req.Digest.Err)
    (h : stepElem st e0 = .error e) : e = .badChallenge ∨ e = .charset := by
  unfold stepElem at h
  simp only at h
  split at h
  · cases h
  · split at h
    · cases h; exact Or.inl rfl
    · split at h
      · split at h
        · cases h; exact Or.inl rfl
        · split at h
          · cases h
          · split at h
            · split at h
              · cases h; exact Or.inl rfl
              · cases h
            · exact addParam_err _ _ _ _ h
      · exact addParam_err _ _ _ _ h

theorem parseElems_err (es : List Bytes) (st : PState) (e : Req.Digest.Err)
    (h : parseElems es st = .error e) : e = .badChallenge ∨ e = .charset := by
  induction es generalizing st with
  | nil => simp [parseElems] at h
  | cons x xs ih =>
    unfold parseElems at h
    split at h
    · exact ih _ h
    · next err he => cases h; exact stepElem_err _ _ _ he

theorem selectQop_err (algOf : Bytes → Option Alg) (a o : Bytes) (e : Req.Digest.Err)
    (h : selectQop algOf a o = .error e) : e = .algNotSupported ∨ e = .qopNotSupported := by
  unfold selectQop at h
  split at h
  · cases h; exact Or.inl rfl
  · simp only at h
    repeat' split at h
    all_goals first | (cases h; done) | (cases h; exact Or.inr rfl)

theorem pick_err (algOf : Bytes → Option Alg) (l : List Challenge) (e : Req.Digest.Err)
    (h : pick algOf l = .error e) :
    e = .badChallenge ∨ e = .algNotSupported ∨ e = .qopNotSupported := by
  unfold pick at h
  split at h
  · cases h; exact Or.inl rfl
  · split at h
    · cases h
    · next e' he =>
      split at h
      · cases h
      · cases h; exact Or.inr (selectQop_err _ _ _ _ he)

/-- **digest_total_classified**: for EVERY `WWW-Authenticate` text — any list of challenges of any
schemes — the challenge reader returns a Digest challenge or one of exactly four named errors (bad
challenge, unsupported charset, unsupported algorithm, no supported qop). -/
theorem digest_total_classified (algOf : Bytes → Option Alg) (input : Bytes) :
    (∃ c, Req.DigestAuth.parseChallenge algOf input = .ok c) ∨
    ∃ e, Req.DigestAuth.parseChallenge algOf input = .error e ∧
      (e = .badChallenge ∨ e = .charset ∨ e = .algNotSupported ∨ e = .qopNotSupported) := by
  cases h : Req.DigestAuth.parseChallenge algOf input with
  | ok c => exact Or.inl ⟨c, rfl⟩
  | error e =>
    refine Or.inr ⟨e, rfl, ?_⟩
    unfold Req.DigestAuth.parseChallenge at h
    split at h
    · next e' he =>
      cases h
      rcases parseElems_err _ _ _ he with h1 | h1
      · exact Or.inl h1
      · exact Or.inr (Or.inl h1)
    · rcases pick_err _ _ _ h with h1 | h1 | h1
      · exact Or.inl h1
      · exact Or.inr (Or.inr (Or.inl h1))
      · exact Or.inr (Or.inr (Or.inr h1))

/-- non-vacuity -/
example : decodeChunked 4096 [53, 13, 10, 104, 101, 108, 108, 111, 13, 10, 48, 13, 10, 13, 10] =
    ([104, 101, 108, 108, 111], some [13, 10]) := by decide
example : (decodeChunked 4096 [48, 13, 10, 48, 13, 10]).2 = some [48, 13, 10] := by decide
example : (match (parseNext 9 [0x21, 0x00, 0x21, 0x00, 0x00, 0x03]).1 with
    | .ok (.data n) => n == 3
    | _ => false) = true := by decide

end total
end Req.Props.C07
