import Req.Pool.TlsResume
import Req.Props.C12
/-!
# C12 — a re-dial is judged by the settings in force NOW

Theorems about `Req.Pool.TLS.acceptsRedial`. Tied to the code by the fact
`sessionCacheWrites` (bridge) and behaviourally by lanes c12cfg (probe server with stable
session-ticket keys, connections of the same stack before the settings change), c12e2e /
c12uniform kind `redial` (verified first connection, connection closed, settings replaced,
new connection — on HTTP/1.1, HTTP/2 and HTTP/3).
-/
namespace Req.Props.C12
open Req.Pool.TLS

/-- **Whatever sessions earlier connections left behind**, when the library installs no session
cache the verdict of a new connection is the full verification under the current settings. -/
theorem redial_governed_by_current_settings (sess : Option Session) (v : VerifyCfg) (cert : ServerCert) :
    acceptsRedial 0 sess v cert = acceptsStd v cert := by
  simp [acceptsRedial, libraryCaches]

/-- Hence re-dials are uniform over the stacks like first connections (`tls_uniform`): every
stack, whatever its own connection history, decides as HTTP/1.1 does on a fresh client. -/
theorem redial_uniform (sites : List Site) (h : ∀ s, source sites s = .clientOptions)
    (client : Option TlsCfg) (own : Stack → Option TlsCfg) (host : Nat) (o : Bool) (cert : ServerCert)
    (hist : Stack → Option Session) (s : Stack) :
    acceptsRedial 0 (hist s) (verifyPart (effective s o host (cfgRead sites client own s))) cert
      = acceptsStd (verifyPart (effective .h1 false host client)) cert := by
  rw [redial_governed_by_current_settings]
  simp only [cfgRead, h]
  rw [effective_verify]

/-- Necessity (seed C12-r4-1): with a library-side cache, a session verified under the OLD roots
makes the stack accept a certificate the current roots do not cover. -/
theorem cached_session_outlives_roots :
    let v : VerifyCfg := { serverName := 1, insecure := false, roots := some [2], certs := [] }
    let cert : ServerCert := ⟨0, [1]⟩
    acceptsRedial 1 (some ⟨1, true⟩) v cert = true ∧ acceptsStd v cert = false := by decide

/-- … while a changed `ServerName`, or a first connection made under `InsecureSkipVerify`, does
not resume (why only "verified, then roots replaced" shows it). -/
example : resumes (some ⟨1, true⟩) { serverName := 2, insecure := false, roots := none, certs := [] } = false
    ∧ resumes (some ⟨1, false⟩) { serverName := 1, insecure := false, roots := none, certs := [] } = false := by
  decide

end Req.Props.C12
