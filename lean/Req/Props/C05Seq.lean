import Req.Lemmas.C05Seq
/-!
C05 — frame SEQUENCES through one Framer, in both directions (round 5).

Write side (`Req.H2.WriteSeq`: `Framer.wbuf`, `startWrite`, `endWrite`, every `Write*` entry point
statement by statement with its refusals before and AFTER `startWrite`, the underlying writer taking
all / fewer bytes / failing):

* `write_call_stateless`   — one call on ANY Framer state = the stateless writer of `Req.H2.Frame`;
* `write_sequence_bytes`   — ∀ call list, ∀ initial state: what reaches the connection is the
                             concatenation of the accepted calls' frames (refused calls contribute
                             nothing), and every result is the stateless result;
* `write_refused_no_trace` — deleting the refused calls from the sequence changes nothing;
* `write_wbuf_irrelevant`  — whatever an earlier call left in `wbuf` is unobservable;
* `write_sequence_wire`    — for calls on accepted-and-legal arguments the output is `wire ops`.

Read side (`checkFrameOrder` with PUSH_PROMISE / CONTINUATION exactly as golang.org/x/net/http2):

* `order_automaton_push`   — one step described completely: inside a block ONLY a CONTINUATION of the
                             block's stream is accepted (every other type, PUSH_PROMISE included, is
                             PROTOCOL_ERROR); outside a block everything but CONTINUATION is accepted
                             and ONLY a HEADERS without END_HEADERS opens a block — a PUSH_PROMISE
                             without END_HEADERS does not (x/net's framer does not support
                             continued PUSH_PROMISE blocks: the CONTINUATION that follows is refused);
* `sequence_read_back`     — ∀ list of written frames (any types, any interleaving) followed by any
                             bytes, ∀ reader state: repeated `ReadFrame` returns exactly the frames up
                             to the first one the order automaton refuses, there the connection
                             error; if none is refused it goes on with the rest in the state the
                             automaton reached;
* `open_block_every_writer` — inside an open block the frame of EVERY writer is refused, except a
                             CONTINUATION of the block's stream;
* `framer_write_read_sequence` — both halves: what a Framer wrote over a call sequence is read back
                             as `readSpec` of the accepted calls.
-/
namespace Req.Props.C05
open Req.Proto Req.H2.Frame Req.Lemmas.C05.Seq

/-- **write_call_stateless**: one `Framer.Write*` call — whatever `AllowIllegalWrites`, whatever the
underlying writer does, whatever state (`wbuf` content) earlier calls left — returns the result of
the stateless writer and hands the underlying writer exactly that writer's frame. -/
theorem write_call_stateless (c : Call) (w : Writer) :
    (c.op.run c.allow c.sink w).1 = c.result ∧
    (c.op.run c.allow c.sink w).2.out = w.out ++ c.bytes :=
  call_run c w

/-- a WriteHeaders refused AFTER `startWrite` (stream dependency 2^31) leaves ten bytes in `wbuf` … -/
example : (WOp.headers ⟨1, [7], false, true, 3, ⟨2147483648, false, 1⟩⟩).run false .full {} =
    (.refused .depStreamID, { wbuf := [0, 0, 0, 1, 44, 0, 0, 0, 1, 3], out := [] }) := by decide

/-- **write_sequence_bytes**: for every sequence of `Write*` calls on one Framer, from every initial
state: the bytes that reach the connection are the concatenation, in order, of the frames of the
accepted calls (a refused call contributes nothing, a short or failing underlying write its
prefix), and the result of every call is the stateless one. -/
theorem write_sequence_bytes (w : Writer) (calls : List Call) :
    (runCalls w calls).1 = calls.map Call.result ∧
    (runCalls w calls).2.out = w.out ++ (calls.map Call.bytes).flatten :=
  runCalls_spec w calls

/-- … and the PING written next is byte-identical to a PING on a fresh Framer. -/
example : runCalls {} [⟨false, .full, .headers ⟨1, [7], false, true, 3, ⟨2147483648, false, 1⟩⟩⟩,
                        ⟨false, .full, .ping false [1, 2, 3, 4, 5, 6, 7, 8]⟩] =
    ([.refused .depStreamID, .ok],
     { wbuf := [0, 0, 8, 6, 0, 0, 0, 0, 0, 1, 2, 3, 4, 5, 6, 7, 8],
       out := [0, 0, 8, 6, 0, 0, 0, 0, 0, 1, 2, 3, 4, 5, 6, 7, 8] }) := by decide

/-- refused WritePushPromise (promised id 0), short underlying write of a SETTINGS ACK, then RST_STREAM -/
example : (runCalls {} [⟨false, .full, .pushPromise ⟨1, 0, [9], true, 0⟩⟩,
                         ⟨false, .short 4, .settingsAck⟩,
                         ⟨false, .full, .rstStream 3 8⟩]) =
    ([.refused .streamID, .shortWrite, .ok],
     { wbuf := [0, 0, 4, 3, 0, 0, 0, 0, 3, 0, 0, 0, 8],
       out := [0, 0, 0, 4] ++ [0, 0, 4, 3, 0, 0, 0, 0, 3, 0, 0, 0, 8] }) := by decide

/-- **write_refused_no_trace**: the connection sees the same bytes as if the refused calls had never
been made. -/
theorem write_refused_no_trace (w : Writer) (calls : List Call) :
    (runCalls w calls).2.out = (runCalls w (calls.filter Call.accepted)).2.out := by
  rw [(runCalls_spec w calls).2, (runCalls_spec w _).2, filter_bytes]

example : (⟨false, .full, .windowUpdate 1 0⟩ : Call).accepted = false ∧
    (⟨true, .full, .windowUpdate 1 0⟩ : Call).accepted = true := by decide

/-- **write_wbuf_irrelevant**: two Framers that differ only in what is left in `wbuf` behave the same
on every call sequence. -/
theorem write_wbuf_irrelevant (w w' : Writer) (calls : List Call) (h : w.out = w'.out) :
    (runCalls w calls).1 = (runCalls w' calls).1 ∧
    (runCalls w calls).2.out = (runCalls w' calls).2.out := by
  rw [(runCalls_spec w calls).1, (runCalls_spec w' calls).1, (runCalls_spec w calls).2,
    (runCalls_spec w' calls).2, h]
  exact ⟨rfl, rfl⟩

/-- the accepted operations of a call sequence, in order. -/
def acceptedOps (calls : List Call) : List WOp := (calls.filter Call.accepted).map (·.op)

/-- **write_sequence_wire**: with `AllowIllegalWrites` off, an underlying writer that takes
everything, and accepted calls on the arguments a reader gives back (`WOp.Wf`), the output is the
wire image `header ++ payload` of the accepted operations, one after the other. -/
theorem write_sequence_wire (w : Writer) (calls : List Call)
    (hplain : ∀ c ∈ calls, c.allow = false ∧ c.sink = .full)
    (hwf : ∀ c ∈ calls, c.accepted = true → c.op.Wf) :
    (runCalls w calls).2.out = w.out ++ wire (acceptedOps calls) := by
  rw [(runCalls_spec w calls).2]
  congr 1
  induction calls with
  | nil => rfl
  | cons c cs ih =>
    have ih' := ih (fun d hd => hplain d (by simp [hd])) (fun d hd => hwf d (by simp [hd]))
    obtain ⟨ha, hs⟩ := hplain c (by simp)
    by_cases hacc : c.accepted = true
    · have hw := (Req.Lemmas.C05.Inj.write_parts c.op (hwf c (by simp) hacc)).1
      have hb : c.bytes = headerBytes c.op.payload.length c.op.typ c.op.flags c.op.sid ++ c.op.payload := by
        unfold Call.bytes Call.frame
        rw [ha, writeA_false, hw, hs]
        rfl
      simp only [acceptedOps, List.filter_cons, hacc, if_true, List.map_cons, wire,
        List.flatten_cons, hb]
      rw [ih']
      simp [acceptedOps]
    · have hacc' : c.accepted = false := by simpa using hacc
      simp only [acceptedOps, List.filter_cons, hacc', List.map_cons, List.flatten_cons,
        refused_bytes c hacc', List.nil_append]
      rw [ih']
      simp [acceptedOps]

example : acceptedOps [⟨false, .full, .priority 1 ⟨2147483648, false, 0⟩⟩, ⟨false, .full, .settingsAck⟩]
    = [.settingsAck] := by decide

/-- **order_automaton_push**: one step of `checkFrameOrder`, completely, with PUSH_PROMISE and
CONTINUATION exactly as in golang.org/x/net/http2.
Inside the header block of stream `l ≠ 0` a frame is accepted iff it is a CONTINUATION on stream
`l` (the block stays open iff END_HEADERS is clear) — every other frame type, PUSH_PROMISE included,
is a connection error. Outside a block a frame is accepted iff it is not a CONTINUATION, and the
state it leaves is the stream of a HEADERS frame without END_HEADERS, closed for everything else:
a PUSH_PROMISE never opens a block whatever its END_HEADERS flag, so any frame after it is
accepted iff it is not a CONTINUATION. -/
theorem order_automaton_push (l : Nat) (fh : FrameHeader) :
    (l ≠ 0 → ∀ l', orderStep l fh = some l' ↔
        fh.type = tContinuation ∧ fh.streamID = l ∧
          l' = if hasFlag fh.flags flagEndHeaders then 0 else l) ∧
    (∀ l', orderStep 0 fh = some l' ↔
        fh.type ≠ tContinuation ∧
          l' = if fh.type = tHeaders ∧ hasFlag fh.flags flagEndHeaders = false then fh.streamID else 0) ∧
    (fh.type = tPushPromise → orderStep 0 fh = some 0 ∧
        (l ≠ 0 → orderStep l fh = none) ∧
        ∀ next, (runOrder 0 [fh, next]).isSome ↔ next.type ≠ tContinuation) := by
  refine ⟨?_, ?_, ?_⟩
  · intro hl l'
    rw [orderStep_open l fh hl]
    by_cases hc : fh.type = tContinuation ∧ fh.streamID = l
    · simp only [hc, and_self, if_true, Option.some.injEq, true_and]
      exact eq_comm
    · simp only [hc, if_false]
      constructor
      · intro h; cases h
      · intro h; exact absurd ⟨h.1, h.2.1⟩ hc
  · intro l'
    rw [orderStep_closed fh]
    by_cases hc : fh.type = tContinuation
    · simp [hc]
    · simp only [hc, if_false, ne_eq, not_false_eq_true, true_and]
      split <;> simp [eq_comm]
  · intro hp
    have h0 : orderStep 0 fh = some 0 := by
      rw [orderStep_closed fh]; simp [hp, tPushPromise, tContinuation, tHeaders]
    refine ⟨h0, ?_, ?_⟩
    · intro hl
      rw [orderStep_open l fh hl]; simp [hp, tPushPromise, tContinuation]
    · intro next
      simp only [runOrder, h0]
      rw [orderStep_closed next]
      by_cases hc : next.type = tContinuation
      · simp [hc]
      · simp only [hc, if_false]
        by_cases hh : next.type = tHeaders ∧ hasFlag next.flags flagEndHeaders = false
        · simp [hh, tHeaders, tContinuation]
        · simp [hh, hc]

/-- PUSH_PROMISE without END_HEADERS (flags 0) on stream 1, then a CONTINUATION on stream 1: refused;
then a PING: accepted; HEADERS without END_HEADERS then PUSH_PROMISE: refused. -/
example : (runOrder 0 [⟨4, 5, 0, 1⟩, ⟨0, 9, 4, 1⟩]).isSome = false ∧
    (runOrder 0 [⟨4, 5, 0, 1⟩, ⟨8, 6, 0, 0⟩]).isSome = true ∧
    (runOrder 0 [⟨0, 1, 0, 1⟩, ⟨4, 5, 4, 1⟩]).isSome = false := by decide

/-- **sequence_read_back**: any list of frames written on accepted arguments — every type, any
interleaving, PUSH_PROMISE with or without END_HEADERS, CONTINUATION anywhere — followed by any bytes,
read by a reader in ANY header-block state that takes the frame sizes: repeated `ReadFrame` returns
`readSpec`, i.e. exactly the frames of the operations in order up to the first one
`checkFrameOrder` refuses, and there the (terminal) connection error PROTOCOL_ERROR; when none is
refused (`runOrder … = some l`) reading goes on with the following bytes in state `l`. With
`order_automaton` the second case is exactly `Contiguous`. -/
theorem sequence_read_back (ops : List WOp) (hwf : ∀ a ∈ ops, a.Wf) (r : Reader) (rest : Bytes)
    (k : Nat) (hlegal : r.allowIllegalReads = false)
    (hfit : ∀ a ∈ ops, a.payload.length ≤ r.maxReadSize) :
    readAll (ops.length + k) r (wire ops ++ rest) =
      match runOrder r.lastHeaderStream (ops.map WOp.hdr) with
      | some l => readSpec r.lastHeaderStream ops ++ readAll k { r with lastHeaderStream := l } rest
      | none => readSpec r.lastHeaderStream ops :=
  read_seq ops hwf r rest k hlegal hfit

/-- PUSH_PROMISE without END_HEADERS, CONTINUATION, PING on the wire: the PUSH_PROMISE frame, then
the connection error — the PING is never returned. -/
example : readAll 5 { maxReadSize := 16384 }
    (wire [.pushPromise ⟨1, 2, [9], false, 0⟩, .continuation 1 true [7], .ping false [1, 2, 3, 4, 5, 6, 7, 8]]) =
    [.ok (.pushPromise ⟨5, 5, 0, 1⟩ 2 [9]), .error (.conn errProtocol)] := by decide

example : readSpec 0 [.headers ⟨1, [7], false, false, 0, Priority.zero⟩, .continuation 1 true [8], .settingsAck] =
    [.ok (.headers ⟨1, 1, 0, 1⟩ Priority.zero [7]), .ok (.continuation ⟨1, 9, 4, 1⟩ [8]),
     .ok (.settings ⟨0, 4, 1, 0⟩ [])] := by decide

/-- **open_block_every_writer**: inside an open header block (stream `l ≠ 0`) the frame of EVERY
writer entry point is refused with the connection error PROTOCOL_ERROR, the reader state untouched —
except `WriteContinuation` on stream `l`, which is returned and closes the block iff it carries
END_HEADERS. -/
theorem open_block_every_writer (a : WOp) (h : a.Wf) (r : Reader) (rest : Bytes)
    (hopen : r.lastHeaderStream ≠ 0) (hlegal : r.allowIllegalReads = false)
    (hfit : a.payload.length ≤ r.maxReadSize) :
    (∀ eh f, a = .continuation r.lastHeaderStream eh f →
      readFrame r (wire [a] ++ rest) =
        (.ok a.frame, { r with lastHeaderStream := if eh then 0 else r.lastHeaderStream }, rest)) ∧
    ((¬ ∃ eh f, a = .continuation r.lastHeaderStream eh f) →
      readFrame r (wire [a] ++ rest) = (.error (.conn errProtocol), r, rest)) := by
  have h1 := read_one a h r rest hlegal hfit
  simp only [wire, List.append_nil]
  rw [h1, orderStep_open _ _ hopen]
  constructor
  · intro eh f ha
    subst ha
    cases eh <;> simp [WOp.hdr, WOp.typ, WOp.sid, WOp.flags, b2n, hasFlag, flagEndHeaders]
  · intro hne
    have : ¬ (a.hdr.type = tContinuation ∧ a.hdr.streamID = r.lastHeaderStream) := by
      intro ⟨ht, hs⟩
      obtain ⟨sid, eh, f, rfl⟩ := (typ_continuation_iff a h).1 ht
      exact hne ⟨eh, f, by simp only [WOp.hdr, WOp.sid] at hs; rw [hs]⟩
    simp [this]

/-- a PUSH_PROMISE (with END_HEADERS) inside the open block of its own stream: refused. -/
example : readFrame { maxReadSize := 16384, lastHeaderStream := 3 }
    (wire [.pushPromise ⟨3, 2, [9], true, 0⟩]) =
    (.error (.conn errProtocol), { maxReadSize := 16384, lastHeaderStream := 3 }, []) := by decide

/-- **framer_write_read_sequence**: a Framer that ran ANY sequence of `Write*` calls (from any state;
`AllowIllegalWrites` off, the underlying writer taking everything, the accepted calls on arguments a
reader gives back), and a reader in the initial state that takes the frame sizes: reading the
connection returns exactly `readSpec` of the ACCEPTED calls — the refused ones are invisible — and
ends with `io.EOF` when the order automaton accepted them all. -/
theorem framer_write_read_sequence (w : Writer) (calls : List Call) (r : Reader)
    (hw : w.out = [])
    (hplain : ∀ c ∈ calls, c.allow = false ∧ c.sink = .full)
    (hwf : ∀ c ∈ calls, c.accepted = true → c.op.Wf)
    (hstate : r.lastHeaderStream = 0) (hlegal : r.allowIllegalReads = false)
    (hfit : ∀ c ∈ calls, c.op.payload.length ≤ r.maxReadSize) :
    readAll ((acceptedOps calls).length + 1) r (runCalls w calls).2.out =
      match runOrder 0 ((acceptedOps calls).map WOp.hdr) with
      | some _ => readSpec 0 (acceptedOps calls) ++ [.error .eof]
      | none => readSpec 0 (acceptedOps calls) := by
  rw [write_sequence_wire w calls hplain hwf, hw, List.nil_append]
  have hmem : ∀ a ∈ acceptedOps calls, ∃ c ∈ calls, c.accepted = true ∧ c.op = a := by
    intro a ha
    simp only [acceptedOps, List.mem_map, List.mem_filter] at ha
    obtain ⟨c, ⟨hc, hacc⟩, rfl⟩ := ha
    exact ⟨c, hc, hacc, rfl⟩
  have h := read_seq (acceptedOps calls)
    (fun a ha => by obtain ⟨c, hc, hacc, rfl⟩ := hmem a ha; exact hwf c hc hacc)
    r [] 1 hlegal
    (fun a ha => by obtain ⟨c, hc, _, rfl⟩ := hmem a ha; exact hfit c hc)
  rw [List.append_nil, hstate] at h
  rw [h]
  cases runOrder 0 ((acceptedOps calls).map WOp.hdr) with
  | none => rfl
  | some l => simp [readAll, readFrame, parseHeader, RErr.terminal]

example : readAll 3 { maxReadSize := 16384 }
    (runCalls {} [⟨false, .full, .headers ⟨1, [7], false, true, 3, ⟨2147483648, false, 1⟩⟩⟩,
                  ⟨false, .full, .ping true [1, 2, 3, 4, 5, 6, 7, 8]⟩]).2.out =
    [.ok (.ping ⟨8, 6, 1, 0⟩ [1, 2, 3, 4, 5, 6, 7, 8]), .error .eof] := by decide

end Req.Props.C05
