import Req.Lemmas.H1Chunk
/-!
C04 round 5 — the chunked reader's overhead budget (`chunkedReader.excess`,
internal/chunked.go `beginChunk`; = go1.23.5 net/http/internal), as theorems about
`Req.H1.chunkLoop` for ALL byte streams, buffer sizes and numbers of chunks.

Reference rule: every chunk-size line is charged `len(line) + 2` bytes of overhead (the line
with its LF, plus the CRLF behind the chunk data) and refunds `16 + 2·n` for its `n` data bytes;
the running balance is clamped at 0 and must not exceed 16 KiB after a data chunk.  The last-chunk
line is charged too, but `io.EOF` wins over the error.

* `ChunkShape` — what an accepted stream looks like: data chunks `(len(line_i), n_i)` with
  `n_i > 0`, then the last-chunk line.
* `excess_bound` — accepted ⇒ the stream is exactly `Σ (len_i + n_i + 2)` + last line + rest, the
  body has `Σ n_i` bytes, and the overhead obeys
  `Σ (len_i + 2) ≤ 16 KiB + Σ (16 + 2·n_i)` — and so does EVERY prefix of the chunk list
  (`excess_bound_prefix`: the balance is checked after each chunk, not at the end).
* `excess_bound_bytes` — the same in bytes: overhead ≤ 16 KiB + 18·|body|, last line < 4096 and ≤ B.
* `excess_exact` — the decision itself, for one chunk: with balance `ex` before it, a chunk of
  `n ≥ 1` (< 2^61) data bytes whose size line has `L` bytes is refused iff
  `ex + L + 2 > 16 KiB + 16 + 2·n` (boundary ±1 in the examples), whatever the extension bytes
  are — extension bytes, trailing blanks and zero padding are all charged (`excess_counts_line`).
-/
namespace Req.Props.C04
open Req.Proto Req.H1

/-- Sum of `len + 2` over the chunk list: the non-data bytes of the data chunks. -/
def ovSum : List (Nat × Nat) → Nat
  | [] => 0
  | (l, _) :: cs => l + 2 + ovSum cs

/-- Sum of the chunk sizes. -/
def dataSum : List (Nat × Nat) → Nat
  | [] => 0
  | (_, n) :: cs => n + dataSum cs

theorem ovSum_append (a b : List (Nat × Nat)) : ovSum (a ++ b) = ovSum a + ovSum b := by
  induction a with
  | nil => simp [ovSum]
  | cons c a ih => obtain ⟨l, n⟩ := c; simp [ovSum, ih]; omega

theorem dataSum_append (a b : List (Nat × Nat)) : dataSum (a ++ b) = dataSum a + dataSum b := by
  induction a with
  | nil => simp [dataSum]
  | cons c a ih => obtain ⟨l, n⟩ := c; simp [dataSum, ih]; omega

/-- The running balance after the chunks `cs`, started at `ex` (no wrap: sizes < 2^61). -/
def balance : Int → List (Nat × Nat) → Int
  | ex, [] => ex
  | ex, (l, n) :: cs => balance (max (ex + (l : Int) + 2 - (16 + 2 * (n : Int))) 0) cs

/-- The balance never undercuts the unclamped sum. -/
theorem balance_ge (ex : Int) (cs : List (Nat × Nat)) :
    ex + (ovSum cs : Int) - (16 * (cs.length : Int) + 2 * (dataSum cs : Int)) ≤ balance ex cs := by
  induction cs generalizing ex with
  | nil => simp [balance, ovSum, dataSum]
  | cons c cs ih =>
    obtain ⟨l, n⟩ := c
    have := ih (max (ex + (l : Int) + 2 - (16 + 2 * (n : Int))) 0)
    simp only [balance, ovSum, dataSum, List.length_cons]
    omega

theorem balance_nonneg (ex : Int) (h : 0 ≤ ex) (cs : List (Nat × Nat)) : 0 ≤ balance ex cs := by
  induction cs generalizing ex with
  | nil => simpa [balance]
  | cons c cs ih => obtain ⟨l, n⟩ := c; exact ih _ (by omega)

/-- What an accepted chunked stream is made of. -/
structure ChunkShape where
  chunks : List (Nat × Nat)     -- (length of the size line incl. LF, chunk size)
  last : Nat                    -- length of the last-chunk line incl. LF

/-- The invariant carried through `chunkLoop`: shape of the stream and the balance after every
prefix of the chunk list. -/
def Accepts (B : Nat) (ex : Int) (s d rest : Bytes) (sh : ChunkShape) : Prop :=
  s.length = ovSum sh.chunks + dataSum sh.chunks + sh.last + rest.length ∧
  d.length = dataSum sh.chunks ∧
  (∀ c ∈ sh.chunks, 0 < c.2 ∧ 2 ≤ c.1 ∧ c.1 < 4096 ∧ c.1 ≤ B) ∧
  2 ≤ sh.last ∧ sh.last < 4096 ∧ sh.last ≤ B ∧
  ∀ j, 0 < j → j ≤ sh.chunks.length → balance ex (sh.chunks.take j) ≤ 16 * 1024

theorem readChunkLine_shape {B : Nat} {s line r : Bytes} (h : readChunkLine B s = some (line, r)) :
    s.length = line.length + r.length ∧ 1 ≤ line.length ∧ line.length < 4096 ∧ line.length ≤ B := by
  unfold readChunkLine at h
  split at h
  · simp at h
  · next a rest hs =>
    split at h
    · next hc =>
      simp only [Option.some.injEq, Prod.mk.injEq] at h
      obtain ⟨rfl, rfl⟩ := h
      have := splitLF_eq hs
      have hl := congrArg List.length this
      simp only [List.length_append, List.length_cons, List.length_nil, maxLineLength] at hl hc ⊢
      omega
    · simp at h

theorem parseHexUint_ne_nil {v : Bytes} {n : Nat} (h : parseHexUint v = some n) : v ≠ [] := by
  intro hv; simp [hv, parseHexUint] at h

theorem trimTrailingWS_length (b : Bytes) : (trimTrailingWS b).length ≤ b.length := by
  unfold trimTrailingWS
  rw [List.length_reverse]
  exact Nat.le_trans (List.Sublist.length_le (List.dropWhile_sublist _)) (by simp)

theorem cutByte_length {b : UInt8} {s x y : Bytes} (h : cutByte b s = some (x, y)) :
    x.length + 1 + y.length = s.length := by
  induction s generalizing x y with
  | nil => simp [cutByte] at h
  | cons c t ih =>
    unfold cutByte at h
    split at h
    · simp only [Option.some.injEq, Prod.mk.injEq] at h
      obtain ⟨rfl, rfl⟩ := h; simp; omega
    · split at h
      · next x' y' hc =>
        simp only [Option.some.injEq, Prod.mk.injEq] at h
        obtain ⟨rfl, rfl⟩ := h
        have := ih hc
        simp only [List.length_cons]; omega
      · simp at h

/-- A parsable size field is at least one byte, and the LF is not part of it: the line has ≥ 2
bytes. -/
theorem sizeLine_ge_two {line : Bytes} {n : Nat} (hl : ∃ pre, line = pre ++ [LF])
    (h : parseHexUint (chunkSizeField line) = some n) : 2 ≤ line.length := by
  have hne := parseHexUint_ne_nil h
  -- the trimmed line is strictly shorter than the line (the LF is whitespace)
  have htr : (trimTrailingWS line).length + 1 ≤ line.length := by
    obtain ⟨pre, rfl⟩ := hl
    unfold trimTrailingWS
    rw [List.reverse_append]
    simp only [List.reverse_cons, List.reverse_nil, List.nil_append, List.cons_append,
      List.length_reverse, List.length_append, List.length_cons, List.length_nil]
    rw [List.dropWhile_cons_of_pos (by decide)]
    have := List.Sublist.length_le (List.dropWhile_sublist isASCIISpace (l := pre.reverse))
    simp only [List.length_reverse] at this
    omega
  have hf : (chunkSizeField line).length ≤ (trimTrailingWS line).length := by
    unfold chunkSizeField
    simp only
    split
    · next x y hc => have := cutByte_length hc; omega
    · exact Nat.le_refl _
  have : 1 ≤ (chunkSizeField line).length := by
    cases hc : chunkSizeField line with
    | nil => exact absurd hc hne
    | cons _ _ => simp
  omega

theorem readChunkLine_last {B : Nat} {s line r : Bytes} (h : readChunkLine B s = some (line, r)) :
    ∃ pre, line = pre ++ [LF] := by
  unfold readChunkLine at h
  split at h
  · simp at h
  · next a rest _ =>
    split at h
    · simp only [Option.some.injEq, Prod.mk.injEq] at h
      exact ⟨a, h.1.symm⟩
    · simp at h

/-- The induction behind `excess_bound`. -/
theorem chunkLoop_accepts (fuel B : Nat) (ex : Int) (s d rest : Bytes)
    (hex0 : 0 ≤ ex) (hex1 : ex ≤ 16 * 1024)
    (h : chunkLoop fuel B ex s = (d, some rest)) (hd : d.length < 2 ^ 61) :
    ∃ sh, Accepts B ex s d rest sh := by
  induction fuel generalizing ex s d with
  | zero => simp [chunkLoop] at h
  | succ fuel ih =>
    unfold chunkLoop at h
    split at h
    · simp at h
    · next line r hline =>
      have hsh := readChunkLine_shape hline
      split at h
      · simp at h
      · next n hn =>
        have h2 := sizeLine_ge_two (readChunkLine_last hline) hn
        simp only at h
        split at h
        · next hz =>
          -- last chunk
          simp only [Prod.mk.injEq, Option.some.injEq] at h
          obtain ⟨rfl, rfl⟩ := h
          refine ⟨⟨[], line.length⟩, ?_⟩
          refine ⟨by simp [ovSum, dataSum]; omega, by simp [dataSum], by simp, h2, hsh.2.2.1,
            hsh.2.2.2, ?_⟩
          intro j hj hj'; simp at hj'; omega
        · next hz =>
          split at h
          · simp at h
          · next hlim =>
            split at h
            · simp at h
            · next hlen =>
              split at h
              · next r3 hr3 =>
                cases hrec : chunkLoop fuel B
                    (max (wrap64 (ex + (line.length : Int) + 2 - (16 + 2 * (n : Int)))) 0) r3 with
                | mk d' e' =>
                  rw [hrec] at h
                  simp only [Prod.mk.injEq] at h
                  obtain ⟨rfl, rfl⟩ := h
                  have hlen' : n ≤ r.length := by omega
                  have htk : (r.take n).length = n := by simp [List.length_take]; omega
                  have hdl : n + d'.length < 2 ^ 61 := by
                    simpa [List.length_append, htk] using hd
                  have hw : wrap64 (ex + (line.length : Int) + 2 - (16 + 2 * (n : Int)))
                      = ex + (line.length : Int) + 2 - (16 + 2 * (n : Int)) := by
                    apply wrap64_id <;> omega
                  rw [hw] at hrec hlim
                  obtain ⟨sh', hA⟩ := ih _ r3 d' (by omega) (by omega) hrec (by omega)
                  obtain ⟨hs', hd', hall', hl2', hl1', hlB', hbal'⟩ := hA
                  have hr : r.length = n + 2 + r3.length := by
                    have := congrArg List.length (List.take_append_drop n r)
                    rw [hr3] at this
                    simp only [List.length_append, htk, List.length_cons] at this
                    omega
                  refine ⟨⟨(line.length, n) :: sh'.chunks, sh'.last⟩, ?_⟩
                  refine ⟨?_, ?_, ?_, hl2', hl1', hlB', ?_⟩
                  · simp only [ovSum, dataSum]; omega
                  · simp only [List.length_append, htk, dataSum]; omega
                  · intro c hc
                    rcases List.mem_cons.mp hc with rfl | hc
                    · exact ⟨by simp only; omega, by simpa using h2, hsh.2.2.1, hsh.2.2.2⟩
                    · exact hall' c hc
                  · intro j hj hj'
                    cases j with
                    | zero => omega
                    | succ j =>
                      simp only [List.take_succ_cons, balance]
                      cases j with
                      | zero => simp only [List.take_zero, balance]; omega
                      | succ j =>
                        apply hbal' (j + 1) (by omega)
                        simp only [List.length_cons] at hj'; omega
              · simp at h

/-- **excess_bound_prefix.** Accepted ⇒ the stream has the chunk shape and the overhead budget
holds after EVERY chunk: for each non-empty prefix of the chunk list,
`Σ (len_i + 2) ≤ 16 KiB + Σ (16 + 2·n_i)`. -/
theorem excess_bound_prefix (B : Nat) (s d rest : Bytes)
    (h : decodeChunked B s = (d, some rest)) (hd : d.length < 2 ^ 61) :
    ∃ sh : ChunkShape,
      s.length = ovSum sh.chunks + dataSum sh.chunks + sh.last + rest.length ∧
      d.length = dataSum sh.chunks ∧
      (∀ c ∈ sh.chunks, 0 < c.2 ∧ 2 ≤ c.1 ∧ c.1 < 4096 ∧ c.1 ≤ B) ∧
      2 ≤ sh.last ∧ sh.last < 4096 ∧ sh.last ≤ B ∧
      ∀ j, j ≤ sh.chunks.length →
        ovSum (sh.chunks.take j) ≤ 16 * 1024 + 16 * j + 2 * dataSum (sh.chunks.take j) := by
  obtain ⟨sh, h1, h2, h3, h4, h5, h6, h7⟩ :=
    chunkLoop_accepts (s.length + 1) B 0 s d rest (by omega) (by omega) h hd
  refine ⟨sh, h1, h2, h3, h4, h5, h6, ?_⟩
  intro j hj
  cases j with
  | zero => simp [ovSum]
  | succ j =>
    have hb := h7 (j + 1) (by omega) hj
    have hg := balance_ge 0 (sh.chunks.take (j + 1))
    have hl : (sh.chunks.take (j + 1)).length = j + 1 := by simp [List.length_take]; omega
    rw [hl] at hg
    omega

/-- **excess_bound.** Accepted ⇒ overhead ≤ 16 KiB + 16 per chunk + 2·data, exactly the
reference's allowance. -/
theorem excess_bound (B : Nat) (s d rest : Bytes)
    (h : decodeChunked B s = (d, some rest)) (hd : d.length < 2 ^ 61) :
    ∃ sh : ChunkShape,
      s.length = ovSum sh.chunks + d.length + sh.last + rest.length ∧
      d.length = dataSum sh.chunks ∧ (∀ c ∈ sh.chunks, 0 < c.2) ∧
      ovSum sh.chunks ≤ 16 * 1024 + 16 * sh.chunks.length + 2 * d.length := by
  obtain ⟨sh, h1, h2, h3, _, _, _, h7⟩ := excess_bound_prefix B s d rest h hd
  refine ⟨sh, by omega, h2, fun c hc => (h3 c hc).1, ?_⟩
  have := h7 sh.chunks.length (Nat.le_refl _)
  rw [List.take_length] at this
  omega

theorem chunks_le_data (cs : List (Nat × Nat)) (h : ∀ c ∈ cs, 0 < c.2) : cs.length ≤ dataSum cs := by
  induction cs with
  | nil => simp
  | cons c cs ih =>
    obtain ⟨l, n⟩ := c
    have h1 := h (l, n) (by simp)
    have h2 := ih (fun c hc => h c (List.mem_cons_of_mem _ hc))
    simp only [List.length_cons, dataSum] at *
    omega

/-- **excess_bound_bytes.** In bytes of the stream: what an accepted chunked body costs beyond
its data is at most 16 KiB + 18·|body|, plus the last-chunk line (< 4096, ≤ B). -/
theorem excess_bound_bytes (B : Nat) (s d rest : Bytes)
    (h : decodeChunked B s = (d, some rest)) (hd : d.length < 2 ^ 61) :
    s.length - rest.length - d.length ≤ 16 * 1024 + 18 * d.length + min B 4095 := by
  obtain ⟨sh, h1, h2, h3, _, h5, h6, h7⟩ := excess_bound_prefix B s d rest h hd
  have hk := chunks_le_data sh.chunks (fun c hc => (h3 c hc).1)
  have := h7 sh.chunks.length (Nat.le_refl _)
  rw [List.take_length] at this
  omega

/-- **excess_exact.** One chunk, the decision itself: with balance `ex` (0 ≤ ex ≤ 16 KiB) a data
chunk of `n` bytes behind a size line of `L` bytes is refused for overhead iff
`ex + L + 2 > 16 KiB + 16 + 2·n`. -/
theorem excess_exact (fuel B : Nat) (ex : Int) (s line r : Bytes) (n : Nat)
    (hex0 : 0 ≤ ex) (hex1 : ex ≤ 16 * 1024) (hn0 : 0 < n) (hn : n < 2 ^ 61)
    (hline : readChunkLine B s = some (line, r))
    (hsz : parseHexUint (chunkSizeField line) = some n) :
    (ex + line.length + 2 > 16 * 1024 + 16 + 2 * (n : Int) → chunkLoop (fuel + 1) B ex s = ([], none)) ∧
    (ex + line.length + 2 ≤ 16 * 1024 + 16 + 2 * (n : Int) → n + 2 ≤ r.length →
      (r.drop n).take 2 = [13, 10] →
      chunkLoop (fuel + 1) B ex s =
        ((r.take n ++ (chunkLoop fuel B (max (ex + line.length + 2 - (16 + 2 * (n : Int))) 0)
            (r.drop (n + 2))).1),
         (chunkLoop fuel B (max (ex + line.length + 2 - (16 + 2 * (n : Int))) 0) (r.drop (n + 2))).2)) := by
  have hsh := readChunkLine_shape hline
  have hw : wrap64 (ex + (line.length : Int) + 2 - (16 + 2 * (n : Int)))
      = ex + (line.length : Int) + 2 - (16 + 2 * (n : Int)) := by
    apply wrap64_id <;> omega
  constructor
  · intro hgt
    unfold chunkLoop
    simp only [hline, hsz, hw]
    rw [if_neg (by omega), if_pos (by omega)]
  · intro hle hlen hcr
    conv => lhs; unfold chunkLoop
    simp only [hline, hsz, hw]
    rw [if_neg (by omega), if_neg (by omega), if_neg (by omega)]
    have hd : r.drop n = 13 :: 10 :: r.drop (n + 2) := by
      have h1 : (r.drop n).length = r.length - n := by simp
      match hq : r.drop n, hcr, h1 with
      | a :: b :: t, hcr, _ =>
        simp only [List.take_succ_cons, List.take_zero, List.cons.injEq, and_true] at hcr
        obtain ⟨rfl, rfl⟩ := hcr
        have : r.drop (n + 2) = (r.drop n).drop 2 := by rw [List.drop_drop]
        rw [this, hq]; rfl
      | [_], _, h1 => simp at h1; omega
      | [], _, h1 => simp at h1; omega
    rw [hd]
    rfl

/-- **excess_counts_line.** What is charged is the whole size line as read — digits, extension,
blanks before the CRLF, the CR and the LF: two lines of equal length and equal size field value
are interchangeable for the overhead decision. -/
theorem excess_counts_line (fuel B : Nat) (ex : Int) (s s' line line' r : Bytes) (n : Nat)
    (hline : readChunkLine B s = some (line, r)) (hline' : readChunkLine B s' = some (line', r))
    (hsz : parseHexUint (chunkSizeField line) = some n)
    (hsz' : parseHexUint (chunkSizeField line') = some n)
    (hlen : line.length = line'.length) :
    chunkLoop (fuel + 1) B ex s = chunkLoop (fuel + 1) B ex s' := by
  unfold chunkLoop
  simp only [hline, hline', hsz, hsz', hlen]

/-! ### non-vacuity: the boundary, ±1 -/

/-- `1;xxx\r\nD\r\n0\r\n` with the balance one short of the limit: line of 7 bytes,
`ex + 7 + 2 = 16 KiB + 16 + 2` → accepted … -/
example : chunkLoop 5 64 (16 * 1024 + 9) [49, 59, 120, 120, 120, 13, 10, 68, 13, 10, 48, 13, 10] =
    ([68], some []) := by decide

/-- … and refused with one more unit of balance, or one more extension byte. -/
example : chunkLoop 5 64 (16 * 1024 + 10) [49, 59, 120, 120, 120, 13, 10, 68, 13, 10, 48, 13, 10] =
    ([], none) := by decide

example : chunkLoop 5 64 (16 * 1024 + 9) [49, 59, 120, 120, 120, 120, 13, 10, 68, 13, 10, 48, 13, 10] =
    ([], none) := by decide

/-- blanks before the CRLF and zero padding count like extension bytes. -/
example : chunkLoop 5 64 (16 * 1024 + 9) [48, 48, 48, 49, 32, 9, 13, 10, 68, 13, 10, 48, 13, 10] =
    ([], none) := by decide

example : decodeChunked 64 [49, 59, 120, 13, 10, 68, 13, 10, 50, 13, 10, 69, 70, 13, 10, 48, 13, 10, 88] =
    ([68, 69, 70], some [88]) := by decide

end Req.Props.C04
