import Req.Props.C06
import Req.Lemmas.C06Race
/-!
C06, round 4 — below lock granularity: the open finding `c06-settings-ack-race`, bounded by a
theorem.

`conn_conforms` treats "size a DATA frame / admit a new stream" and "write the frame" as one step.
`Req.H2.Race` is the two-phase refinement: `writeRaced id vals` sizes a DATA frame under `cc.mu`,
lets `processSettings` apply and acknowledge the SETTINGS frame `vals` (it holds `cc.mu` and
`cc.wmu`), and only then writes the frame under `cc.wmu`; `openRaced r vals` does the same between
the admission of a request (`awaitOpenSlotForStreamLocked` + `addStreamLocked`) and the write of
its header block. Every other operation is as before, so every run of `Conn` is a run of `Race`.

* `race_tolerated` — for every fingerprint and every refined operation list (any number of
  races, each with any SETTINGS frame), the race-tolerant reading of the strict peer accepts the
  history: everything the strict peer checks holds, except that the first DATA frame of a stream
  after an acknowledgement is judged by the stream window and the frame size in force before it,
  and the first new stream after an acknowledgement by the stream limit in force before it.
* `race_breaks_only` — hence the strict peer either accepts the history too or rejects it with
  `frame-size`, `stream-window-exceeded` or `max-concurrent-streams`: never the connection-level
  window, never stream ids, header-block contiguity, frames on closed streams, acknowledgements.
  (HEADERS/CONTINUATION frame sizes survive as well: `cc.maxFrameSize` is read under `cc.wmu`.)
* `race_can_break_*` — each of the three is reachable: they are exactly what the race can break.

Not in the refinement: other goroutines between the two phases (their frames commute with a
delayed DATA frame at the monitor; the peer's own frames only loosen what it accepts), several
SETTINGS frames in one window (the tolerant reading keeps the most generous values since the
stream's last DATA frame for that), the receive side (WINDOW_UPDATEs are not delayed past
anything they depend on), PING/PUSH_PROMISE.
-/
set_option linter.unusedSimpArgs false
namespace Req.Props.C06
open Req.H2 Req.H2.Flow Req.H2.Conn Req.H2.Monitor Req.H2.Race Req.Lemmas.C06

/-- **race_tolerated**: every history of the two-phase machine is accepted by the race-tolerant
reading of the strict peer, and no SETTINGS frame is left unacknowledged. -/
theorem race_tolerated (cfg : Cfg) (hfix : cfg.fixes = Fixes.all) (ops : List ROp) (hops : ∀ op ∈ ops, op.ok) :
    ∃ t, Tolerant.run Tolerant.init (rrun cfg ops).2 = .ok t ∧ t.m.final = .ok () := by
  unfold rrun
  obtain ⟨t0, h0, hm0⟩ := tolerant_run_of_strict ((newConn cfg).2.map Event.c) (t := Tolerant.init)
    (m' := Send.init) (preface_run cfg)
  have hinv : RaceInv (newConn cfg).1 t0 :=
    ⟨by rw [hm0]; rfl, by rw [hm0]; rfl, fun _ => by rw [hm0]; exact sinv_init cfg hfix⟩
  obtain ⟨t, h1, h2⟩ := race_runFrom ops hops h0 hinv
  exact ⟨t, h1, by simp [Send.final, h2.pending, h2.hdr]⟩

/-- **race_breaks_only**: the strict peer accepts the history of the two-phase machine, or rejects
it with one of exactly three verdicts — a DATA frame above MAX_FRAME_SIZE, a DATA frame above
the stream's window, a new stream above MAX_CONCURRENT_STREAMS — each of them lowered by a
SETTINGS frame acknowledged between the decision and the write. -/
theorem race_breaks_only (cfg : Cfg) (hfix : cfg.fixes = Fixes.all) (ops : List ROp) (hops : ∀ op ∈ ops, op.ok) :
    (∃ m, Send.run Send.init (rrun cfg ops).2 = .ok m ∧ m.final = .ok ()) ∨
    ∃ r, Send.run Send.init (rrun cfg ops).2 = .error r ∧
      (r = "frame-size" ∨ r = "stream-window-exceeded" ∨ r = "max-concurrent-streams") := by
  obtain ⟨t, h1, h2⟩ := race_tolerated cfg hfix ops hops
  rcases strict_of_tolerant _ h1 with h | ⟨r, h, hr⟩
  · exact Or.inl ⟨t.m, h, h2⟩
  · exact Or.inr ⟨r, h, hr⟩

/-- without a race the refined machine is the machine of `conn_conforms` -/
theorem rrunFrom_plain (ops : List Op) : ∀ (st : State) (hist : List Event),
    rrunFrom st hist (ops.map ROp.plain) = runFrom st hist ops := by
  induction ops with
  | nil => intro st hist; rfl
  | cons op rest ih =>
    intro st hist
    simp only [List.map_cons, rrunFrom, runFrom, rstep]
    exact ih _ _

theorem rrun_plain (cfg : Cfg) (ops : List Op) : rrun cfg (ops.map ROp.plain) = run cfg ops := by
  unfold rrun run
  exact rrunFrom_plain ops _ _

def strictVerdict (h : List Event) : String :=
  match Send.run Send.init h with
  | .ok _ => "ok"
  | .error r => r

def tolerantOk (h : List Event) : Bool :=
  match Tolerant.run Tolerant.init h with
  | .ok _ => true
  | .error _ => false

/-- MAX_FRAME_SIZE 32768, a 32768-octet frame is sized, the peer's SETTINGS lowering the limit to
16384 is acknowledged, the frame is written -/
def raceFrameSize : List ROp :=
  [.plain (.peer (.settings [(sMaxFrameSize, 32768)])), .plain (.openStream 40 60000 true), .plain (.feed 1 0),
   .writeRaced 1 [(sMaxFrameSize, 16384)]]

theorem race_can_break_frame_size :
    (rrun exampleCfg raceFrameSize).2.getLast? = some (.c (.data 1 32768 false)) ∧
    strictVerdict (rrun exampleCfg raceFrameSize).2 = "frame-size" ∧
    tolerantOk (rrun exampleCfg raceFrameSize).2 = true := by decide

/-- a 16384-octet frame is sized under a window of 65535, INITIAL_WINDOW_SIZE 4096 is acknowledged,
the frame is written -/
def raceStreamWindow : List ROp :=
  [.plain (.peer (.settings [])), .plain (.openStream 40 60000 true), .plain (.feed 1 0),
   .writeRaced 1 [(sInitialWindowSize, 4096)]]

theorem race_can_break_stream_window :
    (rrun exampleCfg raceStreamWindow).2.getLast? = some (.c (.data 1 16384 false)) ∧
    strictVerdict (rrun exampleCfg raceStreamWindow).2 = "stream-window-exceeded" ∧
    tolerantOk (rrun exampleCfg raceStreamWindow).2 = true := by decide

/-- a request is admitted under MAX_CONCURRENT_STREAMS = 1, MAX_CONCURRENT_STREAMS = 0 is
acknowledged, its HEADERS are written -/
def raceMaxConcurrent : List ROp :=
  [.plain (.peer (.settings [(sMaxConcurrentStreams, 1)])),
   .openRaced { hdrLen := 40, bodyLen := 0, known := true } [(sMaxConcurrentStreams, 0)]]

theorem race_can_break_max_concurrent :
    (rrun exampleCfg raceMaxConcurrent).2.getLast? = some (.c (.headers 1 40 true true)) ∧
    strictVerdict (rrun exampleCfg raceMaxConcurrent).2 = "max-concurrent-streams" ∧
    tolerantOk (rrun exampleCfg raceMaxConcurrent).2 = true := by decide

/-- the hypotheses of `race_breaks_only` on these three -/
example : ∀ op ∈ raceFrameSize ++ raceStreamWindow ++ raceMaxConcurrent, op.ok := by
  intro op h
  simp only [raceFrameSize, raceStreamWindow, raceMaxConcurrent, List.cons_append, List.nil_append, List.mem_cons,
    List.mem_nil_iff, or_false] at h
  rcases h with rfl | rfl | rfl | rfl | rfl | rfl | rfl | rfl | rfl | rfl <;>
    simp [ROp.ok, Op.ok, PFrame.ok, sInitialWindowSize, sMaxFrameSize, sMaxConcurrentStreams]

end Req.Props.C06
