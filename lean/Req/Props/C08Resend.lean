import Req.Pool.CancelResend
/-!
# C08 — the transparent re-send loop of the HTTP/1 `Transport.roundTrip` (round 7)

* `resend_closes_every_body` — whatever the number of dying keep-alive connections, the replayability of
  the request and the instant the context ends: when the loop returns, EVERY body handed to the transport
  (the caller's and each one `GetBody` produced) has been closed.
* `resend_stops_on_ended_context` — a loop iteration entered with the context ended returns that context's
  error at once: no further `GetBody` call, nothing written to a connection.
* `resend_nothing_sent_after_end` — no attempt is ever written after the context ended.
* `resend_returns` — `deaths + 2` iterations are enough: the loop returns.
* `orig_close_leaks_rewound_body` — sharpness (seed C08-r7-1): closing `origReq`'s body instead of the
  current request's at the top of the loop leaves the body of the last `GetBody` call open when the context
  ends between the failed attempt and the re-send.
-/
namespace Req.Props.C08Resend
open Req.Cancel (CtxErr)
open Req.CancelResend

/-- **resend_closes_every_body** -/
theorem resend_closes_every_body (cfg : Cfg) (fuel : Nat) (s : St) (o : Out)
    (h0 : s.leaked = 0) (h : loop cfg true fuel s = some o) : o.open_ = 0 := by
  induction fuel generalizing s with
  | zero => simp [loop] at h
  | succ n ih =>
    unfold loop at h
    split at h
    · simp at h; subst h; simp [topClose, St.out, St.openCount, h0]
    · simp only at h
      split at h
      · split at h
        · apply ih _ _ h
          split <;> simp [rewind, written, h0]
        · simp at h; subst h; simp [St.out, St.openCount, written, h0]
      · split at h <;> (simp at h; subst h; simp [St.out, St.openCount, written, h0])

theorem run_closes_every_body (cfg : Cfg) (o : Out) (h : run cfg = some o) : o.open_ = 0 :=
  resend_closes_every_body cfg _ _ o (by simp [init]) h

/-- **resend_stops_on_ended_context** -/
theorem resend_stops_on_ended_context (cfg : Cfg) (b : Bool) (fuel : Nat) (s : St) (e : CtxErr)
    (hc : s.ctx = some e) :
    ∃ o, loop cfg b (fuel + 1) s = some o ∧ o.res = .ctxErr e ∧ o.got = s.got ∧ o.late = s.late := by
  refine ⟨(topClose b s).out (.ctxErr e), ?_, ?_, ?_, ?_⟩
  · simp [loop, hc]
  · simp [St.out]
  · simp [St.out, topClose]; split <;> rfl
  · simp [St.out, topClose]; split <;> rfl

/-- **resend_nothing_sent_after_end** -/
theorem resend_nothing_sent_after_end (cfg : Cfg) (b : Bool) (fuel : Nat) (s : St) (o : Out)
    (h0 : s.late = 0) (h : loop cfg b fuel s = some o) : o.late = 0 := by
  induction fuel generalizing s with
  | zero => simp [loop] at h
  | succ n ih =>
    unfold loop at h
    split at h
    · simp at h; subst h; simp [St.out, topClose]; split <;> simp [h0]
    · rename_i hctx
      simp only at h
      split at h
      · split at h
        · apply ih _ _ h
          split <;> simp [rewind, written, h0, hctx]
        · simp at h; subst h; simp [St.out, written, h0, hctx]
      · split at h <;> (simp at h; subst h; simp [St.out, written, h0, hctx])

/-- **resend_returns** -/
theorem resend_returns (cfg : Cfg) (b : Bool) (fuel : Nat) (s : St)
    (hf : cfg.deaths < fuel + s.sent) (hp : 0 < fuel) : (loop cfg b fuel s).isSome = true := by
  induction fuel generalizing s with
  | zero => omega
  | succ n ih =>
    unfold loop
    split
    · simp
    · simp only
      split
      · rename_i hle
        simp [written] at hle
        split
        · apply ih
          · split <;> simp [rewind, written] <;> omega
          · omega
        · simp
      · split <;> simp

theorem run_returns (cfg : Cfg) (b : Bool) : (run cfg b).isSome = true :=
  resend_returns cfg b _ _ (by omega) (by omega)

/-- **orig_close_leaks_rewound_body** (seed C08-r7-1) -/
theorem orig_close_leaks_rewound_body :
    (run ⟨1, false, true, true, .rewound 1, .canceled⟩ false).map (·.open_) = some 1 ∧
    (run ⟨1, false, true, true, .rewound 1, .canceled⟩ true).map (·.open_) = some 0 := by
  decide

end Req.Props.C08Resend
