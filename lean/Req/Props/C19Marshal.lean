import Req.Client.Scope
/-! C19 round 7: which level's Content-Type picks the marshaller of `SetBody(struct)`.

`handleMarshalBody` (middleware.go) asks the REQUEST's header first and the client's only when the
request has none (`Scope.marshalCT`); the merged helper of seeded/C19-r7-1 asked the client first.
The theorems say that the request level decides whenever it speaks, for every client-level
header map — so a client-level `SetCommonContentType` (made before or after `Clone`, on any side)
cannot change the format of a request that names its own — and that without a request-level
value the client's decides. Lanes `override` (family `ct`) and `prog` (`bd` ids ≥ 10) judge the
running code by `Scope.emit`, which uses `marshalCT`. -/
namespace Req.Props.C19Marshal
open Req.Scope

/-- a request-level content type decides the marshaller, whatever the client says -/
theorem request_content_type_decides (c c' r : AMap) (h : firstCT r ≠ 0) :
    marshalCT c r = firstCT r ∧ marshalCT c r = marshalCT c' r := by
  simp [marshalCT, h]

/-- without one (no key, or the empty string) the client's decides -/
theorem client_content_type_default (c r : AMap) (h : firstCT r = 0) :
    marshalCT c r = firstCT c := by
  simp [marshalCT, h]

/-- neither level: JSON, and (in `emit`) the JSON content type is set -/
theorem no_content_type_json (c r : AMap) (hc : firstCT c = 0) (hr : firstCT r = 0) :
    marshalCT c r = 0 ∧ (marshalCT c r == vCtXml) = false := by
  simp [marshalCT, hc, hr, vCtXml]

/-- the seeded order (client first) differs exactly when both levels speak and disagree -/
def clientFirstCT (c r : AMap) : Nat := if firstCT c != 0 then firstCT c else firstCT r

theorem client_first_counterexample :
    marshalCT [(hContentType, [vCtJson])] [(hContentType, [vCtXml])] = vCtXml ∧
    clientFirstCT [(hContentType, [vCtJson])] [(hContentType, [vCtXml])] = vCtJson := by decide

theorem client_first_differs_iff (c r : AMap) :
    clientFirstCT c r ≠ marshalCT c r ↔ (firstCT c ≠ 0 ∧ firstCT r ≠ 0 ∧ firstCT c ≠ firstCT r) := by
  unfold clientFirstCT marshalCT
  by_cases hc : firstCT c = 0 <;> by_cases hr : firstCT r = 0 <;> simp [hc, hr]

/-- In what the origin receives (`emit`): a request that carries a value to marshal (no form data,
a method that may have a payload) is sent in the format picked by `marshalCT` of the two header
maps — by `request_content_type_decides` the request's own content type whenever it has one. -/
theorem emit_marshal_format (cl rq : VOwner) (m md : Nat) (path : List Seg) (o : ReqObs)
    (he : emit cl rq m md path = some o)
    (hp : payloadForbidden m ((cl.val F.allowGetPayload).scalar != 0) = false)
    (hf : (mergeForm (cl.val F.form) (rq.val F.form)).isEmpty = true)
    (hb : (rq.val F.body).scalar ≥ marshalFrom) :
    o.body = .marsh (marshalCT (cl.val F.headers) (rq.val F.headers) == vCtXml) (rq.val F.body).scalar := by
  simp only [emit] at he
  split at he
  · cases he
  · injection he with he
    subst he
    simp [hp, hf]

/-- … hence two clients that differ only in their own Content-Type send a request that names its
content type in the same format. -/
theorem emit_marshal_client_independent (cl cl' rq : VOwner) (m md : Nat) (path : List Seg) (o o' : ReqObs)
    (he : emit cl rq m md path = some o) (he' : emit cl' rq m md path = some o')
    (hp : payloadForbidden m ((cl.val F.allowGetPayload).scalar != 0) = false)
    (hp' : payloadForbidden m ((cl'.val F.allowGetPayload).scalar != 0) = false)
    (hf : (mergeForm (cl.val F.form) (rq.val F.form)).isEmpty = true)
    (hf' : (mergeForm (cl'.val F.form) (rq.val F.form)).isEmpty = true)
    (hb : (rq.val F.body).scalar ≥ marshalFrom) (hr : firstCT (rq.val F.headers) ≠ 0) :
    o.body = o'.body := by
  rw [emit_marshal_format cl rq m md path o he hp hf hb, emit_marshal_format cl' rq m md path o' he' hp' hf' hb,
    (request_content_type_decides (cl.val F.headers) (cl'.val F.headers) (rq.val F.headers) hr).2]

end Req.Props.C19Marshal
