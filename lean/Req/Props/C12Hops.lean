import Req.Pool.TLSHops
import Req.Pool.H2ConnPool
/-!
# C12 — round 7: TLS hops of one connection; HTTP/2 connections per origin

The ∀-statements live next to the two small models (`Req.Pool.TLSHops`: `hop_name`,
`https_proxy_accept`, `origin_hop_uniform`, `kept_uses_first_name`,
`kept_eq_fresh_of_override`, `kept_ne_fresh_example`; `Req.Pool.H2ConnPool`:
`served_by_own_origin`, `getConn_wf`, `run_served_by_own_origin`,
`coalesced_serves_other_origin`). Here: the property's reading of them.
-/
namespace Req.Props.C12Hops
open Req.Pool.TLSHops Req.Pool.H2ConnPool

/-- "The client's TLS settings govern every connection": behind an https proxy whose own
certificate is acceptable, an origin certificate is accepted iff it is accepted on a direct
connection to that origin under the same settings — for every settings / names / certificates. -/
theorem https_proxy_origin_judged_as_direct {N : Type} [DecidableEq N] (c : ClientTLS N) (p o : N)
    (pc oc : Cert N) (hp : acceptHop c p pc = true) :
    acceptConn c [(p, pc), (o, oc)] = acceptHop c o oc := by
  rw [origin_hop_uniform c p o pc oc hp]; simp [acceptConn]

/-- … and without verification skipped it is verified for the override, else for the ORIGIN's name. -/
theorem https_proxy_origin_name {N : Type} [DecidableEq N] (c : ClientTLS N) (p o : N) (pc oc : Cert N)
    (hi : c.insecure = false) (h : acceptConn c [(p, pc), (o, oc)] = true) :
    oc.names.contains (c.serverName.getD o) = true ∧ c.roots.contains oc.ca = true := by
  simp [acceptConn, acceptHop, hi, hopName] at h
  simp [h.2.1, h.2.2]

/-- Every HTTP/2 request of a client is carried by a connection dialled to (certificate
verified for, protocol negotiated with) the request's own origin. -/
theorem h2_request_served_by_own_origin {A : Type} [DecidableEq A] (reqs : List (A × List A)) :
    ∀ x ∈ run ([] : Pool A) reqs, x.2.dialled = x.1 := run_served_by_own_origin reqs

end Req.Props.C12Hops
