/-! C14 — property theorems (none yet). -/
