import Req.Client.Compress
import Req.Client.CompressLegacy
import Req.Client.CompressToy
import Req.Client.CompressShape
import Req.Lemmas.C14Readers
/-!
C14 — property theorems, part 1: the decision (who asks for gzip, when a response is decoded,
what is rewritten, that the three protocol stacks are one function, that a body reader always
exists); part 2: the readers (read-size independence, version independence, sticky errors,
original payload under the codec's round-trip law), over abstract codecs with the streaming
law, instantiated with the toy codec of `Req/Client/CompressToy.lean`.

All statements are for every request configuration, every header list and every
`Content-Encoding` byte string.
-/
namespace Req.Props.C14
open Req.Proto Req.Compress

/-! ### `select`: the supported tokens, exactly -/

/-- `NewCompressReader` builds a reader for exactly the four lower-case tokens. -/
theorem select_some_iff (ce : Bytes) (a : Alg) :
    select ce = some a ↔
      (ce = tokGzip ∧ a = .gzip) ∨ (ce = tokDeflate ∧ a = .deflate) ∨
      (ce = tokBr ∧ a = .br) ∨ (ce = tokZstd ∧ a = .zstd) := by
  unfold select arms
  simp only [List.lookup]
  constructor
  · intro h
    split at h
    · rename_i h1; simp at h1; simp_all
    · split at h
      · rename_i h1; simp at h1; simp_all
      · split at h
        · rename_i h1; simp at h1; simp_all
        · split at h
          · rename_i h1; simp at h1; simp_all
          · simp at h
  · rintro (⟨rfl, rfl⟩ | ⟨rfl, rfl⟩ | ⟨rfl, rfl⟩ | ⟨rfl, rfl⟩) <;> decide

theorem select_none_iff (ce : Bytes) :
    select ce = none ↔ ce ≠ tokGzip ∧ ce ≠ tokDeflate ∧ ce ≠ tokBr ∧ ce ≠ tokZstd := by
  constructor
  · intro h
    refine ⟨?_, ?_, ?_, ?_⟩ <;> (rintro rfl; revert h; decide)
  · rintro ⟨h1, h2, h3, h4⟩
    cases hs : select ce with
    | none => rfl
    | some a =>
      rcases (select_some_iff ce a).mp hs with ⟨h, _⟩ | ⟨h, _⟩ | ⟨h, _⟩ | ⟨h, _⟩ <;> contradiction

-- "GZIP", "Gzip", "gzip, br", "identity", "x-gzip", "" and " gzip" select nothing
example : select [71, 90, 73, 80] = none := by decide
example : select [71, 122, 105, 112] = none := by decide
example : select [103, 122, 105, 112, 44, 32, 98, 114] = none := by decide
example : select [105, 100, 101, 110, 116, 105, 116, 121] = none := by decide
example : select [120, 45, 103, 122, 105, 112] = none := by decide
example : select [] = none := by decide
example : select [32, 103, 122, 105, 112] = none := by decide
-- while the EqualFold test of the first branch accepts "GZIP" and rejects the list
example : isGzipFold [71, 90, 73, 80] = true := by decide
example : isGzipFold [103, 122, 105, 112, 44, 32, 98, 114] = false := by decide

/-! ### request side -/

/-- **asks_gzip_iff** — the transport adds `Accept-Encoding: gzip` exactly when compression is
not disabled, the caller set neither `Accept-Encoding` nor `Range`, and the method is not
HEAD; on all three stacks. -/
theorem asks_gzip_iff (s : Site) (c : ReqCfg) :
    addGzip s c = true ↔
      c.disableCompression = false ∧ c.acceptEncoding = [] ∧ c.range = [] ∧ c.isHead = false := by
  cases s <;>
    simp [addGzip, addGzipH1, addGzipH2, addGzipH3, ReqCfg.isHead, and_assoc, and_left_comm, and_comm]

theorem addGzip_sites_agree (c : ReqCfg) :
    addGzipH1 c = addGzipH2 c ∧ addGzipH2 c = addGzipH3 c := by
  have h1 := asks_gzip_iff .h1 c
  have h2 := asks_gzip_iff .h2 c
  have h3 := asks_gzip_iff .h3 c
  simp only [addGzip] at h1 h2 h3
  constructor
  · exact Bool.eq_iff_iff.mpr (h1.trans h2.symm)
  · exact Bool.eq_iff_iff.mpr (h2.trans h3.symm)

theorem head_never_asks (s : Site) (c : ReqCfg) (h : c.isHead = true) : addGzip s c = false := by
  cases hg : addGzip s c with
  | false => rfl
  | true => have := ((asks_gzip_iff s c).mp hg).2.2.2; simp_all

/-- The origin sees `gzip` iff the transport added it; otherwise exactly the caller's value. -/
theorem wire_accept_encoding (s : Site) (c : ReqCfg) :
    wireAcceptEncoding (addGzip s c) c =
      if addGzip s c then some tokGzip
      else if c.acceptEncoding = [] then none else some c.acceptEncoding := by
  unfold wireAcceptEncoding
  split <;> simp

example : addGzip .h3 ⟨false, [71, 69, 84], [], []⟩ = true := by decide
example : addGzip .h1 ⟨false, [71, 69, 84], [98, 114], []⟩ = false := by decide
example : addGzip .h2 ⟨false, tokHEAD, [], []⟩ = false := by decide
example : addGzip .h1 ⟨false, [71, 69, 84], [], [98, 121, 116, 101, 115, 61, 48, 45, 49]⟩ = false := by decide

/-! ### response side -/

/-- Does the stack reach its decoding branch at all? H1/H2 leave early for HEAD and for
responses without a body reader; H3 has no such exit. -/
def reaches (s : Site) (i : RespIn) : Bool :=
  match s with
  | .h3 => true
  | _ => !i.isHead && i.hasBody

/-- **decoded_when** — the gzip branch is taken iff the transport itself asked for gzip and
the response says gzip (ASCII case-insensitively). -/
theorem decoded_when (s : Site) (i : RespIn) (hhead : i.isHead = true → i.addedGzip = false) :
    decideAt s i = .gunzip ↔ reaches s i = true ∧ i.addedGzip = true ∧ isGzipFold i.ce = true := by
  cases s <;> simp only [decideAt, decideH1, decideH2, decideH3, decideCore, reaches]
  · cases h1 : i.isHead <;> cases h2 : i.hasBody <;> cases h3 : i.addedGzip <;>
      cases h4 : isGzipFold i.ce <;> cases h5 : i.autoDecompress <;> simp <;>
      (split <;> simp)
  · cases h1 : i.isHead <;> cases h2 : i.hasBody <;> cases h3 : i.addedGzip <;>
      cases h4 : isGzipFold i.ce <;> cases h5 : i.autoDecompress <;> simp <;>
      (split <;> simp)
  · cases h1 : i.isHead <;> cases h3 : i.addedGzip <;>
      cases h4 : isGzipFold i.ce <;> cases h5 : i.autoDecompress <;> simp_all <;>
      (split <;> simp)

/-- **decompress_when** — the auto-decompress branch installs the reader of algorithm `a` iff
the gzip branch did not apply, AutoDecompression is on, the request is not HEAD, and
`Content-Encoding` is exactly the token of `a`. -/
theorem decompress_when (s : Site) (i : RespIn) (a : Alg) :
    decideAt s i = .decompress a ↔
      reaches s i = true ∧ i.isHead = false ∧ ¬(i.addedGzip = true ∧ isGzipFold i.ce = true) ∧
      i.autoDecompress = true ∧ select i.ce = some a := by
  cases s <;> simp only [decideAt, decideH1, decideH2, decideH3, decideCore, reaches]
  · cases h1 : i.isHead <;> cases h2 : i.hasBody <;> cases h3 : i.addedGzip <;>
      cases h4 : isGzipFold i.ce <;> cases h5 : i.autoDecompress <;> simp <;>
      (split <;> simp_all)
  · cases h1 : i.isHead <;> cases h2 : i.hasBody <;> cases h3 : i.addedGzip <;>
      cases h4 : isGzipFold i.ce <;> cases h5 : i.autoDecompress <;> simp <;>
      (split <;> simp_all)
  · cases h1 : i.isHead <;> cases h3 : i.addedGzip <;>
      cases h4 : isGzipFold i.ce <;> cases h5 : i.autoDecompress <;> simp <;>
      (split <;> simp_all)

/-- The three outcomes are exhaustive: not gunzip and no reader ⇒ untouched. -/
theorem action_untouched_iff (s : Site) (i : RespIn) :
    decideAt s i = .untouched ↔ decideAt s i ≠ .gunzip ∧ ∀ a, decideAt s i ≠ .decompress a := by
  cases h : decideAt s i <;> simp

/-- **untouched_otherwise** — whenever neither decoding condition holds, the caller gets the
body as received and the very same response (header list, ContentLength, Uncompressed). -/
theorem untouched_otherwise (s : Site) (c : ReqCfg) (auto hasBody : Bool) (r : Resp)
    (hg : ¬(reaches s (respIn s c auto hasBody r) = true ∧ addGzip s c = true ∧
            isGzipFold (hget r.header hContentEncoding) = true))
    (hd : ¬(reaches s (respIn s c auto hasBody r) = true ∧ c.isHead = false ∧ auto = true ∧
            (select (hget r.header hContentEncoding)).isSome = true)) :
    process s c auto hasBody r = ⟨r, some .raw⟩ := by
  have hhead : (respIn s c auto hasBody r).isHead = true →
      (respIn s c auto hasBody r).addedGzip = false := fun h => head_never_asks s c h
  have h1 : decideAt s (respIn s c auto hasBody r) ≠ .gunzip := by
    intro h
    exact hg ((decoded_when s _ hhead).mp h)
  have h2 : ∀ a, decideAt s (respIn s c auto hasBody r) ≠ .decompress a := by
    intro a h
    have := (decompress_when s _ a).mp h
    apply hd
    refine ⟨this.1, this.2.1, this.2.2.2.1, ?_⟩
    have hs := this.2.2.2.2
    simp only [respIn] at hs
    simp [hs]
  have h3 := (action_untouched_iff s _).mpr ⟨h1, h2⟩
  simp [process, h3, applyAction]

/-- the caller set `Accept-Encoding` itself and did not enable AutoDecompression -/
theorem untouched_caller_accept_encoding (s : Site) (c : ReqCfg) (hasBody : Bool) (r : Resp)
    (h : c.acceptEncoding ≠ []) : process s c false hasBody r = ⟨r, some .raw⟩ := by
  apply untouched_otherwise
  · intro hh; have := (asks_gzip_iff s c).mp hh.2.1; exact h this.2.1
  · intro hh; simp at hh

/-- Range request without AutoDecompression -/
theorem untouched_range (s : Site) (c : ReqCfg) (hasBody : Bool) (r : Resp)
    (h : c.range ≠ []) : process s c false hasBody r = ⟨r, some .raw⟩ := by
  apply untouched_otherwise
  · intro hh; have := (asks_gzip_iff s c).mp hh.2.1; exact h this.2.2.1
  · intro hh; simp at hh

/-- DisableCompression without AutoDecompression -/
theorem untouched_disable_compression (s : Site) (c : ReqCfg) (hasBody : Bool) (r : Resp)
    (h : c.disableCompression = true) : process s c false hasBody r = ⟨r, some .raw⟩ := by
  apply untouched_otherwise
  · intro hh; have := (asks_gzip_iff s c).mp hh.2.1; simp_all
  · intro hh; simp at hh

/-- HEAD, whatever the configuration and whatever the response claims -/
theorem untouched_head (s : Site) (c : ReqCfg) (auto hasBody : Bool) (r : Resp)
    (h : c.isHead = true) : process s c auto hasBody r = ⟨r, some .raw⟩ := by
  apply untouched_otherwise
  · intro hh; have := head_never_asks s c h; simp_all
  · intro hh; simp_all

/-- absent, unsupported, mixed-case or list encodings: any `Content-Encoding` value that is
neither one of the four tokens nor a case variant of `gzip` -/
theorem untouched_unsupported (s : Site) (c : ReqCfg) (auto hasBody : Bool) (r : Resp)
    (h1 : select (hget r.header hContentEncoding) = none)
    (h2 : isGzipFold (hget r.header hContentEncoding) = false) :
    process s c auto hasBody r = ⟨r, some .raw⟩ := by
  apply untouched_otherwise
  · intro hh; simp_all
  · intro hh; simp_all

/-- mixed-case `GZIP` under AutoDecompression when the transport did NOT ask for gzip -/
theorem untouched_mixed_case_auto (s : Site) (c : ReqCfg) (hasBody : Bool) (r : Resp)
    (h1 : select (hget r.header hContentEncoding) = none) (h2 : addGzip s c = false) :
    process s c true hasBody r = ⟨r, some .raw⟩ := by
  apply untouched_otherwise
  · intro hh; simp_all
  · intro hh; simp_all

-- non-vacuity: header [X-A: 1, Content-Encoding: GZIP, Content-Length: 5], GET, AutoDecompress,
-- caller Accept-Encoding "br"
example :
    let r : Resp := ⟨[([88, 45, 65], [49]), (hContentEncoding, [71, 90, 73, 80]), (hContentLength, [53])], 5, false⟩
    process .h2 ⟨false, [71, 69, 84], [98, 114], []⟩ true true r = ⟨r, some .raw⟩ := by decide

/-! ### the rewrite -/

theorem hget_hdel_self (h : Header) (k : Bytes) : hget (hdel h k) k = [] := by
  unfold hget hdel
  have : (List.filter (fun p => p.1 != k) h).find? (fun p => p.1 == k) = none := by
    rw [List.find?_eq_none]
    intro x hx
    have := (List.mem_filter.mp hx).2
    simp_all
  rw [this]

theorem hvalues_hdel_self (h : Header) (k : Bytes) : hvalues (hdel h k) k = [] := by
  unfold hvalues hdel
  rw [List.filter_filter]
  have : (List.filter (fun a => (a.1 == k && a.1 != k)) h) = [] := by
    rw [List.filter_eq_nil_iff]; intro a _; cases h : a.1 == k <;> simp_all
  simp [this]

theorem hdel_comm (h : Header) (k k' : Bytes) : hdel (hdel h k) k' = hdel (hdel h k') k := by
  unfold hdel; simp only [List.filter_filter]; congr 1; funext a; exact Bool.and_comm _ _

theorem hvalues_hdel_other (h : Header) (k k' : Bytes) (hne : k' ≠ k) :
    hvalues (hdel h k) k' = hvalues h k' := by
  unfold hvalues hdel
  rw [List.filter_filter]
  congr 1
  apply List.filter_congr
  intro a _
  cases h1 : a.1 == k' <;> simp_all

/-- **rewrite_when_decoded** — whenever the body is decoded the response no longer claims an
encoding or a length (no `Content-Encoding`/`Content-Length` value is left, however many
there were), `ContentLength = -1`, `Uncompressed = true`; every other field keeps its values
in order. -/
theorem rewrite_when_decoded (s : Site) (c : ReqCfg) (auto hasBody : Bool) (r : Resp)
    (h : (process s c auto hasBody r).body ≠ some .raw) :
    let o := process s c auto hasBody r
    hvalues o.resp.header hContentEncoding = [] ∧ hvalues o.resp.header hContentLength = [] ∧
    o.resp.contentLength = -1 ∧ o.resp.uncompressed = true ∧
    (∀ k, k ≠ hContentEncoding → k ≠ hContentLength → hvalues o.resp.header k = hvalues r.header k) ∧
    o.resp.header = r.header.filter (fun p => p.1 != hContentEncoding && p.1 != hContentLength) := by
  have key : (process s c auto hasBody r).resp = strip r := by
    unfold process at h ⊢
    cases hd : decideAt s (respIn s c auto hasBody r) <;> simp_all [applyAction]
  simp only [key, strip]
  refine ⟨?_, hvalues_hdel_self _ _, trivial, trivial, ?_, ?_⟩
  · rw [hdel_comm]; exact hvalues_hdel_self _ _
  · intro k h1 h2
    rw [hvalues_hdel_other _ _ _ h2, hvalues_hdel_other _ _ _ h1]
  · unfold hdel; rw [List.filter_filter]; congr 1; funext a; exact Bool.and_comm _ _

-- two Content-Encoding lines and a Content-Length: all gone, X-A stays
example :
    (process .h1 ⟨false, [71, 69, 84], [], []⟩ false true
      ⟨[([88, 45, 65], [49]), (hContentEncoding, tokGzip), (hContentLength, [53]),
        (hContentEncoding, tokBr)], 5, false⟩)
    = ⟨⟨[([88, 45, 65], [49])], -1, true⟩, some .gunzip⟩ := by decide

/-! ### the three stacks are one function; a body always exists -/

/-- **sites_agree** — for a response that carries a body the three stacks compute the same
result (same reader kind, same rewritten response) from the same request configuration;
HTTP/1.1 and HTTP/2 agree on bodiless responses too. -/
theorem decideH1_eq_decideH2 (i : RespIn) : decideH1 i = decideH2 i := by
  unfold decideH1 decideH2
  cases h1 : i.isHead <;> cases h2 : i.hasBody <;> simp

theorem decideH2_eq_decideH3 (i : RespIn) (hb : i.hasBody = true)
    (hh : i.isHead = true → i.addedGzip = false) : decideH2 i = decideH3 i := by
  unfold decideH2 decideH3 decideCore
  cases h1 : i.isHead
  · simp [hb]
  · simp [hh h1]

theorem sites_agree (c : ReqCfg) (auto : Bool) (r : Resp) :
    process .h1 c auto true r = process .h2 c auto true r ∧
    process .h2 c auto true r = process .h3 c auto true r ∧
    (∀ hasBody, process .h1 c auto hasBody r = process .h2 c auto hasBody r) := by
  have hg := addGzip_sites_agree c
  have hh : c.isHead = true → addGzipH3 c = false := head_never_asks .h3 c
  refine ⟨?_, ?_, ?_⟩
  · simp only [process, respIn, decideAt, addGzip, hg.1, decideH1_eq_decideH2]
  · simp only [process, respIn, decideAt, addGzip, hg.2]
    rw [decideH2_eq_decideH3 _ rfl hh]
  · intro hasBody
    simp only [process, respIn, decideAt, addGzip, hg.1, decideH1_eq_decideH2]

/-- On a HEAD exchange every stack leaves the response alone (H3 included, where the branch is
reached). -/
theorem sites_agree_head (c : ReqCfg) (auto hasBody : Bool) (r : Resp) (h : c.isHead = true) :
    process .h1 c auto hasBody r = process .h3 c auto hasBody r ∧
    process .h2 c auto hasBody r = process .h3 c auto hasBody r := by
  simp [untouched_head _ c auto hasBody r h]

/-- **body_is_usable** — whatever the inputs, `Response.Body` is a reader (never a nil
interface). Feeds C07. -/
theorem body_is_usable (s : Site) (c : ReqCfg) (auto hasBody : Bool) (r : Resp) :
    (process s c auto hasBody r).body ≠ none := by
  unfold process
  cases decideAt s (respIn s c auto hasBody r) <;> simp [applyAction]

/-! ### the same statements are FALSE of the code before fixes/C14-1..3

Witnesses, each replayed on the implementation by the e2e lanes (classes `nil-reader`,
`h3-auto-nil-body`, `h3-head-auto`, `h3-gzip-case`). -/

/-- GET, AutoDecompression, caller `Accept-Encoding: br`, response `Content-Encoding: identity`,
`Content-Length: 5`. -/
def witnessCfg : ReqCfg := ⟨false, [71, 69, 84], [98, 114], []⟩
def witnessResp (ce : Bytes) : Resp := ⟨[(hContentEncoding, ce), (hContentLength, [53])], 5, false⟩
def ceIdentity : Bytes := [105, 100, 101, 110, 116, 105, 116, 121]
def ceGZIP : Bytes := [71, 90, 73, 80]

/-- defect 9: unsupported encoding + AutoDecompression → headers stripped (not untouched) … -/
theorem legacy_untouched_fails :
    Legacy.process .h1 witnessCfg true true (witnessResp ceIdentity) ≠
      ⟨witnessResp ceIdentity, some .raw⟩ ∧
    Legacy.process .h2 witnessCfg true true (witnessResp ceGZIP) ≠
      ⟨witnessResp ceGZIP, some .raw⟩ := by decide

/-- … and no body reader at all (nil interface). Defect 10: on HTTP/3 that is so for EVERY
response under AutoDecompression, supported encoding or none. -/
theorem legacy_body_unusable :
    (Legacy.process .h1 witnessCfg true true (witnessResp ceIdentity)).body = none ∧
    (Legacy.process .h2 witnessCfg true true (witnessResp ceGZIP)).body = none ∧
    (Legacy.process .h3 witnessCfg true true (witnessResp tokGzip)).body = none ∧
    (Legacy.process .h3 witnessCfg true true ⟨[], -1, false⟩).body = none := by decide

/-- the stacks disagree: supported encoding under AutoDecompression (H3 nil body), `GZIP`
answered to a transport-added `Accept-Encoding: gzip` (H3 compares exactly), HEAD under
AutoDecompression (H3 strips the header). -/
theorem legacy_sites_disagree :
    Legacy.process .h2 witnessCfg true true (witnessResp tokGzip) ≠
      Legacy.process .h3 witnessCfg true true (witnessResp tokGzip) ∧
    Legacy.process .h1 ⟨false, [71, 69, 84], [], []⟩ false true (witnessResp ceGZIP) ≠
      Legacy.process .h3 ⟨false, [71, 69, 84], [], []⟩ false true (witnessResp ceGZIP) ∧
    Legacy.process .h1 ⟨false, tokHEAD, [], []⟩ true true (witnessResp tokGzip) ≠
      Legacy.process .h3 ⟨false, tokHEAD, [], []⟩ true true (witnessResp tokGzip) := by decide

/-- Where the legacy model and the repaired model differ — exactly the four finding classes;
everywhere else the fixes change nothing. -/
theorem legacy_differs_only (s : Site) (c : ReqCfg) (auto hasBody : Bool) (r : Resp)
    (hne : Legacy.process s c auto hasBody r ≠ process s c auto hasBody r) :
    (auto = true ∧ hget r.header hContentEncoding ≠ [] ∧
        select (hget r.header hContentEncoding) = none) ∨
    (s = .h3 ∧ auto = true) ∨
    (s = .h3 ∧ addGzip s c = true ∧ isGzipFold (hget r.header hContentEncoding) = true ∧
        hget r.header hContentEncoding ≠ tokGzip) := by
  have core : ∀ i : RespIn, Legacy.applyAction (Legacy.decideCore i) r ≠ applyAction (decideCore i) r →
      i.autoDecompress = true ∧ i.ce ≠ [] ∧ select i.ce = none := by
    intro i
    unfold Legacy.decideCore decideCore
    cases h1 : (i.addedGzip && isGzipFold i.ce)
    · cases h2 : i.autoDecompress
      · simp [Legacy.applyAction, applyAction]
      · cases h3 : select i.ce
        · by_cases h4 : i.ce = []
          · simp [h4, Legacy.applyAction, applyAction]
          · simp [h4]
        · by_cases h4 : i.ce = []
          · rw [h4] at h3
            have : select [] = none := by decide
            rw [this] at h3; cases h3
          · simp [h4, Legacy.applyAction, applyAction]
    · simp [Legacy.applyAction, applyAction]
  revert hne
  cases s
  · simp only [Legacy.process, process, Legacy.decideAt, decideAt, Legacy.decideH1, decideH1]
    intro hne
    cases h : ((respIn .h1 c auto hasBody r).isHead || !(respIn .h1 c auto hasBody r).hasBody)
    · rw [h] at hne; simp only [Bool.false_eq_true, if_false] at hne
      exact Or.inl (core _ hne)
    · rw [h] at hne; simp [Legacy.applyAction, applyAction] at hne
  · simp only [Legacy.process, process, Legacy.decideAt, decideAt, Legacy.decideH2, decideH2]
    intro hne
    cases h : (respIn .h2 c auto hasBody r).isHead
    · rw [h] at hne; simp only [Bool.false_eq_true, if_false] at hne
      cases h' : (!(respIn .h2 c auto hasBody r).hasBody)
      · rw [h'] at hne; simp only [Bool.false_eq_true, if_false] at hne
        exact Or.inl (core _ hne)
      · rw [h'] at hne; simp [Legacy.applyAction, applyAction] at hne
    · rw [h] at hne; simp [Legacy.applyAction, applyAction] at hne
  · intro hne
    cases hauto : auto
    · right; right
      refine ⟨rfl, ?_⟩
      subst hauto
      simp only [Legacy.process, process, Legacy.decideAt, decideAt, Legacy.decideH3, decideH3,
        respIn] at hne
      cases hg : addGzip .h3 c
      · simp [hg, Legacy.applyAction, applyAction] at hne
      · cases hf : isGzipFold (hget r.header hContentEncoding)
        · have : (hget r.header hContentEncoding == tokGzip) = false := by
            cases heq : (hget r.header hContentEncoding == tokGzip)
            · rfl
            · have := eq_of_beq heq; rw [this] at hf; revert hf; decide
          simp [hg, hf, this, Legacy.applyAction, applyAction] at hne
        · refine ⟨rfl, rfl, ?_⟩
          intro heq
          have hf' : isGzipFold tokGzip = true := by decide
          simp [hg, heq, hf', Legacy.applyAction, applyAction] at hne
    · right; left; exact ⟨rfl, rfl⟩

/-! ## Part 2 — the readers -/

/-- A reader together with its current state. -/
structure Running where
  R : Reader
  s : R.σ

/-- The reader object the caller finds in `Response.Body`, over the framing-level body `src`:
`raw` = that body itself; `gunzip` = `transport.go gzipReader` on HTTP/1.1 and
`compress.GzipReader` on HTTP/2 and HTTP/3; `decode a` = the lazy reader of `a`. -/
def bodyReader (codecs : Alg → Codec) (site : Site) (src : Src) : BodyKind → Running
  | .raw => ⟨rawReader, (src.data, src.fin)⟩
  | .gunzip =>
    match site with
    | .h1 => ⟨h1GzipReader (codecs .gzip), H1GzState.init src⟩
    | _ => ⟨lazyReader (codecs .gzip) (keeps .gzip), LazyState.init src⟩
  | .decode a => ⟨lazyReader (codecs a) (keeps a), LazyState.init src⟩

/-- What the body means, independently of how it is read and of the stack. -/
def delivered (codecs : Alg → Codec) (src : Src) (k : BodyKind) : Bytes × Term :=
  deliver (src.data, src.fin) (fun a => (codecs a).total src) k

theorem bodyReader_rest (codecs : Alg → Codec) (site : Site) (src : Src) (k : BodyKind) :
    (bodyReader codecs site src k).R.rest (bodyReader codecs site src k).s = delivered codecs src k := by
  cases k with
  | raw => rfl
  | gunzip => cases site <;> rfl
  | decode a => rfl

/-- **read_size_independent** — for every codec satisfying the streaming law, every body,
every stack and EVERY sequence of `Read` buffer sizes: once a `Read` returns an error
(`io.EOF` included) the concatenation of everything returned is the whole meaning of the body
and the error is its end — neither depends on the sizes. -/
theorem read_size_independent (codecs : Alg → Codec) (site : Site) (src : Src) (k : BodyKind)
    (ns : List Nat) (t : Term)
    (h : (drain (bodyReader codecs site src k).R (bodyReader codecs site src k).s ns).2.2 = some t) :
    ((drain (bodyReader codecs site src k).R (bodyReader codecs site src k).s ns).2.1, t)
      = delivered codecs src k := by
  have := drain_spec (bodyReader codecs site src k).R (bodyReader codecs site src k).s ns
  rw [h] at this
  rw [← bodyReader_rest codecs site src k, this.1]

/-- two read schedules, two stacks: same bytes, same final error -/
theorem read_size_and_version_independent (codecs : Alg → Codec) (s₁ s₂ : Site) (src : Src)
    (k : BodyKind) (ns₁ ns₂ : List Nat) (t₁ t₂ : Term)
    (h₁ : (drain (bodyReader codecs s₁ src k).R (bodyReader codecs s₁ src k).s ns₁).2.2 = some t₁)
    (h₂ : (drain (bodyReader codecs s₂ src k).R (bodyReader codecs s₂ src k).s ns₂).2.2 = some t₂) :
    (drain (bodyReader codecs s₁ src k).R (bodyReader codecs s₁ src k).s ns₁).2.1 =
      (drain (bodyReader codecs s₂ src k).R (bodyReader codecs s₂ src k).s ns₂).2.1 ∧ t₁ = t₂ := by
  have a := read_size_independent codecs s₁ src k ns₁ t₁ h₁
  have b := read_size_independent codecs s₂ src k ns₂ t₂ h₂
  have := a.trans b.symm
  exact ⟨congrArg (fun x => x.1) this, congrArg (fun x => x.2) this⟩

/-- before the end, what has been returned is a prefix of the meaning (no garbage, nothing
skipped) -/
theorem partial_reads_are_prefix (codecs : Alg → Codec) (site : Site) (src : Src) (k : BodyKind)
    (ns : List Nat) :
    (drain (bodyReader codecs site src k).R (bodyReader codecs site src k).s ns).2.1
      <+: (delivered codecs src k).1 := by
  have := drain_spec (bodyReader codecs site src k).R (bodyReader codecs site src k).s ns
  rw [← bodyReader_rest codecs site src k]
  cases h : (drain (bodyReader codecs site src k).R (bodyReader codecs site src k).s ns).2.2 with
  | none => rw [h] at this; rw [this]; exact List.prefix_append _ _
  | some t => rw [h] at this; rw [this.1]; exact List.prefix_refl _

/-- reading with non-empty buffers always reaches the end (no livelock): more reads than
bytes suffice -/
theorem reads_finish (codecs : Alg → Codec) (site : Site) (src : Src) (k : BodyKind)
    (ns : List Nat) (hpos : ∀ n ∈ ns, 0 < n) (hlen : (delivered codecs src k).1.length < ns.length) :
    (drain (bodyReader codecs site src k).R (bodyReader codecs site src k).s ns).2.2 ≠ none := by
  apply drain_finishes _ _ _ hpos
  rw [bodyReader_rest]; exact hlen

/-- **sticky_error** — after the first `Read` that returned an error, every later `Read` (with
a non-empty buffer) returns no data and the same error. -/
theorem sticky_error (codecs : Alg → Codec) (site : Site) (src : Src) (k : BodyKind)
    (ns : List Nat) (t : Term)
    (h : (drain (bodyReader codecs site src k).R (bodyReader codecs site src k).s ns).2.2 = some t)
    (ms : List Nat) (hpos : ∀ m ∈ ms, 0 < m) :
    ∀ m ∈ ms, ∀ pre, pre ++ [m] <+: ms →
      ((bodyReader codecs site src k).R.read
        (pre.foldl (fun s n => ((bodyReader codecs site src k).R.read s n).1)
          (drain (bodyReader codecs site src k).R (bodyReader codecs site src k).s ns).1) m).2
        = ([], some t) := by
  have hd := drain_spec (bodyReader codecs site src k).R (bodyReader codecs site src k).s ns
  rw [h] at hd
  have hend := hd.2
  generalize (drain (bodyReader codecs site src k).R (bodyReader codecs site src k).s ns).1 = s0 at hend
  intro m _ pre hpre
  have hall : ∀ x ∈ pre ++ [m], 0 < x := fun x hx => hpos x (hpre.subset hx)
  clear hpre
  induction pre generalizing s0 with
  | nil => exact (read_after_end _ s0 t hend m (hall m (by simp))).1
  | cons p pre ih =>
    simp only [List.foldl_cons]
    apply ih
    · exact (read_after_end _ s0 t hend p (hall p (by simp))).2
    · intro x hx; exact hall x (by simp only [List.cons_append, List.mem_cons]; exact Or.inr hx)

/-- a constructor error (`gzip.NewReader`: bad magic, truncated member header, error of the
underlying body) is returned by the first `Read` and by every later one, whatever the buffer
sizes (zero included), and no byte is ever produced -/
theorem constructor_error_sticky (C : Codec) (src : Src) (e : Term) (h : C.openR src = .error e)
    (keep : Bool) (ns : List Nat) :
    lazyRun C keep (LazyState.init src) (ns.map Op.read) = ns.map (fun _ => ([], some e)) ∧
    h1gzRun C (H1GzState.init src) (ns.map Op.read) = ns.map (fun _ => ([], some e)) := by
  cases ns with
  | nil => simp [lazyRun, h1gzRun]
  | cons n ns =>
    have hl : ∀ (st : LazyState C), st.zerr = some e → ∀ ms : List Nat,
        lazyRun C keep st (ms.map Op.read) = ms.map (fun _ => ([], some e)) := by
      intro st hz ms
      induction ms with
      | nil => simp [lazyRun]
      | cons m ms ih => simp [lazyRun, lazyRead, hz, ih]
    have hh : ∀ (st : H1GzState C), st.inner = none → st.zerr = some e → ∀ ms : List Nat,
        h1gzRun C st (ms.map Op.read) = ms.map (fun _ => ([], some e)) := by
      intro st hi hz ms
      induction ms with
      | nil => simp [h1gzRun]
      | cons m ms ih => simp [h1gzRun, h1gzRead, hi, hz, ih]
    constructor
    · simp only [List.map_cons, lazyRun, lazyRead, LazyState.init, h]
      rw [hl _ rfl]
    · simp only [List.map_cons, h1gzRun, h1gzRead, H1GzState.init, h, Bool.false_eq_true, if_false]
      rw [hh _ rfl rfl]

/-- `GzipReader.Close` then `Read`: `fs.ErrClosed`, always, no data -/
theorem closed_sticky (C : Codec) (keep : Bool) (st : LazyState C) (ns : List Nat) :
    lazyRun C keep st (Op.close :: ns.map Op.read) = ns.map (fun _ => ([], some errClosed)) := by
  simp only [lazyRun]
  have : ∀ (st : LazyState C), st.zerr = some errClosed →
      lazyRun C keep st (ns.map Op.read) = ns.map (fun _ => ([], some errClosed)) := by
    intro st hz
    induction ns with
    | nil => simp [lazyRun]
    | cons m ms ih => simp [lazyRun, lazyRead, hz, ih]
  exact this _ rfl

/-- **kept_error_sticky** — a wrapper that records every error (`BrotliReader` after
fixes/C14-4) is sticky BY ITSELF, for every buffer size (zero included): once a `Read` has
returned an error, every later `Read` returns no data and that error without consulting the
decoder again — no assumption on the decoder's own stickiness is used. -/
theorem kept_error_sticky (C : Codec) (st : LazyState C) (n : Nat) (t : Term)
    (h : (lazyRead C true st n).2.2 = some t) (ms : List Nat) :
    lazyRun C true (lazyRead C true st n).1 (ms.map Op.read) = ms.map (fun _ => ([], some t)) := by
  have hz : (lazyRead C true st n).1.zerr = some t := by
    revert h
    unfold lazyRead
    split
    · rename_i e hz; intro h; simp at h; subst h; exact hz
    · split
      · intro h; simpa using h
      · split
        · intro h; simp at h; subst h; rfl
        · intro h; simpa using h
  generalize (lazyRead C true st n).1 = st' at hz
  induction ms with
  | nil => simp [lazyRun]
  | cons m ms ih => simp [lazyRun, lazyRead, hz, ih]

/-- **delivered_original** — end to end: whenever the decision installs a decoder and the body
is the encoding of a payload under a codec with the round-trip law, the caller reads exactly
that payload followed by a clean EOF, for every read schedule and on every stack; whenever it
does not, exactly the bytes received. -/
theorem delivered_original (codecs : Alg → Codec) (enc : Alg → Bytes → Bytes)
    (hrt : ∀ a p, (codecs a).total ⟨enc a p, .eof⟩ = (p, .eof))
    (s : Site) (c : ReqCfg) (auto hasBody : Bool) (r : Resp) (k : BodyKind)
    (hk : (process s c auto hasBody r).body = some k) (payload wire : Bytes)
    (hw : wire = match k with
      | .raw => payload | .gunzip => enc .gzip payload | .decode a => enc a payload)
    (ns : List Nat) (t : Term)
    (h : (drain (bodyReader codecs s ⟨wire, .eof⟩ k).R (bodyReader codecs s ⟨wire, .eof⟩ k).s ns).2.2 = some t) :
    (drain (bodyReader codecs s ⟨wire, .eof⟩ k).R (bodyReader codecs s ⟨wire, .eof⟩ k).s ns).2.1 = payload
      ∧ t = .eof := by
  have := read_size_independent codecs s ⟨wire, .eof⟩ k ns t h
  have hd : delivered codecs ⟨wire, .eof⟩ k = (payload, .eof) := by
    subst hw
    cases k <;> simp [delivered, deliver, hrt]
  rw [hd] at this
  exact ⟨congrArg Prod.fst this, congrArg Prod.snd this⟩

/-- **corrupt_yields_error** — if the codec's meaning of the body ends in an error (corrupt or
truncated stream, error of the underlying body) then no read schedule ends in a clean EOF:
the caller always sees that error, after a prefix of the meaning. -/
theorem corrupt_yields_error (codecs : Alg → Codec) (site : Site) (src : Src) (k : BodyKind)
    (e : Nat) (he : (delivered codecs src k).2 = .err e) (ns : List Nat) (t : Term)
    (h : (drain (bodyReader codecs site src k).R (bodyReader codecs site src k).s ns).2.2 = some t) :
    t = .err e := by
  have := read_size_independent codecs site src k ns t h
  rw [← he, ← this]

/-! ### non-vacuity: the toy codec inhabits the parameter -/

def toyCodecs : Alg → Codec := fun _ => Toy.codec

/-- the round-trip hypothesis of `delivered_original` is satisfiable -/
theorem toy_roundtrip_law : ∀ (a : Alg) (p : Bytes),
    (toyCodecs a).total ⟨Toy.encode p, .eof⟩ = (p, .eof) := fun _ p => Toy.roundtrip p

-- payload [7,7,7,9] encoded as runs 3×7, 1×9, end: read with buffers 1,2,5,1 / 4,4 / 2,2,2 on
-- two different stacks
example :
    (drain (bodyReader toyCodecs .h1 ⟨[3, 7, 1, 9, 0], .eof⟩ .gunzip).R
      (bodyReader toyCodecs .h1 ⟨[3, 7, 1, 9, 0], .eof⟩ .gunzip).s [1, 2, 5, 1]).2
      = ([7, 7, 7, 9], some .eof) := by decide
example :
    (drain (bodyReader toyCodecs .h3 ⟨[3, 7, 1, 9, 0], .eof⟩ (.decode .br)).R
      (bodyReader toyCodecs .h3 ⟨[3, 7, 1, 9, 0], .eof⟩ (.decode .br)).s [4, 4]).2
      = ([7, 7, 7, 9], some .eof) := by decide
-- truncated after the first run: the data so far, then unexpected EOF, and it sticks
example :
    (drain (bodyReader toyCodecs .h2 ⟨[3, 7, 1], .eof⟩ .gunzip).R
      (bodyReader toyCodecs .h2 ⟨[3, 7, 1], .eof⟩ .gunzip).s [2, 2, 2]).2
      = ([7, 7, 7], some (.err 1)) := by decide
example :
    lazyRun Toy.codec false (LazyState.init ⟨[3, 7, 1], .eof⟩) [.read 2, .read 2, .read 2, .read 1, .close, .read 1]
      = [([7, 7], none), ([7], some (.err 1)), ([], some (.err 1)), ([], some (.err 1)), ([], some (.err 3))] := by
  decide

/-! ## Part 3 — the extracted source shape means the model

`Bridge/C14.lean` proves that the shape `tools/gofacts` extracts from transport.go,
internal/http2/transport.go and internal/http3/http_stream.go equals `shape s` (or
`Legacy.shape s` while the fixes are not applied). Here: the meaning of those shapes is the
decision function the theorems above are about. -/

theorem interp_core (sh : SiteShape) (i : RespIn)
    (h1 : sh = shape .h1 ∨ sh = shape .h2) : interp sh i = some (viewAction (decideCore i)) := by
  have e1 : strips [Effect.delContentEncoding, .delContentLength, .contentLengthMinus1, .uncompressedTrue, .set .body .gzipReader] = some true := by decide
  have e1' : strips [Effect.delContentEncoding, .delContentLength, .contentLengthMinus1, .uncompressedTrue, .set .body .gzipReader] = some true := by decide
  have e2 : strips [Effect.delContentEncoding, .delContentLength, .contentLengthMinus1, .uncompressedTrue, .set .body .reader] = some true := by decide
  have e3 : strips [] = some false := by decide
  rcases h1 with rfl | rfl <;>
  · simp only [interp, shape, decideCore, isGzipFold]
    simp only [e1, e1', e2, e3, List.foldl, runEffect, runEffects, Bool.true_and]
    rcases Bool.eq_false_or_eq_true (i.addedGzip && Req.Ascii.equalFold i.ce tokGzip) with hg | hg
    · simp [hg, viewAction]
    · rcases Bool.eq_false_or_eq_true i.autoDecompress with ha | ha
      · cases hs : select i.ce <;> simp [hg, ha, hs, viewAction]
      · simp [hg, ha, viewAction]

/-- **interp_shape_h1 / h2** — the extracted shape of `readLoop` / `handleResponse` means
`decideCore` (the branch behind the stacks' HEAD / bodiless early exits). -/
theorem interp_shape_h1 (i : RespIn) : interp (shape .h1) i = some (viewAction (decideCore i)) :=
  interp_core _ i (Or.inl rfl)

theorem interp_shape_h2 (i : RespIn) : interp (shape .h2) i = some (viewAction (decideCore i)) :=
  interp_core _ i (Or.inr rfl)

/-- **interp_shape_h3** — the extracted shape of `ReadResponse` (assignments through
`s.responseBody`, `res.Body = s.responseBody` at the end) means `decideH3`. -/
theorem interp_shape_h3 (i : RespIn) : interp (shape .h3) i = some (viewAction (decideH3 i)) := by
  have e1 : strips [Effect.delContentEncoding, .delContentLength, .contentLengthMinus1, .uncompressedTrue, .set .responseBody .gzipReader] = some true := by decide
  have e2 : strips [Effect.delContentEncoding, .delContentLength, .contentLengthMinus1, .uncompressedTrue, .set .responseBody .reader] = some true := by decide
  have e3 : strips [] = some false := by decide
  simp only [interp, shape, decideH3, isGzipFold]
  simp only [e1, e2, e3, List.foldl, runEffect, runEffects, Bool.true_and]
  rcases Bool.eq_false_or_eq_true (i.addedGzip && Req.Ascii.equalFold i.ce tokGzip) with hg | hg
  · simp [hg, viewAction]
  · rcases Bool.eq_false_or_eq_true (i.autoDecompress && !i.isHead) with ha | ha
    · cases hs : select i.ce <;> simp [hg, ha, hs, viewAction]
    · simp [hg, ha, viewAction]

/-- the pre-fix shapes mean the legacy model (so the counter-examples `legacy_*` are about the
code that was extracted before the fixes) -/
theorem interp_legacy_shape_h1_h2 (i : RespIn) :
    interp (Legacy.shape .h1) i = some (Legacy.viewAction (Legacy.decideCore i)) ∧
    interp (Legacy.shape .h2) i = some (Legacy.viewAction (Legacy.decideCore i)) := by
  have e1 : strips [Effect.delContentEncoding, .delContentLength, .contentLengthMinus1, .uncompressedTrue, .set .body .gzipReader] = some true := by decide
  have e1' : strips [Effect.delContentEncoding, .delContentLength, .contentLengthMinus1, .uncompressedTrue, .set .body .gzipReader] = some true := by decide
  have e2 : strips [Effect.delContentEncoding, .delContentLength, .contentLengthMinus1, .uncompressedTrue, .set .body .reader] = some true := by decide
  have e3 : strips [] = some false := by decide
  constructor <;>
  · simp only [interp, Legacy.shape, shape, Legacy.decideCore, isGzipFold]
    simp only [e1, e1', e2, e3, List.foldl, runEffect, runEffects, Bool.true_and]
    rcases Bool.eq_false_or_eq_true (i.addedGzip && Req.Ascii.equalFold i.ce tokGzip) with hg | hg
    · simp [hg, Legacy.viewAction]
    · rcases Bool.eq_false_or_eq_true i.autoDecompress with ha | ha
      · rcases Bool.eq_false_or_eq_true (i.ce != []) with he | he
        · cases hs : select i.ce <;> simp [hg, ha, he, hs, Legacy.viewAction]
        · simp [hg, ha, he, Legacy.viewAction]
      · simp [hg, ha, Legacy.viewAction]

theorem interp_legacy_shape_h3 (i : RespIn) :
    interp (Legacy.shape .h3) i = some (Legacy.viewAction (Legacy.decideH3 i)) := by
  have e1 : strips [Effect.delContentEncoding, .delContentLength, .contentLengthMinus1, .uncompressedTrue, .set .responseBody .gzipReader] = some true := by decide
  have e2 : strips [Effect.delContentEncoding, .delContentLength, .contentLengthMinus1, .uncompressedTrue, .set .body .reader] = some true := by decide
  have e3 : strips [Effect.set .responseBody .raw] = some false := by decide
  simp only [interp, Legacy.shape, Legacy.decideH3]
  simp only [e1, e2, e3, List.foldl, runEffect, runEffects, Bool.true_and]
  rcases Bool.eq_false_or_eq_true (i.addedGzip && i.ce == tokGzip) with hg | hg
  · simp [hg, Legacy.viewAction]
  · rcases Bool.eq_false_or_eq_true i.autoDecompress with ha | ha
    · rcases Bool.eq_false_or_eq_true (i.ce != []) with he | he
      · simp [hg, ha, he, Legacy.viewAction]
      · simp [hg, ha, he, Legacy.viewAction]
    · simp [hg, ha, Legacy.viewAction]

/-- the extracted request-side conjunct list means `addGzip` -/
theorem interpAsk_shape (s : Site) (c : ReqCfg) : interpAsk (shape s).ask c = some (addGzip s c) := by
  cases s <;> simp [interpAsk, shape, addGzip, addGzipH1, addGzipH2, addGzipH3, ReqCfg.isHead, Bool.and_assoc, bne]
  cases c.disableCompression <;> cases List.isEmpty c.acceptEncoding <;> cases List.isEmpty c.range <;>
    cases (c.method == tokHEAD) <;> rfl

/-- the fixes do not touch the request side -/
theorem legacy_shape_ask (s : Site) : (Legacy.shape s).ask = (shape s).ask := by
  cases s <;> rfl

end Req.Props.C14
