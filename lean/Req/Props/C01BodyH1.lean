import Req.H1.BodyWrite
import Req.Lemmas.C01BodyH1
/-!
C01 (round 5) — the HTTP/1.1 request body on the wire, for EVERY body-reader behaviour.

`Req.H1.BodyWrite` models `newTransferWriter` (framing decision incl. the one-byte probe) and
`transferWriter.writeBody` (`io.CopyBuffer` into the chunk writer / the connection / through
`io.LimitReader(body, ContentLength)` followed by the discarding copy and the length comparison)
over the `Reader` scripts shared with the HTTP/2 and HTTP/3 body models: all byte strings, all
sequences of read sizes (zero-length reads included), the four endings `(0,EOF)`, `(n,EOF)`,
`(0,err)`, `(n,err)`, every buffer length, every method, every declared length (absent, truthful,
smaller than what the reader yields = over-long reader, larger = under-long reader).

Tied to the real `newTransferWriter` + `transferWriter.writeBody` by the `h1body` lane (framing,
outcome, every byte written).
-/
namespace Req.Props.C01BodyH1
open Req.Proto Req.H1 Req.H1.BodyWrite Req.Lemmas.C01Body Req.Lemmas.C01BodyH1
open Req.H2.BodyWrite (Reader RErr Ending)

/-- the body bytes a plan stands for: the probed byte put back in front of what the reader still holds -/
def Plan.bytes (p : Plan) : Bytes := p.pre ++ p.reader.data

/-- what `newTransferWriter` guarantees about its plan for a reader holding `data` -/
structure PlanInv (p : Plan) (data : Bytes) (ending : Ending) : Prop where
  /-- the probe neither loses nor invents a byte -/
  bytes : Plan.bytes p = data
  /-- a body of declared length is not probed -/
  known : ∀ n, p.mode = .known n → p.pre = []
  /-- a body is dropped only when its first `Read` returned `(0, io.EOF)`: it is empty -/
  noBody : p.mode = .noBody → data = []
  ending : p.reader.ending = ending

theorem planUnknown_inv (method : Bytes) (r : Reader) : PlanInv (planUnknown method r) r.data r.ending := by
  unfold planUnknown
  simp only
  split
  · exact ⟨rfl, (by intro n h; cases h), (by intro h; cases h), rfl⟩
  · split
    · have hd := read_data r 1
      have he := read_eof r 1
      have hend := read_ending r 1
      generalize r.read 1 = x at *
      obtain ⟨c, e, r1⟩ := x
      simp only at hd he hend ⊢
      split
      next h =>
        simp only [Bool.and_eq_true, List.isEmpty_iff, beq_iff_eq] at h
        refine ⟨?_, (by intro n h; cases h), ?_, hend⟩
        · unfold Plan.bytes; simp only [List.nil_append]; rw [← hd, h.1, List.nil_append]
        · intro _; rw [← hd, h.1, he h.2]; rfl
      next h => exact ⟨hd, (by intro n h; cases h), (by intro h; cases h), hend⟩
    · exact ⟨rfl, (by intro n h; cases h), (by intro h; cases h), rfl⟩

theorem plan_inv (method : Bytes) (cl : Option Nat) (r : Reader) : PlanInv (plan method cl r) r.data r.ending := by
  unfold plan
  split
  · exact ⟨rfl, (by intro _ _; rfl), (by intro h; cases h), rfl⟩
  · exact planUnknown_inv method r

theorem plan_bytes (method : Bytes) (cl : Option Nat) (r : Reader) :
    Plan.bytes (plan method cl r) = r.data := (plan_inv method cl r).bytes

/-- the payload pieces `writeBody` hands to the framing layer, whatever the outcome: a prefix of
the body, within the declared length when there is one, no empty piece. -/
theorem pieces_spec (buf : Nat) (p : Plan) (hk : ∀ n, p.mode = .known n → p.pre = []) :
    (pieces buf p).1.flatten <+: Plan.bytes p ∧
    (∀ n, p.mode = .known n → (pieces buf p).1.flatten.length ≤ n) ∧
    (∀ w ∈ (pieces buf p).1, w ≠ []) := by
  have hpre : (if p.pre.isEmpty = true then ([] : List Bytes) else [p.pre]).flatten = p.pre := by
    split
    next h => simp [List.isEmpty_iff.mp h]
    next h => simp
  have hpmem : ∀ w ∈ (if p.pre.isEmpty = true then ([] : List Bytes) else [p.pre]), w ≠ [] := by
    intro w hw
    split at hw
    · cases hw
    next h =>
      simp only [List.mem_singleton] at hw
      subst hw
      exact fun hc => h (by simp [hc])
  have hcopy : ∀ limit, ((copyAll buf p limit).1.flatten <+: Plan.bytes p) ∧
      (∀ w ∈ (copyAll buf p limit).1, w ≠ []) ∧
      (p.pre = [] → Within limit (copyAll buf p limit).1.flatten.length) := by
    intro limit
    unfold copyAll Plan.bytes
    obtain ⟨i1, i2, i3, _, _⟩ := ioCopy_spec buf (fuelFor p.reader) limit p.reader
    generalize ioCopy buf (fuelFor p.reader) limit p.reader = res at *
    obtain ⟨ws, o, r'⟩ := res
    simp only at i1 i2 i3 ⊢
    refine ⟨?_, ?_, ?_⟩
    · rw [List.flatten_append, hpre, ← i1, ← List.append_assoc]
      exact List.prefix_append _ _
    · intro w hw
      rcases List.mem_append.mp hw with h | h
      · exact hpmem w h
      · exact i3 w h
    · intro hp n hn
      have := i2 n hn
      simp only [hp, List.isEmpty_nil, if_true, List.nil_append]
      exact this
  unfold pieces
  split
  · exact ⟨by simp, by simp, by simp⟩
  · obtain ⟨h1, h2, h3⟩ := hcopy (limitOf p.mode)
    refine ⟨h1, ?_, h2⟩
    intro n hn
    have := h3 (hk n hn) n (by rw [hn]; rfl)
    exact this

/-- **h1_body_is_reader_prefix** — for every method, declared length, reader script and buffer:
the payload `writeBody` passes on (the concatenation of the chunk payloads when chunked, the raw
bytes otherwise) is a prefix of the reader's bytes — nothing altered, dropped in the middle,
duplicated or reordered — whatever the outcome. -/
theorem h1_body_is_reader_prefix (buf : Nat) (method : Bytes) (cl : Option Nat) (r : Reader) :
    (pieces buf (plan method cl r)).1.flatten <+: r.data := by
  have hk := (plan_inv method cl r).known
  have := (pieces_spec buf (plan method cl r) hk).1
  rwa [plan_bytes] at this

/-- **h1_overlong_reader_never_on_wire** — a request with a declared `Content-Length` of `n > 0`:
for EVERY reader script (however many bytes it yields, in whatever reads, however it ends) and every
buffer length, the bytes `writeBody` puts on the connection behind the head are a prefix of the
FIRST `n` bytes of the reader: the surplus of an over-long reader never reaches the wire (where it
would be read as the start of a second request). -/
theorem h1_overlong_reader_never_on_wire (buf : Nat) (method : Bytes) (n : Nat) (r : Reader) :
    (writeBody buf (plan method (some (n + 1)) r)).1 <+: r.data.take (n + 1) := by
  have hp : plan method (some (n + 1)) r = ⟨.known (n + 1), [], r⟩ := rfl
  have hk : ∀ m, (plan method (some (n + 1)) r).mode = .known m → (plan method (some (n + 1)) r).pre = [] := by
    intro m _; rfl
  obtain ⟨h1, h2, _⟩ := pieces_spec buf (plan method (some (n + 1)) r) hk
  rw [plan_bytes] at h1
  have h2' := h2 (n + 1) rfl
  have hw : (writeBody buf (plan method (some (n + 1)) r)).1 = (pieces buf (plan method (some (n + 1)) r)).1.flatten := by
    unfold writeBody
    rw [hp]
  rw [hw]
  exact List.prefix_take_iff.mpr ⟨h1, h2'⟩

example : (writeBody 4 (plan [80, 79, 83, 84] (some 3)
    { data := [1, 2, 3, 71, 69, 84, 32, 47], sizes := [2, 0, 5], ending := .eofWithLast })) = ([1, 2, 3], .bodyLength) := by
  decide

/-- plan-level form of `h1_body_ok_exact` -/
theorem pieces_ok_exact (buf : Nat) (p : Plan) (data : Bytes) (ending : Ending)
    (hinv : PlanInv p data ending) (hok : (pieces buf p).2 = .ok) :
    (pieces buf p).1.flatten = data ∧ (∀ n, p.mode = .known n → data.length = n) := by
  have hpre : (if p.pre.isEmpty = true then ([] : List Bytes) else [p.pre]).flatten = p.pre := by
    split
    next h => simp [List.isEmpty_iff.mp h]
    next h => simp
  have hb := hinv.bytes
  unfold Plan.bytes at hb
  unfold pieces at hok ⊢
  split at hok
  next hm =>
    simp only [hm, if_true]
    refine ⟨?_, (by intro n h; cases h)⟩
    rw [hinv.noBody hm]; rfl
  next hm =>
    simp only [hm, if_false]
    simp only at hok
    unfold copyAll at hok ⊢
    obtain ⟨i1, _, _, _, i5⟩ := ioCopy_spec buf (fuelFor p.reader) (limitOf p.mode) p.reader
    generalize ioCopy buf (fuelFor p.reader) (limitOf p.mode) p.reader = res at *
    obtain ⟨ws, o, r'⟩ := res
    simp only at i1 i5 hok ⊢
    rw [List.flatten_append, hpre]
    cases hmode : p.mode with
    | noBody => exact absurd hmode hm
    | chunked =>
      simp only [hmode, outcomeOf, limitOf] at hok i5
      have ho : o = .eof := by
        by_cases h : o = .eof
        · exact h
        · simp [h] at hok
      rcases i5 ho with h | h
      · rw [h, List.append_nil] at i1
        exact ⟨by rw [i1, hb], (by intro n h; cases h)⟩
      · cases h
    | identity =>
      simp only [hmode, outcomeOf, limitOf] at hok i5
      have ho : o = .eof := by
        by_cases h : o = .eof
        · exact h
        · simp [h] at hok
      rcases i5 ho with h | h
      · rw [h, List.append_nil] at i1
        exact ⟨by rw [i1, hb], (by intro n h; cases h)⟩
      · cases h
    | known n =>
      have hp0 := hinv.known n hmode
      simp only [hmode, outcomeOf, limitOf] at hok i5
      obtain ⟨j1, _, _, _, j5⟩ := ioCopy_spec 8192 (fuelFor r') none r'
      generalize ioCopy 8192 (fuelFor r') none r' = d at *
      obtain ⟨ds, o2, r2⟩ := d
      simp only at j1 j5 hok
      have ho : o = .eof := by
        cases o with
        | eof => rfl
        | fail => simp at hok
      have ho2 : o2 = .eof := by
        cases o2 with
        | eof => rfl
        | fail => simp [ho] at hok
      have hr2 : r2.data = [] := by
        rcases j5 ho2 with h | h
        · exact h
        · cases h
      rw [hr2, List.append_nil] at j1
      simp only [ho, ho2, hp0, List.isEmpty_nil, if_true, List.nil_append] at hok
      have hlen : ws.flatten.length + ds.flatten.length = n := by
        by_cases h : ws.flatten.length + ds.flatten.length = n
        · exact h
        · rw [if_neg h] at hok
          cases hok
      have hr' : r'.data = [] := by
        rcases i5 ho with h | h
        · exact h
        · simp only [Option.some.injEq] at h
          have : ds.flatten.length = 0 := by omega
          rw [← j1]
          exact List.length_eq_zero_iff.mp this
      rw [hr', List.append_nil] at i1
      rw [hp0, List.nil_append] at hb ⊢
      refine ⟨by rw [i1, hb], ?_⟩
      intro m hm'
      cases hm'
      have hd0 : ds.flatten.length = 0 := by rw [j1, hr']; rfl
      rw [← hb, ← i1]
      omega

/-- **h1_body_ok_exact** — `writeBody` returned nil ⇒ the payload is the reader's bytes exactly, and
a declared length is exactly the number of bytes the reader yielded. -/
theorem h1_body_ok_exact (buf : Nat) (method : Bytes) (cl : Option Nat) (r : Reader)
    (hok : (pieces buf (plan method cl r)).2 = .ok) :
    (pieces buf (plan method cl r)).1.flatten = r.data ∧
    (∀ n, (plan method cl r).mode = .known n → r.data.length = n) :=
  pieces_ok_exact buf _ r.data r.ending (plan_inv method cl r) hok

/-- **h1_length_mismatch_fails** — a reader that yields more (or fewer) bytes than the declared
`Content-Length` never makes `writeBody` return nil: the round trip fails. -/
theorem h1_length_mismatch_fails (buf : Nat) (method : Bytes) (n : Nat) (r : Reader)
    (hne : r.data.length ≠ n + 1) : (pieces buf (plan method (some (n + 1)) r)).2 ≠ .ok := by
  intro hok
  exact hne ((h1_body_ok_exact buf method (some (n + 1)) r hok).2 (n + 1) rfl)

/-- plan-level form of `h1_honest_body_completes` -/
theorem pieces_honest (buf : Nat) (hbuf : 1 ≤ buf) (p : Plan) (data : Bytes) (ending : Ending)
    (hinv : PlanInv p data ending) (hend : ending = .eof ∨ ending = .eofWithLast)
    (hcl : ∀ n, p.mode = .known n → data.length = n) : (pieces buf p).2 = .ok := by
  have hb := hinv.bytes
  unfold Plan.bytes at hb
  have hre : p.reader.ending = .eof ∨ p.reader.ending = .eofWithLast := by rw [hinv.ending]; exact hend
  unfold pieces
  split
  · rfl
  next hm =>
    simp only
    unfold copyAll
    have hprog := ioCopy_progress buf hbuf (fuelFor p.reader) (limitOf p.mode) p.reader (Nat.le_refl _) hre
    obtain ⟨i1, _, _, i4, i5⟩ := ioCopy_spec buf (fuelFor p.reader) (limitOf p.mode) p.reader
    generalize ioCopy buf (fuelFor p.reader) (limitOf p.mode) p.reader = res at *
    obtain ⟨ws, o, r'⟩ := res
    simp only at i1 i4 i5 hprog ⊢
    subst hprog
    cases hmode : p.mode with
    | noBody => exact absurd hmode hm
    | chunked => simp [outcomeOf]
    | identity => simp [outcomeOf]
    | known n =>
      have hp0 := hinv.known n hmode
      have hdl := hcl n hmode
      have hre' : r'.ending = .eof ∨ r'.ending = .eofWithLast := by rw [i4]; exact hre
      have hprog2 := ioCopy_progress 8192 (by omega) (fuelFor r') none r' (Nat.le_refl _) hre'
      obtain ⟨j1, _, _, _, j5⟩ := ioCopy_spec 8192 (fuelFor r') none r'
      simp only [outcomeOf]
      generalize ioCopy 8192 (fuelFor r') none r' = d at *
      obtain ⟨ds, o2, r2⟩ := d
      simp only at j1 j5 hprog2 ⊢
      subst hprog2
      have hr2 : r2.data = [] := by
        rcases j5 rfl with h | h
        · exact h
        · cases h
      rw [hr2, List.append_nil] at j1
      rw [hp0, List.nil_append] at hb
      have hl : ws.flatten.length + ds.flatten.length = n := by
        rw [j1, ← hdl, ← hb, ← i1, List.length_append]
      simp only [List.length_flatten] at hl
      simp [hp0, hl]

/-- **h1_honest_body_completes** — progress / non-vacuity of `ok`: a reader that ends with `io.EOF`
(alone or together with its last bytes), whatever its read sizes, with a truthful or absent declared
length, is written completely and `writeBody` returns nil. -/
theorem h1_honest_body_completes (buf : Nat) (hbuf : 1 ≤ buf) (method : Bytes) (cl : Option Nat) (r : Reader)
    (hend : r.ending = .eof ∨ r.ending = .eofWithLast) (hcl : cl = none ∨ cl = some r.data.length) :
    (pieces buf (plan method cl r)).2 = .ok ∧ (pieces buf (plan method cl r)).1.flatten = r.data := by
  have hok : (pieces buf (plan method cl r)).2 = .ok := by
    refine pieces_honest buf hbuf _ r.data r.ending (plan_inv method cl r) hend ?_
    intro n hn
    rcases hcl with h | h
    · subst h
      have : (plan method none r).mode = (planUnknown method r).mode := rfl
      rw [this] at hn
      unfold planUnknown at hn
      simp only at hn
      split at hn
      · cases hn
      · split at hn
        · split at hn <;> cases hn
        · cases hn
    · subst h
      cases hd : r.data.length with
      | zero =>
        rw [hd] at hn
        have : (plan method (some 0) r).mode = (planUnknown method r).mode := rfl
        rw [this] at hn
        unfold planUnknown at hn
        simp only at hn
        split at hn
        · cases hn
        · split at hn
          · split at hn <;> cases hn
          · cases hn
      | succ k =>
        rw [hd] at hn
        cases hn
        rfl
  exact ⟨hok, (h1_body_ok_exact buf method cl r hok).1⟩

example : writeBody 4 (plan [71, 69, 84] none { data := [1, 2, 3, 4, 5, 6], sizes := [1, 0, 2], ending := .eofWithLast }) =
    ([49, 13, 10, 1, 13, 10, 50, 13, 10, 2, 3, 13, 10, 51, 13, 10, 4, 5, 6, 13, 10, 48, 13, 10, 13, 10], .ok) := by
  decide

end Req.Props.C01BodyH1
