/-! C15 — property theorems (none yet). -/
