import Req.Lemmas.Decode
/-!
C15 — charset auto-decoding never corrupts text.

Model: `Req/Client/Decode.lean` (decode.go after `fixes/C15-1-peekread-streaming-decode.patch`,
the selection of transport.go `autoDecodeResponseBody`, the BOM table of charsets.go);
`Legacy.*` is the `peekRead` of the pinned tree.

* decoder instances satisfy the streaming law: `latin1_lawful`, `windows1252_lawful`,
  `utf16_lawful` (a multi-byte code: characters can be split by a chunk boundary),
  `tableDecoder_lawful`;
* `outcome_by_sniff` / `two_outcomes`: ∀ lawful sniffer results, ∀ body, ∀ segmentation of the
  body into source reads (incl. empty reads, data+EOF together), ∀ caller buffer sizes: a body
  read to EOF is the original or the whole-body decode, and which one is decided by
  `find (first data chunk)` alone;
* `split_independent`: two deliveries of the same body differ at most in that verdict;
* `no_bytes_added`, `read_len_le`: no padding — the length is that of the chosen outcome and
  every `Read` returns at most `len(p)` bytes;
* `header_charset_always_applied`, `unselected_type_untouched`, `utf8_identity`,
  `utf8_bom_not_decoded`, `bom_beats_meta`;
* `peek_never_set`: the patched automaton never enters the `peekDrain` path;
* `legacy_pads`, `legacy_splits_character`, `legacy_sniffs_stale_buffer`: the same statements
  are FALSE of the pinned tree's `peekRead` (witnesses replayed on the implementation by the
  lane `read`, class `peekread-legacy`).
-/
namespace Req.Props.C15
open Req.Proto Req.Decode

/-! ### the decoder instances are lawful -/

theorem charmap_lawful (cp : UInt8 → Nat) : (charmap cp).Lawful :=
  ofBytewise_lawful _ _ _ _ (by intro input; simp [charmap_run])

/-- ISO-8859-1 → UTF-8. -/
theorem latin1_lawful : latin1.Lawful := charmap_lawful _

/-- windows-1252 → UTF-8 (what the labels `iso-8859-1`, `latin1`, `ascii` mean to the code). -/
theorem windows1252_lawful : windows1252.Lawful := charmap_lawful _

/-- UTF-16LE/BE → UTF-8 as x/text decodes it: any chunking (also through the middle of a
code unit or between the halves of a surrogate pair) + flush = the whole-input loop. -/
theorem utf16_lawful (be : Bool) : (utf16 be).Lawful :=
  ofBytewise_lawful _ _ _ _ (by
    intro input
    have := utf16_run be input [] trivial
    simpa [u16Spec, utf16All] using this)

theorem tableDecoder_lawful (tbl : List (Bytes × Bytes)) : (tableDecoder tbl).Lawful := by
  intro chunks
  simp [tableDecoder_feedAll]
  rfl

-- the law is not vacuous: a surrogate pair (U+1F600) cut after every byte
example : ((utf16 false).feedAll (utf16 false).init [[0x3d], [0xd8], [0x00], [0xde]]).2
    ++ (utf16 false).flush ((utf16 false).feedAll (utf16 false).init [[0x3d], [0xd8], [0x00], [0xde]]).1
    = [0xf0, 0x9f, 0x98, 0x80] := by decide
example : (utf16 false).decodeAll [0x3d, 0xd8, 0x00, 0xde] = [0xf0, 0x9f, 0x98, 0x80] := by decide
-- lone low half + odd trailing byte
example : (utf16 true).decodeAll [0xdc, 0x00, 0x41] = [0xef, 0xbf, 0xbd, 0xef, 0xbf, 0xbd] := by decide
example : windows1252.decodeAll [0x80, 0xe9, 0x41] = [0xe2, 0x82, 0xac, 0xc3, 0xa9, 0x41] := by decide
example : latin1.decodeAll [0x80, 0xe9] = [0xc2, 0x80, 0xc3, 0xa9] := by decide

variable {σ : Type}

/-! ### the sniffing reader (`autoDecodeReadCloser`) -/

/-- Everything a caller gets from a fresh `autoDecodeReadCloser` over `src` with the buffer
sizes `bufs` (reading stops at the first error, EOF included). -/
def autoReads (find : Bytes → Option (Decoder σ)) (src : Src) (bufs : List Nat) : RR (State σ) :=
  reads (autoRead find) (State.init src) bufs

/-- **outcome_by_sniff**: a body read to EOF is the original bytes when the sniffer finds
nothing in the first data chunk, and otherwise the whole-body decode by the decoder it found —
for every body, every split into source reads, every sequence of caller buffer sizes. -/
theorem outcome_by_sniff (find : Bytes → Option (Decoder σ))
    (hlaw : ∀ c d, find c = some d → d.Lawful) (src : Src) (bufs : List Nat)
    (heof : (autoReads find src bufs).term = some .eof) :
    (autoReads find src bufs).out =
      match (sniffed src bufs).bind find with
      | none => src.body
      | some d => d.decodeAll src.body :=
  autoReads_fresh find hlaw bufs src heof

/-- **two_outcomes**: never a third result. -/
theorem two_outcomes (find : Bytes → Option (Decoder σ))
    (hlaw : ∀ c d, find c = some d → d.Lawful) (src : Src) (bufs : List Nat)
    (heof : (autoReads find src bufs).term = some .eof) :
    (autoReads find src bufs).out = src.body ∨
    ∃ c d, sniffed src bufs = some c ∧ find c = some d ∧ (autoReads find src bufs).out = d.decodeAll src.body := by
  have h := outcome_by_sniff find hlaw src bufs heof
  cases hs : sniffed src bufs with
  | none => left; simpa [hs] using h
  | some c =>
    cases hf : find c with
    | none => left; simpa [hs, hf] using h
    | some d => right; exact ⟨c, d, rfl, hf, by simpa [hs, hf] using h⟩

/-- **split_independent**: the same body delivered in two different segmentations and read
with two different buffer sequences gives the same bytes whenever the sniffer's verdicts on
the two first chunks agree. -/
theorem split_independent (find : Bytes → Option (Decoder σ))
    (hlaw : ∀ c d, find c = some d → d.Lawful) (src src' : Src) (bufs bufs' : List Nat)
    (hbody : src.body = src'.body)
    (hverdict : (sniffed src bufs).bind find = (sniffed src' bufs').bind find)
    (heof : (autoReads find src bufs).term = some .eof)
    (heof' : (autoReads find src' bufs').term = some .eof) :
    (autoReads find src bufs).out = (autoReads find src' bufs').out := by
  rw [outcome_by_sniff find hlaw src bufs heof, outcome_by_sniff find hlaw src' bufs' heof',
    hverdict, hbody]

/-- **no_bytes_added**: the length of what was delivered is the length of the chosen outcome. -/
theorem no_bytes_added (find : Bytes → Option (Decoder σ))
    (hlaw : ∀ c d, find c = some d → d.Lawful) (src : Src) (bufs : List Nat)
    (heof : (autoReads find src bufs).term = some .eof) :
    (autoReads find src bufs).out.length =
      match (sniffed src bufs).bind find with
      | none => src.body.length
      | some d => (d.decodeAll src.body).length := by
  rw [outcome_by_sniff find hlaw src bufs heof]
  cases (sniffed src bufs).bind find <;> rfl

/-- **read_len_le**: every `Read(p)` returns at most `len(p)` bytes, in every state. -/
theorem read_len_le (find : Bytes → Option (Decoder σ)) (a : State σ) (L : Nat) :
    (autoRead find a L).out.length ≤ L :=
  autoRead_len find a L

/-- **peek_never_set**: from a fresh reader the patched code never has carried-over bytes. -/
theorem peek_never_set (find : Bytes → Option (Decoder σ)) (src : Src) (bufs : List Nat) :
    (autoReads find src bufs).st.peek = none := by
  unfold autoReads
  suffices h : ∀ (bufs : List Nat) (a : State σ), a.peek = none → (reads (autoRead find) a bufs).st.peek = none from
    h bufs _ rfl
  intro bufs
  induction bufs with
  | nil => intro a h; simpa [reads] using h
  | cons L Ls ih =>
    intro a h
    have h1 := autoRead_peek_none find a L h
    unfold reads
    cases (autoRead find a L).term with
    | some t => exact h1
    | none => exact ih _ h1

/-! ### the selection in `autoDecodeResponseBody` -/

/-- **header_charset_always_applied**: auto-decode on, content type selected, Content-Type
carries a supported non-UTF-8 charset ⇒ whatever the body contains (BOM, meta tags), however
it is split and read, the delivered body is the whole-body decode from THAT charset. -/
theorem header_charset_always_applied (cfg : Config) (ct cs : Bytes) (lookup : Bytes → Option (Decoder σ))
    (find : Bytes → Option (Decoder σ)) (d : Decoder σ) (hl : d.Lawful)
    (hon : cfg.disable = false) (hsel : shouldDecode cfg ct = true)
    (hutf : isUtf8Label (Req.Ascii.lower cs) = false) (hlk : lookup (Req.Ascii.lower cs) = some d)
    (src : Src) (bufs : List Nat)
    (heof : (respReads cfg [] ct (.charset cs) lookup find src bufs).term = some .eof) :
    (respReads cfg [] ct (.charset cs) lookup find src bufs).out = d.decodeAll src.body := by
  have hselect : select cfg [] ct (.charset cs) lookup = .header d := by
    simp [select, hon, hsel, hutf, hlk]
  unfold respReads at heof ⊢
  rw [hselect] at heof ⊢
  simp only [wrapBody] at heof ⊢
  have hb := bodyReads_hdr find bufs ⟨d, d.init, [], [], none⟩ src
  rw [hb.2] at heof
  rw [hb.1]
  have inv0 : DecInv d src.body [] (DecR.mk d d.init [] [] none) src [] := by
    constructor
    · rfl
    · simp [Decoder.feedAll]
    · simp [Decoder.feedAll]
    · simp
    · intro hc; simp at hc
  have := decReads_eof hl bufs [] (_, _) [] inv0 heof
  simpa using this

/-- **unselected_type_untouched**: auto-decode disabled, or an `Accept-Encoding` response
header present, or the content type not selected ⇒ every `Read` is the underlying `Read`
(same bytes, same errors), so the body is never modified. -/
theorem unselected_type_untouched (cfg : Config) (ae ct : Bytes) (mp : MediaParse)
    (lookup : Bytes → Option (Decoder σ)) (find : Bytes → Option (Decoder σ))
    (h : cfg.disable = true ∨ ae ≠ [] ∨ shouldDecode cfg ct = false) (src : Src) (bufs : List Nat) :
    (respReads cfg ae ct mp lookup find src bufs).out = (reads Src.read src bufs).out ∧
    (respReads cfg ae ct mp lookup find src bufs).term = (reads Src.read src bufs).term := by
  have hselect : select cfg ae ct mp lookup = .untouched := by
    unfold select
    rcases h with h | h | h
    · simp [h]
    · simp [h]
    · by_cases h1 : cfg.disable = true ∨ ae ≠ []
      · simp [h1]
      · simp [h1, h]
  unfold respReads
  rw [hselect]
  exact bodyReads_raw find bufs src

/-- … and read to EOF it is the original body. -/
theorem unselected_body_intact (cfg : Config) (ae ct : Bytes) (mp : MediaParse)
    (lookup : Bytes → Option (Decoder σ)) (find : Bytes → Option (Decoder σ))
    (h : cfg.disable = true ∨ ae ≠ [] ∨ shouldDecode cfg ct = false) (src : Src) (bufs : List Nat)
    (heof : (respReads cfg ae ct mp lookup find src bufs).term = some .eof) :
    (respReads cfg ae ct mp lookup find src bufs).out = src.body := by
  have hu := unselected_type_untouched cfg ae ct mp lookup find h src bufs
  rw [hu.2] at heof
  rw [hu.1]
  exact rawReads_eof bufs src heof

/-- **utf8_identity**: a Content-Type that says utf-8 (`utf-8`/`utf8` anywhere in the charset,
any case) leaves the body untouched — no sniffing, no decoding. -/
theorem utf8_identity (cfg : Config) (ae ct cs : Bytes) (lookup : Bytes → Option (Decoder σ))
    (find : Bytes → Option (Decoder σ)) (hutf : isUtf8Label (Req.Ascii.lower cs) = true)
    (src : Src) (bufs : List Nat) :
    (respReads cfg ae ct (.charset cs) lookup find src bufs).out = (reads Src.read src bufs).out ∧
    (respReads cfg ae ct (.charset cs) lookup find src bufs).term = (reads Src.read src bufs).term := by
  have hselect : select cfg ae ct (.charset cs) lookup = .untouched := by
    unfold select
    by_cases h1 : cfg.disable = true ∨ ae ≠ []
    · simp [h1]
    · by_cases h2 : shouldDecode cfg ct = false
      · simp [h1, h2]
      · simp [h1, h2, hutf]
  unfold respReads
  rw [hselect]
  exact bodyReads_raw find bufs src

/-- Without a usable header charset the body goes to the sniffing reader, for which
`outcome_by_sniff` holds. -/
theorem sniffing_path_two_outcomes (cfg : Config) (ct : Bytes) (mp : MediaParse)
    (lookup : Bytes → Option (Decoder σ)) (find : Bytes → Option (Decoder σ))
    (hlaw : ∀ c d, find c = some d → d.Lawful)
    (hon : cfg.disable = false) (hsel : shouldDecode cfg ct = true)
    (hmp : mp = .err ∨ mp = .noCharset) (src : Src) (bufs : List Nat)
    (heof : (respReads cfg [] ct mp lookup find src bufs).term = some .eof) :
    (respReads cfg [] ct mp lookup find src bufs).out =
      match (sniffed src bufs).bind find with
      | none => src.body
      | some d => d.decodeAll src.body := by
  have hselect : select cfg [] ct mp lookup = .peek := by
    rcases hmp with h | h <;> simp [select, hon, hsel, h]
  unfold respReads at heof ⊢
  rw [hselect] at heof ⊢
  simp only [wrapBody] at heof ⊢
  have hb := bodyReads_auto find bufs (State.init src)
  rw [hb.2] at heof
  rw [hb.1]
  exact autoReads_fresh find hlaw bufs src heof

/-! ### `FindEncoding`: the BOM table -/

/-- **utf8_bom_not_decoded**: content starting with the UTF-8 BOM is never decoded (the
prescan is not even consulted), whatever `htmlcharset.Lookup` resolves `utf-8` to, as long as
it knows the three labels of the table. -/
theorem utf8_bom_not_decoded (lookup prescan : Bytes → Option (Enc σ)) (rest : Bytes) (e : Enc σ)
    (h8 : lookup utf8Name = some e) (hname : Req.Ascii.lower e.name = utf8Name) :
    findEncoding lookup prescan (0xef :: 0xbb :: 0xbf :: rest) = none := by
  simp only [utf8Name] at h8 hname
  simp [findEncoding, boms, bomScan, List.isPrefixOf, h8, dropUtf8, hname, utf8Name]

/-- **bom_beats_meta**: a UTF-16 byte-order mark decides, whatever the prescan would say. -/
theorem bom_beats_meta (lookup prescan : Bytes → Option (Enc σ)) (rest : Bytes) (e : Enc σ)
    (hle : lookup [117, 116, 102, 45, 49, 54, 108, 101] = some e)
    (hname : Req.Ascii.lower e.name ≠ utf8Name) :
    findEncoding lookup prescan (0xff :: 0xfe :: rest) = some e.dec := by
  simp [findEncoding, boms, bomScan, List.isPrefixOf, hle, dropUtf8, hname]

/-! ### non-vacuity: a concrete sniffer and concrete runs -/

/-- `htmlcharset.Lookup` restricted to the BOM table's labels. -/
def demoLookup (label : Bytes) : Option (Enc Bytes) :=
  if label = [117, 116, 102, 45, 49, 54, 98, 101] then some ⟨label, utf16 true⟩
  else if label = [117, 116, 102, 45, 49, 54, 108, 101] then some ⟨label, utf16 false⟩
  else if label = utf8Name then some ⟨label, latin1⟩
  else none

/-- BOM sniffing only (no HTML prescan). -/
def demoFind : Bytes → Option (Decoder Bytes) := findEncoding demoLookup (fun _ => none)

theorem demoFind_cases (c : Bytes) :
    demoFind c = none ∨ demoFind c = some (utf16 true) ∨ demoFind c = some (utf16 false) := by
  have l1 : demoLookup [117, 116, 102, 45, 49, 54, 98, 101] = some ⟨[117, 116, 102, 45, 49, 54, 98, 101], utf16 true⟩ := rfl
  have l2 : demoLookup [117, 116, 102, 45, 49, 54, 108, 101] = some ⟨[117, 116, 102, 45, 49, 54, 108, 101], utf16 false⟩ := rfl
  have l3 : demoLookup [117, 116, 102, 45, 56] = some ⟨[117, 116, 102, 45, 56], latin1⟩ := rfl
  have d1 : dropUtf8 (⟨[117, 116, 102, 45, 49, 54, 98, 101], utf16 true⟩ : Enc Bytes) = some (utf16 true) := rfl
  have d2 : dropUtf8 (⟨[117, 116, 102, 45, 49, 54, 108, 101], utf16 false⟩ : Enc Bytes) = some (utf16 false) := rfl
  have d3 : dropUtf8 (⟨[117, 116, 102, 45, 56], latin1⟩ : Enc Bytes) = none := rfl
  unfold demoFind findEncoding
  by_cases hc : c = []
  · simp [hc]
  · simp only [hc, if_false, boms, bomScan, l1, l2, l3, d1, d2, d3]
    by_cases h1 : ([254, 255] : Bytes).isPrefixOf c = true
    · simp [h1]
    · by_cases h2 : ([255, 254] : Bytes).isPrefixOf c = true
      · simp [h1, h2]
      · by_cases h3 : ([239, 187, 191] : Bytes).isPrefixOf c = true
        · simp [h1, h2, h3]
        · simp [h1, h2, h3]

theorem demoFind_lawful : ∀ c d, demoFind c = some d → d.Lawful := by
  intro c d h
  rcases demoFind_cases c with h0 | h0 | h0
  · rw [h0] at h; simp at h
  · rw [h0] at h; simp at h; subst h; exact utf16_lawful _
  · rw [h0] at h; simp at h; subst h; exact utf16_lawful _

/-- "h" in UTF-16LE with BOM, arriving as 3 + 1 bytes (the unit `68 00` is cut in two). -/
def demoSrc : Src := ⟨[[0xff, 0xfe, 0x68], [0x00]], .eof, false⟩

-- read with a 3-byte then 8-byte buffers: EOF is reached and the output is the complete
-- transcoding: U+FEFF 'h' — the split inside the character is harmless
example : (autoReads demoFind demoSrc [3, 8, 8, 8]).term = some .eof := by decide
example : (autoReads demoFind demoSrc [3, 8, 8, 8]).out = [0xef, 0xbb, 0xbf, 0x68] := by decide
example : (utf16 false).decodeAll demoSrc.body = [0xef, 0xbb, 0xbf, 0x68] := by decide
-- a 1-byte first buffer shows only `ff` to the sniffer: the BOM is not noticed, the body is raw
example : (autoReads demoFind demoSrc [1, 8, 8, 8, 8]).out = demoSrc.body := by decide
example : (autoReads demoFind demoSrc [1, 8, 8, 8, 8]).term = some .eof := by decide
example : sniffed demoSrc [1, 8, 8] = some [0xff] := by decide
-- byte-at-a-time caller
example : (autoReads demoFind demoSrc [3, 1, 1, 1, 1, 1, 1, 1]).out = [0xef, 0xbb, 0xbf, 0x68] := by decide

/-! ### the pinned tree's `peekRead` violates all of this (replayed by the lane `read`) -/

/-- A caller reading with buffers `bufs` (contents included) from the pinned tree's reader. -/
def legacyReads (find : Bytes → Option (Decoder σ)) (src : Src) (bufs : List Bytes) : RR (State σ) :=
  reads (Legacy.autoRead find) (State.init src) bufs

def dirty (n : Nat) : Bytes := List.replicate n 0xAA

/-- **legacy_pads**: `n = len(p)`: a 4-byte UTF-16LE body read into an 8-byte buffer comes
back as 8 bytes — the 4 decoded bytes followed by what the buffer held before. Neither the
original nor the transcoding; bytes added. -/
theorem legacy_pads :
    let src : Src := ⟨[[0xff, 0xfe, 0x68, 0x00]], .eof, false⟩
    let r := legacyReads demoFind src [dirty 8, dirty 8]
    r.term = some .eof ∧ r.out ≠ src.body ∧ r.out ≠ (utf16 false).decodeAll src.body ∧
    r.out = [0xef, 0xbb, 0xbf, 0x68, 0xAA, 0xAA, 0xAA, 0xAA] := by decide

/-- **legacy_splits_character**: the first chunk is decoded on its own: the body of `demoSrc`
(unit `68 00` split by the first read) becomes U+FEFF U+FFFD U+FFFD instead of U+FEFF 'h'. -/
theorem legacy_splits_character :
    let r := legacyReads demoFind demoSrc [dirty 3, dirty 8, dirty 8]
    r.term = some .eof ∧ r.out ≠ demoSrc.body ∧ r.out ≠ (utf16 false).decodeAll demoSrc.body := by decide

/-- **legacy_sniffs_stale_buffer**: `FindEncoding(p)` instead of `p[:n]`: the 1-byte body `ff`
read into a 2-byte buffer whose second byte still holds `fe` is taken for UTF-16LE and comes
back as U+FFFD — the body never contained a BOM. -/
theorem legacy_sniffs_stale_buffer :
    let src : Src := ⟨[[0xff]], .eof, false⟩
    let r := legacyReads demoFind src [[0xFE, 0xFE], dirty 8]
    r.term = some .eof ∧ r.out = [0xef, 0xbf, 0xbd] ∧ r.out ≠ src.body ∧ sniffed src [2, 8] = some [0xff] ∧
    demoFind [0xff] = none := by decide

-- the patched model on the same three inputs
example : (autoReads demoFind ⟨[[0xff, 0xfe, 0x68, 0x00]], .eof, false⟩ [8, 8]).out = [0xef, 0xbb, 0xbf, 0x68] := by decide
example : (autoReads demoFind ⟨[[0xff]], .eof, false⟩ [2, 8]).out = [0xff] := by decide

end Req.Props.C15
