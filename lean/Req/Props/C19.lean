/-! C19 — property theorems (none yet). -/
